/-
  What handlers return and what callers receive: `Content`, `ResourceContents`, `CallToolResult`, `PromptMessage`,
  `GetPromptResult`, `ReadResourceResult`, tool descriptors.

  * `encodeX : X → Json`  — what `json.Marshal` makes of the Go struct (struct tags of mcp_types.go, mcp_tools.go,
    mcp_prompts.go, mcp_resources.go: key names, `omitempty`, nil slice ↦ `null`, field order).
  * `parseX : Json → Except Err X` — literal transcriptions of the hand-written client-side decoders
    (mcp_tools.go `parseCallToolResult`/`parseContent`/`parseResourceContents`, mcp_prompts.go
    `PromptMessage.UnmarshalJSON` under `encoding/json`'s struct decoding, utils_json.go
    `parseReadResourceResultFromJSON`/`parseListToolsResultFromJSON` with internal/utils/json.go), quirks included.

  The two halves are separate code in Go; `Props/C02.lean` proves where they agree and exhibits where they do not.
-/
import Mcp.Model.Json
namespace Mcp.Content
open Mcp.Str Mcp.Json

/-! ## values -/

/-- a `float64` written as a decimal `m · 10^(−e)` (only `Annotations.Priority` uses it) -/
structure Num where
  m : Int
  e : Nat

/-- the float is `0` (written `⟨0, 0⟩`; `⟨0, e+1⟩` stands for no float and is treated as a non-zero literal `0.00…`) -/
def Num.isZero (n : Num) : Bool := n.m == 0 && n.e == 0
def Num.toJson (n : Num) : Json := if n.e = 0 then .int n.m else .dec n.m n.e

/-- `Annotated.Annotations` (a pointer to `{Audience []Role; Priority float64}`, both `omitempty`) -/
structure Annotations where
  audience : List Text
  priority : Num

/-- `TextResourceContents` / `BlobResourceContents` -/
inductive ResourceContents where
  | text (uri mime text : Text)
  | blob (uri mime blob : Text)

/-- `TextContent` / `ImageContent` / `AudioContent` / `EmbeddedResource` as the constructors `NewTextContent`,
    `NewImageContent`, `NewAudioContent`, `NewEmbeddedResource` build them (they fix the `Type` field), with the optional
    `Annotations` pointer a struct literal may set. -/
inductive Content where
  | text (text : Text) (ann : Option Annotations)
  | image (data mime : Text) (ann : Option Annotations)
  | audio (data mime : Text) (ann : Option Annotations)
  | embedded (res : ResourceContents) (ann : Option Annotations)

/-- `CallToolResult`: `content = none` is the nil slice, `structured = none` the nil interface, `meta = []` the
    nil or empty map. -/
structure CallToolResult where
  metaMap : Obj
  content : Option (List Content)
  structured : Option Json
  isError : Bool

/-- `PromptMessage` (`content = none`: nil interface) -/
structure PromptMessage where
  role : Text
  content : Option Content

/-- `GetPromptResult` (`messages = none`: nil slice) -/
structure GetPromptResult where
  metaMap : Obj
  description : Text
  messages : Option (List PromptMessage)

/-- `ToolAnnotations` -/
structure ToolAnnotations where
  title : Text
  readOnly : Option Bool
  destructive : Option Bool
  idempotent : Option Bool
  openWorld : Option Bool

/-- `Tool` as it travels: the schemas are opaque JSON (kin-openapi's own (un)marshalling is outside the model). -/
structure ToolDesc where
  name : Text
  description : Text
  inputSchema : Option Json
  outputSchema : Option Json
  annotations : Option ToolAnnotations

/-! ## encoders (struct tags) -/

/-- a field with `omitempty` -/
def optField (present : Bool) (k : Text) (v : Json) : Obj := if present then [(k, v)] else []

def encodeAnnotations (a : Annotations) : Json :=
  .obj (optField (!a.audience.isEmpty) t!"audience" (.arr (a.audience.map .str))
    ++ optField (!a.priority.isZero) t!"priority" a.priority.toJson)

/-- `Annotated` is embedded: its `annotations,omitempty` field is promoted and comes after the struct's own fields. -/
def annField : Option Annotations → Obj
  | none => []
  | some a => [(t!"annotations", encodeAnnotations a)]

def encodeResourceContents : ResourceContents → Json
  | .text uri mime text =>
    .obj ([(t!"uri", .str uri)] ++ optField (!mime.isEmpty) t!"mimeType" (.str mime) ++ [(t!"text", .str text)])
  | .blob uri mime blob =>
    .obj ([(t!"uri", .str uri)] ++ optField (!mime.isEmpty) t!"mimeType" (.str mime) ++ [(t!"blob", .str blob)])

/-- `ContentTypeText` … `ContentTypeEmbeddedResource` of mcp_types.go -/
def tagText : Text := t!"text"
def tagImage : Text := t!"image"
def tagAudio : Text := t!"audio"
def tagEmbedded : Text := t!"resource"

def encodeContent : Content → Json
  | .text s a => .obj ([(t!"type", .str tagText), (t!"text", .str s)] ++ annField a)
  | .image d m a => .obj ([(t!"type", .str tagImage), (t!"data", .str d), (t!"mimeType", .str m)] ++ annField a)
  | .audio d m a => .obj ([(t!"type", .str tagAudio), (t!"data", .str d), (t!"mimeType", .str m)] ++ annField a)
  | .embedded r a => .obj ([(t!"resource", encodeResourceContents r), (t!"type", .str tagEmbedded)] ++ annField a)

/-- `Result.Meta map[string]interface{}` with `omitempty` -/
def metaField (m : Obj) : Obj := if m.isEmpty then [] else [(t!"_meta", .obj m)]

/-- a slice field without `omitempty`: nil ↦ `null` -/
def sliceJson {α} (enc : α → Json) : Option (List α) → Json
  | none => .null
  | some xs => .arr (xs.map enc)

def structuredField : Option Json → Obj
  | none => []
  | some v => [(t!"structuredContent", v)]

def encodeResult (r : CallToolResult) : Json :=
  .obj (metaField r.metaMap ++ [(t!"content", sliceJson encodeContent r.content)] ++ structuredField r.structured
    ++ optField r.isError t!"isError" (.bool true))

def encodeContentOpt : Option Content → Json
  | none => .null
  | some c => encodeContent c

def encodePromptMessage (m : PromptMessage) : Json :=
  .obj [(t!"role", .str m.role), (t!"content", encodeContentOpt m.content)]

def encodeGetPrompt (r : GetPromptResult) : Json :=
  .obj (metaField r.metaMap ++ optField (!r.description.isEmpty) t!"description" (.str r.description)
    ++ [(t!"messages", sliceJson encodePromptMessage r.messages)])

/-- `ReadResourceResult` as `handleReadResource` builds it (no `_meta`) -/
def encodeReadResource (cs : Option (List ResourceContents)) : Json :=
  .obj [(t!"contents", sliceJson encodeResourceContents cs)]

def optBoolField (k : Text) : Option Bool → Obj
  | none => []
  | some b => [(k, .bool b)]

def encodeToolAnnotations (a : ToolAnnotations) : Json :=
  .obj (optField (!a.title.isEmpty) t!"title" (.str a.title) ++ optBoolField t!"readOnlyHint" a.readOnly
    ++ optBoolField t!"destructiveHint" a.destructive ++ optBoolField t!"idempotentHint" a.idempotent
    ++ optBoolField t!"openWorldHint" a.openWorld)

def encodeTool (t : ToolDesc) : Json :=
  .obj ([(t!"name", .str t.name)] ++ optField (!t.description.isEmpty) t!"description" (.str t.description)
    ++ [(t!"inputSchema", t.inputSchema.getD .null)]
    ++ (match t.outputSchema with | none => [] | some s => [(t!"outputSchema", s)])
    ++ (match t.annotations with | none => [] | some a => [(t!"annotations", encodeToolAnnotations a)]))

/-- `ListToolsResult` as `handleListTools` builds it (`Tools` is never nil there, no cursor) -/
def encodeListTools (ts : List ToolDesc) : Json := .obj [(t!"tools", .arr (ts.map encodeTool))]

/-! ## decoders -/

inductive Err where
  /-- `json.Unmarshal` of the whole message into a map failed ("failed to unmarshal response: …") -/
  | notObject
  | contentMissing
  | contentNotArray
  | contentNotObject
  | unsupportedType (t : Text)
  | textMissing
  | imageMissing
  | audioMissing
  | resourceMissing
  | uriMissing
  | unsupportedResource
  /-- `encoding/json` type mismatch on a field of `GetPromptResult` -/
  | jsonType
  /-- "failed to unmarshal prompt message structure" -/
  | promptStructure
  /-- "failed to unmarshal content field" -/
  | promptContentField
  /-- "failed to parse concrete content using parseContent: …" -/
  | promptContent (inner : Err)

/-- the Go error text of the hand-written decoders -/
def Err.msg : Err → Text
  | .notObject => t!"failed to unmarshal response"
  | .contentMissing => t!"content is missing"
  | .contentNotArray => t!"content is not an array"
  | .contentNotObject => t!"content is not an object"
  | .unsupportedType t => t!"unsupported content type: " ++ t
  | .textMissing => t!"text is missing"
  | .imageMissing => t!"image data or mimeType is missing"
  | .audioMissing => t!"audio data or mimeType is missing"
  | .resourceMissing => t!"resource is missing"
  | .uriMissing => t!"resource uri is missing"
  | .unsupportedResource => t!"unsupported resource type"
  | .jsonType => t!"json"
  | .promptStructure => t!"failed to unmarshal prompt message structure"
  | .promptContentField => t!"failed to unmarshal content field"
  | .promptContent e => t!"failed to parse concrete content using parseContent: " ++ e.msg

/-- mcp_tools.go `parseResourceContents` (used for embedded resources): `uri` must be a string, then `text` if it is a
    string (empty included), else `blob` if it is a string -/
def parseResourceContents (m : Obj) : Except Err ResourceContents :=
  match lookupStr? m t!"uri" with
  | none => .error .uriMissing
  | some uri =>
    let mime := extractString m t!"mimeType"
    match lookupStr? m t!"text" with
    | some text => .ok (.text uri mime text)
    | none =>
      match lookupStr? m t!"blob" with
      | some blob => .ok (.blob uri mime blob)
      | none => .error .unsupportedResource

/-- `[]Role` under `encoding/json`: strings, `null` leaves the zero value, anything else is a type error -/
def parseAudience : List Json → Option (List Text)
  | [] => some []
  | .str s :: rest => (parseAudience rest).map (s :: ·)
  | .null :: rest => (parseAudience rest).map ([] :: ·)
  | _ :: _ => none

/-- the annotations object under `encoding/json` (`none`: a type error somewhere — `parseAnnotated` then drops it all) -/
def parseAnnotations (m : Obj) : Option Annotations :=
  let aud : Option (List Text) := match lookup m t!"audience" with
    | none => some []
    | some .null => some []
    | some (.arr xs) => parseAudience xs
    | some _ => none
  let pri : Option Num := match lookup m t!"priority" with
    | none => some ⟨0, 0⟩
    | some .null => some ⟨0, 0⟩
    | some (.int i) => some ⟨i, 0⟩
    | some (.dec mm e) => some ⟨mm, e⟩
    | some _ => none
  match aud, pri with
  | some a, some p => some ⟨a, p⟩
  | _, _ => none

/-- mcp_tools.go `parseAnnotated`: the optional `annotations` object of a content item -/
def parseAnnotated (m : Obj) : Option Annotations :=
  match extractMap m t!"annotations" with
  | none => none
  | some am => parseAnnotations am

/-- mcp_tools.go `parseContent` with `parseTextContent`, `parseImageContent`, `parseAudioContent`,
    `parseResourceContent`: required fields must be present strings (empty allowed); embedded resources are taken under
    both tags, `"resource"` (MCP schema, what `NewEmbeddedResource` writes) and the legacy `"embedded_resource"`. -/
def parseContent (m : Obj) : Except Err Content :=
  let ty := extractString m t!"type"
  if ty = t!"text" then
    match lookupStr? m t!"text" with
    | none => .error .textMissing
    | some text => .ok (.text text (parseAnnotated m))
  else if ty = t!"image" then
    match lookupStr? m t!"data", lookupStr? m t!"mimeType" with
    | some data, some mime => .ok (.image data mime (parseAnnotated m))
    | _, _ => .error .imageMissing
  else if ty = t!"audio" then
    match lookupStr? m t!"data", lookupStr? m t!"mimeType" with
    | some data, some mime => .ok (.audio data mime (parseAnnotated m))
    | _, _ => .error .audioMissing
  else if ty = tagEmbedded ∨ ty = t!"embedded_resource" then
    match extractMap m t!"resource" with
    | none => .error .resourceMissing
    | some rm =>
      match parseResourceContents rm with
      | .error e => .error e
      | .ok rc => .ok (.embedded rc (parseAnnotated m))
  else .error (.unsupportedType ty)

/-- the loop of `parseCallToolResult` over the `content` array (first failure wins, in order) -/
def parseContents : List Json → Except Err (List Content)
  | [] => .ok []
  | .obj m :: rest =>
    match parseContent m with
    | .error e => .error e
    | .ok c =>
      match parseContents rest with
      | .error e => .error e
      | .ok cs => .ok (c :: cs)
  | _ :: _ => .error .contentNotObject

/-- a Go slice built by `append` from nil: empty stays nil -/
def sliceOf {α} : List α → Option (List α)
  | [] => none
  | xs => some xs

/-- `v, ok := m[k]; if ok { x = v }` with `x interface{}`: a JSON `null` is the nil interface, like an absent key -/
def nullAsNil : Option Json → Option Json
  | some .null => none
  | o => o

/-- mcp_tools.go `parseCallToolResult` -/
def parseResult (j : Json) : Except Err CallToolResult :=
  match asMapTarget j with
  | .typeError => .error .notObject
  | .nilMap => .error .contentMissing
  | .map m =>
    let metaMap := (extractMap m t!"_meta").getD []
    let isError := match lookup m t!"isError" with
      | some (.bool b) => b
      | _ => false
    let structured := nullAsNil (lookup m t!"structuredContent")
    match lookup m t!"content" with
    | none => .error .contentMissing
    | some .null => .ok ⟨metaMap, none, structured, isError⟩
    | some (.arr items) =>
      match parseContents items with
      | .error e => .error e
      | .ok cs => .ok ⟨metaMap, sliceOf cs, structured, isError⟩
    | some _ => .error .contentNotArray

/-- mcp_prompts.go `PromptMessage.UnmarshalJSON` on one array element -/
def parsePromptMessage : Json → Except Err PromptMessage
  | .obj m =>
    let role : Option Text := match lookup m t!"role" with
      | none => some []
      | some .null => some []
      | some (.str s) => some s
      | some _ => none
    match role with
    | none => .error .promptStructure
    | some role =>
      match lookup m t!"content" with
      | none => .ok ⟨role, none⟩
      | some .null => .ok ⟨role, none⟩
      | some (.obj cm) =>
        match parseContent cm with
        | .error e => .error (.promptContent e)
        | .ok c => .ok ⟨role, some c⟩
      | some _ => .error .promptContentField
  | _ => .error .promptStructure

def parsePromptMessages : List Json → Except Err (List PromptMessage)
  | [] => .ok []
  | j :: rest =>
    match parsePromptMessage j with
    | .error e => .error e
    | .ok m =>
      match parsePromptMessages rest with
      | .error e => .error e
      | .ok ms => .ok (m :: ms)

/-- utils_json.go `parseGetPromptResultFromJSON` = `json.Unmarshal` into `GetPromptResult`.
    `encoding/json` records a type mismatch on a field and goes on (reported at the end), whereas an error returned by an
    element's `UnmarshalJSON` aborts at once and is the one reported — so the outcome does not depend on the key order. -/
def parseGetPrompt : Json → Except Err GetPromptResult
  | .null => .ok ⟨[], [], none⟩
  | .obj m =>
    let metaR : Except Err Obj := match lookup m t!"_meta" with
      | none => .ok []
      | some .null => .ok []
      | some (.obj o) => .ok o
      | some _ => .error .jsonType
    let descR : Except Err Text := match lookup m t!"description" with
      | none => .ok []
      | some .null => .ok []
      | some (.str s) => .ok s
      | some _ => .error .jsonType
    let msgsR : Except Err (Option (List PromptMessage)) := match lookup m t!"messages" with
      | none => .ok none
      | some .null => .ok none
      | some (.arr items) =>
        match parsePromptMessages items with
        | .error e => .error e
        | .ok ms => .ok (some ms)
      | some _ => .error .jsonType
    match msgsR with
    | .error e => .error e
    | .ok msgs =>
      match metaR, descR with
      | .ok mm, .ok desc => .ok ⟨mm, desc, msgs⟩
      | _, _ => .error .jsonType
  | _ => .error .jsonType

/-- internal/utils/json.go `ParseResourceContent` (the lenient one, used by `parseReadResourceResultFromJSON`) -/
def parseResourceItem (m : Obj) : ResourceContents :=
  let uri := extractString m t!"uri"
  let mime := extractString m t!"mimeType"
  match lookupStr? m t!"text" with
  | some text => .text uri mime text
  | none =>
    match lookupStr? m t!"blob" with
    | some blob => .blob uri mime blob
    | none => .text uri mime []

/-- items that are not objects are skipped silently -/
def parseResourceItems : List Json → List ResourceContents
  | [] => []
  | .obj m :: rest => parseResourceItem m :: parseResourceItems rest
  | _ :: rest => parseResourceItems rest

/-- utils_json.go `parseReadResourceResultFromJSON` -/
def parseReadResource (j : Json) : Except Err (Option (List ResourceContents)) :=
  match asMapTarget j with
  | .typeError => .error .notObject
  | .nilMap => .ok none
  | .map m =>
    match extractArray m t!"contents" with
    | none => .ok none
    | some items => .ok (sliceOf (parseResourceItems items))

/-- one optional `*bool` / string field of `ToolAnnotations` under `encoding/json`: absent or `null` leaves the zero value,
    the right type is taken, anything else is a type error (the caller then drops the whole annotations object) -/
def hintField (m : Obj) (k : Text) : Option (Option Bool) :=
  match lookup m k with
  | none => some none
  | some .null => some none
  | some (.bool b) => some (some b)
  | some _ => none

def parseToolAnnotations (m : Obj) : Option ToolAnnotations :=
  let title : Option Text := match lookup m t!"title" with
    | none => some []
    | some .null => some []
    | some (.str s) => some s
    | some _ => none
  match title, hintField m t!"readOnlyHint", hintField m t!"destructiveHint", hintField m t!"idempotentHint",
      hintField m t!"openWorldHint" with
  | some t, some r, some d, some i, some o => some ⟨t, r, d, i, o⟩
  | _, _, _, _, _ => none

/-- internal/utils/json.go `ParseToolItem` + the body of the loop in `parseListToolsResultFromJSON`.
    `schemaBad s`: kin-openapi rejects the schema object `s` (also after `handleSchemaNumberBoolFields`) — then the tool is
    **skipped silently**. `none` = skipped. -/
def parseTool (schemaBad : Json → Bool) (m : Obj) : Option ToolDesc :=
  let name := extractString m t!"name"
  if name = [] then none else
  let desc := extractString m t!"description"
  let inS := (extractMap m t!"inputSchema").map Json.obj
  let outS := (extractMap m t!"outputSchema").map Json.obj
  let ann := match extractMap m t!"annotations" with
    | none => none
    | some am => parseToolAnnotations am
  if (match inS with | some s => schemaBad s | none => false) then none
  else if (match outS with | some s => schemaBad s | none => false) then none
  else some ⟨name, desc, inS, outS, ann⟩

def parseTools (schemaBad : Json → Bool) : List Json → List ToolDesc
  | [] => []
  | .obj m :: rest =>
    match parseTool schemaBad m with
    | some t => t :: parseTools schemaBad rest
    | none => parseTools schemaBad rest
  | _ :: rest => parseTools schemaBad rest

/-- utils_json.go `parseListToolsResultFromJSON`: (tools, nextCursor) -/
def parseListTools (schemaBad : Json → Bool) (j : Json) : Except Err (List ToolDesc × Text) :=
  match asMapTarget j with
  | .typeError => .error .notObject
  | .nilMap => .ok ([], [])
  | .map m => .ok (parseTools schemaBad ((extractArray m t!"tools").getD []), extractString m t!"nextCursor")

/-! ## a handler's Go error -/

/-- which request: decides the server-side wrapping and the client-side prefix -/
inductive Path where
  | tool (name : Text)
  | prompt
  | resource

/-- the JSON-RPC error message the manager builds (`ErrCodeInternal`): manager_tools.go `handleCallTool` wraps,
    manager_prompt.go `handleGetPrompt` and manager_resource.go `handleReadResource` pass `err.Error()` on -/
def serverErrorMessage : Path → Text → Text
  | .tool name, msg => t!"tool execution failed (tool: " ++ name ++ t!"): " ++ msg
  | .prompt, msg => msg
  | .resource, msg => msg

def clientPrefix : Path → Text
  | .tool _ => t!"tool call error: "
  | .prompt => t!"get prompt error: "
  | .resource => t!"read resource error: "

/-- client.go `CallTool` / `GetPrompt` / `ReadResource`: `fmt.Errorf("… error: %s (code: %d)", message, code)` -/
def clientErrorText (p : Path) (msg : Text) : Text :=
  clientPrefix p ++ serverErrorMessage p msg ++ t!" (code: " ++ intText (-32603) ++ t!")"

/-! ## routing a received message: the response envelope

A handler may return any JSON (structured content, `_meta`) and any text - also JSON-RPC's own vocabulary (`"method"`,
`"id"`, `"result"`, `"error"`, ...). What the client does with a received message must depend on the *envelope* (the
top-level members) only. The two classifiers of the library, as they are written: -/

inductive MsgKind where
  | request | response | error | notification | invalid
  deriving DecidableEq, Repr

/-- sse_client.go `handleMessageEvent` (legacy SSE client): `json.Unmarshal` into a map, then `_, ok := message["id"]` /
    `message["method"]` - id and method: a server request, id only: a response (result or error), method only: a notification -/
def classifyLegacySSE : Json → MsgKind
  | .obj m =>
    match hasKey m t!"id", hasKey m t!"method" with
    | true, true => .request
    | true, false => .response
    | false, true => .notification
    | false, false => .invalid
  | _ => .invalid

/-- jsonrpc.go `parseJSONRPCMessageType` (Streamable client, stdio transports) -/
def classifyMessageType : Json → MsgKind
  | .obj m =>
    if lookupStr? m t!"jsonrpc" ≠ some t!"2.0" then .invalid
    else if hasKey m t!"id" then
      (if hasKey m t!"error" then .error else if hasKey m t!"result" then .response else .request)
    else if hasKey m t!"method" then .notification
    else .invalid
  | _ => .invalid

/-- jsonrpc.go `JSONRPCResponse` under `json.Marshal`: `{"jsonrpc":"2.0","id":…,"result":…}` -/
def responseEnvelope (id result : Json) : Json :=
  .obj [(t!"jsonrpc", .str t!"2.0"), (t!"id", id), (t!"result", result)]

/-! A classifier that looks for member names *anywhere* in the message (what probing the raw text for `"id":` and
`"method":` amounts to on compact JSON) - not the library's code, the foil the theorems are stated against. -/
mutual
def mentionsKey (key : Text) : Json → Bool
  | .obj kvs => mentionsKeyFields key kvs
  | .arr xs => mentionsKeyList key xs
  | _ => false
def mentionsKeyList (key : Text) : List Json → Bool
  | [] => false
  | x :: rest => mentionsKey key x || mentionsKeyList key rest
def mentionsKeyFields (key : Text) : List (Text × Json) → Bool
  | [] => false
  | (k, v) :: rest => k == key || mentionsKey key v || mentionsKeyFields key rest
end

def classifyAnyDepth (j : Json) : MsgKind :=
  match mentionsKey t!"id" j, mentionsKey t!"method" j with
  | true, true => .request
  | true, false => .response
  | false, true => .notification
  | false, false => .invalid

/-! ## the registries behind tools/list, prompts/list, resources/list, resources/templates/list

manager_tools.go / manager_prompt.go / manager_resource.go keep, per kind, a map from the key (tool name, prompt name,
resource URI, template name) to the registered descriptor + handler, and an order slice of the keys:

* `registerTool` / `registerPrompt` / `registerResource(s)`: a new key is appended to the order slice, an existing key keeps
  its position; the map entry is REPLACED either way (descriptor and handler).
* `registerTemplate`: an existing name is refused (`template %s already exists`; the public `RegisterResourceTemplate` drops
  the error): the FIRST registration stays.
* `unregisterTools` (tools only): the keys are deleted from the map and from the order slice.
* listing: `getResources` walks the order slice; `getTools` / `getPrompts` / `getTemplates` range over the map (Go map order:
  no order is defined - the harness compares these listings as sets, sorted by key).

The model is the ordered association list (`α` = descriptor + handler). -/
namespace Registry

abbrev Reg (α : Type) := List (Text × α)

def find {α} : Reg α → Text → Option α
  | [], _ => none
  | (k, v) :: rest, key => if k = key then some v else find rest key

def names {α} (r : Reg α) : List Text := r.map (·.1)

/-- replace in place, or append -/
def register {α} : Reg α → Text → α → Reg α
  | [], n, d => [(n, d)]
  | (k, v) :: rest, n, d => if k = n then (k, d) :: rest else (k, v) :: register rest n d

/-- `registerTemplate`: an existing name is refused -/
def registerKeepFirst {α} (r : Reg α) (n : Text) (d : α) : Reg α :=
  if (find r n).isSome then r else r ++ [(n, d)]

def unregister {α} (r : Reg α) (ns : List Text) : Reg α := r.filter (fun p => !ns.contains p.1)

inductive Step (α : Type) where
  | reg (name : Text) (d : α)
  | unreg (names : List Text)

def step {α} (keepFirst : Bool) (r : Reg α) : Step α → Reg α
  | .reg n d => if keepFirst then registerKeepFirst r n d else register r n d
  | .unreg ns => unregister r ns

/-- the registry after a history of registrations / unregistrations (from the empty registry) -/
def run {α} (keepFirst : Bool) (h : List (Step α)) : Reg α := h.foldl (step keepFirst) []

/-! the specification, written without any list of entries: what is *currently registered* under a key after a history -/
def specStep {α} (keepFirst : Bool) (f : Text → Option α) : Step α → Text → Option α
  | .reg n d => fun k => if k = n then (if keepFirst && (f n).isSome then f n else some d) else f k
  | .unreg ns => fun k => if ns.contains k then none else f k

def current {α} (keepFirst : Bool) (h : List (Step α)) : Text → Option α :=
  h.foldl (specStep keepFirst) (fun _ => none)

end Registry

end Mcp.Content
