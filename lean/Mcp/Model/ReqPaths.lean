/-
  C19 — request-building paths of the two HTTP clients (`streamable_client.go`, `sse_client.go`).

  One `ReqPath` record per Go function that builds an `http.Request` (regenerated from the source by
  `/verif/extract/reqpaths.go` into `Mcp.Gen.ReqPaths.paths`).  `missing` lists the customisation aspects a
  path does not honour, `compliant` = nothing missing.  `requestOf` / `attempt` / `trace` are the behavioural
  model: what a recording server, request handler and before-request function observe for the requests a
  call history emits, as a function of the extracted facts and the client configuration.  The harness
  (`harness/cmd/reqpaths`) runs the real clients and diffs against exactly these definitions.
-/
import Mcp.Model.Str
namespace Mcp.ReqPaths
open Mcp.Str

/-- Which client the function belongs to (`other` = a request builder in an unexpected file). -/
inductive Client | sse | streamable | other
  deriving DecidableEq, Repr

inductive Verb | get | post | delete | unknown
  deriving DecidableEq, Repr

/-- Where the request URL comes from.
  * `serverOverride`: `t.serverURL.String()` followed by `if len(t.path) != 0 { req.URL.Path = t.path }`
  * `serverPlain`: `t.serverURL.String()` without the override
  * `endpoint`: `t.endpoint.String()` — legacy SSE: the message endpoint (with its session id) the server announced
  * `baseOverride`: `t.baseURL.String()` and `NewSSEClient` writes the custom path into that URL
  * `basePlain`: `t.baseURL.String()`, constructor override not recognised -/
inductive Url | serverOverride | serverPlain | endpoint | baseOverride | basePlain | unknown
  deriving DecidableEq, Repr

/-- Which context the before-request function is handed.
  * `caller`: the function's own `ctx` parameter, the function being called synchronously by the operation
  * `handshake`: a context derived (values kept, cancellation detached) from the handshake operation's context
  * `background`: derived from `context.Background()` -/
inductive CtxSrc | caller | handshake | background | none | unknown
  deriving DecidableEq, Repr

/-- How the request is sent: through `t.httpReqHandler.Handle`, the same with a `nil` guard falling back to
    `t.httpClient.Do`, or by a bare `Do`. -/
inductive Via | handler | handlerNilFallback | bare | unknown
  deriving DecidableEq, Repr

structure ReqPath where
  client : Client
  fn : Text
  verb : Verb
  url : Url
  /-- `for k, vs := range t.httpHeaders { for _, v := range vs { req.Header.Add(k, v) } }` present, unconditionally, before the send -/
  headersLoop : Bool
  /-- `req.Header.Set(httputil.SessionIDHeader, t.sessionID)` present (unconditional or guarded by `t.sessionID != ""`) -/
  sessionHeader : Bool
  /-- number of `applyHTTPBeforeRequest` call sites on the request (a call site inside a loop counts 2) -/
  beforeCalls : Nat
  beforeCtx : CtxSrc
  /-- the call has the form `if err := …applyHTTPBeforeRequest(…); err != nil { return …err… }` -/
  beforeErrReturns : Bool
  /-- the call lies between the request's construction and its sending, guarded by nothing but `t.client != nil` -/
  beforeOrdered : Bool
  via : Via
  /-- the `*http.Client` handed to the handler / used for `Do` is the configured `t.httpClient` -/
  usesClient : Bool
  deriving DecidableEq, Repr

/-- The kinds of HTTP request a client emits. -/
inductive Kind | request | notification | answer | stream | delete | connect
  deriving DecidableEq, Repr

structure Expected where
  client : Client
  fn : Text
  kind : Kind
  deriving DecidableEq, Repr

/-- The request builders the two clients are known to have (sorted by client, then function name — the
    order the extractor emits). -/
def expected : List Expected :=
  [ ⟨.sse, t!"sendNotification", .notification⟩,
    ⟨.sse, t!"sendRequestInternal", .request⟩,
    ⟨.sse, t!"sendResponseMessage", .answer⟩,
    ⟨.sse, t!"start", .connect⟩,
    ⟨.streamable, t!"connectGetSSE", .stream⟩,
    ⟨.streamable, t!"send", .request⟩,
    ⟨.streamable, t!"sendNotification", .notification⟩,
    ⟨.streamable, t!"sendResponseToServer", .answer⟩,
    ⟨.streamable, t!"terminateSession", .delete⟩ ]

def kindOf (p : ReqPath) : Option Kind :=
  (expected.find? (fun e => e.client == p.client && e.fn == p.fn)).map (·.kind)

def verbOf : Kind → Verb
  | .request | .notification | .answer => .post
  | .stream | .connect => .get
  | .delete => .delete

/-- Requests emitted by a background goroutine (no calling operation): the listening stream, answers to
    server-issued requests, and the legacy connect (started by, and outliving, the handshake). -/
def background : Kind → Bool
  | .answer | .stream | .connect => true
  | _ => false

/-- Requests whose failure has no caller to report to (emitted by the stream-reading goroutine). The legacy
    connect is background too, but it is started synchronously by the first operation, which reports its failure. -/
def silent : Kind → Bool
  | .answer | .stream => true
  | _ => false

def wantCtx (k : Kind) : CtxSrc := if background k then .handshake else .caller

/-- The context handed to the before-request function is the right one. The legacy connect is made synchronously by
    the operation that starts the transport (the handshake), so its own `ctx` parameter is as good as a context
    derived from it. -/
def ctxOk (k : Kind) (s : CtxSrc) : Bool :=
  s == wantCtx k || (k == .connect && s == .caller)

/-- The URL is the configured one for every configuration (custom path included). -/
def urlOk (k : Kind) (c : Client) (u : Url) : Bool :=
  match c, k with
  | .streamable, _ => u == .serverOverride
  | .sse, .connect => u == .baseOverride
  | .sse, _ => u == .endpoint
  | .other, _ => false

def viaOk : Via → Bool
  | .handler | .handlerNilFallback => true
  | _ => false

inductive Aspect
  | function | verb | path | staticHeaders | sessionId | handler | httpClient | beforeRequest | ctx | errorBlocks
  deriving DecidableEq, Repr

def missingFor (k : Kind) (p : ReqPath) : List Aspect :=
  (if p.verb == verbOf k then [] else [.verb]) ++
  (if urlOk k p.client p.url then [] else [.path]) ++
  (if p.headersLoop then [] else [.staticHeaders]) ++
  (if p.client == .streamable && !p.sessionHeader then [.sessionId] else []) ++
  (if viaOk p.via then [] else [.handler]) ++
  (if p.usesClient then [] else [.httpClient]) ++
  (if p.beforeCalls == 1 && p.beforeOrdered then [] else [.beforeRequest]) ++
  (if p.beforeCalls == 0 then [] else
    (if ctxOk k p.beforeCtx then [] else [.ctx]) ++ (if p.beforeErrReturns then [] else [.errorBlocks]))

/-- The customisation aspects this path does not honour (an unknown function honours none). -/
def missing (p : ReqPath) : List Aspect :=
  match kindOf p with
  | none => [.function]
  | some k => missingFor k p

def compliant (p : ReqPath) : Bool := (missing p).isEmpty

def deviations (ps : List ReqPath) : List (Text × Aspect) :=
  ps.flatMap (fun p => (missing p).map (fun a => (p.fn, a)))

/-! ## The table as it was extracted before the D31 repair (literal value, for the record)

  Up to /repo commit ca86715 three request builders ignored part of the customisation: `sendResponseToServer`
  (no path override, no before-request call, `context.Background()`), `terminateSession` (bare `t.httpClient.Do`, no
  before-request call) and the legacy `sendResponseMessage` (no before-request call, `context.Background()`).
  `Mcp.Props.C19` keeps the witness theorems about this value; they document the bad region of the family. -/

def okPath (c : Client) (fn : Text) (v : Verb) (u : Url) (s : Bool) (x : CtxSrc) (via : Via) : ReqPath :=
  { client := c, fn := fn, verb := v, url := u, headersLoop := true, sessionHeader := s, beforeCalls := 1, beforeCtx := x,
    beforeErrReturns := true, beforeOrdered := true, via := via, usesClient := true }

def noBefore (p : ReqPath) : ReqPath :=
  { p with beforeCalls := 0, beforeCtx := .none, beforeErrReturns := false, beforeOrdered := false }

def preFixPaths : List ReqPath :=
  [ okPath .sse t!"sendNotification" .post .endpoint false .caller .handler,
    okPath .sse t!"sendRequestInternal" .post .endpoint false .caller .handler,
    noBefore (okPath .sse t!"sendResponseMessage" .post .endpoint false .none .handler),
    okPath .sse t!"start" .get .baseOverride false .handshake .handler,
    okPath .streamable t!"connectGetSSE" .get .serverOverride true .handshake .handler,
    okPath .streamable t!"send" .post .serverOverride true .caller .handler,
    okPath .streamable t!"sendNotification" .post .serverOverride true .caller .handlerNilFallback,
    noBefore (okPath .streamable t!"sendResponseToServer" .post .serverPlain true .none .handler),
    noBefore (okPath .streamable t!"terminateSession" .delete .serverOverride true .none .bare) ]

/-! ## Behavioural model: what is observed for one emitted request -/

/-- Client configuration: static headers / before-request function / custom request handler / custom path /
    custom `http.Client` configured or not. -/
structure Cfg where
  headers : Bool
  before : Bool
  handler : Bool
  path : Bool
  client : Bool
  deriving DecidableEq, Repr

/-- Which handler the request went through: the configured custom one, the one made by the (replaceable)
    default factory `NewHTTPReqHandler`, or none (`bare`). -/
inductive ViaObs | custom | factory | bare | unknown
  deriving DecidableEq, Repr

/-- The context value the before-request function saw: the calling operation's, the handshake's, none,
    some other operation's; `unseen` = the function was not called (or none is configured). -/
inductive CtxObs | caller | handshake | none | other | unseen
  deriving DecidableEq, Repr

structure Obs where
  fn : Text
  verb : Verb
  pathOk : Bool
  headersOk : Bool
  sessionOk : Bool
  via : ViaObs
  client : Bool
  before : Nat
  ctx : CtxObs
  deriving DecidableEq, Repr

def pathOkOf (cfg : Cfg) (k : Kind) (p : ReqPath) : Bool :=
  match p.client, k, p.url with
  | .streamable, _, .serverOverride => true
  | .streamable, _, .serverPlain => !cfg.path
  | .sse, .connect, .baseOverride => true
  | .sse, .connect, .basePlain => !cfg.path
  | .sse, .connect, _ => false
  | .sse, _, .endpoint => true
  | _, _, _ => false

def ctxObs (k : Kind) : CtxSrc → CtxObs
  | .caller => if k == .connect then .handshake else if background k then .other else .caller
  | .handshake => if background k then .handshake else .other
  | .background => .none
  | .none => .other
  | .unknown => .other

def viaObs (cfg : Cfg) : Via → ViaObs
  | .handler | .handlerNilFallback => if cfg.handler then .custom else .factory
  | .bare => .bare
  | .unknown => .unknown

/-- The session id travels with the request: Streamable — the `Mcp-Session-Id` header once an id was issued;
    legacy SSE — the query of the announced endpoint (nothing to carry on the connect itself). -/
def sessionOkOf (issued : Bool) (k : Kind) (p : ReqPath) : Bool :=
  match p.client with
  | .streamable => !issued || p.sessionHeader
  | .sse => k == .connect || p.url == .endpoint
  | .other => false

/-- The observation predicted for a request of kind `k` built by `p` under `cfg`; `issued` = a session id
    has been issued before the request is built. -/
def requestOf (cfg : Cfg) (issued : Bool) (k : Kind) (p : ReqPath) : Obs :=
  { fn := p.fn, verb := p.verb,
    pathOk := pathOkOf cfg k p,
    headersOk := !cfg.headers || p.headersLoop,
    sessionOk := sessionOkOf issued k p,
    via := viaObs cfg p.via,
    client := cfg.client && p.usesClient,
    before := if cfg.before then p.beforeCalls else 0,
    ctx := if !cfg.before || p.beforeCalls == 0 then .unseen else ctxObs k p.beforeCtx }

/-- What the property demands of one observed request. -/
def good (cfg : Cfg) (k : Kind) (o : Obs) : Bool :=
  o.verb == verbOf k && o.pathOk && o.headersOk && o.sessionOk &&
  o.via == (if cfg.handler then .custom else .factory) && o.client == cfg.client &&
  o.before == (if cfg.before then 1 else 0) &&
  o.ctx == (if cfg.before then (if background k then .handshake else .caller) else .unseen)

/-- One request attempt with a before-request function that returns an error. -/
structure Attempt where
  /-- times the before-request function ran for this request -/
  before : Nat
  /-- the request reached the wire -/
  sent : Bool
  /-- the calling operation failed with the function's error (`none`: request of the stream-reading goroutine, nobody to tell) -/
  failed : Option Bool
  deriving DecidableEq, Repr

def blocks (p : ReqPath) : Bool := decide (1 ≤ p.beforeCalls) && p.beforeOrdered && p.beforeErrReturns

def attempt (k : Kind) (p : ReqPath) : Attempt :=
  { before := if p.beforeCalls == 0 then 0 else if p.beforeErrReturns then 1 else p.beforeCalls,
    sent := !blocks p,
    failed := if silent k then none else some (blocks p) }

/-! ## Call histories -/

/-- Operations of a call history. `initFailSent`: an `Initialize` whose first request reaches the server and is
    answered with a failure (503, or 200 with a useless content type); `initFailRefused`: an `Initialize` whose first
    request the before-request function refuses. Both leave the client un-initialized, to be initialized again. -/
inductive Op | initialize | initFailSent | initFailRefused | tools | toolsRetry | notify | roots | rootsUnknown | terminate
  /-- Streamable: the server sends `roots/list` on the listening stream and ENDS the stream (closes it, or resets the
      connection) while the client's roots provider is still working; the answer is posted after the stream is gone. -/
  | rootsEnd
  /-- Streamable: a new listening stream is opened for the session (`establishGetSSE` with the caller's context),
      replacing — cancelling — the current one. -/
  | reopen
  /-- Streamable: the server sends `roots/list`; while the roots provider is still working the listening stream is
      replaced (as `reopen`); the answer is posted after the replacement. -/
  | rootsReplace
  /-- a `tools/list` the server answers with an error status (404 / 400 / 401 / 403 / 500 / 503, no retry configured):
      the operation fails; nothing about the session changes -/
  | toolsFail
  /-- a notification the server answers with an error status -/
  | notifyFail
  deriving DecidableEq, Repr

structure St where
  initialized : Bool := false
  issued : Bool := false
  /-- Streamable: an `initialize` answer without a session id (any failed answer included) switches the transport to
      "stateless, no listening stream" for good (`send`: `t.enableGetSSE = false`, never re-enabled). -/
  noStream : Bool := false
  /-- the context value the background requests inherit: that of the successful handshake — or of the operation that
      last (re)opened the listening stream (`sendResponseToServer` reads the CURRENT stream's context) -/
  hsVal : Option Nat := none
  /-- Streamable: the listening stream has ended (the server ended it, or a replacement could not be opened) and has
      not been reopened: the server has nothing to push a request on -/
  gone : Bool := false
  deriving DecidableEq, Repr

/-- The server has a listening stream to push a request on. -/
def live (c : Client) (st : St) : Bool := st.initialized && !(c == .streamable && (st.noStream || st.gone))

def pathFor (ps : List ReqPath) (c : Client) (k : Kind) : Option ReqPath :=
  match expected.find? (fun e => e.client == c && e.kind == k) with
  | none => none
  | some e => ps.find? (fun p => p.client == c && p.fn == e.fn)

/-- The first request of a handshake. -/
def firstKind : Client → Kind
  | .sse => .connect
  | _ => .request

def initOk (c : Client) (st : St) (v : Nat) : List (Kind × Bool) × St :=
  match c with
  | .streamable =>
    ((.request, st.issued) :: (.notification, true) :: (if st.noStream then [] else [(.stream, true)]),
     { st with initialized := true, issued := true, hsVal := some v })
  | .sse => ([(.connect, false), (.request, false), (.notification, false)],
     { st with initialized := true, issued := false, hsVal := some v })
  | .other => ([], st)

/-- The request kinds one operation emits (with the `issued` flag at the time each is built) and the next state;
    `v` is the context value the caller passes to the operation.
    `toolsRetry`: the server answers the first attempt with 503 and the client (retry configured) repeats it. -/
def emits (cfg : Cfg) (ps : List ReqPath) (c : Client) (st : St) (v : Nat) : Op → List (Kind × Bool) × St
  | .initialize => if st.initialized then ([], st) else initOk c st v
  | .initFailSent =>
    if st.initialized then ([], st) else
    match c with
    | .streamable => ([(.request, st.issued)], { st with noStream := true })
    | .sse => ([(.connect, false)], st)
    | .other => ([], st)
  | .initFailRefused =>
    if st.initialized then ([], st) else
    -- refused = nothing sent and the handshake fails, provided the first request's builder lets the function block it
    if cfg.before && ((pathFor ps c (firstKind c)).map blocks).getD false then ([], st) else initOk c st v
  | .tools | .toolsFail => if st.initialized then ([(.request, st.issued)], st) else ([], st)
  | .toolsRetry => if st.initialized then ([(.request, st.issued), (.request, st.issued)], st) else ([], st)
  | .notify =>
    -- `SendRootsListChangedNotification` refuses to run before a successful handshake (/repo 3f7fc11)
    match c with
    | .other => ([], st)
    | _ => if st.initialized then ([(.notification, st.issued)], st) else ([], st)
  | .notifyFail =>
    match c with
    | .other => ([], st)
    | _ => if st.initialized then ([(.notification, st.issued)], st) else ([], st)
  | .roots | .rootsUnknown =>
    -- answers need the stream the server's request arrives on
    if live c st then ([(.answer, st.issued)], st) else ([], st)
  | .rootsEnd =>
    -- the request was read from the stream before it ended: the answer is still built and posted — by the stream's
    -- reader, with the stream's context, which `establishGetSSE` never clears
    match c with
    | .streamable => if live c st then ([(.answer, st.issued)], { st with gone := true }) else ([], st)
    | _ => ([], st)
  | .reopen =>
    match c with
    | .streamable =>
      if st.initialized then
        -- `establishGetSSE` cancels the current stream and installs a context derived from the caller's; `connectGetSSE`
        -- sends nothing without a session id
        if st.issued then ([(.stream, true)], { st with gone := false, noStream := false, hsVal := some v })
        else ([], { st with gone := true, hsVal := some v })
      else ([], st)
    | _ => ([], st)
  | .rootsReplace =>
    match c with
    | .streamable =>
      if st.initialized then
        if st.issued then
          ((.stream, true) :: (if live c st then [(.answer, true)] else []),
           { st with gone := false, noStream := false, hsVal := some v })
        else ((if live c st then [(.answer, false)] else []), { st with gone := true, hsVal := some v })
      else ([], st)
    | _ => ([], st)
  | .terminate =>
    match c with
    | .streamable =>
      if st.issued then
        -- the session id is forgotten only when the DELETE reached the server's endpoint
        let ok := match pathFor ps c .delete with
          | some p => pathOkOf cfg .delete p
          | none => false
        ([(.delete, true)], { st with issued := !ok })
      else ([], st)
    | _ => ([], st)

/-- The context value the before-request function is predicted to see for a request of kind `k` observed as `o`,
    emitted by an operation called with value `v` that leaves the state `st'`: the caller's value; for the listening
    stream and the answers the value of the successful handshake; for the legacy connect the value of the operation
    that makes it; nothing when the function is not asked or is handed a background context. -/
def seenOf (st' : St) (v : Nat) (k : Kind) (o : Obs) : Option Nat :=
  match o.ctx with
  | .caller => some v
  | .handshake => if k == .connect then some v else st'.hsVal
  | _ => none

/-- Observations predicted for a whole call history of (operation, context value) pairs
    (`none` = a kind without a known builder). -/
def trace (cfg : Cfg) (ps : List ReqPath) (c : Client) : St → List (Op × Nat) → List (Option (Kind × Obs × Option Nat))
  | _, [] => []
  | st, (op, v) :: rest =>
    let (ks, st') := emits cfg ps c st v op
    ks.map (fun (k, issued) => (pathFor ps c k).map (fun p =>
      let o := requestOf cfg issued k p
      (k, o, seenOf st' v k o))) ++ trace cfg ps c st' rest

/-! ## Repeated options: what a client built from a LIST of options is configured with

  `client.go`: `NewClient` / `NewSSEClient` apply the options in order.
  * `WithHTTPHeaders(h)`: `for k, v := range h { c.transportConfig.httpHeaders[k] = v }` (a per-key merge: the last
    option that names a key wins, keys named by earlier options only stay) and appends the transport option
    `withTransportHTTPHeaders(h)`, which merges the same way into the Streamable transport's map when the transport
    is constructed. The legacy SSE transport takes `extractTransportConfig(options).httpHeaders` — it sees the
    `transportConfig` side only; the Streamable transport starts from `transportConfig.httpHeaders` and then replays
    the transport options over it.
  * `WithHTTPBeforeRequest`, `WithHTTPReqHandler`, `WithClientPath`: plain assignments — the last option wins.

  A header map is an association list, NEWEST binding first (`List.lookup` finds the value in force). -/

abbrev Hdr := List (Text × List Text)

/-- How the two sides of `WithHTTPHeaders` treat a further option (regenerated from the source). -/
structure OptFacts where
  /-- `c.transportConfig.httpHeaders` is merged into per key (not replaced) -/
  cfgMerges : Bool
  /-- the transport option `withTransportHTTPHeaders` merges per key into the transport's map -/
  optMerges : Bool
  deriving DecidableEq, Repr

/-- One more `WithHTTPHeaders(o)` applied to the map `m`: merge (the option's bindings shadow the older ones) or
    replace. -/
def applyHdr (merges : Bool) (m o : Hdr) : Hdr := if merges then o ++ m else o

/-- `c.transportConfig.httpHeaders` after all options (`opts` in the order given). -/
def cfgHeaders (F : OptFacts) (opts : List Hdr) : Hdr := opts.foldl (applyHdr F.cfgMerges) []

/-- The static headers the transport of client `c` ends up with. -/
def effHeaders (F : OptFacts) (c : Client) (opts : List Hdr) : Hdr :=
  match c with
  | .streamable => opts.foldl (applyHdr F.optMerges) (cfgHeaders F opts)
  | _ => cfgHeaders F opts

/-- The value every request must carry for key `k`: that of the LAST option naming `k`. -/
def wantHeader (opts : List Hdr) (k : Text) : Option (List Text) := (opts.reverse.findSome? (fun o => o.lookup k))

/-- The keys some option names, first mention first, without repetitions. -/
def hdrKeys (opts : List Hdr) : List Text := (opts.flatMap (fun o => o.map (·.1))).eraseDups

/-- The effective map in canonical form: one entry per key in force. -/
def canonHeaders (m : Hdr) : Hdr := (m.map (·.1)).eraseDups.filterMap (fun k => (m.lookup k).map (fun v => (k, v)))

/-- The last element: which of several assignments is in force. -/
def lastWins {α : Type} (l : List α) : Option α := l.getLast?

end Mcp.ReqPaths
