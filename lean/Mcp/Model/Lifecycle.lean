/-
  Handshake (C16).

  Server side — `manager_lifecycle.go`: `selectSupportedVersion`, `updateCapabilities` /
  `convertToServerCapabilities`, `buildInitializeResponse`, over the registries of
  `manager_prompt.go` / `manager_resource.go` (`registerPrompt`, `registerResource(s)`).

  Client side — `client.go` (`Client`, used by the streamable-HTTP and the legacy SSE transports),
  `stdio_client.go` (`StdioClient`) and the part of the three transports that decides whether a message
  is put on the wire (`streamable_client.go` send/sendNotification/terminateSession/close,
  `sse_client.go` start/sendRequestInternal/sendNotification/close, `transport_stdio.go`
  sendRequest/sendNotification/close).  One client, sequential calls; the environment (network, server
  answers) is an input of every `Initialize`.
-/
import Mcp.Model.Str
namespace Mcp.Lifecycle
open Mcp.Str

/-! ## server: version negotiation -/

/-- `selectSupportedVersion`: the loop over `supportedVersions`, falling back to `defaultProtocolVersion`. -/
def select : List Text → Text → Text → Text
  | [], dflt, _ => dflt
  | s :: rest, dflt, v => if s = v then v else select rest dflt v

/-- Lexicographic `≤` on code points (ISO dates `YYYY-MM-DD` order chronologically under it). -/
def lexLe : Text → Text → Bool
  | [], _ => true
  | _ :: _, [] => false
  | a :: s, b :: t => if a < b then true else if b < a then false else lexLe s t

/-! ## server: registries and advertised capabilities -/

/-- What `updateCapabilities` looks at: the prompt and the resource table (keys in registration order). -/
structure Registry where
  prompts : List Text := []
  resources : List Text := []
  deriving Repr, DecidableEq

inductive RegOp
  | tool (n : Text)        -- RegisterTool: not looked at by updateCapabilities
  | untool (n : Text)      -- UnregisterTools
  | prompt (n : Text)      -- RegisterPrompt
  | resource (uri : Text)  -- RegisterResource / RegisterResources
  | template (n : Text)    -- RegisterResourceTemplate: a separate table, not counted as a resource
  deriving Repr, DecidableEq

/-- `registerPrompt` / `registerResource`: an empty key is ignored, an existing key is overwritten. -/
def insertKey (l : List Text) (k : Text) : List Text :=
  if k = [] then l else if k ∈ l then l else l ++ [k]

def Registry.apply (r : Registry) : RegOp → Registry
  | .tool _ => r
  | .untool _ => r
  | .prompt n => { r with prompts := insertKey r.prompts n }
  | .resource u => { r with resources := insertKey r.resources u }
  | .template _ => r

/-- Which capability objects the initialize answer carries (each with `listChanged: true`). -/
structure Caps where
  tools : Bool
  prompts : Bool
  resources : Bool
  deriving Repr, DecidableEq

/-- `updateCapabilities` followed by `convertToServerCapabilities`. -/
def capabilities (r : Registry) : Caps :=
  { tools := true, prompts := decide (0 < r.prompts.length), resources := decide (0 < r.resources.length) }

structure SrvCfg where
  name : Text
  version : Text
  supported : List Text
  dflt : Text
  deriving Repr

structure InitOut where
  protocol : Text
  name : Text
  version : Text
  caps : Caps
  deriving Repr, DecidableEq

/-- `handleInitialize` for well-formed parameters (malformed ones are C03's business). -/
def answerInit (c : SrvCfg) (r : Registry) (v : Text) : InitOut :=
  { protocol := select c.supported c.dflt v, name := c.name, version := c.version, caps := capabilities r }

inductive SOp
  | reg (o : RegOp)
  | init (v : Text)
  deriving Repr, DecidableEq

def regOf : SOp → Option RegOp
  | .reg o => some o
  | .init _ => none

/-- The registry a history of server operations leaves behind. -/
def registryAfter (r : Registry) : List SOp → Registry
  | [] => r
  | .reg o :: ops => registryAfter (r.apply o) ops
  | .init _ :: ops => registryAfter r ops

/-- All initialize answers of a history, in order. -/
def serverRun (c : SrvCfg) (r : Registry) : List SOp → List InitOut
  | [] => []
  | .reg o :: ops => serverRun c (r.apply o) ops
  | .init v :: ops => answerInit c r v :: serverRun c r ops

/-! ### server: concurrent handshakes (one shared capability map per server)

`updateCapabilities` stores a map into the shared field `m.capabilities`; `buildInitializeResponse` of the same handshake
reads the field afterwards — but other handshakes run their `updateCapabilities` in between.  What a handshake reads is
therefore the *last store* performed by anybody since (and including) its own last store.  The stores one run of
`updateCapabilities` performs are determined by the function's shape, regenerated from the source. -/

/-- Shape of `updateCapabilities` / `buildInitializeResponse` (regenerated: `Mcp.Gen.updateCapabilitiesShape`). -/
structure UpdShape where
  /-- assignments `m.capabilities = …` in updateCapabilities -/
  assigns : Nat
  /-- in-place writes (`m.capabilities[k] = …`, `delete`) in updateCapabilities -/
  mutations : Nat
  /-- uses that let the map escape (alias, argument, address) in updateCapabilities -/
  escapes : Nat
  /-- `m.mu.Lock()` calls in updateCapabilities -/
  locks : Nat
  /-- every use of the field in updateCapabilities is a top-level statement of its single critical section, the store unconditional -/
  inCrit : Bool
  /-- buildInitializeResponse reads the field inside its (read-)locked section and writes nothing -/
  readLocked : Bool
  /-- uses of the map by any other code -/
  others : Nat
  deriving Repr, DecidableEq

/-- One store of the finished map, in the function's only critical section; the reader locks; nobody else is involved. -/
def UpdShape.ok (s : UpdShape) : Bool :=
  s.assigns == 1 && s.mutations == 0 && s.escapes == 0 && s.locks == 1 && s.inCrit && s.readLocked && s.others == 0

/-- The map before the registries have been consulted: tools only. -/
def baseCaps : Caps := { tools := true, prompts := false, resources := false }

/-- The values one run of `updateCapabilities` makes visible to other handshakes, in order, on a server whose registry
    is `r`: the last one is the finished map (that much every sequential run checks); every additional store, in-place
    write or escape makes an unfinished map visible first — taken as the worst case, the base map. -/
def storesOf (s : UpdShape) (r : Registry) : List Caps :=
  if s.ok then [capabilities r] else [baseCaps, capabilities r]

/-- What `buildInitializeResponse` reads: the last store since the handshake's own (finished) store `own`;
    `others` = the stores other handshakes performed in between, oldest first. -/
def readAfter (own : Caps) (others : List Caps) : Caps :=
  match others.getLast? with
  | none => own
  | some x => x

/-! ### server: list filters (what `updateCapabilities` looks at)

`WithPromptListFilter` / `WithResourceListFilter` narrow what `prompts/list` / `resources/list` return to a caller.  The
capabilities are a statement about the registries; whether the handshake sees the registries or a caller's filtered
view of them is decided by which accessors `updateCapabilities` calls — regenerated from the source. -/

/-- One method `updateCapabilities` calls on one of its manager fields (regenerated). -/
structure CapSource where
  field : Text
  method : Text
  /-- the method takes no parameter, mentions nothing named *filter*, calls only builtins and its own mutex -/
  plain : Bool
  deriving Repr, DecidableEq

/-- What `updateCapabilities` consults (regenerated: `Mcp.Gen.capabilitySources`). -/
structure CapSources where
  accessors : List CapSource
  /-- calls to anything but manager accessors, builtins and the manager's own mutex -/
  otherCalls : Nat
  params : Nat
  /-- a parameter (a context, say) is used inside -/
  usesParam : Bool
  deriving Repr, DecidableEq

/-- Exactly the two unfiltered registry readers, nothing else, nothing caller-dependent handed in. -/
def CapSources.ok (s : CapSources) : Bool :=
  s.accessors == [⟨t!"promptManager", t!"getPrompts", true⟩, ⟨t!"resourceManager", t!"getResources", true⟩] &&
  s.otherCalls == 0 && !s.usesParam

/-- The capabilities of an answer to a caller whose list filters turn the registry `r` into `view r`: computed from the
    registry itself with the good shape, from the caller's view otherwise (worst case). -/
def capabilitiesSeen (s : CapSources) (view : Registry → Registry) (r : Registry) : Caps :=
  if s.ok then capabilities r else capabilities (view r)

/-! ## client -/

inductive Kind | streamable | sse | stdio
  deriving Repr, DecidableEq

inductive CState | disconnected | connected | initialized
  deriving Repr, DecidableEq

/-- What the environment does during one `Initialize` call, by the stage at which the handshake breaks.
    Malformed answers fall into these stages as the code sorts them (measured per client kind by the harness, see
    `harness/cmd/lifecycle/malformed.go`): an answer with an `error` member of any type — also next to a `result` — and
    one with neither member or a non-object result end the handshake like `rpcErr` / `badResult`; `result: null`, `{}`,
    a result without / with an unsupported `protocolVersion` are accepted like `ok`. -/
inductive InitEnv
  | ok          -- every stage succeeds
  | netErr      -- stage 1: the network fails every attempt of this call
  | http500     -- stage 1: the initialize request is answered with HTTP 500
  | rpcErr      -- stage 2: the initialize request is answered with a JSON-RPC error
  | badResult   -- stage 3: the answer's result does not parse as an InitializeResult
  | dropNotif   -- stage 4: the `notifications/initialized` message cannot be delivered
  | noAnswer    -- stage 1: the request is delivered but no usable answer comes back before the caller's deadline (silence,
                -- an answer for another id, a notification instead, a line the transport cannot classify): nothing is
                -- learnt from the peer, no session id either
  deriving Repr, DecidableEq

/-- The request operations of the `Connector` interface. -/
inductive OpK | listTools | callTool | listPrompts | getPrompt | listResources | readResource
  deriving Repr, DecidableEq

inductive Op
  | init (e : InitEnv)
  | req (k : OpK) (fail : Bool)   -- `fail`: the server answers this request with a JSON-RPC error
  | rootsChanged                  -- SendRootsListChangedNotification
  | sendInitialized               -- Client.SendInitialized (exported on the HTTP client only)
  | terminate (fault : Bool)      -- Client.TerminateSession (HTTP client only); `fault`: the DELETE fails (server gone,
                                  -- connection reset, answered 500)
  | restart                       -- StdioClient.RestartProcess (stdio only)
  | close (fault : Bool)          -- Close; `fault`: the transport's close() reports an error (child already dead and
                                  -- reaped: its pipes are closed; a failed kill).  Only the stdio transport has such paths.
  deriving Repr, DecidableEq

/-- A message put on the wire (an HTTP round trip attempted / a line written to the child process). -/
inductive Msg
  | get            -- legacy SSE: the GET that opens the event stream
  | delete         -- streamable: the DELETE that terminates the session
  | initReq        -- the `initialize` request
  | initNotif      -- `notifications/initialized`
  | rootsChanged
  | req (k : OpK)
  deriving Repr, DecidableEq

inductive Res
  | ok
  | notInitialized       -- errors.ErrNotInitialized / "client not initialized"
  | alreadyInitialized   -- errors.ErrAlreadyInitialized / "client already initialized"
  | rpcError             -- the server's JSON-RPC error, passed on
  | failed               -- any other error
  | na                   -- the operation does not exist on this kind of client
  deriving Repr, DecidableEq

/-- Which operations carry the `if !c.initialized { return …ErrNotInitialized }` guard before any use of the
    transport.  Regenerated from the source (`Mcp.Gen.clientOps`), so the model follows the code. -/
structure Guards where
  req : OpK → Bool
  roots : Bool
  /-- `Close` resets the flag and the reported state on EVERY path that follows the transport's close(), in particular
      before the return that passes a transport error on (regenerated: `clientLifecycleFacts`). -/
  closeResets : Bool

def Guards.all : Guards := ⟨fun _ => true, true, true⟩

structure ClientSM where
  initialized : Bool := false
  state : CState := .disconnected
  /-- sse: event stream open and endpoint known (`started`); stdio: child process started (`process != nil`). -/
  started : Bool := false
  /-- sse / stdio: `closed` — these transports close for good. -/
  closed : Bool := false
  /-- streamable: a session id is remembered (`sessionID != ""`). -/
  session : Bool := false
  /-- messages put on the wire so far -/
  sends : Nat := 0
  deriving Repr, DecidableEq

abbrev Out := ClientSM × Res × List Msg

/-- Handing one *request* to the transport while the network works: `none` = refused without traffic. -/
def xmitRequest (k : Kind) (sm : ClientSM) (m : Msg) : Option (ClientSM × List Msg) :=
  match k with
  | .streamable => some (sm, [m])
  | .sse =>
    if sm.closed then none
    else if sm.started then some (sm, [m])
    else some ({ sm with started := true }, [.get, m])
  | .stdio =>
    if sm.closed then none else some ({ sm with started := true }, [m])

/-- Handing one *notification* to the transport (the legacy SSE transport does not auto-start for these). -/
def xmitNotification (k : Kind) (sm : ClientSM) (m : Msg) : Option (ClientSM × List Msg) :=
  match k with
  | .streamable => some (sm, [m])
  | .sse => if sm.started && !sm.closed then some (sm, [m]) else none
  | .stdio => if sm.closed then none else some ({ sm with started := true }, [m])

def failInit (sm : ClientSM) (log : List Msg) : Out :=
  ({ sm with state := .disconnected }, .failed, log)

def succeedInit (sm : ClientSM) (log : List Msg) : Out :=
  ({ sm with initialized := true, state := .initialized }, .ok, log)

/-- `Initialize` past the already-initialized check, on a transport that accepted the request `pre ++ [initReq]`. -/
def initStages (sm : ClientSM) (pre : List Msg) (e : InitEnv) (sess : Bool) : Out :=
  match e with
  | .netErr | .http500 | .noAnswer => failInit sm (pre ++ [.initReq])
  | .rpcErr | .badResult => failInit { sm with session := sm.session || sess } (pre ++ [.initReq])
  | .dropNotif => failInit { sm with session := sm.session || sess } (pre ++ [.initReq, .initNotif])
  | .ok => succeedInit { sm with session := sm.session || sess } (pre ++ [.initReq, .initNotif])

/-- Which environments exist for a kind (a child process has no HTTP layer; its pipe does not fail). -/
def envValid : Kind → InitEnv → Bool
  | .stdio, .netErr | .stdio, .http500 | .stdio, .dropNotif => false
  | _, _ => true

def stepInit (k : Kind) (sm : ClientSM) (e : InitEnv) : Out :=
  if sm.initialized then (sm, .alreadyInitialized, [])
  else if !envValid k e then (sm, .na, [])
  else match k with
    | .streamable => initStages sm [] e true
    | .sse =>
      if sm.closed then failInit sm []
      else if sm.started then initStages sm [] e false
      else if e = .netErr then failInit sm [.get]          -- the GET itself fails; not started
      else initStages { sm with started := true } [.get] e false
    | .stdio =>
      if sm.closed then failInit sm []
      else initStages { sm with started := true } [] e false

def stepReq (G : Guards) (k : Kind) (sm : ClientSM) (o : OpK) (fail : Bool) : Out :=
  if G.req o && !sm.initialized then (sm, .notInitialized, [])
  else match xmitRequest k sm (.req o) with
    | none => (sm, .failed, [])
    | some (sm', log) => (sm', if fail then .rpcError else .ok, log)

def stepNotify (k : Kind) (sm : ClientSM) (m : Msg) : Out :=
  match xmitNotification k sm m with
  | none => (sm, .failed, [])
  | some (sm', log) => (sm', .ok, log)

def stepRoots (G : Guards) (k : Kind) (sm : ClientSM) : Out :=
  if G.roots && !sm.initialized then (sm, .notInitialized, [])
  else stepNotify k sm .rootsChanged

def stepClose (k : Kind) (sm : ClientSM) : ClientSM :=
  match k with
  | .streamable => { sm with initialized := false, state := .disconnected }
  | .sse | .stdio => { sm with initialized := false, state := .disconnected, closed := true }

/-- `Close`: `err := transport.close(); setState(disconnected); initialized = false; return err`.  In the bad region (a
    Close that returns the transport error BEFORE the reset) a faulted close leaves flag and state as they were, on a
    transport that is closed all the same. -/
def stepCloseOp (G : Guards) (k : Kind) (sm : ClientSM) (fault : Bool) : Out :=
  if fault && !G.closeResets then
    (match k with
     | .streamable => sm
     | .sse | .stdio => { sm with closed := true }, .failed, [])
  else (stepClose k sm, if fault then .failed else .ok, [])

def stepRaw (G : Guards) (k : Kind) (sm : ClientSM) : Op → Out
  | .init e => stepInit k sm e
  | .req o f => stepReq G k sm o f
  | .rootsChanged => stepRoots G k sm
  | .sendInitialized =>
    match k with
    | .stdio => (sm, .na, [])
    | _ => stepNotify k sm .initNotif
  | .terminate tf =>
    match k with
    | .streamable =>
      if sm.session then
        (if tf then (sm, .failed, [.delete])             -- the session id is forgotten only after a 200
         else ({ sm with session := false }, .ok, [.delete]))
      else (sm, .failed, [])
    | .sse => (sm, .ok, [])
    | .stdio => (sm, .na, [])
  | .restart =>
    match k with
    | .stdio => (stepClose k sm, .failed, [])     -- close, reset, then startProcess refuses: closed
    | _ => (sm, .na, [])
  | .close f => stepCloseOp G k sm f

/-- One call: the raw step plus the wire counter. -/
def step (G : Guards) (k : Kind) (sm : ClientSM) (op : Op) : Out :=
  let o := stepRaw G k sm op
  ({ o.1 with sends := o.1.sends + o.2.2.length }, o.2.1, o.2.2)

/-- A whole history: final state and, per call, (result, reported state, messages on the wire). -/
def run (G : Guards) (k : Kind) : ClientSM → List Op → ClientSM × List (Res × CState × List Msg)
  | sm, [] => (sm, [])
  | sm, op :: ops =>
    let o := step G k sm op
    let rest := run G k o.1 ops
    (rest.1, (o.2.1, o.1.state, o.2.2) :: rest.2)

def final (G : Guards) (k : Kind) (sm : ClientSM) (ops : List Op) : ClientSM := (run G k sm ops).1
def trace (G : Guards) (k : Kind) (sm : ClientSM) (ops : List Op) : List (Res × CState × List Msg) := (run G k sm ops).2

/-- Everything a history put on the wire. -/
def wire (G : Guards) (k : Kind) (sm : ClientSM) (ops : List Op) : List Msg :=
  (trace G k sm ops).flatMap (fun x => x.2.2)

/-! ### what happened: the specification of the reported state -/

/-- The state a client should report, from what its calls returned: initialized exactly when the most recent of
    {Initialize that succeeded, Initialize that broke, Close, RestartProcess} is a successful Initialize. -/
def specState (prev : CState) (op : Op) (r : Res) : CState :=
  match op, r with
  | .init _, .ok => .initialized
  | .init _, .failed => .disconnected
  | .close _, _ => .disconnected
  | .restart, .failed => .disconnected
  | _, _ => prev

/-- The states a client should report after each call, given what the calls returned. -/
def specStates : CState → List (Op × Res) → List CState
  | _, [] => []
  | s, (op, r) :: rest => specState s op r :: specStates (specState s op r) rest

def results (tr : List (Res × CState × List Msg)) : List Res := tr.map (fun x => x.1)
def states (tr : List (Res × CState × List Msg)) : List CState := tr.map (fun x => x.2.1)

/-! ### how an answer is recognised as a refusal (stdio transport) -/

/-- `parseJSONRPCMessageType` on a message that carries an `id`: the first link of the if / else-if chain whose member is
    present decides the type; with no link matching the message is taken for a request.  The chain is regenerated
    (`Mcp.Gen.messageTypeChain`). -/
def classifyById (chain : List (Text × Text)) (members : List Text) : Text :=
  match chain with
  | [] => t!"JSONRPCMessageTypeRequest"
  | (k, ty) :: rest => if k ∈ members then ty else classifyById rest members

/-! ### regenerated facts about the client sources -/

/-- One exported method of `Client` / `StdioClient` as the extractor classifies it.
    `cls`: 0 local (no transport use) · 1 life-cycle (Initialize, Close, TerminateSession, RestartProcess, SendInitialized) ·
    2 sends a request · 3 sends a notification · 4 not recognised. -/
structure OpFact where
  recv : Text
  name : Text
  cls : Nat
  guarded : Bool
  deriving Repr, DecidableEq

def lookupGuard (facts : List OpFact) (recv name : Text) : Bool :=
  match facts with
  | [] => false
  | f :: rest => if f.recv = recv ∧ f.name = name then f.guarded else lookupGuard rest recv name

def opName : OpK → Text
  | .listTools => t!"ListTools"
  | .callTool => t!"CallTool"
  | .listPrompts => t!"ListPrompts"
  | .getPrompt => t!"GetPrompt"
  | .listResources => t!"ListResources"
  | .readResource => t!"ReadResource"

def recvOf : Kind → Text
  | .streamable | .sse => t!"Client"
  | .stdio => t!"StdioClient"

/-- The last component of a `clientLifecycleFacts` entry: Close resets flag and state on every path after the transport's
    close(). Not listed = not known = false. -/
def lookupCloseResets (lf : List (Text × Bool × Bool × Bool × Bool)) (recv : Text) : Bool :=
  match lf with
  | [] => false
  | x :: rest => if x.1 = recv then x.2.2.2.2 else lookupCloseResets rest recv

def guardsOf (facts : List OpFact) (lf : List (Text × Bool × Bool × Bool × Bool)) (k : Kind) : Guards :=
  { req := fun o => lookupGuard facts (recvOf k) (opName o),
    roots := lookupGuard facts (recvOf k) t!"SendRootsListChangedNotification",
    closeResets := lookupCloseResets lf (recvOf k) }

end Mcp.Lifecycle
