/-
  C20 — registry entries (rows of the field table `Mcp.Gen.rcSharedFields` for the descriptors users register — `Tool`,
  `Prompt`, `Resource`, `ResourceTemplate` — and the records the managers keep them in).

  An entry carries no lock of its own: what guards it is the lock of the manager whose map it was read from.  Its
  access records therefore list every mutex lexically held at the access, named by the type that owns it
  (`toolManager.mu`; an RLock is shared; after the RUnlock nothing is held); a value copy of an entry (`*toolPtr`) is a
  read of all of its fields.  The discipline is the field table's (`Mcp.Lockset.disciplined`).  Literal records below:
  what that predicate must reject / accept for entries.
-/
import Mcp.Model.Lockset
namespace Mcp.Entries
open Mcp.Str Mcp.Lockset

/-- The entry types. -/
def entryTypes : List Text :=
  [t!"Tool", t!"Prompt", t!"Resource", t!"ResourceTemplate",
   t!"registeredTool", t!"registeredPrompt", t!"registeredResource", t!"registerResourceTemplate"]

def isEntry (f : Field) : Bool := entryTypes.contains f.type

/-- No access after construction writes the field. -/
def readOnlyAfterInit (f : Field) : Bool := (live f).all fun a => a.kind != .write

/-- `Tool.InputSchema` filled in lazily by the first tools/list: `handleListTools` got the `*Tool` from `getTools`
    (whose RLock is released by then) and stores the default schema through it, while other listings and the getters
    copy the tool with no lock. -/
def schemaFilledByFirstList : Field :=
  ⟨t!"Tool", t!"InputSchema",
   [⟨t!"NewTool", .write, .plain, [], true⟩,
    ⟨t!"Server.GetTool", .read, .plain, [], false⟩,
    ⟨t!"Server.GetTools", .read, .plain, [], false⟩,
    ⟨t!"toolManager.handleListTools", .read, .plain, [], false⟩,
    ⟨t!"toolManager.handleListTools", .write, .plain, [], false⟩]⟩

/-- The same store done inside `getTools`, under the manager's READ lock: readers exclude writers, not each other. -/
def schemaFilledUnderRLock : Field :=
  ⟨t!"Tool", t!"InputSchema",
   [⟨t!"NewTool", .write, .plain, [], true⟩,
    ⟨t!"toolManager.getTool", .read, .plain, [(t!"toolManager.mu", false)], false⟩,
    ⟨t!"toolManager.getTools", .read, .plain, [(t!"toolManager.mu", false)], false⟩,
    ⟨t!"toolManager.getTools", .write, .plain, [(t!"toolManager.mu", false)], false⟩]⟩

/-- The store under the manager's write lock, every reader under its read lock. -/
def schemaFilledUnderLock : Field :=
  ⟨t!"Tool", t!"InputSchema",
   [⟨t!"NewTool", .write, .plain, [], true⟩,
    ⟨t!"toolManager.getTool", .read, .plain, [(t!"toolManager.mu", false)], false⟩,
    ⟨t!"toolManager.getTools", .read, .plain, [(t!"toolManager.mu", false)], false⟩,
    ⟨t!"toolManager.registerTool", .write, .plain, [(t!"toolManager.mu", true)], false⟩]⟩

/-- … which does not help while a getter copies the tool outside the lock. -/
def schemaFilledUnderLockOneReaderOutside : Field :=
  ⟨t!"Tool", t!"InputSchema",
   [⟨t!"NewTool", .write, .plain, [], true⟩,
    ⟨t!"Server.GetTools", .read, .plain, [], false⟩,
    ⟨t!"toolManager.getTools", .read, .plain, [(t!"toolManager.mu", false)], false⟩,
    ⟨t!"toolManager.registerTool", .write, .plain, [(t!"toolManager.mu", true)], false⟩]⟩

end Mcp.Entries
