/-
  C01 — Every call gets exactly one answer, and it is its own.

  Full statement (per transport): for every integer id 1 ≤ n ≤ 2^53 and every string id
      keyOfWire (decode (encode id)) = keyOfReq id                                    (`C01_key_roundtrip`, `_string`)
  and, for every schedule, every completed call got the frame whose id is its own, or an error; at most once; and
  a frame delivered while the call is pending and the connection is up completes the call.

  Since the D01 repair the legacy SSE client table and the Streamable client's POST-SSE matcher render ids with the one
  helper `requestIDKey` (key kind `idKey`: "n:<digits>" / "s:<string>"), the stdio table keeps its `int64` keys: the round
  trip holds on all three transports up to 2^53 (`C01_key_roundtrip`), a string id never collides with a number
  (`C01_key_no_collision`). Which kind a table uses is a regenerated, decided fact (`C01_fact_tables`,
  `C01_fact_post_sse_matcher`).
  The `%v` kind of the tree before the repair is kept as an explicit bad region of the family: a decoded JSON number is a
  float64 and `fmt.Sprintf("%v", float64(1000000)) = "1e+06"` while the request side renders `"1000000"` —
  `C01_key_roundtrip_partial` (n < 10^6), `C01_key_counterexample`, `C01_key_mismatch_from_1e6`, the schedule-level
  witnesses `C01_lost_answer_witness` / `C01_post_sse_lost_witness`, and `C01_sprintfV_collision_witness`.
  Safety (own answer, at most once) holds for every schedule on every kind, whatever the counter.

  Server-side id echo: `C01_echo` in `Mcp.Props.C01Echo` (over the `Rpc` model of the three servers' request paths), plus the
  differential run of component `pending`, part iii (raw peers, six server modes, every id class).
-/
import Mcp.Model.Pending
import Mcp.Gen.PendingFacts
import Mcp.Gen.PendingClients
import Mcp.Props.C02Wire
namespace Mcp.Props.C01
open Mcp.Str Mcp.Ids Mcp.Pending

/-! ## key functions -/

private theorem wireOf_small {n : Nat} (h : n < 2 ^ 53) : wireOf n = .num (Int.ofNat n) := by
  simp [wireOf, echoId, encodeId, decodeId, reencodeId, f64OfInt, f64OfNat_small h]

private theorem f64_pow53 : f64OfNat 9007199254740992 = 9007199254740992 := by decide

private theorem wireOf_le {n : Nat} (h : n ≤ 2 ^ 53) : wireOf n = .num (Int.ofNat n) := by
  by_cases hn : n < 2 ^ 53
  · exact wireOf_small hn
  · have : n = 2 ^ 53 := by omega
    subst this
    simp [wireOf, echoId, encodeId, decodeId, reencodeId, f64OfInt, f64_pow53]

private theorem f64_le {n : Nat} (h : n ≤ 2 ^ 53) : f64OfNat n = n := by
  by_cases hn : n < 2 ^ 53
  · exact f64OfNat_small hn
  · have : n = 2 ^ 53 := by omega
    subst this; exact f64_pow53

/-- **stdio's `int64(float64)` path is exact up to 2^53.** -/
theorem C01_f64_exact (n : Nat) (h : n ≤ 2 ^ 53) : f64OfNat n = n := f64_le h

/-- … and not beyond: 2^53+1 is not a float64; it decodes to 2^53. -/
theorem C01_f64_counterexample : f64OfNat (2 ^ 53 + 1) = 2 ^ 53 := by decide

private theorem keyOfWire_int64 {n : Nat} (h : n ≤ 2 ^ 53) :
    keyOfWire .int64 (wireOf n) = some (.num (Int.ofNat n)) := by
  rw [wireOf_le h]
  simp only [keyOfWire, decodeId, keyOfDec, f64OfInt, f64_le h]
  have h1 : (-(2 ^ 63 : Int)) ≤ Int.ofNat n := by
    have : (0 : Int) ≤ Int.ofNat n := Int.natCast_nonneg n
    omega
  have h2 : Int.ofNat n < 2 ^ 63 := by
    show (n : Int) < 2 ^ 63
    omega
  simp only [i64OfF64, h1, h2, and_self, if_true]

/-- **Key round trip, stdio client table** (`pendingRequests map[int64]`): for every id the counter can issue up to 2^53
    the key computed from the answer's id is the key the request was registered under. -/
theorem C01_key_roundtrip_stdio (n : Nat) (_h1 : 1 ≤ n) (h : n ≤ 2 ^ 53) :
    keyOfWire .int64 (wireOf n) = keyOfReq .int64 (.int (Int.ofNat n)) := by
  rw [keyOfWire_int64 h]; rfl

private theorem keyOfWire_idKey {n : Nat} (h : n ≤ 2 ^ 53) :
    keyOfWire .idKey (wireOf n) = some (.txt (t!"n:" ++ natDigits n)) := by
  rw [wireOf_le h]
  simp [keyOfWire, decodeId, keyOfDec, f64OfInt, f64_le h, intText]

private theorem keyOfReq_idKey (n : Nat) : keyOfReq .idKey (.int (Int.ofNat n)) = some (.txt (t!"n:" ++ natDigits n)) := by
  simp [keyOfReq, intText]

/-- the kinds the three client transports use today: `requestIDKey` on both sides (legacy SSE table, Streamable POST-SSE
    matcher), `int64` (stdio table). -/
def kindToday (k : KeyKind) : Prop := k = .idKey ∨ k = .int64

/-- **Key round trip — all three transports**: for every id the counter can issue, 1 ≤ n ≤ 2^53, the key computed from the
    id of the answer (encoded by the client, decoded and re-encoded by the server, decoded by the client into a float64)
    is the key the request was registered under. -/
theorem C01_key_roundtrip (k : KeyKind) (hk : kindToday k) (n : Nat) (h1 : 1 ≤ n) (h : n ≤ 2 ^ 53) :
    keyOfWire k (wireOf n) = keyOfReq k (.int (Int.ofNat n)) := by
  rcases hk with hk | hk <;> subst hk
  · rw [keyOfWire_idKey h, keyOfReq_idKey]
  · exact C01_key_roundtrip_stdio n h1 h

/-- **No collision between a string id and a number** under `requestIDKey`: the string "7" and the integer 7 are different
    keys, on the request side and on the answer side. -/
theorem C01_key_no_collision (s : Text) (i : Int) (w : WireId) :
    keyOfReq .idKey (.str s) ≠ keyOfReq .idKey (.int i) ∧
    keyOfWire .idKey (.str s) ≠ keyOfReq .idKey (.int i) ∧
    (∀ v, decodeId w = .f64 v → keyOfWire .idKey w ≠ keyOfReq .idKey (.str s)) := by
  refine ⟨by simp [keyOfReq], by simp [keyOfWire, decodeId, keyOfDec, keyOfReq], ?_⟩
  intro v hv
  simp [keyOfWire, hv, keyOfDec, keyOfReq]

/-- … whereas the `%v` rendering of the tree before the repair confuses them: an answer bearing the string "5" is keyed like
    request 5. -/
theorem C01_sprintfV_collision_witness :
    keyOfWire .sprintfV (.str t!"5") = keyOfReq .sprintfV (.int 5) := by decide

private theorem keyOfWire_sprintf {n : Nat} (h : n ≤ 2 ^ 53) :
    keyOfWire .sprintfV (wireOf n) = some (.txt (fmtVFloatNat n)) := by
  rw [wireOf_le h]
  simp [keyOfWire, decodeId, keyOfDec, f64OfInt, f64_le h, fmtVFloatInt]

private theorem keyOfReq_sprintf (n : Nat) : keyOfReq .sprintfV (.int (Int.ofNat n)) = some (.txt (natDigits n)) := by
  simp [keyOfReq, fmtVInt, intText]

/-- **Key round trip of the `%v` kind (the tree before the D01 repair) — partial**: holds for the first 999 999 requests of
    a client only. -/
theorem C01_key_roundtrip_partial (n : Nat) (_h1 : 1 ≤ n) (h : n < 10 ^ 6) :
    keyOfWire .sprintfV (wireOf n) = keyOfReq .sprintfV (.int (Int.ofNat n)) := by
  rw [keyOfWire_sprintf (by omega), keyOfReq_sprintf, fmtVFloatNat_small (by omega)]

/-- **Counterexample to the full round trip for the `%v` kind (D01)**: request number 1 000 000. The answer's id renders as `"1e+06"`,
    the request was registered as `"1000000"`. -/
theorem C01_key_counterexample :
    keyOfWire .sprintfV (wireOf 1000000) = some (.txt t!"1e+06") ∧
    keyOfReq .sprintfV (.int 1000000) = some (.txt t!"1000000") ∧
    keyOfWire .sprintfV (wireOf 1000000) ≠ keyOfReq .sprintfV (.int 1000000) := by decide

/-- … and it never recovers: from one million on no answer matches its request (up to 2^53). -/
theorem C01_key_mismatch_from_1e6 (n : Nat) (h1 : 10 ^ 6 ≤ n) (h : n ≤ 2 ^ 53) :
    keyOfWire .sprintfV (wireOf n) ≠ keyOfReq .sprintfV (.int (Int.ofNat n)) := by
  rw [keyOfWire_sprintf h, keyOfReq_sprintf]
  intro he
  injection he with he
  injection he with he
  exact fmtVFloatNat_large_ne (by omega) n he

/-- **Key round trip for string ids** (`requestIDKey`, and the `%v` kind alike): a string id made of Unicode scalar values
    comes back as the same string (`json.Marshal` escaping, `json.Unmarshal` unescaping) and renders to the same key. -/
theorem C01_key_roundtrip_string (k : KeyKind) (hk : k = .idKey ∨ k = .sprintfV) (s : Text) (h : ∀ c ∈ s, Mcp.Props.C02.validScalar c) :
    keyOfWire k (echoId (encodeId (.str s))) = keyOfReq k (.str s) := by
  rcases hk with hk | hk <;> subst hk <;>
    simp [keyOfWire, echoId, encodeId, decodeId, reencodeId, keyOfDec, keyOfReq, Mcp.Props.C02.C02_string_fidelity s h]

/-- A string id stays a string and an integer id stays an integer through an honest server's echo. -/
theorem C01_echo_kind (s : Text) (h : ∀ c ∈ s, Mcp.Props.C02.validScalar c) (n : Nat) (hn : n ≤ 2 ^ 53) :
    echoId (encodeId (.str s)) = encodeId (.str s) ∧ echoId (encodeId (.int (Int.ofNat n))) = encodeId (.int (Int.ofNat n)) := by
  refine ⟨?_, ?_⟩
  · simp [echoId, encodeId, decodeId, reencodeId, Mcp.Props.C02.C02_string_fidelity s h]
  · have := wireOf_le hn
    simpa [wireOf, encodeId] using this

/-! ## key soundness and injectivity -/

/-- equal keys ⇒ same call, for ids up to `B`. -/
def KeySound (k : KeyKind) (B : Nat) : Prop :=
  ∀ a c key, a ≤ B → c ≤ B → keyOfWire k (wireOf a) = some key → keyOfReq k (.int (Int.ofNat c)) = some key → a = c

def KeyInj (k : KeyKind) : Prop :=
  ∀ a c key, keyOfReq k (.int (Int.ofNat a)) = some key → keyOfReq k (.int (Int.ofNat c)) = some key → a = c

private theorem keySound_sprintf : KeySound .sprintfV (2 ^ 53) := by
  intro a c key ha _ h1 h2
  rw [keyOfWire_sprintf ha] at h1
  rw [keyOfReq_sprintf] at h2
  have : Key.txt (fmtVFloatNat a) = Key.txt (natDigits c) := by
    exact (Option.some.inj h1).trans (Option.some.inj h2).symm
  injection this with this
  exact fmtV_sound this

private theorem keySound_idKey : KeySound .idKey (2 ^ 53) := by
  intro a c key ha _ h1 h2
  rw [keyOfWire_idKey ha] at h1
  rw [keyOfReq_idKey] at h2
  have : Key.txt (t!"n:" ++ natDigits a) = Key.txt (t!"n:" ++ natDigits c) := by
    exact (Option.some.inj h1).trans (Option.some.inj h2).symm
  injection this with this
  exact natDigits_inj (List.append_cancel_left this)

private theorem keyInj_idKey : KeyInj .idKey := by
  intro a c key h1 h2
  rw [keyOfReq_idKey] at h1 h2
  have : Key.txt (t!"n:" ++ natDigits a) = Key.txt (t!"n:" ++ natDigits c) := by
    exact (Option.some.inj h1).trans (Option.some.inj h2).symm
  injection this with this
  exact natDigits_inj (List.append_cancel_left this)

private theorem keySound_int64 : KeySound .int64 (2 ^ 53) := by
  intro a c key ha _ h1 h2
  rw [keyOfWire_int64 ha] at h1
  simp only [keyOfReq] at h2
  have : Key.num (Int.ofNat a) = Key.num (Int.ofNat c) := by
    exact (Option.some.inj h1).trans (Option.some.inj h2).symm
  injection this with this
  exact Int.ofNat.inj this

private theorem keyInj_sprintf : KeyInj .sprintfV := by
  intro a c key h1 h2
  rw [keyOfReq_sprintf] at h1 h2
  have : Key.txt (natDigits a) = Key.txt (natDigits c) := by
    exact (Option.some.inj h1).trans (Option.some.inj h2).symm
  injection this with this
  exact natDigits_inj this

private theorem keyInj_int64 : KeyInj .int64 := by
  intro a c key h1 h2
  simp only [keyOfReq] at h1 h2
  have : Key.num (Int.ofNat a) = Key.num (Int.ofNat c) := by
    exact (Option.some.inj h1).trans (Option.some.inj h2).symm
  injection this with this
  exact Int.ofNat.inj this

/-- Beyond 2^53 the stdio table is not sound any more: the answer to request 2^53+1 is keyed like request 2^53. -/
theorem C01_stdio_unsound_beyond_2_53 :
    keyOfWire .int64 (wireOf (2 ^ 53 + 1)) = keyOfReq .int64 (.int (2 ^ 53)) := by decide

/-! ## the protocol invariant -/

structure Inv (k : KeyKind) (s : St) : Prop where
  pend : ∀ e ∈ s.pending, e.call ≤ s.next ∧ keyOfReq k (.int (Int.ofNat e.call)) = some e.key
  pendNodup : (s.pending.map Entry.call).Nodup
  doneLe : ∀ x ∈ s.done, x.1 ≤ s.next
  doneNodup : (s.done.map Prod.fst).Nodup
  disj : ∀ e ∈ s.pending, e.call ∉ s.done.map Prod.fst
  sentLe : ∀ c ∈ s.sent, c ≤ s.next
  ansSent : ∀ c ∈ s.answered, c ∈ s.sent
  ansNodup : s.answered.Nodup
  wire : ∀ f ∈ s.wire, f.id = wireOf f.body ∧ f.body ∈ s.answered
  slot : ∀ e ∈ s.pending, ∀ b, e.slot = some b → b = e.call
  own : ∀ c b, (c, Outcome.answer b) ∈ s.done → b = c

private theorem inv_init (k : KeyKind) (start : Nat) : Inv k (init start) := by
  constructor <;> simp [init]

private theorem fill_map_call (key : Key) (b : Nat) (p : List Entry) : (fill key b p).map Entry.call = p.map Entry.call := by
  induction p with
  | nil => rfl
  | cons e es ih =>
    simp only [fill]
    split
    · split <;> simp
    · simp [ih]

private theorem fill_mem (key : Key) (b : Nat) (p : List Entry) (e' : Entry) (h : e' ∈ fill key b p) :
    ∃ e ∈ p, e'.key = e.key ∧ e'.call = e.call ∧ (e'.slot = e.slot ∨ (e.key = key ∧ e'.slot = some b)) := by
  induction p with
  | nil => simp [fill] at h
  | cons e es ih =>
    simp only [fill] at h
    split at h
    · rename_i hk
      simp only [List.mem_cons] at h
      rcases h with h | h
      · refine ⟨e, by simp, ?_⟩
        split at h
        · subst h; exact ⟨rfl, rfl, Or.inr ⟨hk, rfl⟩⟩
        · subst h; exact ⟨rfl, rfl, Or.inl rfl⟩
      · exact ⟨e', by simp [h], rfl, rfl, Or.inl rfl⟩
    · simp only [List.mem_cons] at h
      rcases h with h | h
      · subst h; exact ⟨e', by simp, rfl, rfl, Or.inl rfl⟩
      · obtain ⟨e0, hm, hr⟩ := ih h
        exact ⟨e0, by simp [hm], hr⟩

private theorem findCall_some (c : Nat) (p : List Entry) (e : Entry) (h : findCall c p = some e) : e ∈ p ∧ e.call = c := by
  induction p with
  | nil => simp [findCall] at h
  | cons x xs ih =>
    simp only [findCall] at h
    split at h
    · rename_i hx
      have := Option.some.inj h; subst this
      exact ⟨by simp, hx⟩
    · have := ih h
      exact ⟨by simp [this.1], this.2⟩

private theorem removeCall_mem (c : Nat) (p : List Entry) (e : Entry) (h : e ∈ removeCall c p) : e ∈ p ∧ e.call ≠ c := by
  simpa [removeCall, List.mem_filter] using h

private theorem removeCall_nodup (c : Nat) (p : List Entry) (h : (p.map Entry.call).Nodup) :
    ((removeCall c p).map Entry.call).Nodup := by
  have : ((removeCall c p).map Entry.call).Sublist (p.map Entry.call) :=
    List.Sublist.map _ (by simp [removeCall])
  exact List.Nodup.sublist this h

private theorem mem_eraseIdx {α} (l : List α) (i : Nat) (x : α) (h : x ∈ l.eraseIdx i) : x ∈ l :=
  List.mem_of_mem_eraseIdx h

private theorem step_next_mono (k : KeyKind) (s s' : St) (e : Ev) (h : step k true s e = some s') : s.next ≤ s'.next := by
  cases e <;> simp only [step] at h
  case issue =>
    split at h
    · simp at h
    · split at h
      · simp at h
      · have := Option.some.inj h; subst this; simp
  case register c => simp at h
  case serverAnswer c =>
    split at h
    · have := Option.some.inj h; subst this; simp
    · simp at h
  case inject f => have := Option.some.inj h; subst this; simp
  case deliver i =>
    split at h
    · simp at h
    · split at h
      · have := Option.some.inj h; subst this; simp
      · split at h <;> (have := Option.some.inj h; subst this; simp)
  case complete c =>
    split at h
    · split at h
      · have := Option.some.inj h; subst this; simp
      · simp at h
    · simp at h
  case timeout c =>
    split at h
    · have := Option.some.inj h; subst this; simp
    · simp at h
  case cancel c =>
    split at h
    · have := Option.some.inj h; subst this; simp
    · simp at h
  case close =>
    split at h
    · simp at h
    · have := Option.some.inj h; subst this; simp

private theorem run_next_mono (k : KeyKind) (evs : List Ev) : ∀ (s s' : St), run k true s evs = some s' → s.next ≤ s'.next := by
  induction evs with
  | nil => intro s s' h; simp [run] at h; subst h; exact Nat.le_refl _
  | cons e es ih =>
    intro s s' h
    simp only [run] at h
    split at h
    · simp at h
    · rename_i s1 hs1
      exact Nat.le_trans (step_next_mono k s s1 e hs1) (ih s1 s' h)

/-- completion by timeout or cancel: the entry of `c` goes, `c` is recorded with an error. -/
private theorem inv_fail (k : KeyKind) (s : St) (c : Nat) (e : Entry) (hi : Inv k s) (hf : findCall c s.pending = some e) :
    Inv k { s with pending := removeCall c s.pending, done := s.done ++ [(c, Outcome.error)] } := by
  obtain ⟨hem, hec⟩ := findCall_some c s.pending e hf
  constructor
  · intro x hx; exact hi.pend x (removeCall_mem c _ x hx).1
  · exact removeCall_nodup c _ hi.pendNodup
  · intro x hx
    simp only [List.mem_append, List.mem_singleton] at hx
    rcases hx with hx | hx
    · exact hi.doneLe x hx
    · subst hx; simpa [hec] using (hi.pend e hem).1
  · simp only [List.map_append, List.map_cons, List.map_nil]
    rw [List.nodup_append]
    refine ⟨hi.doneNodup, by simp, ?_⟩
    intro a ha b hb
    simp only [List.mem_singleton] at hb
    subst hb
    intro hab; subst hab
    exact hi.disj e hem (by simpa [hec] using ha)
  · intro x hx
    obtain ⟨hxm, hxc⟩ := removeCall_mem c _ x hx
    simp only [List.map_append, List.map_cons, List.map_nil, List.mem_append, List.mem_singleton]
    intro h
    rcases h with h | h
    · exact hi.disj x hxm h
    · exact hxc h
  · exact hi.sentLe
  · exact hi.ansSent
  · exact hi.ansNodup
  · exact hi.wire
  · intro x hx; exact hi.slot x (removeCall_mem c _ x hx).1
  · intro c' b hx
    simp only [List.mem_append, List.mem_singleton, Prod.mk.injEq] at hx
    rcases hx with hx | hx
    · exact hi.own c' b hx
    · simp at hx

private theorem inv_step (k : KeyKind) (B : Nat) (hs : KeySound k B) (s s' : St) (e : Ev) (he : e.honest = true)
    (hi : Inv k s) (hb : s'.next ≤ B) (h : step k true s e = some s') : Inv k s' := by
  cases e with
  | inject f => simp [Ev.honest] at he
  | register c => simp [step] at h
  | issue =>
    simp only [step] at h
    split at h
    · simp at h
    · split at h
      · simp at h
      · rename_i key hkey
        have := Option.some.inj h; subst this
        constructor
        · intro x hx
          simp only [List.mem_append, List.mem_singleton] at hx
          rcases hx with hx | hx
          · have := hi.pend x hx; exact ⟨by simp; omega, this.2⟩
          · subst hx; exact ⟨by simp, hkey⟩
        · simp only [List.map_append, List.map_cons, List.map_nil]
          rw [List.nodup_append]
          refine ⟨hi.pendNodup, by simp, ?_⟩
          intro a ha b hb'
          simp only [List.mem_singleton] at hb'
          subst hb'
          obtain ⟨x, hx, hxa⟩ := List.mem_map.mp ha
          have := (hi.pend x hx).1
          omega
        · intro x hx; have := hi.doneLe x hx; simp; omega
        · exact hi.doneNodup
        · intro x hx
          simp only [List.mem_append, List.mem_singleton] at hx
          rcases hx with hx | hx
          · exact hi.disj x hx
          · subst hx
            intro hm
            obtain ⟨y, hy, hya⟩ := List.mem_map.mp hm
            have := hi.doneLe y hy
            simp at hya; omega
        · intro c hc
          simp only [List.mem_append, List.mem_singleton] at hc
          rcases hc with hc | hc
          · have := hi.sentLe c hc; simp; omega
          · subst hc; simp
        · intro c hc; have := hi.ansSent c hc; simp [this]
        · exact hi.ansNodup
        · exact hi.wire
        · intro x hx b hxb
          simp only [List.mem_append, List.mem_singleton] at hx
          rcases hx with hx | hx
          · exact hi.slot x hx b hxb
          · subst hx; simp at hxb
        · exact hi.own
  | serverAnswer c =>
    simp only [step] at h
    split at h
    · rename_i hc
      have := Option.some.inj h; subst this
      simp only [Bool.and_eq_true, Bool.not_eq_true', List.contains_iff_mem] at hc
      have hcs : c ∈ s.sent := hc.1
      have hca : c ∉ s.answered := by
        intro hm
        have : s.answered.contains c = true := List.contains_iff_mem.mpr hm
        rw [this] at hc; exact absurd hc.2 (by simp)
      constructor
      · exact hi.pend
      · exact hi.pendNodup
      · exact hi.doneLe
      · exact hi.doneNodup
      · exact hi.disj
      · exact hi.sentLe
      · intro x hx
        simp only [List.mem_append, List.mem_singleton] at hx
        rcases hx with hx | hx
        · exact hi.ansSent x hx
        · subst hx; exact hcs
      · rw [List.nodup_append]
        refine ⟨hi.ansNodup, by simp, ?_⟩
        intro a ha b hb'
        simp only [List.mem_singleton] at hb'
        subst hb'
        intro hab; subst hab; exact hca ha
      · intro f hf
        simp only [List.mem_append, List.mem_singleton] at hf
        rcases hf with hf | hf
        · have := hi.wire f hf; exact ⟨this.1, by simp [this.2]⟩
        · subst hf; simp
      · exact hi.slot
      · exact hi.own
    · simp at h
  | deliver i =>
    simp only [step] at h
    split at h
    · simp at h
    · rename_i f hf
      have hfm : f ∈ s.wire := List.mem_of_getElem? hf
      have hw : ∀ g ∈ s.wire.eraseIdx i, g.id = wireOf g.body ∧ g.body ∈ s.answered :=
        fun g hg => hi.wire g (mem_eraseIdx _ _ _ hg)
      split at h
      · have := Option.some.inj h; subst this
        exact { hi with wire := hw }
      · split at h
        · have := Option.some.inj h; subst this
          exact { hi with wire := hw }
        · rename_i key hkey
          have := Option.some.inj h; subst this
          constructor
          · intro x hx
            obtain ⟨e0, hm, hk, hc, _⟩ := fill_mem key f.body s.pending x hx
            have := hi.pend e0 hm
            rw [hc, hk]; exact this
          · simpa [fill_map_call] using hi.pendNodup
          · exact hi.doneLe
          · exact hi.doneNodup
          · intro x hx
            obtain ⟨e0, hm, _, hc, _⟩ := fill_mem key f.body s.pending x hx
            rw [hc]; exact hi.disj e0 hm
          · exact hi.sentLe
          · exact hi.ansSent
          · exact hi.ansNodup
          · exact hw
          · intro x hx b hxb
            obtain ⟨e0, hm, _, hc, hsl⟩ := fill_mem key f.body s.pending x hx
            rcases hsl with hsl | ⟨hk0, hsl⟩
            · rw [hc]; exact hi.slot e0 hm b (by rw [← hsl]; exact hxb)
            · rw [hsl] at hxb
              have hbf : b = f.body := (Option.some.inj hxb).symm
              have hwf := hi.wire f hfm
              have h1 : keyOfWire k (wireOf f.body) = some key := by rw [← hwf.1]; exact hkey
              have h2 : keyOfReq k (.int (Int.ofNat e0.call)) = some key := by rw [← hk0]; exact (hi.pend e0 hm).2
              have hb1 : f.body ≤ B := by
                have := hi.sentLe f.body (hi.ansSent f.body hwf.2)
                simp at hb; omega
              have hb2 : e0.call ≤ B := by
                have := (hi.pend e0 hm).1
                simp at hb; omega
              rw [hc, hbf]; exact hs f.body e0.call key hb1 hb2 h1 h2
          · exact hi.own
  | complete c =>
    simp only [step] at h
    split at h
    · rename_i e0 hf
      split at h
      · rename_i b hsl
        have := Option.some.inj h; subst this
        obtain ⟨hem, hec⟩ := findCall_some c s.pending e0 hf
        have base := inv_fail k s c e0 hi hf
        constructor
        · exact base.pend
        · exact base.pendNodup
        · intro x hx
          simp only [List.mem_append, List.mem_singleton] at hx
          rcases hx with hx | hx
          · exact hi.doneLe x hx
          · subst hx; simpa [hec] using (hi.pend e0 hem).1
        · simpa using base.doneNodup
        · simpa using base.disj
        · exact hi.sentLe
        · exact hi.ansSent
        · exact hi.ansNodup
        · exact hi.wire
        · exact base.slot
        · intro c' b' hx
          simp only [List.mem_append, List.mem_singleton, Prod.mk.injEq] at hx
          rcases hx with hx | ⟨h1, h2⟩
          · exact hi.own c' b' hx
          · have := hi.slot e0 hem b hsl
            injection h2 with h2
            omega
      · simp at h
    · simp at h
  | timeout c =>
    simp only [step] at h
    split at h
    · rename_i e0 hf
      have := Option.some.inj h; subst this
      exact inv_fail k s c e0 hi hf
    · simp at h
  | cancel c =>
    simp only [step] at h
    split at h
    · rename_i e0 hf
      have := Option.some.inj h; subst this
      exact inv_fail k s c e0 hi hf
    · simp at h
  | close =>
    simp only [step] at h
    split at h
    · simp at h
    · have := Option.some.inj h; subst this
      have hmapfst : (s.pending.map closeOutcome).map Prod.fst = s.pending.map Entry.call := by
        simp [List.map_map, Function.comp_def, closeOutcome]
      constructor
      · intro x hx; simp at hx
      · simp
      · intro x hx
        simp only [List.mem_append, List.mem_map] at hx
        rcases hx with hx | ⟨e0, hm, hx⟩
        · exact hi.doneLe x hx
        · subst hx; exact (hi.pend e0 hm).1
      · simp only [List.map_append, hmapfst]
        rw [List.nodup_append]
        refine ⟨hi.doneNodup, hi.pendNodup, ?_⟩
        intro a ha b hb' hab
        subst hab
        obtain ⟨e0, hm, hc⟩ := List.mem_map.mp hb'
        exact hi.disj e0 hm (by rw [hc]; exact ha)
      · intro x hx; simp at hx
      · exact hi.sentLe
      · exact hi.ansSent
      · exact hi.ansNodup
      · exact hi.wire
      · intro x hx; simp at hx
      · intro c' b' hx
        simp only [List.mem_append, List.mem_map] at hx
        rcases hx with hx | ⟨e0, hm, hx⟩
        · exact hi.own c' b' hx
        · simp only [closeOutcome, Prod.mk.injEq] at hx
          obtain ⟨h1, h2⟩ := hx
          cases hsl : e0.slot with
          | none => simp [hsl] at h2
          | some b0 =>
            simp only [hsl, Outcome.answer.injEq] at h2
            have := hi.slot e0 hm b0 hsl
            omega

private theorem inv_run (k : KeyKind) (B : Nat) (hs : KeySound k B) (evs : List Ev) (hh : ∀ e ∈ evs, e.honest = true) :
    ∀ (s s' : St), Inv k s → run k true s evs = some s' → s'.next ≤ B → Inv k s' := by
  induction evs with
  | nil => intro s s' hi h _; simp [run] at h; subst h; exact hi
  | cons e es ih =>
    intro s s' hi h hb
    simp only [run] at h
    split at h
    · simp at h
    · rename_i s1 hs1
      have hb1 : s1.next ≤ B := Nat.le_trans (run_next_mono k es s1 s' h) hb
      exact ih (fun x hx => hh x (by simp [hx])) s1 s' (inv_step k B hs s s1 e (hh e (by simp)) hi hb1 hs1) h hb

/-- the key kinds safety is proved for: the ones in use today (`idKey`, `int64`) and the `%v` kind of the tree before the
    repair (it loses answers, but never hands one to the wrong call). -/
def goodKind (k : KeyKind) : Prop := k = .idKey ∨ k = .sprintfV ∨ k = .int64

private theorem keySound_of_good (k : KeyKind) (hk : goodKind k) : KeySound k (2 ^ 53) := by
  rcases hk with hk | hk | hk <;> subst hk
  · exact keySound_idKey
  · exact keySound_sprintf
  · exact keySound_int64

private theorem keyInj_of_good (k : KeyKind) (hk : goodKind k) : KeyInj k := by
  rcases hk with hk | hk | hk <;> subst hk
  · exact keyInj_idKey
  · exact keyInj_sprintf
  · exact keyInj_int64

/-- **Ids are unique**: whatever the schedule, the calls in flight carry pairwise different ids and pairwise
    different table keys (the counter never repeats, decimal rendering is injective), so a map insert never
    overwrites another call's channel. The model numbers every request from ONE counter per client (`St.next`): that
    every operation of the real clients draws its id from the client's own counter — none leaves the id to a
    transport-side fallback that counts separately — is the regenerated, decided fact `C01_fact_one_counter`. -/
theorem C01_ids_unique (k : KeyKind) (hk : goodKind k) (start : Nat) (evs : List Ev) (hh : ∀ e ∈ evs, e.honest = true)
    (s : St) (hr : run k true (init start) evs = some s) (hb : s.next ≤ 2 ^ 53) :
    (s.pending.map Entry.call).Nodup ∧
    ∀ e1 ∈ s.pending, ∀ e2 ∈ s.pending, e1.key = e2.key → e1.call = e2.call := by
  have hi := inv_run k _ (keySound_of_good k hk) evs hh _ s (inv_init k start) hr hb
  refine ⟨hi.pendNodup, ?_⟩
  intro e1 h1 e2 h2 hkey
  have k1 := (hi.pend e1 h1).2
  have k2 := (hi.pend e2 h2).2
  rw [hkey] at k1
  exact keyInj_of_good k hk _ _ _ k1 k2

/-- **Own answer**: for every schedule of an honest server (each request answered once, in any order, after any
    delay), any interleaving of deliveries, wake-ups, timeouts, cancellations and a close: every completed call
    either carries an error or the body computed from its own request. No call ever receives another call's answer. -/
theorem C01_own_answer (k : KeyKind) (hk : goodKind k) (start : Nat) (evs : List Ev) (hh : ∀ e ∈ evs, e.honest = true)
    (s : St) (hr : run k true (init start) evs = some s) (hb : s.next ≤ 2 ^ 53) :
    ∀ c o, (c, o) ∈ s.done → o = .answer c ∨ o = .error := by
  have hi := inv_run k _ (keySound_of_good k hk) evs hh _ s (inv_init k start) hr hb
  intro c o hm
  cases o with
  | error => exact Or.inr rfl
  | answer b => have := hi.own c b hm; subst this; exact Or.inl rfl

/-- **At most once**: no call completes twice (no duplicate outcome), and the handler runs at most once per request. -/
theorem C01_at_most_once (k : KeyKind) (hk : goodKind k) (start : Nat) (evs : List Ev) (hh : ∀ e ∈ evs, e.honest = true)
    (s : St) (hr : run k true (init start) evs = some s) (hb : s.next ≤ 2 ^ 53) :
    (s.done.map Prod.fst).Nodup ∧ s.answered.Nodup ∧ (∀ e ∈ s.pending, e.call ∉ s.done.map Prod.fst) := by
  have hi := inv_run k _ (keySound_of_good k hk) evs hh _ s (inv_init k start) hr hb
  exact ⟨hi.doneNodup, hi.ansNodup, hi.disj⟩

private theorem fill_hit (key : Key) (b c : Nat) (p : List Entry) (e : Entry) (he : e ∈ p) (hk : e.key = key) (hc : e.call = c)
    (hsl : e.slot = none) (huniq : ∀ e2 ∈ p, e2.key = key → e2.call = c) (hnd : (p.map Entry.call).Nodup) :
    findCall c (fill key b p) = some { e with slot := some b } := by
  subst hk
  induction p with
  | nil => simp at he
  | cons x xs ih =>
    simp only [fill]
    by_cases hx : x.key = e.key
    · simp only [hx, if_true]
      have hxc : x.call = c := huniq x (by simp) hx
      have hxe : x = e := by
        simp only [List.mem_cons] at he
        rcases he with he | he
        · exact he.symm
        · simp only [List.map_cons, List.nodup_cons] at hnd
          exact absurd (List.mem_map.mpr ⟨e, he, hc.trans hxc.symm⟩) hnd.1
      subst hxe
      simp [hsl, findCall, hc]
    · simp only [hx, if_false]
      have hne : x ≠ e := fun h => hx (h ▸ rfl)
      have he' : e ∈ xs := by
        simp only [List.mem_cons] at he
        rcases he with he | he
        · exact absurd he.symm hne
        · exact he
      have hxc : x.call ≠ c := by
        intro h
        simp only [List.map_cons, List.nodup_cons] at hnd
        exact hnd.1 (List.mem_map.mpr ⟨e, he', hc.trans h.symm⟩)
      simp only [findCall, hxc, if_false]
      simp only [List.map_cons, List.nodup_cons] at hnd
      exact ih he' hnd.2 (fun e2 h2 => huniq e2 (by simp [h2]))

/-- **Delivered if connected**: in any reachable state with the connection up, if call `c` is waiting (empty channel)
    and its answer is the i-th frame in flight and the key round trip holds for `c`, then delivering that frame fills
    `c`'s channel and `c`'s wake-up completes the call with its own answer. -/
theorem C01_delivered_if_connected (k : KeyKind) (hk : goodKind k) (start : Nat) (evs : List Ev) (hh : ∀ e ∈ evs, e.honest = true)
    (s : St) (hr : run k true (init start) evs = some s) (hb : s.next ≤ 2 ^ 53)
    (c : Nat) (e : Entry) (he : e ∈ s.pending) (hc : e.call = c) (hsl : e.slot = none) (ho : s.open_ = true)
    (i : Nat) (hf : s.wire[i]? = some ⟨wireOf c, c⟩)
    (hrt : keyOfWire k (wireOf c) = keyOfReq k (.int (Int.ofNat c))) :
    ∃ s1 s2, step k true s (.deliver i) = some s1 ∧ step k true s1 (.complete c) = some s2 ∧ (c, Outcome.answer c) ∈ s2.done := by
  have hi := inv_run k _ (keySound_of_good k hk) evs hh _ s (inv_init k start) hr hb
  have hkey : keyOfReq k (.int (Int.ofNat c)) = some e.key := by rw [← hc]; exact (hi.pend e he).2
  have huniq : ∀ e2 ∈ s.pending, e2.key = e.key → e2.call = c := by
    intro e2 h2 hk2
    have k2 := (hi.pend e2 h2).2
    rw [hk2] at k2
    exact keyInj_of_good k hk _ _ _ k2 hkey
  have hfc := fill_hit e.key c c s.pending e he rfl hc hsl huniq hi.pendNodup
  refine ⟨{ s with wire := s.wire.eraseIdx i, pending := fill e.key c s.pending }, ?_⟩
  refine ⟨{ s with wire := s.wire.eraseIdx i, pending := removeCall c (fill e.key c s.pending), done := s.done ++ [(c, .answer c)] }, ?_, ?_, ?_⟩
  · have hkey' : keyOfWire k (wireOf c) = some e.key := hrt.trans hkey
    simp [step, hf, ho, hkey']
  · simp [step, hfc]
  · simp

/-- **Schedule-level witness of D01** on a `%v`-keyed table (the tree before the repair): a client whose counter stands at 999 999 issues its next
    request; the server answers it; the reader delivers the answer — and drops it as "unknown request ID". The call is
    still waiting with an empty channel and nothing is in flight: it can only end by timeout or cancellation although
    the connection is up. -/
theorem C01_lost_answer_witness :
    ∃ s, run .sprintfV true (init 999999) [.issue, .serverAnswer 1000000, .deliver 0] = some s ∧
      s.wire = [] ∧ s.open_ = true ∧ s.done = [] ∧
      s.pending = [⟨.txt t!"1000000", 1000000, none⟩] := by
  refine ⟨_, rfl, ?_⟩; decide

/-- the same history on today's tables (`requestIDKey`, and stdio's `int64`) completes the call. -/
theorem C01_1e6_ok :
    (∃ s, run .idKey true (init 999999) [.issue, .serverAnswer 1000000, .deliver 0, .complete 1000000] = some s ∧
      s.done = [(1000000, .answer 1000000)] ∧ s.pending = []) ∧
    (∃ s, run .int64 true (init 999999) [.issue, .serverAnswer 1000000, .deliver 0, .complete 1000000] = some s ∧
      s.done = [(1000000, .answer 1000000)] ∧ s.pending = []) := by
  refine ⟨⟨_, rfl, ?_⟩, ⟨_, rfl, ?_⟩⟩ <;> decide

/-- **Witness for the region "insert after send"** (a tree in which the issuing function puts the request on the wire before
    it registers its channel — all the schedule theorems above are about `run k true`, the region in which the insert comes
    first, a regenerated and decided fact: `C01_fact_insert_before_send`): the request goes out, the server answers, the reader
    dispatches the answer — no entry yet, the frame is dropped — and only then the caller registers: it waits with an empty
    channel, nothing is in flight, the connection is up. With the insert first the same answer completes the call. -/
theorem C01_late_insert_witness :
    (∃ s, run .int64 false (init 0) [.issue, .serverAnswer 1, .deliver 0, .register 1] = some s ∧
      s.wire = [] ∧ s.open_ = true ∧ s.done = [] ∧ s.pending = [⟨.num 1, 1, none⟩]) ∧
    (∃ s, run .idKey false (init 0) [.issue, .serverAnswer 1, .deliver 0, .register 1] = some s ∧
      s.wire = [] ∧ s.open_ = true ∧ s.done = [] ∧ s.pending = [⟨.txt t!"n:1", 1, none⟩]) ∧
    (∃ s, run .int64 true (init 0) [.issue, .serverAnswer 1, .deliver 0, .complete 1] = some s ∧
      s.done = [(1, .answer 1)] ∧ s.pending = []) := by
  refine ⟨⟨_, rfl, ?_⟩, ⟨_, rfl, ?_⟩, ⟨_, rfl, ?_⟩⟩ <;> decide

/-! ## Streamable HTTP (answer on the POST's own response) -/

/-- **POST-SSE, own answer**: whatever events an honest server writes before the result on the response of call `c`'s
    POST (notifications only — the stream belongs to this request), the call returns its own answer, provided the key
    round trip holds for `c` (it does for every `c ≤ 2^53` on today's matcher: `C01_key_roundtrip`). -/
theorem C01_post_sse_own (k : KeyKind) (c : Nat) (n : Nat)
    (hrt : keyOfWire k (wireOf c) = keyOfReq k (.int (Int.ofNat c))) :
    scanPostSse k c (List.replicate n .notification ++ [.frame ⟨wireOf c, c⟩]) = .answer c := by
  induction n with
  | zero => simp [scanPostSse, hrt]
  | succ n ih => simpa [List.replicate_succ, scanPostSse] using ih

private theorem keyOfReq_some (k : KeyKind) (hk : goodKind k) (c : Nat) : ∃ key, keyOfReq k (.int (Int.ofNat c)) = some key := by
  rcases hk with hk | hk | hk <;> subst hk <;> simp [keyOfReq]

/-- A frame is accepted by the POST-SSE matcher only if it carries the call's own id (ids up to 2^53). -/
theorem C01_post_sse_sound (k : KeyKind) (hk : goodKind k) (c : Nat) (hc : c ≤ 2 ^ 53) (evs : List PostEv)
    (hall : ∀ ev ∈ evs, ev = .notification ∨ ∃ b, b ≤ 2 ^ 53 ∧ ev = .frame ⟨wireOf b, b⟩) :
    scanPostSse k c evs = .error ∨ scanPostSse k c evs = .answer c := by
  induction evs with
  | nil => simp [scanPostSse]
  | cons ev rest ih =>
    have hrest := ih (fun x hx => hall x (by simp [hx]))
    rcases hall ev (by simp) with h | ⟨b, hb, h⟩
    · subst h; simpa [scanPostSse] using hrest
    · subst h
      simp only [scanPostSse]
      split
      · rename_i heq
        obtain ⟨key, hkey⟩ := keyOfReq_some k hk c
        have := keySound_of_good k hk b c key hb hc (by rw [heq]; exact hkey) hkey
        subst this; exact Or.inr rfl
      · exact hrest

/-- **D01 on the Streamable client in SSE mode (the `%v` matcher of the tree before the repair)**: the millionth request's
    own answer is not recognised; the stream ends and the call fails with "connection closed but no final response
    received". With `requestIDKey` the same stream yields the answer. -/
theorem C01_post_sse_lost_witness :
    scanPostSse .sprintfV 1000000 [.notification, .frame ⟨wireOf 1000000, 1000000⟩] = .error ∧
    scanPostSse .sprintfV 999999 [.notification, .frame ⟨wireOf 999999, 999999⟩] = .answer 999999 ∧
    scanPostSse .idKey 1000000 [.notification, .frame ⟨wireOf 1000000, 1000000⟩] = .answer 1000000 := by decide

/-- JSON answers are not matched by id at all: the body of the POST's response is the outcome (correlation is the
    HTTP exchange itself). -/
theorem C01_post_json_unchecked (f : Frame) : readPostJson f = .answer f.body := rfl

/-! ## regenerated facts (T-gen) -/

/-- The five pending tables are keyed as modelled: `requestIDKey` on both sides of the legacy SSE client table and of the
    Streamable server's table, the stdio client's `int64` table, the two `uint64` server tables; every insert has its
    deferred delete; the functions that read each table are exactly the modelled lookup functions. A changed key expression
    changes `kind`, a new function reading a table changes `readSites`. -/
theorem C01_fact_tables :
    Mcp.Gen.pdTables.map (fun t => (t.name, t.insertKind, t.lookupKinds, t.deferredDelete, t.readSites)) =
      [ (t!"sse_client.responses", t!"idKey", [t!"idKey"], true, [t!"sseClientTransport.handleResponse"]),
        (t!"sse_server.responses", t!"uint64OfInt64", [t!"parseRequestID", t!"parseRequestID"], true,
          [t!"SSEServer.handleResponseMessage", t!"SSEServer.handleRootsListResponse"]),
        (t!"stdio_client.pendingRequests", t!"int64Assert", [t!"int64OfFloat64", t!"int64OfFloat64"], true,
          [t!"stdioClientTransport.handleErrorResponse", t!"stdioClientTransport.handleResponse"]),
        (t!"stdio_server.responses", t!"uint64OfInt64", [t!"parseRequestID"], true, [t!"stdioServerInternal.HandleResponse"]),
        (t!"streamable_server.pendingRequests", t!"idKey", [t!"idKey"], true, [t!"responseManager.DeliverResponse"]) ] := by decide

/-- **One id counter per client**: every method of `Client` and `StdioClient` that issues a request through its transport
    builds it with an id taken from the client's own counter (`c.requestID.Add(1)`) — so the transport-side fallback
    (`if req.ID == nil { req.ID = t.requestID.Add(1) }` in `stdioClientTransport.sendRequest`, a second counter starting at 1
    that feeds the same pending table) is never reached from the client's operations. Two counters would hand the same
    number to two calls in flight: the second registration overwrites the first call's channel. -/
theorem C01_fact_one_counter :
    Mcp.Gen.pdClientOps.all (fun o => o.idSource = t!"clientCounter") = true ∧ 14 ≤ Mcp.Gen.pdClientOps.length ∧
    Mcp.Gen.pdIdFallbacks = [t!"stdioClientTransport.sendRequest"] := by decide

/-- In every issuing function the pending entry is inserted before the request is put on the wire (client tables: before
    `encoder.Encode` / the POST; server tables: before the frame is queued or written): an answer cannot be dispatched
    before its entry exists. This is the region `ins = true` the schedule theorems are about. -/
theorem C01_fact_insert_before_send : Mcp.Gen.pdTables.all (·.insertBeforeSend) = true := by decide

/-- The Streamable client's POST-SSE matcher compares `requestIDKey` renderings of both ids. -/
theorem C01_fact_post_sse_matcher : Mcp.Gen.pdPostSseMatcher = (t!"idKey", t!"idKey") := by decide

/-- The kinds the client tables use are the ones the theorems above are proved for. -/
theorem C01_fact_good_kinds : kindToday .idKey ∧ kindToday .int64 ∧ goodKind .idKey ∧ goodKind .int64 :=
  ⟨Or.inl rfl, Or.inr rfl, Or.inl rfl, Or.inr (Or.inr rfl)⟩

/-- Channel sends that can drop a frame (`select` with a `default:` branch), complete list. The client-side ones are the
    modelled `fill` (full 1-slot channel: a duplicate frame is dropped); the legacy SSE server's `eventQueue` sends drop an
    answer when 100 frames are queued (reported by the harness if it ever happens); `notifyUpdate` is the resource-subscription
    fan-out (not request/answer traffic). A new drop site changes the list. -/
theorem C01_fact_drop_sites :
    Mcp.Gen.pdDropSites.map (fun d => (d.file, d.func, d.chan)) =
      [ (t!"manager_resource.go", t!"notifyUpdate", t!"ch"),
        (t!"sse_client.go", t!"handleResponse", t!"responseChan"),
        (t!"sse_server.go", t!"SendRequest", t!"session.eventQueue"),
        (t!"sse_server.go", t!"handleRequestError", t!"session.eventQueue"),
        (t!"sse_server.go", t!"handleResponseMessage", t!"responseChan"),
        (t!"sse_server.go", t!"handleRootsListResponse", t!"responseChan"),
        (t!"sse_server.go", t!"handleRootsListResponse", t!"responseChan"),
        (t!"sse_server.go", t!"processRequestAsync", t!"session.eventQueue"),
        (t!"sse_server.go", t!"sendNotificationToSession", t!"session.notificationChannel"),
        (t!"sse_server.go", t!"sendSuccessResponse", t!"session.eventQueue"),
        (t!"stdio_server.go", t!"HandleResponse", t!"responseChan"),
        (t!"stdio_server.go", t!"HandleResponse", t!"responseChan"),
        (t!"stdio_server.go", t!"SendRequest", t!"session.MessageChannel()"),
        (t!"streamable_server.go", t!"DeliverResponse", t!"pending.responseChan"),
        (t!"transport_stdio.go", t!"handleErrorResponse", t!"respChan"),
        (t!"transport_stdio.go", t!"handleResponse", t!"respChan"),
        (t!"transport_stdio.go", t!"handleResponse", t!"respChan") ] := by decide

/-- **An initialize answer is computed from its own request's arguments**: the protocolVersion of the initialize result is the
    parameter of `buildInitializeResponse` (the version negotiated for this very request), and the only fields of the lifecycle
    manager — shared by every request on every session — written while an initialize is handled are the per-session
    `sessionStates[id]` entry and the capabilities (the same value whoever computes it). A per-request value parked in a
    manager field on its way into the answer changes one of the two. -/
theorem C01_fact_initialize_own_arguments :
    Mcp.Gen.pdInitializeVersionFromParam = true ∧
    Mcp.Gen.pdInitializeWrites = [t!"saveSessionState: m.sessionStates[session.GetID()]", t!"updateCapabilities: m.capabilities"] := by decide

/-! ## non-vacuity -/

-- three calls answered in reverse order, one duplicate wake-up attempt refused, one timeout: every call has its own answer
example : ∃ s, run .idKey true (init 0) [.issue, .issue, .issue, .serverAnswer 3, .serverAnswer 1, .deliver 0, .deliver 0,
      .complete 1, .timeout 2, .complete 3, .serverAnswer 2, .deliver 0] = some s ∧
    s.done = [(1, .answer 1), (2, .error), (3, .answer 3)] ∧ s.pending = [] ∧ s.wire = [] := by
  refine ⟨_, rfl, ?_⟩; decide

-- a dishonest duplicate frame for call 1 with another body finds the channel full and is dropped
example : ∃ s, run .int64 true (init 0) [.issue, .serverAnswer 1, .deliver 0, .inject ⟨wireOf 1, 77⟩, .deliver 0, .complete 1] = some s ∧
    s.done = [(1, .answer 1)] := by
  refine ⟨_, rfl, ?_⟩; decide

-- the hypotheses of `C01_delivered_if_connected` are satisfiable
example : ∃ s, run .idKey true (init 41) [.issue, .serverAnswer 42] = some s ∧ s.open_ = true ∧
    s.wire[0]? = some ⟨wireOf 42, 42⟩ ∧ s.pending = [⟨.txt t!"n:42", 42, none⟩] := by
  refine ⟨_, rfl, ?_⟩; decide

end Mcp.Props.C01
