/-
  C17 — Retry: bounded attempts, only transient failures, capped backoff, prompt cancel.
  Property theorems only (helper lemmas are local `private` and proved here for brevity of the tree).
-/
import Mcp.Model.Retry
import Mcp.Gen.Consts
import Mcp.Props.C17Tab.A0
import Mcp.Props.C17Tab.A1
import Mcp.Props.C17Tab.A2
import Mcp.Props.C17Tab.A3
import Mcp.Props.C17Tab.B0
import Mcp.Props.C17Tab.B1
import Mcp.Props.C17Tab.B2
import Mcp.Props.C17Tab.B3
namespace Mcp.Props.C17
open Mcp.Retry Mcp.Str Mcp.Props.C17Tab

/-! ## clamping -/

private theorem clampI_range {lo hi x : Int} (h : lo ≤ hi) : lo ≤ clampI lo hi x ∧ clampI lo hi x ≤ hi := by
  unfold clampI; split
  · omega
  · split <;> omega

private theorem clampI_id {lo hi x : Int} (h1 : lo ≤ x) (h2 : x ≤ hi) : clampI lo hi x = x := by
  unfold clampI; split
  · omega
  · split
    · omega
    · rfl

/-- Any configuration is clamped into the documented ranges — NaN and ±Inf factors included — provided `Validate`
    tests for NaN (the regenerated fact `nanClamped`, see `C17_limits_ok`). -/
theorem C17_clamp_range (L : Limits) (hL : L.ok) (hn : L.nanClamped = true) (c : Cfg)
    (hd : ∀ n d, c.factor = .q n d → 0 < d) : InRange L (validate L c) := by
  obtain ⟨h1, h2, h3, h4, _, _, _⟩ := hL
  unfold InRange validate
  have r1 := @clampI_range L.minRetries L.maxRetries c.maxRetries h1
  have r2 := @clampI_range L.minInitial L.maxInitial c.initial h2
  refine ⟨r1.1, r1.2, r2.1, r2.2, ?_, ?_, ?_⟩
  · cases hc : c.factor with
    | nan => simp [clampF, hn, Factor.inRange]; omega
    | ninf => simp [clampF, Factor.inRange]; omega
    | pinf => simp [clampF, Factor.inRange]; omega
    | q n d =>
      have := hd n d hc
      simp only [clampF]
      split
      · simp [Factor.inRange]; omega
      · split
        · simp [Factor.inRange]; omega
        · simp only [Factor.inRange]; omega
  · simp only; split
    · omega
    · split <;> omega
  · simp only; split
    · omega
    · split <;> omega

/-- Witness for the bad region of the family: without the NaN test (the tree before the `fix:` commit) NaN passes
    `Validate` untouched, because both comparisons are false. -/
theorem C17_clamp_nan_witness :
    ¬ InRange { Mcp.Gen.retryLimits with nanClamped := false }
        (validate { Mcp.Gen.retryLimits with nanClamped := false } ⟨2, 500000000, .nan, 8000000000⟩) := by
  decide

private theorem clampF_idem {lo hi : Int} (h : lo ≤ hi) (nc : Bool) (f : Factor) :
    clampF lo hi nc (clampF lo hi nc f) = clampF lo hi nc f := by
  have h1 : ¬ lo < lo * ((1 : Nat) : Int) := by omega
  have h2 : ¬ lo > hi * ((1 : Nat) : Int) := by omega
  have h3 : ¬ hi < lo * ((1 : Nat) : Int) := by omega
  have h4 : ¬ hi > hi * ((1 : Nat) : Int) := by omega
  cases f with
  | nan =>
    cases nc
    · rfl
    · show clampF lo hi true (.q lo 1) = .q lo 1
      simp only [clampF, h1, h2, ite_false]
  | ninf =>
    show clampF lo hi nc (.q lo 1) = .q lo 1
    simp only [clampF, h1, h2, ite_false]
  | pinf =>
    show clampF lo hi nc (.q hi 1) = .q hi 1
    simp only [clampF, h3, h4, ite_false]
  | q n d =>
    by_cases a : n < lo * d
    · simp only [clampF, a, ite_true, h1, h2, ite_false]
    · by_cases b : n > hi * d
      · simp only [clampF, a, b, ite_true, h3, h4, ite_false]
      · simp only [clampF, a, b, ite_false]

private theorem clampMB_idem {ib mm x : Int} (h : ib ≤ mm) :
    let y := if x < ib then ib else if x > mm then mm else x
    (if y < ib then ib else if y > mm then mm else y) = y := by
  intro y
  have hy : ib ≤ y ∧ y ≤ mm := by
    show ib ≤ (if x < ib then ib else if x > mm then mm else x) ∧ (if x < ib then ib else if x > mm then mm else x) ≤ mm
    split
    · omega
    · split <;> omega
  have h1 : ¬ y < ib := by omega
  have h2 : ¬ y > mm := by omega
  simp only [h1, h2, ite_false]

/-- Clamping is idempotent — for every configuration, NaN included. -/
theorem C17_clamp_idempotent (L : Limits) (hL : L.ok) (c : Cfg) :
    validate L (validate L c) = validate L c := by
  obtain ⟨h1, h2, h3, h4, _, _, _⟩ := hL
  have r1 := @clampI_range L.minRetries L.maxRetries c.maxRetries h1
  have r2 := @clampI_range L.minInitial L.maxInitial c.initial h2
  unfold validate
  simp only [clampI_id r1.1 r1.2, clampI_id r2.1 r2.2, clampF_idem h3]
  congr 1
  exact clampMB_idem (by omega)

/-- The regenerated limits satisfy the side conditions of the two theorems above, and the current source tests for NaN. -/
theorem C17_limits_ok : Mcp.Gen.retryLimits.ok ∧ Mcp.Gen.retryLimits.nanClamped = true := by decide

/-- …and they are the documented ones (0-10 retries, 1ms-30s initial, factor 1-10, max ≤ 5 minutes). -/
theorem C17_limits_documented :
    Mcp.Gen.retryLimits.minRetries = 0 ∧ Mcp.Gen.retryLimits.maxRetries = 10 ∧
    Mcp.Gen.retryLimits.minInitial = 1000000 ∧ Mcp.Gen.retryLimits.maxInitial = 30 * 1000000000 ∧
    Mcp.Gen.retryLimits.minFactor = 1 ∧ Mcp.Gen.retryLimits.maxFactor = 10 ∧
    Mcp.Gen.retryLimits.maxMaxBackoff = 5 * 60 * 1000000000 := by decide

example : InRange Mcp.Gen.retryLimits (validate Mcp.Gen.retryLimits ⟨99, 5, .q 31 2, 7⟩) := by decide

/-! ## the attempt loop -/

private theorem loop_attempts (R oz c script cancelAt maxA) :
    ∀ fuel attempt now waits, 1 ≤ attempt → attempt + fuel = maxA + 1 →
      (loop R oz c script cancelAt maxA fuel attempt now waits).attempts ≤ maxA := by
  intro fuel
  induction fuel with
  | zero => intro attempt now waits h1 h2; simp [loop]; omega
  | succ n ih =>
    intro attempt now waits h1 h2
    unfold loop
    split
    · simp; omega
    · split
      · simp; omega
      · split
        · simp; omega
        · split
          · simp; omega
          · split
            · simp; omega
            · exact ih _ _ _ (by omega) (by omega)

/-- At most `MaxRetries + 1` calls of the operation, for every script, classification and cancellation instant. -/
theorem C17_attempts (R oz) (c : Cfg) (script cancelAt) (h : 0 ≤ c.maxRetries) :
    ((execute R oz (some c) script cancelAt).attempts : Int) ≤ c.maxRetries + 1 := by
  unfold execute
  simp only
  split
  · simp; omega
  · have := loop_attempts R oz c script cancelAt (c.maxRetries + 1).toNat (c.maxRetries + 1).toNat 1 0 []
      (by omega) (by omega)
    omega

/-- Without a retry option (nil config) or with `MaxRetries = 0` the operation runs exactly once. -/
theorem C17_no_option_once (R oz script cancelAt) :
    (execute R oz none script cancelAt).attempts = 1 ∧
    ∀ c, c.maxRetries = 0 → (execute R oz (some c) script cancelAt).attempts = 1 := by
  refine ⟨rfl, ?_⟩
  intro c h; simp [execute, h]

/-- Characterisation of one iteration, from which the next four theorems follow. `Stops` says the loop,
    started at `attempt`, ends at the first attempt `k ≥ attempt` that succeeds, fails non-transiently, is the
    last allowed one, or is cut by the context; all earlier attempts failed with a transient error. -/
private theorem loop_spec (R oz c script cancelAt maxA) :
    ∀ fuel attempt now waits, 1 ≤ attempt → attempt + fuel = maxA + 1 → 1 ≤ fuel →
      let r := loop R oz c script cancelAt maxA fuel attempt now waits
      attempt - 1 ≤ r.attempts ∧
      (∀ i, attempt ≤ i → i < r.attempts → ∃ m, script (i - 1) = some m ∧ R m = true) ∧
      (r.result = .success → 1 ≤ r.attempts ∧ attempt ≤ r.attempts ∧ script (r.attempts - 1) = none) ∧
      (∀ k, r.result = .opErr k → k = r.attempts ∧ attempt ≤ k ∧
          ∃ m, script (k - 1) = some m ∧ (R m = false ∨ k = maxA)) ∧
      (r.result = .ctxErr → cancelAt.isSome) := by
  intro fuel
  induction fuel with
  | zero => intro _ _ _ _ _ h; omega
  | succ n ih =>
    intro attempt now waits h1 h2 _
    unfold loop
    split
    · rename_i hc
      refine ⟨by simp, ?_, by simp, by simp, ?_⟩
      · intro i hi hi'; simp at hi'; omega
      · intro _; cases cancelAt <;> simp_all [doneAt]
    · split
      · rename_i hs
        refine ⟨by simp <;> omega, ?_, ?_, by simp, by simp⟩
        · intro i hi hi'; simp at hi'; omega
        · intro _; simp; exact ⟨h1, hs⟩
      · rename_i msg hs
        split
        · rename_i hR
          refine ⟨by simp <;> omega, ?_, by simp, ?_, by simp⟩
          · intro i hi hi'; simp at hi'; omega
          · intro k hk; simp at hk; subst hk
            refine ⟨rfl, Nat.le_refl _, msg, hs, Or.inl ?_⟩
            simpa using hR
        · rename_i hR
          have hR' : R msg = true := by simpa using hR
          split
          · rename_i hm
            refine ⟨by simp <;> omega, ?_, by simp, ?_, by simp⟩
            · intro i hi hi'; simp at hi'; omega
            · intro k hk; simp at hk; subst hk
              refine ⟨rfl, Nat.le_refl _, msg, hs, Or.inr ?_⟩
              simpa using hm
          · rename_i hm
            split
            · rename_i hc
              refine ⟨by simp <;> omega, ?_, by simp, by simp, ?_⟩
              · intro i hi hi'; simp at hi'; omega
              · intro _; cases cancelAt <;> simp_all [doneBefore]
            · have hne : attempt ≠ maxA := by simpa using hm
              have := ih (attempt + 1) (now + (effWait oz c attempt))
                (waits ++ [effWait oz c attempt])
                (by omega) (by omega) (by omega)
              obtain ⟨a, b, c', d, e⟩ := this
              refine ⟨by simp at a ⊢; omega, ?_, ?_, ?_, e⟩
              · intro i hi hi'
                by_cases hia : i = attempt
                · subst hia; exact ⟨msg, hs, hR'⟩
                · exact b i (by omega) hi'
              · intro hsuc; have := c' hsuc; exact ⟨this.1, by omega, this.2.2⟩
              · intro k hk; have := d k hk; exact ⟨this.1, by omega, this.2.2⟩

/-- The sequence stops at the first success: the result is success exactly at an attempt whose outcome is
    success, every earlier attempt failed with a *transient* error, and nothing runs afterwards. -/
theorem C17_stop_at_success (R oz) (c : Cfg) (script cancelAt) (h : 0 < c.maxRetries)
    (hs : (execute R oz (some c) script cancelAt).result = .success) :
    let r := execute R oz (some c) script cancelAt
    1 ≤ r.attempts ∧ script (r.attempts - 1) = none ∧
    ∀ i, 1 ≤ i → i < r.attempts → ∃ m, script (i - 1) = some m ∧ R m = true := by
  unfold execute at hs ⊢
  have hne : (c.maxRetries == 0) = false := by simp <;> omega
  simp only [hne] at hs ⊢
  have := loop_spec R oz c script cancelAt (c.maxRetries + 1).toNat (c.maxRetries + 1).toNat 1 0 []
    (by omega) (by omega) (by omega)
  obtain ⟨_, b, c', _, _⟩ := this
  have := c' hs
  exact ⟨this.1, this.2.2, fun i hi hi' => b i hi hi'⟩

/-- A retry happens only after a failure classified transient; an operation error that is returned is either
    non-transient or the one of the last allowed attempt, and it is the error of the last call made. -/
theorem C17_retry_only_transient (R oz) (c : Cfg) (script cancelAt) (h : 0 < c.maxRetries) :
    let r := execute R oz (some c) script cancelAt
    (∀ i, 1 ≤ i → i < r.attempts → ∃ m, script (i - 1) = some m ∧ R m = true) ∧
    (∀ k, r.result = .opErr k → k = r.attempts ∧
        ∃ m, script (k - 1) = some m ∧ (R m = false ∨ (k : Int) = c.maxRetries + 1)) := by
  unfold execute
  have hne : (c.maxRetries == 0) = false := by simp <;> omega
  simp only [hne]
  have := loop_spec R oz c script cancelAt (c.maxRetries + 1).toNat (c.maxRetries + 1).toNat 1 0 []
    (by omega) (by omega) (by omega)
  obtain ⟨_, b, _, d, _⟩ := this
  refine ⟨fun i hi hi' => b i hi hi', ?_⟩
  intro k hk
  obtain ⟨e1, _, m, e3, e4⟩ := d k hk
  refine ⟨e1, m, e3, ?_⟩
  cases e4 with
  | inl x => exact Or.inl x
  | inr x => right; omega

/-- The context error is returned only if the context was in fact cancelled. -/
theorem C17_ctx_err_only_if_cancelled (R oz) (c : Cfg) (script) (h : 0 < c.maxRetries) :
    (execute R oz (some c) script none).result ≠ .ctxErr := by
  unfold execute
  have hne : (c.maxRetries == 0) = false := by simp <;> omega
  simp only [hne]
  have := loop_spec R oz c script none (c.maxRetries + 1).toNat (c.maxRetries + 1).toNat 1 0 []
    (by omega) (by omega) (by omega)
  intro hc; have := this.2.2.2.2 hc; simp at this

/-! ### waits and cancellation -/

/-- Generalised loop invariant on the recorded waits and the virtual clock. -/
private theorem loop_waits (R oz c script cancelAt maxA) :
    ∀ fuel attempt now waits, 1 ≤ attempt → waits.length = attempt - 1 →
      let r := loop R oz c script cancelAt maxA fuel attempt now waits
      waits <+: r.waits ∧
      (∀ j, attempt - 1 ≤ j → (hj : j < r.waits.length) →
          r.waits[j] = effWait oz c (j + 1)) := by
  intro fuel
  induction fuel with
  | zero =>
    intro attempt now waits h1 hl
    simp only [loop]
    exact ⟨List.prefix_refl _, fun j hj hj' => by omega⟩
  | succ n ih =>
    intro attempt now waits h1 hl
    unfold loop
    split
    · exact ⟨List.prefix_refl _, fun j hj hj' => by simp at hj'; omega⟩
    · split
      · exact ⟨List.prefix_refl _, fun j hj hj' => by simp at hj'; omega⟩
      · split
        · exact ⟨List.prefix_refl _, fun j hj hj' => by simp at hj'; omega⟩
        · split
          · exact ⟨List.prefix_refl _, fun j hj hj' => by simp at hj'; omega⟩
          · split
            · exact ⟨List.prefix_refl _, fun j hj hj' => by simp at hj'; omega⟩
            · have := ih (attempt + 1) (now + (effWait oz c attempt))
                (waits ++ [effWait oz c attempt])
                (by omega) (by simp <;> omega)
              obtain ⟨p, q⟩ := this
              refine ⟨List.IsPrefix.trans (List.prefix_append _ _) p, ?_⟩
              · intro j hj hj'
                by_cases hja : j = attempt - 1
                · subst hja
                  have hlen : attempt - 1 < (waits ++ [effWait oz c attempt]).length := by
                    simp; omega
                  have := List.IsPrefix.getElem p hlen
                  rw [← this]
                  have e : attempt - 1 + 1 = attempt := by omega
                  simp [hl, e]
                · exact q j (by omega) hj'

/-- The k-th wait is `InitialBackoff × Factor^(k-1)` (rounded down to whole nanoseconds) capped at `MaxBackoff`,
    for every k — as long as the uncapped product stays below 2^63 ns (see the counterexample below for the
    current tree; the repaired code, `oz = false`, needs no such hypothesis). -/
theorem C17_wait_k_partial (R oz) (c : Cfg) (script cancelAt) (n : Int) (d : Nat)
    (hf : c.factor = .q n d) (hn : 0 ≤ n) (hi : 0 ≤ c.initial) (hmb : 0 ≤ c.maxBackoff)
    (k : Nat) (hk : k < (execute R oz (some c) script cancelAt).waits.length)
    (hov : oz = true → c.initial * n ^ k / (d : Int) ^ k < two63) :
    (execute R oz (some c) script cancelAt).waits[k] =
      min (c.initial * n ^ k / (d : Int) ^ k) c.maxBackoff := by
  unfold execute at hk ⊢
  by_cases h0 : (c.maxRetries == 0) = true
  · simp [h0] at hk
  · have h0' : (c.maxRetries == 0) = false := by simpa using h0
    simp only [h0', Bool.false_eq_true, ite_false] at hk ⊢
    have := loop_waits R oz c script cancelAt (c.maxRetries + 1).toNat (c.maxRetries + 1).toNat 1 0 []
      (by omega) (by simp)
    obtain ⟨_, q⟩ := this
    have e := q k (by omega) hk
    rw [e]; unfold effWait
    have hb : backoff oz c (k + 1) = min (c.initial * n ^ k / (d : Int) ^ k) c.maxBackoff := by
      unfold backoff
      simp only [hf, Nat.add_sub_cancel]
      have hnov : (oz && decide (c.initial * n ^ k / (d : Int) ^ k ≥ two63)) = false := by
        cases oz with
        | false => simp
        | true => have := hov rfl; simp; omega
      simp only [hnov, Bool.false_eq_true, ↓reduceIte]
      split <;> omega
    rw [hb]
    have hnn : 0 ≤ c.initial * n ^ k / (d : Int) ^ k := by
      apply Int.ediv_nonneg
      · exact Int.mul_nonneg hi (Int.pow_nonneg hn)
      · exact Int.pow_nonneg (Int.natCast_nonneg d)
    split <;> omega

/-- The k-th wait, full statement for the code as it is now: the regenerated fact says the cap is applied before
    the float → integer conversion, so no overflow hypothesis is needed. -/
theorem C17_wait_k (R) (c : Cfg) (script cancelAt) (n : Int) (d : Nat)
    (hf : c.factor = .q n d) (hn : 0 ≤ n) (hi : 0 ≤ c.initial) (hmb : 0 ≤ c.maxBackoff)
    (k : Nat) (hk : k < (execute R Mcp.Gen.retryOverflowZero (some c) script cancelAt).waits.length) :
    (execute R Mcp.Gen.retryOverflowZero (some c) script cancelAt).waits[k] =
      min (c.initial * n ^ k / (d : Int) ^ k) c.maxBackoff :=
  C17_wait_k_partial R _ c script cancelAt n d hf hn hi hmb k hk
    (fun h => absurd h (by decide : ¬ Mcp.Gen.retryOverflowZero = true))

/-- D28 witness for the bad region of the family (`oz = true`, the tree before the `fix:` commit) a legal configuration — 9.3 s initial, factor 10, 10 retries —
    makes the 10th wait collapse to zero instead of the 5-minute cap. -/
theorem C17_wait_overflow_counterexample :
    let c : Cfg := ⟨10, 9300000000, .q 10 1, 300000000000⟩
    InRange Mcp.Gen.retryLimits c ∧ validate Mcp.Gen.retryLimits c = c ∧
    backoff true c 10 = 0 ∧ backoff false c 10 = 300000000000 := by decide

/-! ### every wait is capped; the whole sequence sleeps at most `MaxRetries × MaxBackoff` -/

private theorem effWait_bounds (oz) (c : Cfg) (hmb : 0 ≤ c.maxBackoff) (a : Nat) :
    0 ≤ effWait oz c a ∧ effWait oz c a ≤ c.maxBackoff := by
  have hb : backoff oz c a ≤ c.maxBackoff := by
    unfold backoff
    split
    · simp only; split
      · exact hmb
      · split <;> omega
    · split
      · split <;> omega
      · split <;> omega
    · split
      · split <;> omega
      · split <;> omega
  unfold effWait
  split <;> omega

private theorem loop_waits_len (R oz c script cancelAt maxA) :
    ∀ fuel attempt now waits, 1 ≤ attempt → attempt ≤ maxA → waits.length = attempt - 1 →
      (loop R oz c script cancelAt maxA fuel attempt now waits).waits.length ≤ maxA - 1 := by
  intro fuel
  induction fuel with
  | zero => intro attempt now waits h1 h2 hl; simp [loop]; omega
  | succ n ih =>
    intro attempt now waits h1 h2 hl
    unfold loop
    split
    · simp; omega
    · split
      · simp; omega
      · split
        · simp; omega
        · split
          · simp; omega
          · rename_i hne
            have hne' : attempt ≠ maxA := by simpa using hne
            split
            · simp; omega
            · exact ih _ _ _ (by omega) (by omega) (by simp; omega)

private theorem sum_le_of_all_le (b : Int) : ∀ (l : List Int), (∀ x ∈ l, x ≤ b) → l.sum ≤ l.length * b
  | [], _ => by simp
  | x :: xs, h => by
    have h1 := h x (by simp)
    have h2 := sum_le_of_all_le b xs (fun y hy => h y (by simp [hy]))
    simp only [List.sum_cons, List.length_cons]
    have : ((xs.length + 1 : Nat) : Int) * b = xs.length * b + b := by
      rw [Int.natCast_add, Int.add_mul]; simp
    omega

/-- Every wait actually slept lies between zero and `MaxBackoff` — whatever the factor (NaN and ±Inf included),
    the script, the classification and the cancellation instant, on the repaired and on the unrepaired code. -/
theorem C17_every_wait_capped (R oz) (c : Cfg) (script cancelAt) (hmb : 0 ≤ c.maxBackoff) :
    ∀ w ∈ (execute R oz (some c) script cancelAt).waits, 0 ≤ w ∧ w ≤ c.maxBackoff := by
  intro w hw
  unfold execute at hw
  by_cases h0 : (c.maxRetries == 0) = true
  · simp [h0] at hw
  · have h0' : (c.maxRetries == 0) = false := by simpa using h0
    simp only [h0', Bool.false_eq_true, ite_false] at hw
    obtain ⟨_, q⟩ := loop_waits R oz c script cancelAt (c.maxRetries + 1).toNat (c.maxRetries + 1).toNat 1 0 []
      (by omega) (by simp)
    obtain ⟨j, hj, rfl⟩ := List.getElem_of_mem hw
    rw [q j (by omega) hj]
    exact effWait_bounds oz c hmb (j + 1)

/-- At most `MaxRetries` waits are slept (one between two consecutive attempts, none after the last). -/
theorem C17_waits_count (R oz) (c : Cfg) (script cancelAt) (h : 0 ≤ c.maxRetries) :
    ((execute R oz (some c) script cancelAt).waits.length : Int) ≤ c.maxRetries := by
  unfold execute
  simp only
  split
  · simp; omega
  · rename_i h0
    have hz : c.maxRetries ≠ 0 := by simpa using h0
    have := loop_waits_len R oz c script cancelAt (c.maxRetries + 1).toNat (c.maxRetries + 1).toNat 1 0 []
      (by omega) (by omega) (by simp)
    omega

/-- The whole sequence sleeps at most `MaxRetries × MaxBackoff` in total: the retry loop cannot hold a caller
    longer than that between attempts, for every script, classification, factor and cancellation instant. -/
theorem C17_total_wait_bounded (R oz) (c : Cfg) (script cancelAt) (h : 0 ≤ c.maxRetries) (hmb : 0 ≤ c.maxBackoff) :
    (execute R oz (some c) script cancelAt).waits.sum ≤ c.maxRetries * c.maxBackoff := by
  have h1 := sum_le_of_all_le c.maxBackoff _
    (fun x hx => (C17_every_wait_capped R oz c script cancelAt hmb x hx).2)
  have h2 := C17_waits_count R oz c script cancelAt h
  have h3 := Int.mul_le_mul_of_nonneg_right h2 hmb
  omega

/-- …so a validated configuration never sleeps more than the documented 10 × 5 minutes, and never a negative time. -/
theorem C17_total_wait_documented (R oz) (c : Cfg) (script cancelAt)
    (hd : ∀ n d, c.factor = .q n d → 0 < d) :
    (execute R oz (some (validate Mcp.Gen.retryLimits c)) script cancelAt).waits.sum ≤ 10 * (5 * 60 * 1000000000) := by
  have hr := C17_clamp_range Mcp.Gen.retryLimits C17_limits_ok.1 C17_limits_ok.2 c hd
  obtain ⟨a1, a2, a3, a4, _, a6, a7⟩ := hr
  obtain ⟨d1, d2, d3, d4, _, _, d7⟩ := C17_limits_documented
  rw [d1] at a1; rw [d2] at a2; rw [d3] at a3; rw [d7] at a7
  have hmb : 0 ≤ (validate Mcp.Gen.retryLimits c).maxBackoff := by omega
  have h1 := C17_total_wait_bounded R oz _ script cancelAt a1 hmb
  have h2 := Int.mul_le_mul_of_nonneg_right a2 hmb
  have h3 : (10 : Int) * (validate Mcp.Gen.retryLimits c).maxBackoff ≤ 10 * (5 * 60 * 1000000000) := by omega
  omega

private theorem scaled_mono (a : Int) (n : Int) (d : Nat) (k : Nat) (ha : 0 ≤ a) (hd : 0 < d) (hnd : (d : Int) ≤ n) :
    a * n ^ k / (d : Int) ^ k ≤ a * n ^ (k + 1) / (d : Int) ^ (k + 1) := by
  have hdpos : (0 : Int) < d := by omega
  have hb : (0 : Int) < (d : Int) ^ k := Int.pow_pos hdpos
  have hn : 0 ≤ n := by omega
  have hx : 0 ≤ a * n ^ k := Int.mul_nonneg ha (Int.pow_nonneg hn)
  have e1 : a * n ^ k / (d : Int) ^ k = (a * n ^ k * d) / ((d : Int) ^ k * d) :=
    (Int.mul_ediv_mul_of_pos_left _ _ hdpos).symm
  have e2 : a * n ^ (k + 1) = a * n ^ k * n := by rw [Int.pow_succ, Int.mul_assoc]
  have e3 : (d : Int) ^ (k + 1) = (d : Int) ^ k * d := Int.pow_succ _ _
  rw [e1, e2, e3]
  exact Int.ediv_le_ediv (Int.mul_pos hb hdpos) (Int.mul_le_mul_of_nonneg_left hnd hx)

/-- With a factor of at least 1 the waits never shrink: each wait is at least as long as the one before it (they grow
    until the cap and stay there), for every script and cancellation instant — on the code as it is now. -/
theorem C17_waits_nondecreasing (R) (c : Cfg) (script cancelAt) (n : Int) (d : Nat)
    (hf : c.factor = .q n d) (hd : 0 < d) (hnd : (d : Int) ≤ n) (hi : 0 ≤ c.initial) (hmb : 0 ≤ c.maxBackoff)
    (k : Nat) (hk : k + 1 < (execute R Mcp.Gen.retryOverflowZero (some c) script cancelAt).waits.length) :
    (execute R Mcp.Gen.retryOverflowZero (some c) script cancelAt).waits[k] ≤
      (execute R Mcp.Gen.retryOverflowZero (some c) script cancelAt).waits[k + 1] := by
  have hn : 0 ≤ n := by omega
  rw [C17_wait_k R c script cancelAt n d hf hn hi hmb k (by omega),
    C17_wait_k R c script cancelAt n d hf hn hi hmb (k + 1) hk]
  have := scaled_mono c.initial n d k hi hd hnd
  omega

/-- non-vacuity: a run that really sleeps three capped waits (100 ms, 200 ms, then the 300 ms cap). -/
example : (execute (fun _ => true) false (some ⟨3, 100000000, .q 2 1, 300000000⟩)
    (fun _ => some []) none).waits = [100000000, 200000000, 300000000] := by decide

/-- Cancelling the caller's context ends the sequence with the context's error, and no attempt starts after the
    cancellation instant: once `t ≤ now` at the top of an iteration the loop returns `ctxErr` at once. -/
theorem C17_cancel_before_attempt (R oz c script maxA fuel attempt) (now t : Int) (waits) (h : t ≤ now) :
    loop R oz c script (some t) maxA (fuel + 1) attempt now waits = ⟨attempt - 1, waits, .ctxErr⟩ := by
  unfold loop; simp [doneAt, h]

/-- …and a cancellation that falls strictly inside a wait ends the sequence during that wait. -/
theorem C17_cancel_during_wait (R oz c script maxA fuel attempt) (now t : Int) (waits) (msg)
    (h0 : now < t) (hs : script (attempt - 1) = some msg) (hR : R msg = true) (hm : attempt ≠ maxA)
    (hw : t < now + (effWait oz c attempt)) :
    loop R oz c script (some t) maxA (fuel + 1) attempt now waits = ⟨attempt, waits, .ctxErr⟩ := by
  unfold loop
  have : ¬ t ≤ now := by omega
  simp [doneAt, doneBefore, this, hs, hR, hm, hw]

/-- A context cancelled before the call makes a retrying `Execute` return the context error with zero attempts. -/
theorem C17_cancelled_up_front (R oz) (c : Cfg) (script) (t : Int) (h : 0 < c.maxRetries) (ht : t ≤ 0) :
    execute R oz (some c) script (some t) = ⟨0, [], .ctxErr⟩ := by
  unfold execute
  have hne : (c.maxRetries == 0) = false := by simp <;> omega
  simp only [hne]
  obtain ⟨m, hm⟩ : ∃ m, (c.maxRetries + 1).toNat = m + 1 := ⟨(c.maxRetries).toNat, by omega⟩
  rw [hm]
  exact C17_cancel_before_attempt R oz c script _ m 1 0 t [] ht

-- non-vacuity: a concrete run that retries twice, waits 100ms then 200ms, then succeeds
example :
    execute (isRetryable Mcp.Gen.retryLimits.codes) true (some ⟨3, 100000000, .q 2 1, 8000000000⟩)
      (scriptOf [some t!"EOF", some t!"HTTP request failed: status code 503", none]) none
    = ⟨3, [100000000, 200000000], .success⟩ := by decide

-- non-vacuity: cancellation in the middle of the first wait
example :
    execute (isRetryable Mcp.Gen.retryLimits.codes) true (some ⟨3, 100000000, .q 2 1, 8000000000⟩)
      (scriptOf [some t!"EOF", none]) (some 5)
    = ⟨1, [], .ctxErr⟩ := by decide

/-! ## classification (only-if direction, over the complete status range, real error texts) -/

/-- For every 4xx status the Streamable client's error text is classified retryable only if the status is 408, 409
    or 429 ("never after any other 4xx"). Complete table 400…499, evaluated by the kernel in `C17Tab*`. -/
theorem C17_status_table_streamable (n : Nat) (h1 : 400 ≤ n) (h2 : n ≤ 499)
    (h : isRetryable Mcp.Gen.retryLimits.codes (streamableErr n) = true) : n = 408 ∨ n = 409 ∨ n = 429 := by
  have key : (transient4xx n || !isRetryable Mcp.Gen.retryLimits.codes (streamableErr n)) = true := by
    by_cases c1 : n < 425
    · exact List.all_eq_true.mp Mcp.Props.C17Tab.tabA0 n (List.mem_range'_1.mpr ⟨h1, by omega⟩)
    · by_cases c2 : n < 450
      · exact List.all_eq_true.mp Mcp.Props.C17Tab.tabA1 n (List.mem_range'_1.mpr ⟨by omega, by omega⟩)
      · by_cases c3 : n < 475
        · exact List.all_eq_true.mp Mcp.Props.C17Tab.tabA2 n (List.mem_range'_1.mpr ⟨by omega, by omega⟩)
        · exact List.all_eq_true.mp Mcp.Props.C17Tab.tabA3 n (List.mem_range'_1.mpr ⟨by omega, by omega⟩)
  simp [h, transient4xx] at key; omega

/-- Same for the legacy SSE client's text (with an empty body; see `C17_body_text_counterexample` for bodies). -/
theorem C17_status_table_sse (n : Nat) (h1 : 400 ≤ n) (h2 : n ≤ 499)
    (h : isRetryable Mcp.Gen.retryLimits.codes (sseErr n []) = true) : n = 408 ∨ n = 409 ∨ n = 429 := by
  have key : (transient4xx n || !isRetryable Mcp.Gen.retryLimits.codes (sseErr n [])) = true := by
    by_cases c1 : n < 425
    · exact List.all_eq_true.mp Mcp.Props.C17Tab.tabB0 n (List.mem_range'_1.mpr ⟨h1, by omega⟩)
    · by_cases c2 : n < 450
      · exact List.all_eq_true.mp Mcp.Props.C17Tab.tabB1 n (List.mem_range'_1.mpr ⟨by omega, by omega⟩)
      · by_cases c3 : n < 475
        · exact List.all_eq_true.mp Mcp.Props.C17Tab.tabB2 n (List.mem_range'_1.mpr ⟨by omega, by omega⟩)
        · exact List.all_eq_true.mp Mcp.Props.C17Tab.tabB3 n (List.mem_range'_1.mpr ⟨by omega, by omega⟩)
  simp [h, transient4xx] at key; omega

/-- The transient codes the statement names *are* retried (if-direction for 408/409/429 and common 5xx). -/
theorem C17_named_codes_retried :
    ([408, 409, 429, 500, 502, 503, 504].all fun n => isRetryable Mcp.Gen.retryLimits.codes (streamableErr n)) = true := by
  decide +kernel

/-- Network failures named by the statement are classified transient whatever surrounds them. -/
theorem C17_network_errors_retried (pre post : Text) :
    ∀ p ∈ [t!"connection refused", t!"connection reset", t!"i/o timeout"],
      isRetryable Mcp.Gen.retryLimits.codes (toLower pre ++ p ++ post) = true := by
  intro p hp
  have hlow : toLower p = p := by
    simp only [List.mem_cons, List.mem_nil_iff, or_false] at hp
    rcases hp with h | h | h <;> subst h <;> decide
  have hmem : p ∈ netPatterns := by
    simp only [List.mem_cons, List.mem_nil_iff, or_false] at hp
    rcases hp with h | h | h <;> subst h <;> decide
  unfold isRetryable
  have hc : contains (toLower (toLower pre ++ p ++ post)) p = true := by
    unfold toLower
    simp only [List.map_append, List.append_assoc]
    apply contains_append_left
    apply contains_of_prefix
    have : List.map lowerChar p = p := hlow
    rw [this]
    exact hasPrefix_append _ _
  have : netPatterns.any (contains (toLower (toLower pre ++ p ++ post))) = true :=
    List.any_eq_true.mpr ⟨p, hmem, hc⟩
  simp only [this, Bool.true_or]

/-- "EOF" alone or at the end of an error chain is transient. -/
theorem C17_eof_retried (pre : Text) :
    isRetryable Mcp.Gen.retryLimits.codes t!"EOF" = true ∧
    isRetryable Mcp.Gen.retryLimits.codes (pre ++ t!": EOF") = true := by
  refine ⟨by decide, ?_⟩
  unfold isRetryable
  have : hasSuffix (toLower (pre ++ t!": EOF")) t!": eof" = true := by
    unfold hasSuffix toLower
    simp only [List.map_append, List.reverse_append]
    have : (List.map lowerChar t!": EOF").reverse = t!": eof".reverse := by decide
    rw [this]; exact hasPrefix_append _ _
  simp [this]

/-- D29: the `code+" "` clause makes a 4xx answer retryable when the *body* text the legacy SSE client appends
    happens to contain e.g. "500 " — a retry after "any other 4xx". -/
theorem C17_body_text_counterexample :
    isRetryable Mcp.Gen.retryLimits.codes (sseErr 400 t!"error 500 things") = true := by decide +kernel

end Mcp.Props.C17
