/-
  C06 — Servers survive arbitrary peer input.

  Statement: no sequence of bytes, HTTP requests or stdio lines from a peer — malformed or truncated JSON, any JSON type in
  any field, unknown methods, deeply nested or very large values, missing / duplicated / garbage headers, wrong paths and
  verbs, responses to requests that were never sent — makes a server panic, deadlock, leak a goroutine per request or stop
  serving other clients. Each such input is answered by an HTTP error status or a JSON-RPC error, and the next well-formed
  request from any client is served normally.

  What is proved (about the decision logic, model `Mcp.Rpc`; byte → JSON parsing is `encoding/json`'s and is an input:
  "parse failure | JSON value"):

  * `C06_no_panic` — for EVERY configuration, registry (handlers arbitrary functions), session table and input — the whole
    `Json` type, by structural case analysis, nothing sampled — no reaction of any of the three servers is a panic. The
    model transcribes every bare type assertion of the request path as a function that CAN panic (`bareParamsMap`,
    `bareProtocolVersion` in `handleInitialize`); the theorem is that `checkInitializeParams` shields them.
    `C06_assertions_covered` (T-gen) pins the set of bare assertions in the source to the modelled ones: a new unguarded
    assertion, or a comma-ok form turned bare, breaks it. `C06_request_goroutines` (T-gen) records which goroutines would
    not survive a panic (legacy SSE `processRequestAsync`, the stdio line handler: no recover).
  * `C06_accept_header_total` — the one request header whose value library code parses, Accept
    (internal/httputil/accept.go, reached by every POST that carries a request), is modelled with its slice index as an
    operation that can panic: it returns for every header value, and the server with the parser in front never panics;
    `C06_accept_index_sites` (T-gen) pins the index / slice expressions of accept.go to the modelled one.
  * `C06_answered_streamable`, `C06_answered_stdio` — malformed input is answered by an HTTP error status or a JSON-RPC
    error: full statements on the repaired tree (a wrong path used to get an implicit empty 200, an id-only body an empty
    202, stdio used to drop every such line in silence: D09, D10, D11 — found by this check and repaired). Legacy SSE keeps a
    partial theorem (`C06_answered_sse_partial`): it writes 202 before it classifies and decodes the body, so an id without
    method / result / error and a request its typed decoder rejects are accepted and dropped
    (`C06_sse_accepts_then_drops_counterexample`).
  * `C06_stateless_wrt_garbage*` — input that is refused does not change how the next well-formed request is answered: the
    legacy SSE and stdio reactions are functions of registry and input alone; on Streamable HTTP a refused input leaves the
    session table alone (C04's `C04_refusal_is_noop`) or — `initialize` without a session header whose parameters are
    rejected — adds one session nobody was told about, which changes no later answer.

  Liveness, dead-lock freedom and the absence of per-request goroutine leaks are run-time behaviour: they are explored by
  the harness (ping on the connection in use and on a fresh one after every batch, panic text on the ErrorLog, process
  death in child processes, stalled peers that never read their answers, goroutine census after quiescence — overall and
  per starting function), not proved. That is why this property is claimed partial.
-/
import Mcp.Lemmas.Rpc
import Mcp.Props.C04
import Mcp.Gen.RpcFacts
namespace Mcp.Props.C06
open Mcp.Str Mcp.Json Mcp.Content Mcp.RpcSpec Mcp.Rpc Mcp.Session
open Mcp.Props.C04 (C04_refusal_is_noop)

/-! ## no panic -/

/-- No input makes any server panic: all configurations, registries, session tables; the whole `Json` type. -/
theorem C06_no_panic (c : SCfg) (reg : Registry) (st : St) (i : HttpIn) (si : SseIn) (b : Body) :
    (serveStreamable c reg st i).2 ≠ .panic ∧ serveSSE reg si ≠ .panic ∧ serveStdio reg b ≠ .panic :=
  ⟨serveStreamable_ne_panic c reg st i, serveSSE_ne_panic reg si, serveStdio_ne_panic reg b⟩

/-- The Accept header parser (internal/httputil/accept.go, reached through responder.go `createResponder` for every POST
    that carries a request) returns for EVERY header value — any sequence of code points, any number of `,` and `;`, empty
    elements, parameters with and without `=`: its only slice index, `strings.Split(…)[0]`, is modelled as an index that can
    panic (`goIndex`), and `strings.Split` never returns an empty slice. With the parser in front of it (`serveWire`), the
    Streamable server still never panics, and the header decides nothing but the framing of the answer. -/
theorem C06_accept_header_total (c : SCfg) (reg : Registry) (st : St) (w : HttpWire) (postSSE : Bool) (h : Text) :
    (∃ as, parseAccept h = .ok as) ∧ (∃ b, chooseSSE postSSE h = .ok b) ∧ (serveWire c reg st w).2 ≠ .panic ∧
    (∃ acc, serveWire c reg st w = serveStreamable c reg st ⟨w.verb, w.pathOk, w.ref, acc, w.body⟩) :=
  ⟨parseAccept_ok h, chooseSSE_ok postSSE h, serveWire_ne_panic c reg st w, serveWire_eq c reg st w⟩

/-- …and the index really is one that can fire: on an empty slice it panics (so the model would notice a `Split` replaced
    by something that can return nothing, or an index other than 0). Parameters without a value — `;q`, `;q=`, `;;` — are
    dropped with the rest of the parameters. -/
theorem C06_accept_index_can_fire :
    (match goIndex ([] : List Text) 0 with | .panic => true | .ok _ => false) = true ∧
    (match goIndex (splitOn 59 t!"a;q") 2 with | .panic => true | .ok _ => false) = true ∧
    (match parseAccept t!"text/event-stream;q, ;;, application/json ;q=;x ,," with
      | .ok as => as == [t!"text/event-stream", t!"application/json "] | .panic => false) = true ∧
    (match chooseSSE true t!" */*;q" with | .ok b => b | .panic => false) = true ∧
    (match chooseSSE true t!"text/event-stream ;q=0" with | .ok b => !b | .panic => false) = true := by
  decide +kernel

/-- T-gen: the slice / array index expressions of internal/httputil/accept.go are exactly the modelled one — a new index
    (`kv[1]` of a parameter split on `=`, say) breaks this until it is modelled as an index that can panic. -/
theorem C06_accept_index_sites : Mcp.Gen.rpcIndexSites = modelledIndexSites := by decide

/-- …because every dispatcher outcome is an answer — including `initialize`, whose two bare assertions sit behind
    `checkInitializeParams`. -/
theorem C06_dispatch_total (reg : Registry) (req : Req) :
    (∃ a, dispatch reg req = .ok a) ∧ (∃ a, dispatchStdio reg req = .ok a) := by
  constructor
  · cases h : dispatch reg req with
    | ok a => exact ⟨a, rfl⟩
    | panic => exact absurd h (dispatch_ne_panic reg req)
  · cases h : dispatchStdio reg req with
    | ok a => exact ⟨a, rfl⟩
    | panic => exact absurd h (dispatchStdio_ne_panic reg req)

/-- The guard is what keeps them from firing: on their own the two assertions panic on parameters of the wrong kind
    (so the model would notice a removed guard). -/
theorem C06_bare_assertions_can_fire :
    (match bareParamsMap ⟨some (.int 1), t!"initialize", some (.int 5)⟩ with | .panic => true | .ok _ => false) = true ∧
    (match bareParamsMap ⟨some (.int 1), t!"initialize", none⟩ with | .panic => true | .ok _ => false) = true ∧
    (match bareProtocolVersion [(t!"protocolVersion", .int 5)] with | .panic => true | .ok _ => false) = true ∧
    (match bareProtocolVersion [] with | .panic => true | .ok _ => false) = true := by
  decide

/-- T-gen: the bare type assertions in the request-path files are exactly the two modelled ones plus the two in
    `SendRequest` (which assert the id of the application's own request — no peer input reaches them). -/
theorem C06_assertions_covered : Mcp.Gen.rpcBareAssertions = modelledBareSites ++ applicationSideBareSites := by decide

/-- T-gen: the goroutines the legacy SSE and stdio servers start per incoming message, and that none of them recovers — a
    panic there would end the process, which is what `Reaction.panic` stands for on these two servers. -/
theorem C06_request_goroutines :
    Mcp.Gen.rpcGoStmts.filter (fun g => perMessageGoFns.contains g.1) = perMessageGoStmts := by decide

/-- T-gen: in manager_lifecycle.go no method of lifecycleManager is called, at a point where `m.mu` may be held, that
    (transitively) locks or read-locks `m.mu` again — a `sync.RWMutex` is not reentrant: a second `RLock` under a held
    one dead-locks as soon as another client's initialize / notifications/initialized / DELETE queues its `Lock` between
    the two, and every later handshake of any client hangs. (Lexical may-hold walk; the run-time side is the concurrent
    handshake storm of the harness.) -/
theorem C06_lifecycle_lock_not_reentered : Mcp.Gen.rpcLifecycleNestedLocks = [] ∧ Mcp.Gen.rpcLifecycleLockers ≠ [] := by decide

/-- T-gen: the functions that wait for or deliver a peer's response to a server→client request (`SendRequest`,
    `HandleResponse`, `handleResponseMessage`, `handlePostResponse` … of the three servers) never `close` a channel: a
    waiter that gives up leaves by deleting its entry from the pending table — were it to close its channel, a response
    that was looked up a moment earlier would be sent on a closed channel and the panic would kill the process (the run-time
    side: answers of 1–4 MB arriving around the deadline of their request, harness scenario "response race"). -/
theorem C06_pending_channels_not_closed :
    Mcp.Gen.rpcResponseChannelCloses = [] ∧ t!"StdioServer.SendRequest" ∈ Mcp.Gen.rpcResponseFunctions ∧
    t!"SSEServer.SendRequest" ∈ Mcp.Gen.rpcResponseFunctions ∧ t!"httpServerHandler.SendRequest" ∈ Mcp.Gen.rpcResponseFunctions := by decide

/-! ## malformed input is answered -/

/-- Streamable HTTP — whatever the mode, the session reference and the Accept header: a wrong path is answered 404, an unknown
    verb 405, a body that is not a JSON-RPC message with an HTTP error status, and so is an id with neither method nor
    result nor error. (On the tree first studied a wrong path got an implicit empty 200 and the id-only body an empty 202 —
    D09, D10 — found by this check and repaired.) -/
theorem C06_answered_streamable (c : SCfg) (reg : Registry) (st : St) (v : Verb) (ref : Ref) (acc : Bool) (b : Body) :
    (serveStreamable c reg st ⟨v, false, ref, acc, b⟩).2.status = some 404 ∧
    (serveStreamable c reg st ⟨.other, true, ref, acc, b⟩).2.status = some 405 ∧
    (Malformed b → (serveStreamable c reg st ⟨.post, true, ref, acc, b⟩).2.answeredWithError = true) ∧
    (∀ j base, b = .json j → decodeBase j = some base → base.id.isSome = true → base.method = [] →
      decodeResponse j = some (false, false) → (serveStreamable c reg st ⟨.post, true, ref, acc, b⟩).2.answeredWithError = true) := by
  refine ⟨by simp [serveStreamable, Reaction.http, Reaction.status], by simp [serveStreamable, Reaction.http, Reaction.status],
    answered_streamable c reg st ref acc b, ?_⟩
  intro j base hb hd hi hm hr
  subst hb
  simpa [serveStreamable] using id_only_refused c reg st ref j base hd hi hm hr

/-- Legacy SSE, message endpoint: a body that is not a JSON-RPC message is answered with an HTTP error status or with a
    JSON-RPC error object — whatever the verb and the session parameter. -/
theorem C06_answered_sse_partial (reg : Registry) (verb : Verb) (ref : SseRef) (b : Body) (h : Malformed b) :
    (serveSSE reg ⟨verb, .message, ref, b⟩).answeredWithError = true :=
  answered_sse reg verb ref b h

/-- The exclusions on legacy SSE (it writes 202 before it classifies and decodes the body): an id with neither method nor
    result nor error, and a request the typed decoder rejects (here: a parameter no float64 can hold), are accepted with an
    empty 202 and nothing follows on the stream — Streamable answers 400 to both. -/
theorem C06_sse_accepts_then_drops_counterexample :
    let idOnly : Json := .obj [(t!"jsonrpc", .str t!"2.0"), (t!"id", .int 5)]
    let huge := demoEnv (.int 1) t!"ping" (some (.obj [(t!"x", .int (10 ^ 400))]))
    (serveSSE demoReg (ssePostOf idOnly)).answeredWithError = false ∧ (serveSSE demoReg (ssePostOf idOnly)).status = some 202 ∧
    (serveSSE demoReg (ssePostOf idOnly)).messages.length = 0 ∧
    (serveSSE demoReg (ssePostOf huge)).answeredWithError = false ∧ (serveSSE demoReg (ssePostOf huge)).status = some 202 ∧
    (serveSSE demoReg (ssePostOf huge)).messages.length = 0 ∧
    (serveStreamable (demoCfg .stateful) demoReg demoSt (postOf (.sid 0) false idOnly)).2.status = some 400 ∧
    (serveStreamable (demoCfg .stateless) demoReg {} (postOf .none false huge)).2.status = some 400 := by
  decide +kernel

/-- stdio: a line that is not JSON, or not a JSON-RPC message (not an object, not version "2.0", neither id nor method, a
    number no float64 can hold), or a request the typed decoder rejects, is answered with a JSON-RPC error. (The tree first
    studied dropped all of these in silence — D11 — found by this check and repaired.) -/
theorem C06_answered_stdio (reg : Registry) (b : Body) :
    (MalformedLine b → (serveStdio reg b).answeredWithError = true) ∧
    (∀ j, b = .json j → classifyStdio j = some .request → decodeRequest j = none → (serveStdio reg b).answeredWithError = true) :=
  ⟨answered_stdio_malformed reg b, fun j hb hc hd => hb ▸ answered_stdio reg j hc hd⟩

/-- non-vacuity of `MalformedLine`: the lines the old server dropped are in it and get −32700 / −32600 -/
example :
    (serveStdio demoReg .parseFail).errorCode = some (-32700) ∧
    classifyStdio (.arr []) = none ∧ (serveStdio demoReg (.json (.arr []))).errorCode = some (-32600) ∧
    (serveStdio demoReg (.json (.obj [(t!"jsonrpc", .str t!"1.0"), (t!"id", .int 1), (t!"method", .str t!"ping")]))).errorCode = some (-32600) ∧
    (serveStdio demoReg (.json (.obj [(t!"jsonrpc", .str t!"2.0")]))).errorCode = some (-32600) ∧
    (serveStdio demoReg (.json (demoEnv (.int (10 ^ 400)) t!"ping" none))).errorCode = some (-32600) := by
  decide +kernel

/-! ## refused input does not change later answers -/

private theorem postBody_refusal (c : Cfg) (st : St) (k : Kind) (sess : Option Sid)
    (h : 400 ≤ (postBody c st k sess).2.status) : (postBody c st k sess).1 = st := by
  cases k <;> cases hm : c.mode <;> cases sess <;> simp_all [postBody] <;> (repeat' (split at h <;> simp_all)) <;>
    (repeat' (split <;> simp_all))

private theorem postBody_noninit (c : Cfg) (st : St) (k : Kind) (sess : Option Sid) (hk : k = .initBad ∨ k = .request) :
    (postBody c st k sess).1 = st := by
  rcases hk with rfl | rfl <;> simp [postBody]

private theorem resolve_state (c : Cfg) (st st1 : St) (isInit : Bool) (ref : Ref) (sess : Option Sid)
    (h : resolve c st isInit ref = .ok (st1, sess)) :
    st1 = st ∨ (c.mode = .stateful ∧ st1 = { st with issued := st.issued + 1, live := st.issued :: st.live }) := by
  unfold resolve at h
  cases hm : c.mode <;> cases ref <;> simp_all <;> (repeat' (split at h <;> simp_all))

private theorem ansMsg_error (id : Option Json) (a : Ans) (h : ((ansMsg id a).toList).any isErrorMsg = true) :
    ∀ r, a ≠ .result r := by
  intro r hr
  subst hr
  simp [ansMsg, okMsg, isErrorMsg, hasKey, lookup, jsonrpcField] at h

private theorem servePost_refused_state (c : SCfg) (reg : Registry) (st : St) (ref : Ref) (j : Json)
    (h : (servePost c reg st ref j).2.answeredWithError = true) :
    (servePost c reg st ref j).1 = st ∨
    (c.sess.mode = .stateful ∧ (servePost c reg st ref j).1 = { st with issued := st.issued + 1, live := st.issued :: st.live }) := by
  unfold servePost at h ⊢
  cases hb : decodeBase j with
  | none => simp
  | some b =>
    simp only [hb] at h ⊢
    cases hres : resolve c.sess st (b.id.isSome && b.method == t!"initialize") ref with
    | error s => simp
    | ok p =>
      obtain ⟨st1, sess⟩ := p
      have hst1 := resolve_state _ _ _ _ _ _ hres
      simp only [hres] at h ⊢
      by_cases h1 : (b.id.isSome && !b.method.isEmpty) = true
      · simp only [h1, if_true] at h ⊢
        cases hreq : decodeRequest j with
        | none => simpa using hst1
        | some req =>
          simp only [hreq] at h ⊢
          cases hd : dispatch reg req with
          | panic => simpa using hst1
          | ok a =>
            simp only [hd] at h ⊢
            simp [Reaction.answeredWithError, Reaction.http] at h
            have hnr := ansMsg_error _ _ (by simpa using h)
            rw [postBody_noninit]
            · exact hst1
            · unfold requestKind; split
              · cases a <;> simp_all
              · simp
      · simp only [h1, Bool.false_eq_true, if_false] at h ⊢
        by_cases h2 : (!b.method.isEmpty) = true
        · simp only [h2, if_true] at h ⊢
          cases hn : decodeNotification j with
          | none => simpa using hst1
          | some m =>
            simp only [hn] at h ⊢
            simp [Reaction.answeredWithError, Reaction.http] at h
            rw [postBody_refusal _ _ _ _ h]
            exact hst1
        · simp only [h2, Bool.false_eq_true, if_false] at h ⊢
          by_cases h3 : b.id.isSome = true
          · simp only [h3, if_true] at h ⊢
            cases hr : decodeResponse j with
            | none => simpa using hst1
            | some p =>
              simp only [hr] at h ⊢
              have h' : 400 ≤ (postBody c.sess st1 (if (p.1 || p.2) = true then Kind.response else Kind.responseEmpty) sess).2.status := by
                simpa [Reaction.answeredWithError, Reaction.http] using h
              rw [postBody_refusal _ _ _ _ h']
              exact hst1
          · simp only [h3, Bool.false_eq_true, if_false] at h ⊢
            simpa using hst1


private theorem step_refusal (c : Cfg) (st : St) (op : Op) (h : 400 ≤ (step c st op).2.status) : (step c st op).1 = st := by
  apply C04_refusal_is_noop
  cases op with
  | post k r =>
    cases hm : c.mode <;> cases r <;> cases k <;>
      simp_all [step, stepPost, postBody, isInit] <;> (repeat' (split at h <;> simp_all)) <;> (repeat' (split <;> simp_all))
  | get r =>
    cases hm : c.mode <;> cases r <;> simp_all [step, stepGet, noSessGet] <;>
      (repeat' (split at h <;> simp_all)) <;> (repeat' (split <;> simp_all))
  | closeStream s => simp [step] at h
  | delete r =>
    cases hm : c.mode <;> cases r <;> simp_all [step, stepDelete] <;>
      (repeat' (split at h <;> simp_all)) <;> (repeat' (split <;> simp_all))

private theorem refused_state (c : SCfg) (reg : Registry) (st : St) (i : HttpIn)
    (h : (serveStreamable c reg st i).2.answeredWithError = true) :
    (serveStreamable c reg st i).1 = st ∨
    (c.sess.mode = .stateful ∧ (serveStreamable c reg st i).1 = { st with issued := st.issued + 1, live := st.issued :: st.live }) := by
  unfold serveStreamable at h ⊢
  by_cases hp : i.pathOk = true
  · simp only [hp] at h ⊢
    cases hv : i.verb with
    | post =>
      simp only [hv] at h ⊢
      cases hbd : i.body with
      | parseFail => simp
      | json j =>
        simp only [hbd] at h ⊢
        exact servePost_refused_state c reg st i.ref j h
    | get =>
      left
      simp only [hv] at h ⊢
      have h' : 400 ≤ (step c.sess st (.get i.ref)).2.status := by
        simpa [Reaction.answeredWithError, Reaction.http, step] using h
      simpa [step] using step_refusal c.sess st (.get i.ref) h'
    | delete =>
      left
      simp only [hv] at h ⊢
      have h' : 400 ≤ (step c.sess st (.delete i.ref)).2.status := by
        simpa [Reaction.answeredWithError, Reaction.http, step] using h
      simpa [step] using step_refusal c.sess st (.delete i.ref) h'
    | other => simp
  · simp [hp]

private theorem postBody_status_added (c : Cfg) (st : St) (k : Kind) (sess : Option Sid) :
    (postBody c { st with issued := st.issued + 1, live := st.issued :: st.live } k sess).2.status = (postBody c st k sess).2.status := by
  cases k <;> cases hm : c.mode <;> cases sess <;> simp [postBody] <;> (repeat' (split <;> simp_all))

private theorem added_session_irrelevant (c : SCfg) (reg : Registry) (st : St) (good : HttpIn) (hm : c.sess.mode = .stateful)
    (hk : refKnown st good.ref = true) :
    (serveStreamable c reg { st with issued := st.issued + 1, live := st.issued :: st.live } good).2 =
      (serveStreamable c reg st good).2 := by
  unfold serveStreamable
  by_cases hp : good.pathOk = true
  · simp only [hp]
    cases hv : good.verb with
    | post =>
      cases hbd : good.body with
      | parseFail => simp
      | json j =>
        simp only [Bool.not_true, Bool.false_eq_true, if_false]
        unfold servePost
        cases hb : decodeBase j with
        | none => simp
        | some b =>
          simp only []
          cases hr : good.ref with
          | none =>
            simp only [resolve, hm]
            by_cases hi : (b.id.isSome && b.method == t!"initialize") = true
            · have h1 : b.id.isSome = true := by simp_all
              have h2 : b.method = t!"initialize" := by simp_all
              simp [h1, h2]
              cases decodeRequest j with
              | none => simp
              | some req => cases hd : dispatch reg req <;> simp [hd]
            · simp [hi]
          | bogus => simp [resolve, hm]
          | sid s =>
            rw [hr] at hk
            have hne : s ≠ st.issued := by simp [refKnown] at hk; omega
            simp only [resolve, hm, List.mem_cons, hne, false_or]
            by_cases hl : s ∈ st.live
            · simp only [hl, if_true]
              by_cases h1 : (b.id.isSome && !b.method.isEmpty) = true
              · simp only [h1, if_true]
                cases decodeRequest j with
                | none => simp
                | some req => cases hd : dispatch reg req <;> simp [hd]
              · simp only [h1, Bool.false_eq_true, if_false]
                by_cases h2 : (!b.method.isEmpty) = true
                · simp only [h2, if_true]
                  cases decodeNotification j with
                  | none => simp
                  | some m =>
                    simp only []
                    rw [postBody_status_added]
                · simp only [h2, Bool.false_eq_true, if_false]
                  by_cases h3 : b.id.isSome = true
                  · simp only [h3, if_true]
                    cases decodeResponse j with
                    | none => simp
                    | some p =>
                      simp only []
                      rw [postBody_status_added]
                  · simp [h3]
            · simp [hl]
    | get =>
      simp only []
      cases hr : good.ref with
      | none => by_cases hg : c.sess.getEnabled = false <;> simp [stepGet, hm, hg]
      | bogus => by_cases hg : c.sess.getEnabled = false <;> simp [stepGet, hm, hg]
      | sid s =>
        rw [hr] at hk
        have hne : s ≠ st.issued := by simp [refKnown] at hk; omega
        by_cases hg : c.sess.getEnabled = false <;> by_cases hl : s ∈ st.live <;> simp [stepGet, hm, hg, hl, hne]
    | delete =>
      simp only []
      cases hr : good.ref with
      | none => simp [stepDelete]
      | bogus => simp [stepDelete, hm]
      | sid s =>
        rw [hr] at hk
        have hne : s ≠ st.issued := by simp [refKnown] at hk; omega
        by_cases hl : s ∈ st.live <;> simp [stepDelete, hm, hl, hne]
    | other => simp
  · simp [hp]

/-- One refused input (HTTP error status or JSON-RPC error: wrong verbs, unknown or missing sessions, garbage bodies, unknown
    methods, invalid parameters, failing handlers …) and then a request whose session reference names nothing unissued:
    the request is answered exactly as without the refused input. -/
theorem C06_stateless_wrt_garbage_step (c : SCfg) (reg : Registry) (st : St) (bad good : HttpIn)
    (hbad : (serveStreamable c reg st bad).2.answeredWithError = true) (hk : refKnown st good.ref = true) :
    (serveStreamable c reg (serveStreamable c reg st bad).1 good).2 = (serveStreamable c reg st good).2 := by
  rcases refused_state c reg st bad hbad with h | ⟨hm, h⟩ <;> rw [h]
  exact added_session_irrelevant c reg st good hm hk

/-- The same for any number of refused inputs before the request (every prefix of the history is refused at the time it
    arrives): the last reaction of the history is the reaction on the untouched server. -/
theorem C06_stateless_wrt_garbage (c : SCfg) (reg : Registry) (st : St) (bads : List HttpIn) (good : HttpIn)
    (hall : allRefused c reg st bads = true) (hk : refKnown st good.ref = true) :
    (runStreamable c reg st (bads ++ [good])).2 = (runStreamable c reg st bads).2 ++ [(serveStreamable c reg st good).2] := by
  induction bads generalizing st with
  | nil => simp [runStreamable]
  | cons b rest ih =>
    simp only [allRefused, Bool.and_eq_true] at hall
    obtain ⟨hb, hrest⟩ := hall
    have hk' : refKnown (serveStreamable c reg st b).1 good.ref = true := by
      rcases refused_state c reg st b hb with h | ⟨_, h⟩ <;> rw [h]
      · exact hk
      · cases hr : good.ref <;> simp_all [refKnown] <;> omega
    simp only [List.cons_append, runStreamable]
    rw [ih _ hrest hk', C06_stateless_wrt_garbage_step c reg st b good hb hk]

/-- Legacy SSE and stdio keep no state a message could touch: a history's reactions are the reactions to its inputs one
    by one (registry-only state). -/
theorem C06_stateless_wrt_garbage_sse_stdio (reg : Registry) (bads : List SseIn) (good : SseIn) (lines : List Body) (line : Body) :
    (bads ++ [good]).map (serveSSE reg) = bads.map (serveSSE reg) ++ [serveSSE reg good] ∧
    (lines ++ [line]).map (serveStdio reg) = lines.map (serveStdio reg) ++ [serveStdio reg line] := by
  simp

/-- non-vacuity: garbage, a wrong verb, an unknown session, an unknown method and an `initialize` with bad parameters and no
    session header (which leaves a session behind) are all refused; the tools/call that follows in session 0 is answered
    as on the untouched server -/
example :
    let bads : List HttpIn := [⟨.post, true, .sid 0, false, .parseFail⟩, ⟨.other, true, .none, false, .parseFail⟩,
      postOf .bogus false (demoEnv (.int 1) t!"ping" none), postOf (.sid 0) false (demoEnv (.int 2) t!"verif/nope" none),
      postOf .none false (demoEnv (.int 3) t!"initialize" (some (.int 5)))]
    let good := postOf (.sid 0) false (demoEnv (.str t!"g") t!"tools/call" (some (callParams t!"echo")))
    allRefused (demoCfg .stateful) demoReg demoSt bads = true ∧ refKnown demoSt good.ref = true ∧
    ((runStreamable (demoCfg .stateful) demoReg demoSt bads).1.live.length = 2) ∧
    (serveStreamable (demoCfg .stateful) demoReg demoSt good).2.hasResult = true := by
  decide +kernel

end Mcp.Props.C06
