/-
  C15 — Middlewares wrap every request as an onion, each exactly once.

  `run ms h` is the chain `applyMiddlewares` builds in the compliant region (first registered = outermost) around
  the dispatch function of an arbitrary method handler `h`; `serve` adds registration (both option forms, both
  servers), the outcome mapping of the transports and the notification path, indexed by the regenerated facts.
  All theorems are for chains of every length and every mixture of the five behaviours.
-/
import Mcp.Model.Middleware
import Mcp.Gen.MiddlewareFacts
namespace Mcp.Props.C15
open Mcp.Middleware Mcp.Str

/-! ## unfolding lemmas -/

private theorem run_nil (h : Req → Out) (req : Req) : run [] h req = ([.handler req.mods], h req) := rfl

private theorem run_cons (s : Stage) (ms : List Stage) (h : Req → Out) (req : Req) :
    run (s :: ms) h req = s.wrap (run ms h) req := rfl

private theorem live_append_of_calls (pre rest : List Stage) (hp : ∀ s ∈ pre, s.beh.calls = true) :
    live (pre ++ rest) = pre ++ live rest := by
  induction pre with
  | nil => rfl
  | cons s pre ih =>
    have hs : s.beh.calls = true := hp s (by simp)
    have := ih (fun t ht => hp t (by simp [ht]))
    simp [live, hs, this]

private theorem stopper_append_of_calls (pre rest : List Stage) (hp : ∀ s ∈ pre, s.beh.calls = true) :
    stopper (pre ++ rest) = stopper rest := by
  induction pre with
  | nil => rfl
  | cons s pre ih =>
    have hs : s.beh.calls = true := hp s (by simp)
    have := ih (fun t ht => hp t (by simp [ht]))
    simp [stopper, hs, this]

private theorem inside_append_of_calls (pre rest : List Stage) (hp : ∀ s ∈ pre, s.beh.calls = true) :
    inside (pre ++ rest) = inside rest := by
  induction pre with
  | nil => rfl
  | cons s pre ih =>
    have hs : s.beh.calls = true := hp s (by simp)
    have := ih (fun t ht => hp t (by simp [ht]))
    simp [inside, hs, this]

private theorem live_of_all_call (ms : List Stage) (hp : ∀ s ∈ ms, s.beh.calls = true) :
    live ms = ms ∧ stopper ms = none := by
  have h1 := live_append_of_calls ms [] hp
  have h2 := stopper_append_of_calls ms [] hp
  simp [live, stopper] at h1 h2
  exact ⟨h1, h2⟩

/-- A chain is its live prefix, then the stopping stage (if any), then what is inside it. -/
private theorem split_chain (ms : List Stage) : ms = live ms ++ (stopper ms).toList ++ inside ms := by
  induction ms with
  | nil => rfl
  | cons s ms ih =>
    by_cases hs : s.beh.calls = true
    · simp only [live, stopper, inside, hs, if_true, List.cons_append]
      exact congrArg (s :: ·) ih
    · simp [live, stopper, inside, hs]

/-! ## the onion -/

/-- **Onion order, every chain.** The trace of a request is: the `before` of every stage in front of the first
    stage that does not call `next` (in registration order), then that stage's `before` — or the method handler
    when every stage calls `next` —, then the `after`s of the stages in front in reverse order. Nothing else. -/
theorem C15_trace_shape (ms : List Stage) (h : Req → Out) (req : Req) :
    tags (run ms h req).1 =
      (live ms).map (fun s => Tag.b s.id)
        ++ (match stopper ms with | none => [Tag.h] | some s => [Tag.b s.id])
        ++ (live ms).reverse.map (fun s => Tag.a s.id) := by
  induction ms generalizing req with
  | nil => simp [run_nil, tags, live, stopper, Ev.tag]
  | cons s ms ih =>
    rcases s with ⟨i, b⟩
    cases b with
    | pass =>
      have := ih req
      simp only [tags] at this
      simp [run_cons, Stage.wrap, live, stopper, Beh.calls, tags, Ev.tag, this]
    | modReq =>
      have := ih { req with mods := req.mods ++ [i] }
      simp only [tags] at this
      simp [run_cons, Stage.wrap, live, stopper, Beh.calls, tags, Ev.tag, this]
    | modRes =>
      have := ih req
      simp only [tags] at this
      simp [run_cons, Stage.wrap, live, stopper, Beh.calls, tags, Ev.tag, this]
    | short v => simp [run_cons, Stage.wrap, live, stopper, Beh.calls, tags, Ev.tag]
    | fail e => simp [run_cons, Stage.wrap, live, stopper, Beh.calls, tags, Ev.tag]

/-- **The statement's first sentence.** With stages `m1..mn` that all call `next` (pass, modify the request,
    modify the result) the trace is `m1-before, …, mn-before, handler, mn-after, …, m1-after`. -/
theorem C15_onion (ms : List Stage) (h : Req → Out) (req : Req) (hall : ∀ s ∈ ms, s.beh.calls = true) :
    tags (run ms h req).1 = ms.map (fun s => Tag.b s.id) ++ [Tag.h] ++ ms.reverse.map (fun s => Tag.a s.id) := by
  have hs := C15_trace_shape ms h req
  obtain ⟨hl, hst⟩ := live_of_all_call ms hall
  rw [hl, hst] at hs
  exact hs

private theorem ids_wrap (i : Nat) (m : List Nat) (t : List Ev) (o : Out) :
    beforeIds (.before i m :: (t ++ [.after i o])) = i :: beforeIds t
    ∧ afterIds (.before i m :: (t ++ [.after i o])) = afterIds t ++ [i]
    ∧ handlerRuns (.before i m :: (t ++ [.after i o])) = handlerRuns t := by
  simp [beforeIds, afterIds, handlerRuns, List.filterMap_append, List.filter_append]

/-- **Each exactly once, positionally.** The stages whose `before` is in the trace are exactly the stages up to
    and including the first that does not call `next`, each as often as it is registered and in registration
    order; the stages whose `after` is in the trace are exactly those in front of it, in reverse order; the
    handler runs once when every stage calls `next` and not at all otherwise. -/
theorem C15_once (ms : List Stage) (h : Req → Out) (req : Req) :
    beforeIds (run ms h req).1 = (live ms ++ (stopper ms).toList).map (·.id)
    ∧ afterIds (run ms h req).1 = ((live ms).map (·.id)).reverse
    ∧ handlerRuns (run ms h req).1 = (if (stopper ms).isNone then 1 else 0) := by
  induction ms generalizing req with
  | nil => simp [run_nil, beforeIds, afterIds, handlerRuns, live, stopper]
  | cons s ms ih =>
    rcases s with ⟨i, b⟩
    cases b with
    | pass =>
      obtain ⟨h1, h2, h3⟩ := ih req
      obtain ⟨w1, w2, w3⟩ := ids_wrap i req.mods (run ms h req).1 (run ms h req).2
      simp only [run_cons, Stage.wrap]
      rw [w1, w2, w3, h1, h2, h3]
      simp [live, stopper, Beh.calls]
    | modReq =>
      obtain ⟨h1, h2, h3⟩ := ih { req with mods := req.mods ++ [i] }
      obtain ⟨w1, w2, w3⟩ := ids_wrap i req.mods (run ms h { req with mods := req.mods ++ [i] }).1
        (run ms h { req with mods := req.mods ++ [i] }).2
      simp only [run_cons, Stage.wrap]
      rw [w1, w2, w3, h1, h2, h3]
      simp [live, stopper, Beh.calls]
    | modRes =>
      obtain ⟨h1, h2, h3⟩ := ih req
      obtain ⟨w1, w2, w3⟩ := ids_wrap i req.mods (run ms h req).1 (run ms h req).2
      simp only [run_cons, Stage.wrap]
      rw [w1, w2, w3, h1, h2, h3]
      simp [live, stopper, Beh.calls]
    | short v => simp [run_cons, Stage.wrap, live, stopper, Beh.calls, beforeIds, afterIds, handlerRuns]
    | fail e => simp [run_cons, Stage.wrap, live, stopper, Beh.calls, beforeIds, afterIds, handlerRuns]

private theorem nodup_reverse' {l : List Nat} (h : l.Nodup) : l.reverse.Nodup := by
  unfold List.Nodup at *
  rw [List.pairwise_reverse]
  exact h.imp (fun hab => Ne.symm hab)

/-- **At most once.** When the registered stages are distinct no stage enters twice, none leaves twice, and the
    handler runs at most once. -/
theorem C15_at_most_once (ms : List Stage) (h : Req → Out) (req : Req) (hd : (ms.map (·.id)).Nodup) :
    (beforeIds (run ms h req).1).Nodup ∧ (afterIds (run ms h req).1).Nodup ∧ handlerRuns (run ms h req).1 ≤ 1 := by
  obtain ⟨h1, h2, h3⟩ := C15_once ms h req
  have hsub : List.Sublist ((live ms ++ (stopper ms).toList).map (·.id)) (ms.map (·.id)) := by
    apply List.Sublist.map
    have hsp := split_chain ms
    have : List.Sublist (live ms ++ (stopper ms).toList) (live ms ++ (stopper ms).toList ++ inside ms) :=
      List.sublist_append_left _ _
    rw [← hsp] at this
    exact this
  have hsub2 : List.Sublist ((live ms).map (·.id)) ((live ms ++ (stopper ms).toList).map (·.id)) := by
    apply List.Sublist.map
    exact List.sublist_append_left _ _
  refine ⟨?_, ?_, ?_⟩
  · rw [h1]; exact hd.sublist hsub
  · rw [h2]; exact nodup_reverse' ((hd.sublist hsub).sublist hsub2)
  · rw [h3]; split <;> simp

/-! ## what comes back -/

/-- **The result, every chain.** What the chain returns is what the innermost thing that ran produced — the
    handler on the request as modified by the stages in front of it, or the value of the first stage that did
    not call `next` — with the marks of the result-modifying stages in front of it, innermost first. -/
theorem C15_result (ms : List Stage) (h : Req → Out) (req : Req) :
    (run ms h req).2 =
      resMods (live ms) (match stopper ms with
        | none => h { mods := req.mods ++ reqMods (live ms) }
        | some s => s.beh.stopOut) := by
  induction ms generalizing req with
  | nil => simp [run_nil, live, stopper, resMods, reqMods]
  | cons s ms ih =>
    rcases s with ⟨i, b⟩
    cases b with
    | pass => simp [run_cons, Stage.wrap, live, stopper, Beh.calls, resMods, reqMods, Beh.isModRes, Beh.isModReq, ih req]
    | modReq =>
      have := ih { req with mods := req.mods ++ [i] }
      simp [run_cons, Stage.wrap, live, stopper, Beh.calls, resMods, reqMods, Beh.isModRes, Beh.isModReq, this]
    | modRes => simp [run_cons, Stage.wrap, live, stopper, Beh.calls, resMods, reqMods, Beh.isModRes, Beh.isModReq, ih req]
    | short v => simp [run_cons, Stage.wrap, live, stopper, Beh.calls, resMods, Beh.stopOut]
    | fail e => simp [run_cons, Stage.wrap, live, stopper, Beh.calls, resMods, Beh.stopOut]

/-- **The request flows inwards.** A stage behind stages that all call `next` sees the request with exactly the
    modifications of the request-modifying stages in front of it, in registration order. -/
theorem C15_stage_sees (pre post : List Stage) (s : Stage) (h : Req → Out) (req : Req)
    (hpre : ∀ t ∈ pre, t.beh.calls = true) :
    Ev.before s.id (req.mods ++ reqMods pre) ∈ (run (pre ++ s :: post) h req).1 := by
  induction pre generalizing req with
  | nil =>
    rcases s with ⟨i, b⟩
    cases b <;> simp [run_cons, Stage.wrap, reqMods]
  | cons t pre ih =>
    have ht : t.beh.calls = true := hpre t (by simp)
    have hpre' : ∀ u ∈ pre, u.beh.calls = true := fun u hu => hpre u (by simp [hu])
    rcases t with ⟨j, b⟩
    cases b with
    | pass =>
      have := ih req hpre'
      simp [run_cons, Stage.wrap, reqMods, Beh.isModReq] at this ⊢
      exact Or.inr this
    | modReq =>
      have := ih { req with mods := req.mods ++ [j] } hpre'
      simp [run_cons, Stage.wrap, reqMods, Beh.isModReq] at this ⊢
      exact this
    | modRes =>
      have := ih req hpre'
      simp [run_cons, Stage.wrap, reqMods, Beh.isModReq] at this ⊢
      exact Or.inr this
    | short v => simp [Beh.calls] at ht
    | fail e => simp [Beh.calls] at ht

/-- The handler, when it runs, sees the request as modified by all request-modifying stages. -/
theorem C15_handler_sees (ms : List Stage) (h : Req → Out) (req : Req) (hall : ∀ s ∈ ms, s.beh.calls = true) :
    Ev.handler (req.mods ++ reqMods ms) ∈ (run ms h req).1 := by
  induction ms generalizing req with
  | nil => simp [run_nil, reqMods]
  | cons t ms ih =>
    have ht : t.beh.calls = true := hall t (by simp)
    have hall' : ∀ u ∈ ms, u.beh.calls = true := fun u hu => hall u (by simp [hu])
    rcases t with ⟨j, b⟩
    cases b with
    | pass =>
      have := ih req hall'
      simp [run_cons, Stage.wrap, reqMods, Beh.isModReq] at this ⊢
      exact this
    | modReq =>
      have := ih { req with mods := req.mods ++ [j] } hall'
      simp [run_cons, Stage.wrap, reqMods, Beh.isModReq] at this ⊢
      exact this
    | modRes =>
      have := ih req hall'
      simp [run_cons, Stage.wrap, reqMods, Beh.isModReq] at this ⊢
      exact this
    | short v => simp [Beh.calls] at ht
    | fail e => simp [Beh.calls] at ht

/-! ## short-circuit -/

/-- **Short-circuit.** A stage that returns `v` without calling `next` (behind stages that call `next`):
    the trace is the `before`s of the stages in front, its own `before`, and their `after`s in reverse —
    no handler, nothing of the stages inside — and the chain returns `v` with the marks of the
    result-modifying stages in front of it. -/
theorem C15_short (pre post : List Stage) (i : Nat) (v : ShortVal) (h : Req → Out) (req : Req)
    (hpre : ∀ s ∈ pre, s.beh.calls = true) :
    tags (run (pre ++ ⟨i, .short v⟩ :: post) h req).1
        = pre.map (fun s => Tag.b s.id) ++ [Tag.b i] ++ pre.reverse.map (fun s => Tag.a s.id)
    ∧ (run (pre ++ ⟨i, .short v⟩ :: post) h req).2 = resMods pre v.out := by
  have hl : live (pre ++ ⟨i, .short v⟩ :: post) = pre := by
    rw [live_append_of_calls _ _ hpre]; simp [live, Beh.calls]
  have hs : stopper (pre ++ ⟨i, .short v⟩ :: post) = some ⟨i, .short v⟩ := by
    rw [stopper_append_of_calls _ _ hpre]; simp [stopper, Beh.calls]
  refine ⟨?_, ?_⟩
  · have := C15_trace_shape (pre ++ ⟨i, .short v⟩ :: post) h req
    rw [hl, hs] at this
    exact this
  · have := C15_result (pre ++ ⟨i, .short v⟩ :: post) h req
    rw [hl, hs] at this
    simpa [Beh.stopOut] using this

/-- When no stage in front modifies results, the short-circuit value is the chain's return value, untouched. -/
theorem C15_short_value_untouched (pre post : List Stage) (i : Nat) (v : ShortVal) (h : Req → Out) (req : Req)
    (hpre : ∀ s ∈ pre, s.beh.calls = true) (hno : ∀ s ∈ pre, s.beh.isModRes = false) :
    (run (pre ++ ⟨i, .short v⟩ :: post) h req).2 = v.out := by
  rw [(C15_short pre post i v h req hpre).2]
  clear hpre
  induction pre with
  | nil => rfl
  | cons s pre ih =>
    have hs : s.beh.isModRes = false := hno s (by simp)
    simp [resMods, hs, ih (fun t ht => hno t (by simp [ht]))]

/-- **Nothing inside runs — extensionally.** Whatever is registered inside a stage that does not call `next`,
    and whatever the method handler is, neither the trace nor the return value depends on it. -/
theorem C15_inside_irrelevant (pre post post' : List Stage) (s : Stage) (h h' : Req → Out) (req : Req)
    (hs : s.beh.calls = false) :
    run (pre ++ s :: post) h req = run (pre ++ s :: post') h' req := by
  induction pre generalizing req with
  | nil =>
    rcases s with ⟨i, b⟩
    cases b <;> simp_all [run_cons, Stage.wrap, Beh.calls]
  | cons t pre ih =>
    rcases t with ⟨j, b⟩
    cases b <;> simp [run_cons, Stage.wrap, ih]

/-- No event of a stage inside a short-circuiting / failing stage and no handler event is in the trace
    (stages distinct). -/
theorem C15_inside_silent (ms : List Stage) (h : Req → Out) (req : Req) (hd : (ms.map (·.id)).Nodup)
    (hstop : (stopper ms).isSome) :
    Tag.h ∉ tags (run ms h req).1 ∧
    ∀ t ∈ inside ms, Tag.b t.id ∉ tags (run ms h req).1 ∧ Tag.a t.id ∉ tags (run ms h req).1 := by
  have hshape := C15_trace_shape ms h req
  obtain ⟨s, hs⟩ := Option.isSome_iff_exists.mp hstop
  rw [hs] at hshape
  have hsp := split_chain ms
  rw [hs] at hsp
  simp only [Option.toList] at hsp
  rw [hsp] at hd
  simp only [List.map_append, List.map_cons, List.map_nil] at hd
  have hdis := List.nodup_append.mp hd
  refine ⟨?_, ?_⟩
  · rw [hshape]; simp
  · intro t ht
    have hnot : t.id ∉ (live ms).map (·.id) ++ [s.id] := by
      intro hin
      exact hdis.2.2 t.id hin t.id (List.mem_map.mpr ⟨t, ht, rfl⟩) rfl
    have hA : ∀ u ∈ live ms, ¬ u.id = t.id := by
      intro u hu he
      exact hnot (by simp only [List.mem_append, List.mem_map]; exact Or.inl ⟨u, hu, he⟩)
    have hB : ¬ t.id = s.id := by
      intro he
      exact hnot (by simp [he])
    rw [hshape]
    simp [hB]
    exact hA

/-! ## failure -/

/-- **A middleware error.** A stage that returns `(nil, errors.New e)` behind stages that call `next`: nothing
    inside runs and the chain returns that error, untouched by the result-modifying stages in front. -/
theorem C15_fail (pre post : List Stage) (i : Nat) (e : Text) (h : Req → Out) (req : Req)
    (hpre : ∀ s ∈ pre, s.beh.calls = true) :
    tags (run (pre ++ ⟨i, .fail e⟩ :: post) h req).1
        = pre.map (fun s => Tag.b s.id) ++ [Tag.b i] ++ pre.reverse.map (fun s => Tag.a s.id)
    ∧ (run (pre ++ ⟨i, .fail e⟩ :: post) h req).2 = .err e := by
  have hl : live (pre ++ ⟨i, .fail e⟩ :: post) = pre := by
    rw [live_append_of_calls _ _ hpre]; simp [live, Beh.calls]
  have hs : stopper (pre ++ ⟨i, .fail e⟩ :: post) = some ⟨i, .fail e⟩ := by
    rw [stopper_append_of_calls _ _ hpre]; simp [stopper, Beh.calls]
  refine ⟨?_, ?_⟩
  · have := C15_trace_shape (pre ++ ⟨i, .fail e⟩ :: post) h req
    rw [hl, hs] at this
    exact this
  · have := C15_result (pre ++ ⟨i, .fail e⟩ :: post) h req
    rw [hl, hs] at this
    rw [this]
    simp only [Beh.stopOut]
    clear hl hs this hpre
    induction pre with
    | nil => rfl
    | cons s pre ih => simp only [resMods]; split <;> simp [ih, Out.addMod]

/-- … and the client receives a JSON-RPC error with the internal-error code carrying the message. -/
theorem C15_fail_response (code : Int) (pre post : List Stage) (i : Nat) (e : Text) (h : Req → Out) (req : Req)
    (hpre : ∀ s ∈ pre, s.beh.calls = true) :
    respond code (run (pre ++ ⟨i, .fail e⟩ :: post) h req).2 = .error code e [] := by
  rw [(C15_fail pre post i e h req hpre).2]; rfl

/-- The only ways a client gets an answer that is not the chain's own value: a Go error. Results and
    `*JSONRPCError` values are delivered as they are. -/
theorem C15_value_delivered (code : Int) (o : Out) :
    (∀ v rm, o = .ok v rm → respond code o = .result v rm) ∧
    (∀ c m rm, o = .rpcErr c m rm → respond code o = .error c m rm) := by
  refine ⟨?_, ?_⟩ <;> intros <;> subst_vars <;> rfl

/-! ## registration: both option forms, both servers -/

private theorem foldl_use (reg ms : List Stage) : ms.foldl use reg = reg ++ ms := by
  induction ms generalizing reg with
  | nil => simp
  | cons m ms ih => simp [List.foldl, use, ih]

private theorem foldl_pending (p : List Stage) (opts : List (List Stage)) :
    opts.foldl (fun pending ms => pending ++ ms) p = p ++ opts.flatten := by
  induction opts generalizing p with
  | nil => simp
  | cons o opts ih => simp [List.foldl, ih]

/-- `NewServer(WithMiddleware(g1…), WithMiddleware(g2…), …)` registers the concatenation, in order. -/
theorem C15_registration (opts : List (List Stage)) :
    newServer opts = opts.flatten ∧ newSSEServer opts = opts.flatten := by
  refine ⟨?_, ?_⟩
  · simp [newServer, foldl_pending, foldl_use]
  · unfold newSSEServer
    have hf : (fun (reg : List Stage) (ms : List Stage) => ms.foldl use reg) = (fun reg ms => reg ++ ms) := by
      funext reg ms; exact foldl_use reg ms
    rw [hf, foldl_pending]; simp

/-- **Both option forms.** `WithMiddleware(a, b)` ≡ `WithMiddleware(a), WithMiddleware(b)` — and any two
    groupings of the same sequence — on either server, for every message. -/
theorem C15_option_forms (f : Facts) (tr : Transport) (opts opts' : List (List Stage)) (h : Req → Out) (m : Msg)
    (hsame : opts.flatten = opts'.flatten) : serve f tr opts h m = serve f tr opts' h m := by
  have hr : registered tr opts = registered tr opts' := by
    cases tr <;> simp [registered, C15_registration, hsame]
  cases m <;> simp [serve, hr]

theorem C15_option_forms_pair (f : Facts) (tr : Transport) (a b : Stage) (h : Req → Out) (m : Msg) :
    serve f tr [[a, b]] h m = serve f tr [[a], [b]] h m :=
  C15_option_forms f tr _ _ h m rfl

/-! ## notifications, independence of requests -/

/-- **Notifications bypass the chain**: no stage runs, nothing is answered. -/
theorem C15_notifications_bypass (f : Facts) (tr : Transport) (opts : List (List Stage)) (h : Req → Out)
    (hf : f.notifBypass = true) : serve f tr opts h .notification = ([], none) := by
  simp [serve, hf]

/-- **For that request only.** What one message of a batch gets depends on nothing but that message and the
    behaviour the stages show on it: a failing request in the batch changes no other answer. -/
theorem C15_per_request (f : Facts) (tr : Transport) (h : Req → Out)
    (before after : List (List (List Stage) × Msg)) (x : List (List Stage) × Msg) :
    serveAll f tr h (before ++ x :: after) = serveAll f tr h before ++ serve f tr x.1 h x.2 :: serveAll f tr h after := by
  simp [serveAll]

/-! ## the other constructor options: their order is irrelevant -/

private theorem append_ne_of_last (n suf c : Text) (x y : Nat) (hs : suf.getLast? = some x)
    (hc : c.getLast? = some y) (hxy : x ≠ y) : n ++ suf ≠ c := by
  intro h
  have h2 : (n ++ suf).getLast? = some x := by
    rw [List.getLast?_append, hs]; rfl
  rw [h, hc] at h2
  exact hxy (Option.some.inj h2).symm

/-- When the writers of the field are exactly the constructors, no option — whatever its name — replaces the handler. -/
private theorem no_option_replaces (writers : List Text) (hw : handlerNotReplaced writers = true) (name : Text) :
    replacesHandler writers name = false := by
  have he : writers = handlerConstructors := by
    unfold handlerNotReplaced at hw
    exact eq_of_beq hw
  subst he
  have h1 : name ++ t!".func1" ≠ t!"NewSSEServer" :=
    append_ne_of_last name _ _ 49 114 (by decide) (by decide) (by decide)
  have h2 : name ++ t!".func1" ≠ t!"Server.initComponents" :=
    append_ne_of_last name _ _ 49 115 (by decide) (by decide) (by decide)
  simp [replacesHandler, handlerConstructors, h1, h2]

private theorem foldl_sseX (ws : List Text) (hr : ∀ n, replacesHandler ws n = false) (opts : List Opt) (reg : List Stage) :
    opts.foldl (sseOptStep ws) reg = reg ++ (Opt.groups opts).flatten := by
  induction opts generalizing reg with
  | nil => simp [Opt.groups]
  | cons o opts ih =>
    rw [List.foldl_cons, ih]
    cases o with
    | mw ms => simp [sseOptStep, Opt.groups, foldl_use]
    | other n => simp [sseOptStep, Opt.groups, hr n]

/-- **Registration does not depend on the other options.** When nothing but the constructors writes the handler field,
    a server built from ANY interleaving of middleware options with any other options registers exactly the
    concatenation of the middleware options, in their order — on both servers. -/
theorem C15_other_options_irrelevant (writers : List Text) (hw : handlerNotReplaced writers = true) (tr : Transport)
    (opts : List Opt) : registeredX writers tr opts = (Opt.groups opts).flatten := by
  cases tr with
  | streamable => simp [registeredX, newServerX, C15_registration]
  | sse =>
    have := foldl_sseX writers (no_option_replaces writers hw) opts []
    simp only [List.nil_append] at this
    exact this

/-- … hence every message is served exactly as by the server built from the middleware options alone: all theorems
    about `serve` / `run` hold for every position of the middleware options among the other options. -/
theorem C15_option_order (f : Facts) (writers : List Text) (hw : handlerNotReplaced writers = true) (tr : Transport)
    (opts : List Opt) (h : Req → Out) (m : Msg) :
    serveX f writers tr opts h m = serve f tr (Opt.groups opts) h m := by
  have hr : registeredX writers tr opts = registered tr (Opt.groups opts) := by
    rw [C15_other_options_irrelevant writers hw tr opts]
    cases tr <;> simp [registered, C15_registration]
  cases m <;> simp [serveX, serve, hr]

/-- The model family is not trivial in the fact: were the closure of `WithSSEServerLogger` among the writers of the
    field, the predicate rejects the table, and a middleware registered before that option would be lost on the legacy
    SSE server (not on the Streamable one, whose handler is created after the options). -/
theorem C15_handler_replaced_witness :
    let ws := [t!"NewSSEServer", t!"Server.initComponents", t!"WithSSEServerLogger.func1"]
    handlerNotReplaced ws = false
    ∧ newSSEServerX ws [.mw [⟨0, .pass⟩], .other t!"WithSSEServerLogger", .mw [⟨1, .pass⟩]] = [⟨1, .pass⟩]
    ∧ newSSEServerX ws [.other t!"WithSSEServerLogger", .mw [⟨0, .pass⟩], .mw [⟨1, .pass⟩]] = [⟨0, .pass⟩, ⟨1, .pass⟩]
    ∧ registeredX ws .streamable [.mw [⟨0, .pass⟩], .other t!"WithSSEServerLogger", .mw [⟨1, .pass⟩]] = [⟨0, .pass⟩, ⟨1, .pass⟩] := by
  decide

/-! ## overlapping requests of one session -/

/-- **Every request passes the chain, however many others of its session are in flight**: with an unconditional
    hand-over a message is served exactly as if it were alone — all theorems about `serve` / `run` hold for each of any
    number of overlapping requests. -/
theorem C15_overlap_every_request_served (f : Facts) (tr : Transport) (opts : List (List Stage)) (h : Req → Out)
    (inflight : Nat) (m : Msg) : serveOverlapping f none tr opts h inflight m = serve f tr opts h m := by
  simp [serveOverlapping, admitted]

/-- The family is not trivial in the gate: behind a non-blocking gate of 16 tokens the 17th overlapping request has an
    empty trace and no answer (the first 16 are served), and the predicate rejects the shape such a gate has in the source. -/
theorem C15_gate_witness (f : Facts) (tr : Transport) (opts : List (List Stage)) (h : Req → Out) (m : Msg) :
    serveOverlapping f (some 16) tr opts h 16 m = ([], none)
    ∧ serveOverlapping f (some 16) tr opts h 15 m = serve f tr opts h m
    ∧ dispatchNeverDrops [t!"decl", t!"unmarshal-guard", t!"select-default", t!"go-other"] sseProcessDirect true 0 = false := by
  refine ⟨?_, ?_, by decide⟩ <;> simp [serveOverlapping, admitted]

/-! ## the facts of today's source -/

theorem C15_fact_first_registered_outermost :
    Mcp.Gen.mwLoopDescending = true ∧ Mcp.Gen.mwLoopAscending = false ∧ Mcp.Gen.mwHandleRequestRunsChain = true := by decide

theorem C15_fact_registration_in_order : Mcp.Gen.mwUseAppends = true ∧ Mcp.Gen.mwRegistrationInOrder = true := by decide

theorem C15_fact_notifications_bypass : Mcp.Gen.mwNotificationsBypass = true := by decide

theorem C15_fact_internal_error_code :
    Mcp.Gen.mwInternalCodeStreamable = -32603 ∧ Mcp.Gen.mwInternalCodeSSE = -32603 := by decide

/-- **No option and no method replaces the handler** the middlewares are registered on: in today's source the field
    `mcpHandler` is given a value by `NewSSEServer` (once) and `Server.initComponents` (once) and by nothing else. -/
theorem C15_handler_not_replaced : handlerNotReplaced Mcp.Gen.mwHandlerWriters = true := by decide

/-- … and both struct types that carry such a field are covered by that table. -/
theorem C15_fact_handler_holders : Mcp.Gen.mwHandlerHolders = [t!"SSEServer", t!"Server"] := by decide

/-- **No path drops a request after acknowledging it**: in today's source `handleRequestMessage` is
    `var request; parse guard; go s.processRequestAsync(…)`, `processRequestAsync` reaches `mcpHandler.handleRequest`
    behind nothing but the detached context and the roots-response guard, the 202 in `handleMessage` is directly followed by
    the request branch, and the Streamable POST path contains no `select`. -/
theorem C15_fact_dispatch_never_drops :
    dispatchNeverDrops Mcp.Gen.mwSSEDispatchShape Mcp.Gen.mwSSEProcessPrefix Mcp.Gen.mwSSEAckThenDispatch
      Mcp.Gen.mwStreamableDispatchSelects = true := by decide

/-- **The code as it is today** is in the compliant region (together with `C15_fact_first_registered_outermost`:
    `handleRequest` builds the chain once per request around the dispatch function and runs it once): a request against a server built from `opts` on
    either transport yields exactly the onion run over the concatenated options, answered with −32603 for a
    Go error; a notification yields nothing. All theorems above about `run` therefore speak about `serve codeFacts`. -/
theorem C15_code_serve (tr : Transport) (opts : List (List Stage)) (h : Req → Out) (r : Req) :
    serve codeFacts tr opts h (.request r)
      = ((run opts.flatten h r).1, some (respond (-32603) (run opts.flatten h r).2))
    ∧ serve codeFacts tr opts h .notification = ([], none) := by
  have hreg : registered tr opts = opts.flatten := by
    cases tr <;> simp [registered, C15_registration]
  have hfo : codeFacts.firstOutermost = true := by decide
  have hnb : codeFacts.notifBypass = true := by decide
  have hcode : codeFacts.code tr = -32603 := by cases tr <;> decide
  refine ⟨?_, ?_⟩
  · simp [serve, applyMiddlewares, hreg, hfo, hcode, run]
  · simp [serve, hnb]

/-- **The code as it is today, any option order**: a request against a server built from any interleaving of
    middleware options and other options yields the onion run over the concatenated middleware options. -/
theorem C15_code_serve_any_order (tr : Transport) (opts : List Opt) (h : Req → Out) (r : Req) :
    serveX codeFacts codeWriters tr opts h (.request r)
      = ((run (Opt.groups opts).flatten h r).1, some (respond (-32603) (run (Opt.groups opts).flatten h r).2)) := by
  rw [C15_option_order codeFacts codeWriters C15_handler_not_replaced tr opts h (.request r)]
  exact (C15_code_serve tr (Opt.groups opts) h r).1

/-- **The code as it is today, any number of overlapping requests**: a request that arrives while `inflight` others
    of its session are being processed yields exactly the onion run, on both transports. -/
theorem C15_code_serve_overlapping (tr : Transport) (opts : List (List Stage)) (h : Req → Out) (inflight : Nat) (r : Req) :
    serveOverlapping codeFacts (codeGate tr) tr opts h inflight (.request r)
      = ((run opts.flatten h r).1, some (respond (-32603) (run opts.flatten h r).2)) := by
  have hg : codeGate tr = none := by
    unfold codeGate
    rw [C15_fact_dispatch_never_drops]; rfl
  rw [hg, C15_overlap_every_request_served]
  exact (C15_code_serve tr opts h r).1

/-- **A modification is for that request only.** No request handler returns a package-level variable as its result and
    `handlePing` builds its empty object per call (regenerated): so what a result-modifying middleware writes into the
    result it was handed — in place — reaches the answer of that request and of no other, on this or any other server of
    the process. -/
theorem C15_fact_fresh_results : codeFreshResults = true := by decide

theorem C15_modification_for_that_request_only (m : Nat) : secondAnswerMarks codeFreshResults m = [] := by
  rw [C15_fact_fresh_results]; rfl

/-- The bad region (seeded change C15-18): `handlePing` returning one package-level `emptyResult` is rejected, and with a
    shared object the second ping's answer carries the first one's mark. -/
theorem C15_shared_result_witness :
    freshResults [(t!"mcpHandler.handlePing", t!"emptyResult")] t!"var:emptyResult" = false ∧
    freshResults [] t!"var:emptyResult" = false ∧ freshResults [] t!"missing" = false ∧
    secondAnswerMarks false 7 = [7] := by decide

/-! ## non-vacuity: concrete instances -/

/-- three stages that all call `next`: the full onion, the handler sees the request modification, the result
    carries the result mark. -/
example :
    run [⟨0, .pass⟩, ⟨1, .modReq⟩, ⟨2, .modRes⟩] (fun r => .ok (.handler r.mods) []) {} =
      ([.before 0 [], .before 1 [], .before 2 [1], .handler [1], .after 2 (.ok (.handler [1]) []),
        .after 1 (.ok (.handler [1]) [2]), .after 0 (.ok (.handler [1]) [2])], .ok (.handler [1]) [2]) := by decide

/-- a short-circuit in the middle: stage 2 and the handler do not run, the value comes back with the outer mark. -/
example :
    run [⟨0, .modRes⟩, ⟨1, .short (.okv 7)⟩, ⟨2, .pass⟩] (fun r => .ok (.handler r.mods) []) {} =
      ([.before 0 [], .before 1 [], .after 0 (.ok (.short 7) [])], .ok (.short 7) [0]) := by decide

/-- a failing stage: the client gets −32603 with the message, on both transports, through either option form. -/
example :
    serve codeFacts .sse [[⟨0, .pass⟩], [⟨1, .fail t!"boom"⟩, ⟨2, .modRes⟩]] (fun r => .ok (.handler r.mods) []) (.request {}) =
      ([.before 0 [], .before 1 [], .after 0 (.err t!"boom")], some (.error (-32603) t!"boom" [])) := by decide

/-- the hypotheses of `C15_short` / `C15_inside_silent` are satisfiable with a non-empty inside. -/
example : (stopper [⟨0, .modReq⟩, ⟨1, .short (.rpc (-32000) t!"no")⟩, ⟨2, .pass⟩, ⟨3, .fail t!"x"⟩]).isSome = true
    ∧ inside [⟨0, .modReq⟩, ⟨1, .short (.rpc (-32000) t!"no")⟩, ⟨2, .pass⟩, ⟨3, .fail t!"x"⟩] = [⟨2, .pass⟩, ⟨3, .fail t!"x"⟩]
    ∧ ([0, 1, 2, 3] : List Nat).Nodup := by decide

/-- the reversed loop would not be an onion in registration order (the model family is not trivial in the fact). -/
example :
    tags (applyMiddlewares { firstOutermost := false, notifBypass := true, codeStreamable := -32603, codeSSE := -32603 }
      [⟨0, .pass⟩, ⟨1, .pass⟩] (core (fun r => .ok (.handler r.mods) [])) {}).1
      = [.b 1, .b 0, .h, .a 0, .a 1] := by decide

/-- the predicate rejects a table that contains an option closure, a method, a doubled constructor site, an unclassified
    site, and the empty table (a renamed field); it accepts exactly the constructors. -/
example :
    handlerNotReplaced [t!"NewSSEServer", t!"Server.initComponents", t!"WithSSEServerLogger.func1"] = false
    ∧ handlerNotReplaced [t!"NewSSEServer", t!"SSEServer.SetLogger", t!"Server.initComponents"] = false
    ∧ handlerNotReplaced [t!"NewSSEServer", t!"NewSSEServer", t!"Server.initComponents"] = false
    ∧ handlerNotReplaced [t!"NewSSEServer", t!"NewSSEServer:address-taken", t!"Server.initComponents"] = false
    ∧ handlerNotReplaced [] = false
    ∧ handlerNotReplaced [t!"NewSSEServer", t!"Server.initComponents"] = true := by decide

/-- an interleaving on the legacy SSE server at today's facts: logger, context function and a filter between three
    middleware options — the chain is all registered stages in order. -/
example :
    serveX codeFacts codeWriters .sse
      [.mw [⟨0, .modReq⟩], .other t!"WithSSEServerLogger", .mw [⟨1, .pass⟩], .other t!"WithSSEContextFunc", .other t!"WithBasePath",
       .mw [⟨2, .modRes⟩]] (fun r => .ok (.handler r.mods) []) (.request {}) =
      ([.before 0 [], .before 1 [0], .before 2 [0], .handler [0], .after 2 (.ok (.handler [0]) []),
        .after 1 (.ok (.handler [0]) [2]), .after 0 (.ok (.handler [0]) [2])], some (.result (.handler [0]) [2])) := by decide

/-- the dispatch predicate accepts exactly the straight-line shapes: a gate (`select` with `default`), an early return,
    a hand-over hidden in a closure, an extra guard in front of the chain, a `select` on the Streamable path, a missing
    function are all rejected. -/
example :
    dispatchNeverDrops sseDispatchDirect sseProcessDirect true 0 = true
    ∧ dispatchNeverDrops [t!"decl", t!"unmarshal-guard", t!"select-default", t!"go-other"] sseProcessDirect true 0 = false
    ∧ dispatchNeverDrops [t!"decl", t!"unmarshal-guard", t!"if-other", t!"go-dispatch"] sseProcessDirect true 0 = false
    ∧ dispatchNeverDrops [t!"decl", t!"unmarshal-guard", t!"go-other"] sseProcessDirect true 0 = false
    ∧ dispatchNeverDrops sseDispatchDirect [t!"detach", t!"if-other", t!"roots-response-guard"] true 0 = false
    ∧ dispatchNeverDrops sseDispatchDirect [t!"detach", t!"roots-response-guard", t!"missing-dispatch"] true 0 = false
    ∧ dispatchNeverDrops sseDispatchDirect sseProcessDirect false 0 = false
    ∧ dispatchNeverDrops sseDispatchDirect sseProcessDirect true 1 = false
    ∧ dispatchNeverDrops [t!"missing"] sseProcessDirect true 0 = false := by decide

/-- forty requests of one legacy SSE session in flight: the forty-first is served like any other at today's facts. -/
example :
    serveOverlapping codeFacts (codeGate .sse) .sse [[⟨0, .modReq⟩], [⟨1, .modRes⟩]] (fun r => .ok (.handler r.mods) []) 40 (.request {}) =
      ([.before 0 [], .before 1 [0], .handler [0], .after 1 (.ok (.handler [0]) []), .after 0 (.ok (.handler [0]) [1])],
        some (.result (.handler [0]) [1])) := by decide

end Mcp.Props.C15
