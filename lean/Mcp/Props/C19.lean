/-
  C19 — Client-side customisation applies to every outbound HTTP request.

  Structure of the argument:
  * `Mcp.Gen.ReqPaths.paths` is regenerated from the source on every run: one record per function that builds an
    `http.Request`.  `C19_paths_complete` / `C19_no_stray_senders` pin the set of such functions.
  * `compliant` (a decidable predicate over one record) is shown to be *equivalent* to "for every configuration the
    observed request is good, and a failing before-request function blocks it" (`C19_compliant_iff_observably_good`),
    for all records — not only the generated ones.
  * Every request of every call history is built by one of the paths (`trace`), so all-paths-compliant gives the
    property for all configurations × histories (`C19_every_request_good`).
  * All nine regenerated paths are compliant (`C19_all_paths_compliant`), hence `C19_every_request_good_generated`.
  * Before the D31 repair three paths were not. The witness theorems are kept as statements about the literal pre-fix
    table `preFixPaths` (the bad region of the family): `C19_prefix_noncompliant_witness`,
    `C19_prefix_partial`, `C19_prefix_answer_delete_counterexample`, `C19_prefix_error_not_blocking_counterexample`.
-/
import Mcp.Model.ReqPaths
import Mcp.Gen.ReqPaths
namespace Mcp.Props.C19
open Mcp.ReqPaths Mcp.Str

/-! ## the regenerated table -/

/-- The functions that build an `http.Request` are exactly the nine known ones (four legacy SSE, five Streamable). -/
theorem C19_paths_complete :
    Mcp.Gen.ReqPaths.paths.map (fun p => (p.client, p.fn)) = expected.map (fun e => (e.client, e.fn)) := by
  decide

/-- No other function of the package sends HTTP (handler / `Do` / `http.Get`…) with a request built elsewhere. -/
theorem C19_no_stray_senders : Mcp.Gen.ReqPaths.straySenders = [] := by decide

/-- The full goal: when no path deviates, every path is compliant. (Stated for any table; the hypothesis is what
    `C19_noncompliant_witness` currently refutes for the generated one.) -/
theorem C19_all_paths_compliant_if_no_deviation (ps : List ReqPath) (h : deviations ps = []) :
    ∀ p ∈ ps, compliant p = true := by
  intro p hp
  unfold deviations at h
  have h1 := List.flatMap_eq_nil_iff.mp h p hp
  have h2 : missing p = [] := by
    cases hm : missing p with
    | nil => rfl
    | cons a l => rw [hm] at h1; simp at h1
  simp [compliant, h2]

/-- Every function that builds an `http.Request` honours every customisation aspect. -/
theorem C19_all_paths_compliant : ∀ p ∈ Mcp.Gen.ReqPaths.paths, compliant p = true := by decide

/-- … equivalently: the regenerated table has no deviating (function, aspect) pair. -/
theorem C19_no_deviation : deviations Mcp.Gen.ReqPaths.paths = [] := by decide

/-- The bad region, for the record: the (function, aspect) pairs that deviated before the D31 repair. -/
theorem C19_prefix_noncompliant_witness :
    deviations preFixPaths =
      [ (t!"sendResponseMessage", .beforeRequest),
        (t!"sendResponseToServer", .path), (t!"sendResponseToServer", .beforeRequest),
        (t!"terminateSession", .handler), (t!"terminateSession", .beforeRequest) ] := by
  decide

/-- … every other pre-fix path was compliant. -/
theorem C19_prefix_partial :
    ∀ p ∈ preFixPaths,
      (p.client, p.fn) ∉ [ (Client.sse, t!"sendResponseMessage"), (Client.streamable, t!"sendResponseToServer"),
                           (Client.streamable, t!"terminateSession") ] →
      compliant p = true := by
  decide

/-! ## what compliance means, for every record -/

private theorem ite_nil_iff {α} (c : Prop) [Decidable c] (x : α) : (if c then ([] : List α) else [x]) = [] ↔ c := by
  by_cases h : c <;> simp [h]

private theorem compliant_iff (p : ReqPath) (k : Kind) (hk : kindOf p = some k) :
    compliant p = true ↔
      (p.verb = verbOf k ∧ urlOk k p.client p.url = true ∧ p.headersLoop = true ∧
       (p.client = .streamable → p.sessionHeader = true) ∧ viaOk p.via = true ∧ p.usesClient = true ∧
       p.beforeCalls = 1 ∧ p.beforeOrdered = true ∧ ctxOk k p.beforeCtx = true ∧ p.beforeErrReturns = true) := by
  unfold compliant missing
  rw [hk]
  simp only [missingFor, List.isEmpty_iff, List.append_eq_nil_iff]
  constructor
  · rintro ⟨⟨⟨⟨⟨⟨⟨h1, h2⟩, h3⟩, h4⟩, h5⟩, h6⟩, h7⟩, h8⟩
    have h1 := (ite_nil_iff _ _).mp h1
    have h2 := (ite_nil_iff _ _).mp h2
    have h3 := (ite_nil_iff _ _).mp h3
    have h5 := (ite_nil_iff _ _).mp h5
    have h6 := (ite_nil_iff _ _).mp h6
    have h7 := (ite_nil_iff _ _).mp h7
    have hb : p.beforeCalls = 1 := by
      have := h7; simp at this; exact this.1
    have ho : p.beforeOrdered = true := by
      have := h7; simp at this; exact this.2
    have h8' : ¬ (p.beforeCalls == 0) = true := by simp [hb]
    rw [if_neg h8'] at h8
    have ⟨h9, h10⟩ := List.append_eq_nil_iff.mp h8
    have h9 := (ite_nil_iff _ _).mp h9
    have h10 := (ite_nil_iff _ _).mp h10
    refine ⟨by simpa using h1, h2, h3, ?_, h5, h6, hb, ho, h9, h10⟩
    intro hc
    by_cases hs : p.sessionHeader = true
    · exact hs
    · simp [hc, hs] at h4
  · rintro ⟨h1, h2, h3, h4, h5, h6, h7, h8, h9, h10⟩
    have h4' : (p.client == .streamable && !p.sessionHeader) = false := by
      by_cases hc : p.client = .streamable
      · simp [hc, h4 hc]
      · simp [hc]
    simp [h1, h2, h3, h4', h5, h6, h7, h8, h9, h10]

/-- Compliance is exactly "every configuration observes a good request, and a failing before-request function blocks
    it": nothing in the predicate is stronger than the property needs, nothing the property needs is left out. -/
theorem C19_compliant_iff_observably_good (p : ReqPath) (k : Kind) (hk : kindOf p = some k) :
    compliant p = true ↔
      ((∀ cfg issued, good cfg k (requestOf cfg issued k p) = true) ∧ (attempt k p).sent = false ∧
        (attempt k p).before = 1) := by
  rw [compliant_iff p k hk]
  constructor
  · rintro ⟨h1, h2, h3, h4, h5, h6, h7, h8, h9, h10⟩
    refine ⟨?_, by simp [attempt, blocks, h7, h8, h10], by simp [attempt, h7, h10]⟩
    intro cfg issued
    have hvia : viaObs cfg p.via = (if cfg.handler then ViaObs.custom else ViaObs.factory) := by
      cases hv : p.via <;> simp [hv, viaOk] at h5 <;> simp [viaObs]
    have hpath : pathOkOf cfg k p = true := by
      cases hc : p.client <;> cases k <;> simp [hc, urlOk] at h2 <;> simp [pathOkOf, hc, h2]
    have hsess : sessionOkOf issued k p = true := by
      unfold sessionOkOf
      cases hc : p.client with
      | streamable => simp [h4 hc]
      | sse => cases k <;> simp [hc, urlOk] at h2 <;> simp [h2]
      | other => cases k <;> simp [hc, urlOk] at h2
    have hctx : ctxObs k p.beforeCtx = (if background k then CtxObs.handshake else CtxObs.caller) := by
      cases k <;> cases hc : p.beforeCtx <;> simp [hc, ctxOk, wantCtx, background] at h9 <;> simp [ctxObs, background]
    simp only [good, requestOf, h1, h3, h6, h7, hvia, hpath, hsess, hctx]
    cases cfg.before <;> cases cfg.headers <;> cases cfg.client <;> simp
  · rintro ⟨hg, hs, hb⟩
    -- read the aspects off suitable configurations
    have g1 := hg ⟨true, true, true, true, true⟩ true
    have g0 := hg ⟨true, true, false, true, true⟩ true
    simp only [good, requestOf, Bool.and_eq_true, beq_iff_eq, Bool.not_true, Bool.false_or, Bool.true_and,
      ite_true] at g1
    obtain ⟨⟨⟨⟨⟨⟨⟨v, pa⟩, hd⟩, se⟩, vi⟩, cl⟩, be⟩, cx⟩ := g1
    have hb1 : p.beforeCalls = 1 := by simpa using be
    have hcx : ctxObs k p.beforeCtx = (if background k then CtxObs.handshake else CtxObs.caller) := by
      simpa [hb1] using cx
    have hctx : ctxOk k p.beforeCtx = true := by
      cases hk' : k <;> cases hc : p.beforeCtx <;> simp [hk', hc, ctxObs, background, wantCtx, ctxOk] at hcx ⊢
    have hvia : viaOk p.via = true := by
      cases hv : p.via <;> simp [hv, viaObs] at vi <;> simp [viaOk]
    have hblk : blocks p = true := by simpa [attempt] using hs
    simp only [blocks, Bool.and_eq_true] at hblk
    have hurl : urlOk k p.client p.url = true := by
      cases hc : p.client <;> cases hk' : k <;> cases hu : p.url <;>
        simp [pathOkOf, hc, hk', hu] at pa <;> simp [urlOk]
    have hsess : p.client = .streamable → p.sessionHeader = true := by
      intro hc; simpa [sessionOkOf, hc] using se
    exact ⟨v, hurl, hd, hsess, hvia, cl, hb1, hblk.1.2, hctx, hblk.2⟩

/-! ## consequences for one request built by a compliant path (all configurations) -/

private theorem good_of (p : ReqPath) (k : Kind) (hk : kindOf p = some k) (hc : compliant p = true) (cfg : Cfg) (issued : Bool) :
    good cfg k (requestOf cfg issued k p) = true :=
  ((C19_compliant_iff_observably_good p k hk).mp hc).1 cfg issued

/-- … goes to the configured URL and path and carries the session id once one was issued. -/
theorem C19_url_and_session (p : ReqPath) (k : Kind) (hk : kindOf p = some k) (hc : compliant p = true)
    (cfg : Cfg) (issued : Bool) :
    (requestOf cfg issued k p).verb = verbOf k ∧ (requestOf cfg issued k p).pathOk = true ∧
      (requestOf cfg issued k p).sessionOk = true := by
  have h := good_of p k hk hc cfg issued
  simp only [good, Bool.and_eq_true, beq_iff_eq] at h
  exact ⟨h.1.1.1.1.1.1.1, h.1.1.1.1.1.1.2, h.1.1.1.1.2⟩

/-- … carries every configured static header. -/
theorem C19_static_headers (p : ReqPath) (k : Kind) (hk : kindOf p = some k) (hc : compliant p = true)
    (cfg : Cfg) (issued : Bool) : (requestOf cfg issued k p).headersOk = true := by
  have h := good_of p k hk hc cfg issued
  simp only [good, Bool.and_eq_true, beq_iff_eq] at h
  exact h.1.1.1.1.1.2

/-- … goes through the configured request handler (the factory-made default when none is configured), which is
    handed the configured `http.Client`. -/
theorem C19_through_handler (p : ReqPath) (k : Kind) (hk : kindOf p = some k) (hc : compliant p = true)
    (cfg : Cfg) (issued : Bool) :
    (requestOf cfg issued k p).via = (if cfg.handler then ViaObs.custom else ViaObs.factory) ∧
      (requestOf cfg issued k p).client = cfg.client := by
  have h := good_of p k hk hc cfg issued
  simp only [good, Bool.and_eq_true, beq_iff_eq] at h
  exact ⟨h.1.1.1.2, h.1.1.2⟩

/-- … passes through the before-request function exactly once, with the calling operation's context values (the
    handshake's for background requests). -/
theorem C19_before_once (p : ReqPath) (k : Kind) (hk : kindOf p = some k) (hc : compliant p = true)
    (cfg : Cfg) (issued : Bool) (hb : cfg.before = true) :
    (requestOf cfg issued k p).before = 1 ∧
      (requestOf cfg issued k p).ctx = (if background k then CtxObs.handshake else CtxObs.caller) := by
  have h := good_of p k hk hc cfg issued
  simp only [good, Bool.and_eq_true, beq_iff_eq, hb, ite_true] at h
  exact ⟨h.1.2, h.2⟩

/-- When the before-request function returns an error it ran once, nothing is sent, and the operation that
    caused the request (any but the stream-reading goroutine) fails with that error. -/
theorem C19_before_error_blocks (p : ReqPath) (k : Kind) (hk : kindOf p = some k) (hc : compliant p = true) :
    (attempt k p).before = 1 ∧ (attempt k p).sent = false ∧
      (silent k = false → (attempt k p).failed = some true) := by
  have h := (C19_compliant_iff_observably_good p k hk).mp hc
  refine ⟨h.2.2, h.2.1, ?_⟩
  intro hbg
  have hs : blocks p = true := by simpa [attempt] using h.2.1
  simp [attempt, hbg, hs]

/-! ## all call histories -/

private theorem kindOf_of_pathFor (ps : List ReqPath) (c : Client) (k : Kind) (p : ReqPath)
    (h : pathFor ps c k = some p) : kindOf p = some k ∧ p ∈ ps := by
  unfold pathFor at h
  cases c <;> cases k <;> simp [expected] at h <;>
    (have hm := List.mem_of_find?_eq_some h
     have hp := List.find?_some h
     simp only [Bool.and_eq_true, beq_iff_eq] at hp
     refine ⟨?_, hm⟩
     simp only [kindOf, hp.1, hp.2]
     decide)

/-- For every configuration, client and call history (failed handshakes included): every request the history emits
    through a table of compliant paths is good. -/
theorem C19_every_request_good (ps : List ReqPath) (hall : ∀ p ∈ ps, compliant p = true)
    (cfg : Cfg) (c : Client) (hist : List (Op × Nat)) (st : St) :
    ∀ o ∈ trace cfg ps c st hist, ∀ k obs seen, o = some (k, obs, seen) → good cfg k obs = true := by
  induction hist generalizing st with
  | nil => simp [trace]
  | cons opv rest ih =>
    obtain ⟨op, v⟩ := opv
    intro o ho k obs seen heq
    simp only [trace, List.mem_append, List.mem_map] at ho
    rcases ho with ⟨⟨k', issued⟩, _, hmap⟩ | hrest
    · subst heq
      cases hp : pathFor ps c k' with
      | none => simp [hp] at hmap
      | some p =>
        simp only [hp, Option.map_some, Option.some.injEq, Prod.mk.injEq] at hmap
        obtain ⟨hk1, hk2, _⟩ := hmap
        subst hk1; subst hk2
        have ⟨hkind, hmem⟩ := kindOf_of_pathFor ps c k' p hp
        exact good_of p k' hkind (hall p hmem) cfg issued
    · exact ih _ o hrest k obs seen heq

/-- Which context values the before-request function sees: for a request built by a compliant path, emitted by an
    operation called with value `v` — that value; for the listening stream and for answers to server-issued
    requests — the handshake value of the state the operation leaves (see the next theorem for what that is). -/
theorem C19_seen_value (p : ReqPath) (k : Kind) (hk : kindOf p = some k) (hc : compliant p = true)
    (cfg : Cfg) (hb : cfg.before = true) (issued : Bool) (st' : St) (v : Nat) :
    seenOf st' v k (requestOf cfg issued k p) = if silent k then st'.hsVal else some v := by
  have h := (C19_before_once p k hk hc cfg issued hb).2
  unfold seenOf
  rw [h]
  cases k <;> simp [background, silent]

/-- The operations that (re)open the listening stream with the caller's context. -/
def reopens (op : Op) : Bool := op == .reopen || op == .rootsReplace

/-- The handshake value changes only when an operation completes a handshake (turns an un-initialized client into an
    initialized one) or reopens the listening stream, and then becomes that operation's value: a failed `Initialize` —
    whether its first request was answered with a failure or refused by the before-request function — never leaves
    its context behind, and neither does a stream the server ended. -/
theorem C19_handshake_value (cfg : Cfg) (ps : List ReqPath) (c : Client) (st : St) (v : Nat) (op : Op) :
    (emits cfg ps c st v op).2.hsVal = st.hsVal ∨
      ((emits cfg ps c st v op).2.hsVal = some v ∧
        ((st.initialized = false ∧ (emits cfg ps c st v op).2.initialized = true) ∨
          (reopens op = true ∧ st.initialized = true))) := by
  cases op <;> simp only [emits, reopens] <;> (try split) <;> (try split) <;> (try split) <;> (try cases c) <;>
    simp_all [initOk]

/-- A client never becomes un-initialized again, so the handshake value is set at most once per history by a
    handshake; afterwards only reopening the listening stream replaces it (by the reopening operation's value). -/
theorem C19_initialized_stays (cfg : Cfg) (ps : List ReqPath) (c : Client) (st : St) (v : Nat) (op : Op)
    (h : st.initialized = true) :
    (emits cfg ps c st v op).2.initialized = true ∧
      ((emits cfg ps c st v op).2.hsVal = st.hsVal ∨ (reopens op = true ∧ (emits cfg ps c st v op).2.hsVal = some v)) := by
  cases op <;> simp only [emits, h, reopens] <;> (try split) <;> (try split) <;> (try split) <;> simp_all

/-- **Error answers keep the session.** A request or notification the server answers with an error status (404, 400,
    401, 403, 500, 503 …) changes nothing the later requests depend on: the state after it — initialized, the issued
    session id, the listening stream, the handshake value — is the state before it, so every later request of the
    history is emitted with the same `issued` flag and, through a compliant builder, carries the issued session id
    (`C19_every_request_good`: `sessionOk`). The failing request itself goes out like a successful one. -/
theorem C19_error_answers_keep_session (cfg : Cfg) (ps : List ReqPath) (c : Client) (st : St) (v : Nat) :
    (emits cfg ps c st v .toolsFail).2 = st ∧ (emits cfg ps c st v .notifyFail).2 = st ∧
      (emits cfg ps c st v .toolsFail).1 = (emits cfg ps c st v .tools).1 ∧
      (emits cfg ps c st v .notifyFail).1 = (emits cfg ps c st v .notify).1 ∧
      ∀ rest, trace cfg ps c (emits cfg ps c st v .toolsFail).2 rest = trace cfg ps c st rest := by
  have h1 : (emits cfg ps c st v .toolsFail).2 = st := by simp only [emits]; split <;> rfl
  have h2 : (emits cfg ps c st v .notifyFail).2 = st := by
    simp only [emits]; cases c <;> simp <;> split <;> rfl
  refine ⟨h1, h2, by simp [emits], by simp [emits], ?_⟩
  intro rest; rw [h1]

/-- non-vacuity: a 404 in the middle of a Streamable history — the later request, notification, answer and DELETE are
    still emitted as after a successful `tools/list` (all with an issued session id). -/
example :
    let cfg : Cfg := ⟨true, true, false, false, false⟩
    trace cfg Mcp.Gen.ReqPaths.paths .streamable {} [(.initialize, 1), (.toolsFail, 2), (.tools, 3), (.notifyFail, 4), (.notify, 5), (.roots, 6), (.terminate, 7)] =
      trace cfg Mcp.Gen.ReqPaths.paths .streamable {} [(.initialize, 1), (.tools, 2), (.tools, 3), (.notify, 4), (.notify, 5), (.roots, 6), (.terminate, 7)] ∧
    (trace cfg Mcp.Gen.ReqPaths.paths .streamable {} [(.initialize, 1), (.toolsFail, 2), (.tools, 3), (.terminate, 4)]).all
      (fun o => match o with | some (_, obs, _) => obs.sessionOk | none => false) = true := by decide

/-- A listening stream the server ends — gracefully or by resetting the connection — while the roots provider is
    still working does not take the context of the answer with it: the answer is still emitted, through the same
    builder, and for every configuration it is good (configured URL, static headers, session id, handler, the
    before-request function once with the value the stream was opened with). Afterwards the server has no stream to
    push on until one is reopened. -/
theorem C19_answer_survives_stream_end (ps : List ReqPath) (hall : ∀ p ∈ ps, compliant p = true)
    (cfg : Cfg) (st : St) (v : Nat) (hlive : live .streamable st = true) :
    (emits cfg ps .streamable st v .rootsEnd).1 = [(.answer, st.issued)] ∧
      (emits cfg ps .streamable st v .rootsEnd).2.hsVal = st.hsVal ∧
      live .streamable (emits cfg ps .streamable st v .rootsEnd).2 = false ∧
      ∀ o ∈ trace cfg ps .streamable st [(.rootsEnd, v)], ∀ k obs seen, o = some (k, obs, seen) →
        good cfg k obs = true ∧ (cfg.before = true → seen = st.hsVal) := by
  have he : emits cfg ps .streamable st v .rootsEnd = ([(.answer, st.issued)], { st with gone := true }) := by
    simp [emits, hlive]
  refine ⟨by rw [he], by rw [he], by rw [he]; simp [live], ?_⟩
  intro o ho k obs seen heq
  refine ⟨C19_every_request_good ps hall cfg .streamable [(.rootsEnd, v)] st o ho k obs seen heq, ?_⟩
  intro hb
  simp only [trace, he, List.map_cons, List.map_nil, List.append_nil, List.mem_singleton] at ho
  subst heq
  cases hp : pathFor ps .streamable .answer with
  | none => simp [hp] at ho
  | some p =>
    simp only [hp, Option.map_some, Option.some.injEq, Prod.mk.injEq] at ho
    obtain ⟨hk, hobs, hseen⟩ := ho
    subst hk
    have ⟨hkind, hmem⟩ := kindOf_of_pathFor ps .streamable .answer p hp
    rw [hseen, C19_seen_value p .answer hkind (hall p hmem) cfg hb]
    simp [silent]

/-- The property for the code as it is: for every configuration, client and call history, every request the
    history emits (through the regenerated request builders) is good. -/
theorem C19_every_request_good_generated (cfg : Cfg) (c : Client) (hist : List (Op × Nat)) (st : St) :
    ∀ o ∈ trace cfg Mcp.Gen.ReqPaths.paths c st hist, ∀ k obs seen, o = some (k, obs, seen) → good cfg k obs = true :=
  C19_every_request_good _ C19_all_paths_compliant cfg c hist st

/-- … and a failing before-request function stops every kind of request of both clients. -/
theorem C19_error_blocks_generated :
    ∀ p ∈ Mcp.Gen.ReqPaths.paths, (attempt ((kindOf p).getD .request) p).sent = false ∧
      (attempt ((kindOf p).getD .request) p).before = 1 := by
  decide

/-! ## non-vacuity on the regenerated table -/

/-- The hypotheses of the per-request theorems are met by a generated path: `send` is a known, compliant builder. -/
example : ∃ p ∈ Mcp.Gen.ReqPaths.paths, p.fn = t!"send" ∧ kindOf p = some .request ∧ compliant p = true := by decide

/-- With everything configured, the full history of both clients (handshake, request, retried request, notification,
    answers to server requests, DELETE) yields 10 + 9 requests, none missing a builder, each good, each once through
    the before-request function and through the custom handler. -/
example :
    let cfg : Cfg := ⟨true, true, true, true, true⟩
    let obs := [Client.streamable, Client.sse].flatMap (fun c =>
        trace cfg Mcp.Gen.ReqPaths.paths c {}
          [(.initialize, 1), (.tools, 2), (.toolsRetry, 3), (.notify, 4), (.roots, 5), (.rootsUnknown, 6), (.terminate, 7)])
    obs.length = 19 ∧ obs.all (fun o => match o with
        | some (k, obs, _) => good cfg k obs && obs.before == 1 && obs.via == .custom
        | none => false) = true := by decide

/-- Failed handshakes followed by a successful one with another context value: the legacy connect sees the value of
    the attempt that makes it (1, then 3); the request, the notification and the later answer to a server request see
    the successful handshake's value 3 / their own; nothing of the failed attempts 1 and 2 survives. Same for the
    Streamable listening stream (value 2) after a refused first attempt. -/
example :
    let cfg : Cfg := ⟨false, true, false, false, false⟩
    (trace cfg Mcp.Gen.ReqPaths.paths .sse {} [(.initFailSent, 1), (.initFailRefused, 2), (.initialize, 3), (.roots, 4), (.tools, 5)]).map
        (fun o => o.map (fun x => (x.1, x.2.2))) =
      [some (.connect, some 1), some (.connect, some 3), some (.request, some 3), some (.notification, some 3),
       some (.answer, some 3), some (.request, some 5)] ∧
    (trace cfg Mcp.Gen.ReqPaths.paths .streamable {} [(.initFailRefused, 1), (.initialize, 2), (.roots, 3), (.terminate, 4)]).map
        (fun o => o.map (fun x => (x.1, x.2.2))) =
      [some (.request, some 2), some (.notification, some 2), some (.stream, some 2), some (.answer, some 2),
       some (.delete, some 4)] := by decide

/-! ## the same option given several times -/

private theorem foldl_merge (opts : List Hdr) (m : Hdr) :
    opts.foldl (applyHdr true) m = opts.reverse.flatten ++ m := by
  induction opts generalizing m with
  | nil => simp
  | cons o rest ih => simp [List.foldl_cons, ih, applyHdr, List.append_assoc]

private theorem lookup_flatten_append (l : List Hdr) (m : Hdr) (k : Text) :
    (l.flatten ++ m).lookup k = ((l.findSome? (fun o => o.lookup k)).or (m.lookup k)) := by
  induction l with
  | nil => simp
  | cons o rest ih =>
    simp only [List.flatten_cons, List.append_assoc, List.lookup_append, ih, List.findSome?_cons]
    cases h : o.lookup k <;> simp

/-- **Repeated `WithHTTPHeaders`.** When both sides of the option merge per key, then for every list of header
    options, for both clients and for every key: the static header map the transport ends up with binds the key to
    the value of the LAST option that names it (and binds nothing no option names). -/
theorem C19_repeated_headers (F : OptFacts) (h1 : F.cfgMerges = true) (h2 : F.optMerges = true) (c : Client)
    (opts : List Hdr) (k : Text) :
    (effHeaders F c opts).lookup k = wantHeader opts k := by
  have hc : cfgHeaders F opts = opts.reverse.flatten := by simp [cfgHeaders, h1, foldl_merge]
  have hl : (opts.reverse.flatten).lookup k = wantHeader opts k := by
    have := lookup_flatten_append opts.reverse [] k
    simpa [wantHeader] using this
  cases c
  · simp only [effHeaders, hc, hl]
  · simp only [effHeaders, hc, h2, foldl_merge, lookup_flatten_append]
    rw [hl]
    show (wantHeader opts k).or (wantHeader opts k) = wantHeader opts k
    cases wantHeader opts k <;> rfl
  · simp only [effHeaders, hc, hl]

/-- … so every configured static header is there: a header an option sets, and no later option sets again, is in
    force with exactly that option's values — whatever the other options (before or after) configure. -/
theorem C19_every_configured_header_present (F : OptFacts) (h1 : F.cfgMerges = true) (h2 : F.optMerges = true)
    (c : Client) (pre post : List Hdr) (o : Hdr) (k : Text) (vs : List Text)
    (ho : o.lookup k = some vs) (hpost : ∀ o' ∈ post, o'.lookup k = none) :
    (effHeaders F c (pre ++ o :: post)).lookup k = some vs := by
  rw [C19_repeated_headers F h1 h2]
  simp only [wantHeader, List.reverse_append, List.reverse_cons, List.append_assoc, List.findSome?_append]
  have hnone : List.findSome? (fun o => List.lookup k o) post.reverse = none := by
    rw [List.findSome?_eq_none_iff]
    intro o' ho'
    exact hpost o' (List.mem_reverse.mp ho')
  simp [hnone, ho]

/-- Today's source is in that region: `WithHTTPHeaders` merges per key into `transportConfig.httpHeaders` and appends
    a transport option that merges per key; both transports start from the configuration's map, the legacy client's
    configuration being the options applied in the order given. -/
theorem C19_headers_options_merge :
    Mcp.Gen.ReqPaths.optFacts = { cfgMerges := true, optMerges := true } ∧ Mcp.Gen.ReqPaths.headersFromConfig = true := by
  decide

theorem C19_repeated_headers_generated (c : Client) (opts : List Hdr) (k : Text) :
    (effHeaders Mcp.Gen.ReqPaths.optFacts c opts).lookup k = wantHeader opts k :=
  C19_repeated_headers _ (by decide) (by decide) c opts k

/-- `WithHTTPBeforeRequest`, `WithHTTPReqHandler` and `WithClientPath` are plain assignments: given several times,
    the last one is in force (for every request: there is one function / handler / path per client). -/
theorem C19_assign_options_last_wins :
    Mcp.Gen.ReqPaths.lastWinsOptions =
      [(t!"WithClientPath", t!"assign"), (t!"WithHTTPBeforeRequest", t!"assign"), (t!"WithHTTPReqHandler", t!"assign")] := by
  decide

/-- Outside the region the property fails: if `WithHTTPHeaders` REPLACES `transportConfig.httpHeaders` (while the
    replayed transport option still merges), the legacy SSE client given two options with different keys keeps only
    the second option's header — the Streamable client still has both. -/
theorem C19_replacing_headers_loses_witness :
    let F : OptFacts := { cfgMerges := false, optMerges := true }
    let opts : List Hdr := [[(t!"X-A", [t!"a"])], [(t!"X-B", [t!"b"])]]
    (effHeaders F .sse opts).lookup t!"X-A" = none ∧ wantHeader opts t!"X-A" = some [t!"a"] ∧
      (effHeaders F .sse opts).lookup t!"X-B" = some [t!"b"] ∧
      (effHeaders F .streamable opts).lookup t!"X-A" = some [t!"a"] := by
  decide

/-- non-vacuity: three options — a key set twice (the later value wins), overlapping and disjoint keys. -/
example :
    let opts : List Hdr := [[(t!"X-A", [t!"a1"]), (t!"X-B", [t!"b1", t!"b2"])], [(t!"X-C", [t!"c"])], [(t!"X-A", [t!"a2"])]]
    canonHeaders (effHeaders Mcp.Gen.ReqPaths.optFacts .sse opts) =
        [(t!"X-A", [t!"a2"]), (t!"X-C", [t!"c"]), (t!"X-B", [t!"b1", t!"b2"])] ∧
      canonHeaders (effHeaders Mcp.Gen.ReqPaths.optFacts .streamable opts) =
        canonHeaders (effHeaders Mcp.Gen.ReqPaths.optFacts .sse opts) ∧
      hdrKeys opts = [t!"X-A", t!"X-B", t!"X-C"] := by
  decide

/-- non-vacuity of the stream-end theorem and of the reopening operations: the server ends the stream under a slow
    roots provider (the answer still sees the handshake's value 1), a request pushed afterwards has no stream, the
    stream is reopened with value 4 (answers now see 4), and replaced under a slow provider with value 6. -/
example :
    let cfg : Cfg := ⟨false, true, false, false, false⟩
    (trace cfg Mcp.Gen.ReqPaths.paths .streamable {}
        [(.initialize, 1), (.rootsEnd, 2), (.roots, 3), (.reopen, 4), (.roots, 5), (.rootsReplace, 6), (.rootsEnd, 7)]).map
        (fun o => o.map (fun x => (x.1, x.2.2))) =
      [some (.request, some 1), some (.notification, some 1), some (.stream, some 1), some (.answer, some 1),
       some (.stream, some 4), some (.answer, some 4), some (.stream, some 6), some (.answer, some 6),
       some (.answer, some 6)] := by decide

/-! ## the bad region (pre-fix table) at the level of observations -/

/-- D31: with a custom path and a before-request function configured, the Streamable client's answer to a
    server-issued `roots/list` missed the path and never reached the function; the DELETE bypassed the custom handler. -/
theorem C19_prefix_answer_delete_counterexample :
    (trace ⟨true, true, true, true, true⟩ preFixPaths .streamable ⟨true, true, false, some 1, false⟩ [(.roots, 2), (.terminate, 3)]).map
        (fun o => o.map (fun x => (x.1, x.2.1))) =
      [ some (.answer, ⟨t!"sendResponseToServer", .post, false, true, true, .custom, true, 0, .unseen⟩),
        some (.delete, ⟨t!"terminateSession", .delete, true, true, true, .bare, true, 0, .unseen⟩) ] := by
  decide

/-- … and a failing before-request function stopped none of the three. -/
theorem C19_prefix_error_not_blocking_counterexample :
    (preFixPaths.filter (fun p => (attempt ((kindOf p).getD .request) p).sent)).map (·.fn) =
      [t!"sendResponseMessage", t!"sendResponseToServer", t!"terminateSession"] := by
  decide

end Mcp.Props.C19
