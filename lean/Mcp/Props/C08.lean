/-
  C08 — Every client call ends when its connection or context ends; nothing leaks.  (PARTIAL by design: the logic of the
  waits, the pending tables, the channel / body / process ownership is modelled and proved here for every schedule; the
  runtime part — scheduling latency, kernel/TCP behaviour, Go runtime internals — is covered by fault enumeration in
  harness/cmd/calls.)

  Model: `Mcp.Model.Calls` (a family indexed by facts regenerated into `Mcp.Gen.CallFacts`).
  Theorems: `C08_no_wrong_result`, `C08_no_partial_frame`, `C08_returns`, `C08_pending_empty`,
  `C08_ledger_zero_after_close` for the good region, which today's facts of all four transports are in (instance
  theorems `C08_facts_*`, decided on the regenerated tables); `…_partial` theorems for any facts and `…_witness`
  schedules over explicit bad facts for every region the tree has been in (stdio: two closers of a pending channel,
  unchecked receive, two `Cmd.Wait` sites; Streamable: `handleSSEResponse` not closing the body, the listening
  stream's asynchronous start ignoring Close — all repaired in /repo).
  Handshake: `C08_close_takes_effect` (Close() runs whatever the client's state — fact `closeAny`, instance
  `C08_close_unguarded`) with the witnesses `C08_close_skipped_witness`, `C08_close_during_handshake_witness`; the legacy
  SSE client's `start` stage (`C08_sse_start_bounded`, folded into `selCtx` / `selClosed` of `factsOf … .sse`) with
  `C08_detached_wait_witness`, `C08_wait_without_close_case_witness`.
  Retrying clients: the back-off is part of the call's wait (`C08_backoff_selects_ctx`, folded into `selCtx`;
  `C08_backoff_sleep_witness`).  Requests of the server on the client side: the answer POST is a ledger resource
  (`St.answerPost`, fact `answerBound`, `C08_answer_posts_bound`, `C08_answer_post_outlives_close_witness`).
  Independence of calls: `C08_calls_independent` (fact `lockFree`, instance `C08_no_lock_across_reads`) with
  `C08_lock_across_read_witness`.
  Server-issued requests: `C08_server_pending_released` (instance `C08_server_inserts_deferred`) with
  `C08_server_pending_leak_witness`.
-/
import Mcp.Model.Calls
import Mcp.Gen.CallFacts
namespace Mcp.Props.C08
open Mcp.Calls

private theorem run_induct (f : Facts) (cfg : Cfg) (P : St → Prop)
    (hstep : ∀ s s' e, P s → step f cfg s e = some s' → P s') :
    ∀ (evs : List Ev) (s s' : St), P s → run f cfg s evs = some s' → P s' := by
  intro evs
  induction evs with
  | nil => intro s s' h hr; simp [run] at hr; subst hr; exact h
  | cons e es ih =>
    intro s s' h hr
    simp only [run] at hr
    split at hr
    · simp at hr
    · rename_i s1 hs1
      exact ih s1 s' (hstep s s1 e h hs1) hr

private theorem closeChans_inTable (cl : Call) : (closeChans cl).inTable = false := by
  unfold closeChans; split <;> simp_all

private theorem closeChans_fields (cl : Call) :
    (closeChans cl).issued = cl.issued ∧ (closeChans cl).returned = cl.returned ∧ (closeChans cl).body = cl.body ∧
    (closeChans cl).slot = cl.slot ∧ (closeChans cl).ctxDone = cl.ctxDone ∧ (closeChans cl).connErr = cl.connErr ∧
    (closeChans cl).timedOut = cl.timedOut ∧ (closeChans cl).ended = cl.ended ∧
    (closeChans cl).chClosed = (cl.chClosed || cl.inTable) := by
  unfold closeChans; split <;> simp_all

/-- One event: split `step`, substitute the successor state, unfold the per-call update. -/
macro "step_cases " hs:ident : tactic => `(tactic| (
  cases ‹Ev› <;> simp only [step] at $hs:ident
  all_goals (repeat' split at $hs:ident)
  all_goals (first | (simp at $hs:ident; done) | (simp only [Option.some.injEq] at $hs:ident; subst $hs:ident))
  all_goals (try simp only [setCall])))

/-! ## Invariants -/

/-- Per-call: a registered call is issued and has not returned; an unissued call has nothing. -/
def TableInv (s : St) : Prop :=
  ∀ c, ((s.calls c).issued = false → (s.calls c).returned = none ∧ (s.calls c).body = false) ∧
       ((s.calls c).inTable = true → (s.calls c).issued = true ∧ (s.calls c).returned = none)

private theorem table_init (cfg : Cfg) : TableInv (init cfg) := by intro c; simp [init]

private theorem table_step (f : Facts) (cfg : Cfg) (hd : f.deleteDeferred = true) (s s' : St) (e : Ev)
    (h : TableInv s) (hs : step f cfg s e = some s') : TableInv s' := by
  intro d
  have hdd := h d
  step_cases hs
  all_goals (try split)
  all_goals (try subst_vars)
  all_goals (try (simp_all [closeChans_inTable, closeChans_fields, waiting, relBody]; done))

/-- Results: `ok` only with the answer handed over; anything but `ok`/`err` only after close() closed the call's channel
    in a transport with two closers or an unchecked receive. -/
def ResInv (f : Facts) (s : St) : Prop :=
  ∀ c r, (s.calls c).returned = some r →
    (r = .ok → (s.calls c).slot = true) ∧
    (r = .ok ∨ r = .err ∨ ((s.calls c).chClosed = true ∧ (f.oneCloser = false ∨ f.recvOk = false)))

private theorem res_init (f : Facts) (cfg : Cfg) : ResInv f (init cfg) := by intro c r; simp [init]

private theorem res_step (f : Facts) (cfg : Cfg) (s s' : St) (e : Ev)
    (h : ResInv f s) (hs : step f cfg s e = some s') : ResInv f s' := by
  intro d r
  have hdd := h d r
  step_cases hs
  all_goals (try split)
  all_goals (try subst_vars)
  all_goals (try (simp_all [waiting]; done))
  · -- issue while closing: "transport is closed"
    intro hr; simp at hr; subst hr; simp
  · -- readerExit with close(): channels get closed, nothing else changes
    obtain ⟨_, c2, _, c4, _, _, _, _, c9⟩ := closeChans_fields (s.calls d)
    simp only [c2, c4, c9]
    intro hr; obtain ⟨a, b⟩ := hdd hr
    refine ⟨a, ?_⟩
    rcases b with b | b | b
    · exact Or.inl b
    · exact Or.inr (Or.inl b)
    · exact Or.inr (Or.inr ⟨by simp [b.1], b.2⟩)
  · obtain ⟨_, c2, _, c4, _, _, _, _, c9⟩ := closeChans_fields (s.calls d)
    simp only [c2, c4, c9]
    intro hr; obtain ⟨a, b⟩ := hdd hr
    refine ⟨a, ?_⟩
    rcases b with b | b | b
    · exact Or.inl b
    · exact Or.inr (Or.inl b)
    · exact Or.inr (Or.inr ⟨by simp [b.1], b.2⟩)
  · -- complete
    rename_i c k hw
    intro hr; simp only [Option.some.injEq] at hr; subst hr
    simp only [Bool.and_eq_true] at hw
    cases ho : f.oneCloser <;> cases hc : (s.calls c).chClosed <;> cases hk : f.recvOk <;> cases k <;>
      simp_all [result, ready]

/-- Global resources: child, waiters, token, reader, listening stream. -/
def ProcInv (f : Facts) (cfg : Cfg) (s : St) : Prop :=
  (s.closing = true → s.child = false) ∧
  (s.closed = true → s.closing = true) ∧
  (s.closing = false → s.closeWaiter = false ∧ (s.watcher = true → s.token = true)) ∧
  (f.oneWait = true → s.closeWaiter = false ∧ (s.watcher = true → s.token = true)) ∧
  (cfg.t ≠ .stdio → s.watcher = false ∧ s.child = false ∧ s.closeWaiter = false) ∧
  (cfg.t.shared = false → s.reader = false) ∧
  (f.startGuarded = true → s.closing = true → s.stream = false) ∧
  ((cfg.t.http && cfg.getSSE) = false → s.stream = false ∧ s.starter = false) ∧
  (cfg.t = .stdio → s.closing = true → s.tctx = true) ∧
  (cfg.t = .stdio → f.exitCancels = true → s.watcher = false → s.tctx = true) ∧
  (cfg.t = .sse → f.endCloses = true → s.reader = false → s.closed = true) ∧
  (f.answerBound = true → s.closing = true → s.answerPost = false)

private theorem proc_init (f : Facts) (cfg : Cfg) : ProcInv f cfg (init cfg) := by
  cases cfg with | mk t h g => cases t <;> cases g <;> simp [ProcInv, init, Transport.shared, Transport.http]

private theorem proc_step (f : Facts) (cfg : Cfg) (s s' : St) (e : Ev)
    (h : ProcInv f cfg s) (hs : step f cfg s e = some s') : ProcInv f cfg s' := by
  obtain ⟨h1, h2, h3, h4, h5, h6, h7, h8, h9, h10, h11, h12⟩ := h
  step_cases hs
  all_goals (try (exact ⟨h1, h2, h3, h4, h5, h6, h7, h8, h9, h10, h11, h12⟩))
  all_goals (simp only [ProcInv])
  all_goals (try (cases hT : cfg.t <;> simp_all [Transport.shared, Transport.http]; done))
  · cases hc : s.closing <;> cases hT : cfg.t <;> simp_all [Transport.shared, Transport.http]

/-- Response bodies. -/
def BodyInv (f : Facts) (cfg : Cfg) (s : St) : Prop :=
  ∀ c, ((s.calls c).issued = false → (s.calls c).returned = none ∧ (s.calls c).body = false) ∧
       (f.bodyClosed = true → (s.calls c).returned ≠ none → (s.calls c).body = false) ∧
       (cfg.t.http = false → (s.calls c).body = false)

private theorem body_init (f : Facts) (cfg : Cfg) : BodyInv f cfg (init cfg) := by intro c; simp [init]

private theorem body_step (f : Facts) (cfg : Cfg) (s s' : St) (e : Ev)
    (h : BodyInv f cfg s) (hs : step f cfg s e = some s') : BodyInv f cfg s' := by
  intro d
  have hdd := h d
  step_cases hs
  all_goals (try split)
  all_goals (try subst_vars)
  all_goals (try (simp_all [closeChans_fields, waiting]; done))
  · rename_i c k hw
    cases k <;> simp_all [relBody, waiting]

/-- Pending channels of the shared-stream transports. -/
def ChanInv (f : Facts) (cfg : Cfg) (s : St) : Prop :=
  ∀ c, (f.hasTable = true → cfg.t.shared = true → waiting (s.calls c) = true → (s.calls c).inTable = true ∨ (s.calls c).chClosed = true) ∧
       (cfg.t.shared = true → s.closed = true → (s.calls c).inTable = false) ∧
       ((s.calls c).chClosed = true → s.closing = true)

private theorem chan_init (f : Facts) (cfg : Cfg) : ChanInv f cfg (init cfg) := by intro c; simp [init, waiting]

private theorem chan_step (f : Facts) (cfg : Cfg) (s s' : St) (e : Ev) (hp : ProcInv f cfg s)
    (h : ChanInv f cfg s) (hs : step f cfg s e = some s') : ChanInv f cfg s' := by
  intro d
  have hdd := h d
  have hcl := hp.2.1
  step_cases hs
  all_goals (try split)
  all_goals (try subst_vars)
  all_goals (try (simp_all [closeChans_fields, closeChans_inTable, waiting]; done))
  · cases hsh : cfg.t.shared <;> cases hc : s.closing <;> cases hcd : s.closed <;> simp_all [waiting]
  · obtain ⟨c1, c2, _, _, _, _, _, _, c9⟩ := closeChans_fields (s.calls d)
    simp only [waiting, c1, c2, c9, closeChans_inTable]
    refine ⟨?_, by simp, by simp⟩
    intro a b w
    rcases hdd.1 a b (by simpa [waiting] using w) with x | x <;> simp [x]
  · obtain ⟨c1, c2, _, _, _, _, _, _, c9⟩ := closeChans_fields (s.calls d)
    simp only [waiting, c1, c2, c9, closeChans_inTable]
    simp only [Bool.and_eq_true] at *
    refine ⟨?_, by simp, fun _ => by simp_all⟩
    intro a b w
    rcases hdd.1 a b (by simpa [waiting] using w) with x | x <;> simp [x]

/-- Everything that holds in every reachable state, whatever the facts. -/
private def AllInv (f : Facts) (cfg : Cfg) (s : St) : Prop :=
  ProcInv f cfg s ∧ ChanInv f cfg s ∧ ResInv f s ∧ BodyInv f cfg s

private theorem all_reach (f : Facts) (cfg : Cfg) (evs : List Ev) (s : St) (hr : run f cfg (init cfg) evs = some s) :
    AllInv f cfg s := by
  refine run_induct f cfg (AllInv f cfg) ?_ evs (init cfg) s ⟨proc_init f cfg, chan_init f cfg, res_init f cfg, body_init f cfg⟩ hr
  intro s s' e ⟨a, b, c, d⟩ hs
  exact ⟨proc_step f cfg s s' e a hs, chan_step f cfg s s' e a b hs, res_step f cfg s s' e c hs, body_step f cfg s s' e d hs⟩

private theorem table_reach (f : Facts) (cfg : Cfg) (hd : f.deleteDeferred = true) (evs : List Ev) (s : St)
    (hr : run f cfg (init cfg) evs = some s) : TableInv s :=
  run_induct f cfg TableInv (fun s s' e h hs => table_step f cfg hd s s' e h hs) evs (init cfg) s (table_init cfg) hr

/-! ## C08: never a wrong or partial result -/

/-- **No wrong result.** In the region "one closer per pending channel, checked receive", for every schedule of issues,
    answers, deliveries, faults, Close and returns: a call that has returned has an error or its own complete answer
    (handed over by the reader) — never a nil result, never a panic. -/
theorem C08_no_wrong_result (f : Facts) (cfg : Cfg) (h1 : f.oneCloser = true) (h2 : f.recvOk = true)
    (evs : List Ev) (s : St) (hr : run f cfg (init cfg) evs = some s) (c : Nat) (r : Res)
    (hret : (s.calls c).returned = some r) : (r = .ok ∧ (s.calls c).slot = true) ∨ r = .err := by
  obtain ⟨_, _, hres, _⟩ := all_reach f cfg evs s hr
  obtain ⟨a, b⟩ := hres c r hret
  rcases b with b | b | b
  · exact Or.inl ⟨b, a b⟩
  · exact Or.inr b
  · rcases b.2 with x | x <;> simp_all

/-- Whatever the facts: a call whose pending channel close() has not closed returns an error or its own answer. (This is
    what is left of `C08_no_wrong_result` for a transport whose pending channels have two closers, as stdio had.) -/
theorem C08_no_wrong_result_partial (f : Facts) (cfg : Cfg)
    (evs : List Ev) (s : St) (hr : run f cfg (init cfg) evs = some s) (c : Nat) (r : Res)
    (hret : (s.calls c).returned = some r) (hc : (s.calls c).chClosed = false) :
    (r = .ok ∧ (s.calls c).slot = true) ∨ r = .err := by
  obtain ⟨_, _, hres, _⟩ := all_reach f cfg evs s hr
  obtain ⟨a, b⟩ := hres c r hret
  rcases b with b | b | b
  · exact Or.inl ⟨b, a b⟩
  · exact Or.inr b
  · simp [hc] at b

/-- No reader hands a truncated answer to a call: with anything less than the complete data line / document written,
    nothing is delivered, whatever the framing and however the connection continues. -/
theorem C08_no_partial_frame (t : Transport) (fr : Framing) (p : Pos) (tl : Tail)
    (hp : p = .none ∨ p = .hdrPartial ∨ p = .hdrDone ∨ p = .dataPartial) : delivers t fr p tl = false := by
  rcases hp with h | h | h | h <;> subst h <;> cases t <;> simp [delivers]

/-! ## C08: every pending call returns -/

private theorem complete_err (f : Facts) (cfg : Cfg) (s : St) (c : Nat) (k : Case)
    (hw : waiting (s.calls c) = true) (hk : ready f cfg s (s.calls c) k = true) (hne : k ≠ .answer)
    (hrecv : k = .closedChan → f.recvOk = true)
    (hno : f.oneCloser = true ∨ (s.calls c).chClosed = false) :
    ∃ s', step f cfg s (.complete c k) = some s' ∧ (s'.calls c).returned = some .err := by
  have hstep : step f cfg s (.complete c k) = some { setCall s c { (s.calls c) with
      returned := some (result f (s.calls c) k),
      inTable := (s.calls c).inTable && !(f.deleteDeferred || k = .answer),
      body := relBody f cfg (s.calls c) k } with heldReads := heldAfter f cfg (s.calls c) s.heldReads } := by simp [step, hw, hk]
  refine ⟨_, hstep, ?_⟩
  simp only [setCall, ite_true, result]
  rcases hno with h | h
  · cases k <;> simp_all
  · cases k <;> simp_all

private theorem complete_ok (f : Facts) (cfg : Cfg) (s : St) (c : Nat)
    (hw : waiting (s.calls c) = true) (hk : ready f cfg s (s.calls c) .answer = true)
    (hno : f.oneCloser = true ∨ (s.calls c).chClosed = false) :
    ∃ s', step f cfg s (.complete c .answer) = some s' ∧ (s'.calls c).returned = some .ok := by
  have hstep : step f cfg s (.complete c .answer) = some { setCall s c { (s.calls c) with
      returned := some (result f (s.calls c) .answer),
      inTable := (s.calls c).inTable && !(f.deleteDeferred || Case.answer = .answer),
      body := relBody f cfg (s.calls c) .answer } with heldReads := heldAfter f cfg (s.calls c) s.heldReads } := by simp [step, hw, hk]
  refine ⟨_, hstep, ?_⟩
  simp only [setCall, ite_true, result]
  rcases hno with h | h <;> simp_all

/-- What `C08_returns` needs of the facts of transport `t`. -/
private def SelOk (f : Facts) (t : Transport) : Prop :=
  f.selCtx = true ∧
  (t = .stdio → f.selTctx = true ∧ f.selTimeout = true ∧ f.exitCancels = true) ∧
  (t = .sse → f.hasTable = true ∧ f.selClosed = true ∧ f.recvOk = true ∧ f.endCloses = true ∧ f.oneCloser = true)

private theorem returns_core (f : Facts) (cfg : Cfg) (hsel : SelOk f cfg.t)
    (evs : List Ev) (s : St) (hr : run f cfg (init cfg) evs = some s) (c : Nat)
    (hw : waiting (s.calls c) = true) (k : Cause) (ha : applicable cfg.t k = true) (hh : happened s c k = true)
    (hno : f.oneCloser = true ∨ (s.calls c).chClosed = false) :
    ∃ es k' s', es.length ≤ 1 ∧ (∀ e ∈ es, e = Ev.readerExit ∨ e = Ev.watcherExit) ∧
      run f cfg s (es ++ [.complete c k']) = some s' ∧
      ((s'.calls c).returned = some .err ∨ ((s.calls c).slot = true ∧ (s'.calls c).returned = some .ok)) := by
  obtain ⟨hctx, hstdio, hsse⟩ := hsel
  obtain ⟨hp, hch, _, _⟩ := all_reach f cfg evs s hr
  have direct : ∀ kc : Case, kc ≠ .answer → (kc = .closedChan → f.recvOk = true) → ready f cfg s (s.calls c) kc = true →
      ∃ es k' s', es.length ≤ 1 ∧ (∀ e ∈ es, e = Ev.readerExit ∨ e = Ev.watcherExit) ∧
        run f cfg s (es ++ [.complete c k']) = some s' ∧
        ((s'.calls c).returned = some .err ∨ ((s.calls c).slot = true ∧ (s'.calls c).returned = some .ok)) := by
    intro kc h1 h2 h3
    obtain ⟨s', hs', hres⟩ := complete_err f cfg s c kc hw h3 h1 h2 hno
    exact ⟨[], kc, s', by simp, by simp, by simp [run, hs'], Or.inl hres⟩
  cases k with
  | ctx => exact direct .ctx (by simp) (by simp) (by simp_all [ready, happened])
  | conn => exact direct .connErr (by simp) (by simp) (by simp_all [ready, happened])
  | timeout =>
    have ht : cfg.t = .stdio := by simpa [applicable] using ha
    exact direct .timeout (by simp) (by simp) (by simp_all [ready, happened])
  | streamEnd =>
    have ht : cfg.t = .sse := by simpa [applicable] using ha
    obtain ⟨hT, hS, hR, hE, hO⟩ := hsse ht
    have hsh : cfg.t.shared = true := by simp [ht, Transport.shared]
    by_cases hslot : (s.calls c).slot = true
    · -- the answer is already in the call's channel: it is received first
      have hk : ready f cfg s (s.calls c) .answer = true := by simp [ready, hslot, ht]
      obtain ⟨s', hs', hres⟩ := complete_ok f cfg s c hw hk (Or.inl hO)
      exact ⟨[], .answer, s', by simp, by simp, by simp [run, hs'], Or.inr ⟨hslot, hres⟩⟩
    · have hslot : (s.calls c).slot = false := by simpa using hslot
      cases hrd : s.reader with
      | false =>
        have hcl : s.closed = true := hp.2.2.2.2.2.2.2.2.2.2.1 ht hE hrd
        have hnt : (s.calls c).inTable = false := (hch c).2.1 hsh hcl
        have hcc : (s.calls c).chClosed = true := by
          rcases (hch c).1 hT hsh hw with x | x
          · simp [hnt] at x
          · exact x
        exact direct .closedChan (by simp) (fun _ => hR) (by simp [ready, hS, hcc, hslot])
      | true =>
        have hdown : s.streamDown = true := by simpa [happened] using hh
        let s1 : St := { s with reader := false, closing := true, closed := true, streamDown := true, calls := fun d => closeChans (s.calls d),
                                answerPost := s.answerPost && !f.answerBound }
        have hs1 : step f cfg s .readerExit = some s1 := by simp [step, hrd, hdown, hE, ht, s1]
        obtain ⟨c1, c2, _, c4, _, _, _, _, c9⟩ := closeChans_fields (s.calls c)
        have hw1 : waiting (s1.calls c) = true := by simpa [s1, waiting, c1, c2] using hw
        have hcc : (s1.calls c).chClosed = true := by
          simp only [s1, c9]
          rcases (hch c).1 hT hsh hw with x | x <;> simp [x]
        have hk : ready f cfg s1 (s1.calls c) .closedChan = true := by
          simp only [ready, hS, hcc, Bool.true_and]
          simp [s1, c4, hslot]
        obtain ⟨s', hs', hres⟩ := complete_err f cfg s1 c .closedChan hw1 hk (by simp) (fun _ => hR) (Or.inl hO)
        exact ⟨[.readerExit], .closedChan, s', by simp, by simp, by simp [run, hs1, hs'], Or.inl hres⟩
  | procExit =>
    have ht : cfg.t = .stdio := by simpa [applicable] using ha
    obtain ⟨hT, _, hX⟩ := hstdio ht
    have hchild : s.child = false := by simpa [happened] using hh
    cases htc : s.tctx with
    | true => exact direct .tctx (by simp) (by simp) (by simp [ready, hT, htc])
    | false =>
      have hncl : s.closing = false := by
        cases hc : s.closing with
        | false => rfl
        | true => have := hp.2.2.2.2.2.2.2.2.1 ht hc; simp [htc] at this
      have hwt : s.watcher = true := by
        cases hwv : s.watcher with
        | true => rfl
        | false => have := hp.2.2.2.2.2.2.2.2.2.1 ht hX hwv; simp [htc] at this
      have htok : s.token = true := (hp.2.2.1 hncl).2 hwt
      let s1 : St := { s with watcher := false, token := false, tctx := s.tctx || (f.exitCancels && !s.closing) }
      have hs1 : step f cfg s .watcherExit = some s1 := by simp [step, hwt, hchild, htok, s1]
      have hk : ready f cfg s1 (s1.calls c) .tctx = true := by simp [ready, hT, s1, hX, hncl]
      obtain ⟨s', hs', hres⟩ := complete_err f cfg s1 c .tctx hw hk (by simp) (by simp) hno
      exact ⟨[.watcherExit], .tctx, s', by simp, by simp, by simp [run, hs1, hs'], Or.inl hres⟩

private theorem selOk_of_good (f : Facts) (t : Transport) (hg : f.goodFor t = true) : SelOk f t ∧ f.oneCloser = true := by
  cases t <;> simp_all [Facts.goodFor, SelOk, Transport.shared]

/-- **Every pending call returns.** In the good region of transport `cfg.t`, in every reachable state (any schedule of
    issues, answers, deliveries, faults, Close, returns): once a cause of the property's list has happened — the caller's
    context ended, the call's own HTTP exchange failed, the transport timer fired, the event stream ended (legacy SSE),
    the child died (stdio) — the waiting call can return after at most one step of a library goroutine (the stream reader
    closing the transport, the process watcher cancelling the transport context), and what it returns is an error — or its
    own complete answer if that had already been handed over; never anything else. -/
theorem C08_returns (f : Facts) (cfg : Cfg) (hg : f.goodFor cfg.t = true)
    (evs : List Ev) (s : St) (hr : run f cfg (init cfg) evs = some s) (c : Nat)
    (hw : waiting (s.calls c) = true) (k : Cause) (ha : applicable cfg.t k = true) (hh : happened s c k = true) :
    ∃ es k' s', es.length ≤ 1 ∧ (∀ e ∈ es, e = Ev.readerExit ∨ e = Ev.watcherExit) ∧
      run f cfg s (es ++ [.complete c k']) = some s' ∧
      ((s'.calls c).returned = some .err ∨ ((s.calls c).slot = true ∧ (s'.calls c).returned = some .ok)) :=
  returns_core f cfg (selOk_of_good f cfg.t hg).1 evs s hr c hw k ha hh (Or.inl (selOk_of_good f cfg.t hg).2)

/-- What is left of `C08_returns` where a pending channel has two closers (stdio before its repair): the same conclusion for a call
    whose channel close() has not closed yet. -/
theorem C08_returns_partial (f : Facts) (cfg : Cfg) (ht : cfg.t = .stdio)
    (hg : ({ f with oneCloser := true, recvOk := true, oneWait := true }).goodFor .stdio = true)
    (evs : List Ev) (s : St) (hr : run f cfg (init cfg) evs = some s) (c : Nat)
    (hw : waiting (s.calls c) = true) (hc : (s.calls c).chClosed = false)
    (k : Cause) (ha : applicable cfg.t k = true) (hh : happened s c k = true) :
    ∃ es k' s', es.length ≤ 1 ∧ (∀ e ∈ es, e = Ev.readerExit ∨ e = Ev.watcherExit) ∧
      run f cfg s (es ++ [.complete c k']) = some s' ∧
      ((s'.calls c).returned = some .err ∨ ((s.calls c).slot = true ∧ (s'.calls c).returned = some .ok)) := by
  refine returns_core f cfg ?_ evs s hr c hw k ha hh (Or.inr hc)
  simp_all [Facts.goodFor, SelOk, Transport.shared]

/-- Witness for "two closers": Close() closes the channel of a call that is still waiting, the call then leaves through the
    cancelled transport context and its deferred cleanup closes the channel a second time. -/
theorem C08_double_close_witness :
    ∃ s, run { Facts.allGood with oneCloser := false } { t := .stdio } (init { t := .stdio })
        [.issue 0, .closeBegin, .closeEnd, .complete 0 .tctx] = some s ∧ (s.calls 0).returned = some .crash := by
  refine ⟨_, rfl, ?_⟩; decide

/-- Witness for "receive without ok": with a single closer but an unchecked receive the same schedule returns a nil
    result without an error. -/
theorem C08_nil_result_witness :
    ∃ s, run { Facts.allGood with recvOk := false } { t := .stdio } (init { t := .stdio })
        [.issue 0, .closeBegin, .closeEnd, .complete 0 .closedChan] = some s ∧ (s.calls 0).returned = some .nilResult := by
  refine ⟨_, rfl, ?_⟩; decide

/-- Witness for a wait without the transport-context case: after the child died and the watcher cancelled, the call has no
    ready case (it stays until its timer or the caller's context). -/
theorem C08_lost_case_witness :
    ∃ s, run { Facts.allGood with selTctx := false } { t := .stdio } (init { t := .stdio })
        [.issue 0, .procExit, .watcherExit] = some s ∧ s.tctx = true ∧
      ∀ k, step { Facts.allGood with selTctx := false } { t := .stdio } s (.complete 0 k) = none := by
  refine ⟨_, rfl, by decide, ?_⟩
  intro k; cases k <;> decide

/-! ## C08: the pending table -/

/-- **Pending table empty.** With the delete deferred, in every reachable state: a registered call is one that has not
    returned; so once every issued call has returned — through whichever case — the table is empty. -/
theorem C08_pending_empty (f : Facts) (cfg : Cfg) (hd : f.deleteDeferred = true)
    (evs : List Ev) (s : St) (hr : run f cfg (init cfg) evs = some s)
    (hall : ∀ c, (s.calls c).issued = true → (s.calls c).returned ≠ none) : ∀ c, (s.calls c).inTable = false := by
  intro c
  have h := (table_reach f cfg hd evs s hr c).2
  cases hin : (s.calls c).inTable with
  | false => rfl
  | true => exact absurd (h hin).2 (hall c (h hin).1)

/-- Witness for a delete that is not deferred: the call leaves through its context, the entry stays. -/
theorem C08_pending_leak_witness :
    ∃ s, run { Facts.allGood with deleteDeferred := false } { t := .sse } (init { t := .sse })
        [.issue 0, .ctxDone 0, .complete 0 .ctx] = some s ∧ (s.calls 0).returned = some .err ∧ (s.calls 0).inTable = true := by
  refine ⟨_, rfl, ?_⟩; decide

/-- **Server-issued requests.** A request a server sends to its peer (`SendRequest`, `ListRoots`) is an entry in the
    server's pending table; with every insert's delete deferred (the regenerated fact of `C08_server_inserts_deferred`),
    for every schedule: once every issued request has returned — answered, ended by its caller's context or timer, or
    because the request could not be written to the peer's stream — the table is empty. -/
theorem C08_server_pending_released (ins : List SrvInsertSite) (sv : Server)
    (hd : (srvFacts ins sv).deleteDeferred = true)
    (evs : List Ev) (s : St) (hr : run (srvFacts ins sv) srvCfg (init srvCfg) evs = some s)
    (hall : ∀ c, (s.calls c).issued = true → (s.calls c).returned ≠ none) : ∀ c, (s.calls c).inTable = false :=
  C08_pending_empty (srvFacts ins sv) srvCfg hd evs s hr hall

/-- Witness for a server-side delete that is deferred only after an early return: the request is registered, writing it
    to the peer's stream fails (the stream is going away), the call returns its error — the entry stays for ever. -/
theorem C08_server_pending_leak_witness :
    ∃ s, run { Facts.allGood with deleteDeferred := false } srvCfg (init srvCfg)
        [.issue 0, .connErr 0, .complete 0 .connErr] = some s ∧ (s.calls 0).returned = some .err ∧ (s.calls 0).inTable = true := by
  refine ⟨_, rfl, ?_⟩; decide

/-! ## C08: calls are independent of each other -/

private theorem lock_step (f : Facts) (cfg : Cfg) (hl : f.lockFree = true) (s s' : St) (e : Ev)
    (h : s.heldReads = 0 ∧ s.writerWaiting = false) (hs : step f cfg s e = some s') :
    s'.heldReads = 0 ∧ s'.writerWaiting = false := by
  obtain ⟨h1, h2⟩ := h
  step_cases hs
  all_goals (try (simp_all [heldAfter]; done))

/-- **Independence.** With `lockFree` (no stream-reading function of the transport holds a lock across its read loop — the
    regenerated fact of `C08_no_lock_across_reads`), in every reachable state nobody holds a lock of the transport while
    reading and nobody waits for one: what a call, Close() or the handler registry can do never depends on another call
    being stalled — `Register/UnregisterNotificationHandler` go through in every reachable state, and
    `C08_close_takes_effect` / `C08_returns` hold whatever the other calls do. -/
theorem C08_calls_independent (f : Facts) (cfg : Cfg) (hl : f.lockFree = true)
    (evs : List Ev) (s : St) (hr : run f cfg (init cfg) evs = some s) :
    s.heldReads = 0 ∧ s.writerWaiting = false ∧ step f cfg s .handlerOp = some s := by
  have h := run_induct f cfg (fun s => s.heldReads = 0 ∧ s.writerWaiting = false)
    (fun s s' e h hs => lock_step f cfg hl s s' e h hs) evs (init cfg) s (by simp [init]) hr
  exact ⟨h.1, h.2, by simp [step, hl]⟩

/-- Witness for a read lock held across the stream read (`defer RUnlock` in `handleSSEResponse`): one call is stalled on its
    SSE answer (headers, then silence); `RegisterNotificationHandler` blocks behind it and, waiting for the write side,
    keeps every later reader out: a second call never gets to read its (complete) answer, and Close() blocks too — nothing
    is closed. -/
theorem C08_lock_across_read_witness :
    ∃ s, run { Facts.allGood with lockFree := false } { t := .streamSse } (init { t := .streamSse })
        [.issue 0, .headers 0 true, .handlerOp, .issue 1] = some s ∧ s.heldReads = 1 ∧ s.writerWaiting = true ∧
      step { Facts.allGood with lockFree := false } { t := .streamSse } s (.headers 1 true) = none ∧
      step { Facts.allGood with lockFree := false } { t := .streamSse } s (.deliver 1) = none ∧
      (∃ s', step { Facts.allGood with lockFree := false } { t := .streamSse } s .closeBegin = some s' ∧ s'.closing = false) := by
  refine ⟨_, rfl, by decide, by decide, by decide, by decide, ⟨_, rfl, by decide⟩⟩

/-! ## C08: the resource ledger after Close -/

/-- Component-wise, for any facts: after Close() has begun, in a quiescent state, the reader and the child are gone; the
    response bodies are released if every body is closed; nobody is left in `Cmd.Wait` if it has a single call site; no
    listening stream is open if its start is guarded (or none is ever started). -/
theorem C08_ledger_partial (f : Facts) (cfg : Cfg)
    (evs : List Ev) (s : St) (hr : run f cfg (init cfg) evs = some s)
    (hc : s.closing = true) (hq : quiescent f cfg s) :
    s.reader = false ∧ s.child = false ∧
    (f.bodyClosed = true → ∀ c, (s.calls c).body = false) ∧
    (f.oneWait = true → s.watcher = false ∧ s.closeWaiter = false) ∧
    ((f.startGuarded = true ∨ (cfg.t.http && cfg.getSSE) = false) → s.stream = false) ∧
    (f.answerBound = true → s.answerPost = false) := by
  obtain ⟨hp, _, _, hb⟩ := all_reach f cfg evs s hr
  obtain ⟨h1, _, _, h4, _, _, h7, h8, _, _, _, h12⟩ := hp
  obtain ⟨hall, hre, hwe, _, _⟩ := hq
  have hchild : s.child = false := h1 hc
  refine ⟨?_, hchild, ?_, ?_, ?_, fun ha => h12 ha hc⟩
  · cases hrd : s.reader with
    | false => rfl
    | true => simp [step, hrd, hc] at hre; split at hre <;> simp at hre
  · intro hbc c
    cases hi : (s.calls c).issued with
    | false => exact ((hb c).1 hi).2
    | true => exact (hb c).2.1 hbc (hall c hi)
  · intro how
    obtain ⟨a, b⟩ := h4 how
    refine ⟨?_, a⟩
    cases hwv : s.watcher with
    | false => rfl
    | true => simp [step, hwv, hchild, b hwv] at hwe
  · intro hsg
    rcases hsg with x | x
    · exact h7 x hc
    · exact (h8 x).1

/-- **Ledger zero after Close.** In the region "every body closed, one `Cmd.Wait`, guarded stream start, answer POSTs bound
    to the stream's context": for every
    schedule, once Close() has completed and the state is quiescent (every issued call has returned, no library goroutine
    can take a step, the stream starter has run), nothing is left: no response body, no reader, no child, nobody in
    `Cmd.Wait`, no listening stream, no POST with an answer to the server in flight. -/
theorem C08_ledger_zero_after_close (f : Facts) (cfg : Cfg)
    (hb : f.bodyClosed = true) (hw : f.oneWait = true) (hg : f.startGuarded = true) (ha : f.answerBound = true)
    (evs : List Ev) (s : St) (hr : run f cfg (init cfg) evs = some s)
    (hc : s.closed = true) (hq : quiescent f cfg s) : ledgerZero s := by
  have hcl : s.closing = true := (all_reach f cfg evs s hr).1.2.1 hc
  obtain ⟨a, b, c, d, e, g⟩ := C08_ledger_partial f cfg evs s hr hcl hq
  exact ⟨c hb, a, b, (d hw).1, (d hw).2, e (Or.inl hg), g ha⟩

/-- **Close takes effect whatever the client's state.** With `closeAny` (Close() reaches `transport.close()` under no
    condition but `transport != nil`) and `lockFree` (no call holds a lock of the transport while it reads its stream), in every reachable state in which Close has not begun — in particular after a
    failed handshake or while one is in flight, when the client's state is Disconnected but the transport is up — Close()
    runs to completion: the closed flag is set, the pending channels are closed.  (`C08_ledger_zero_after_close` then
    applies to what follows.) -/
theorem C08_close_takes_effect (f : Facts) (cfg : Cfg) (ha : f.closeAny = true) (hl : f.lockFree = true)
    (evs : List Ev) (s : St) (hr : run f cfg (init cfg) evs = some s) (hc : s.closing = false) :
    ∃ s', run f cfg s [.closeBegin, .closeEnd] = some s' ∧ s'.closed = true ∧ s'.closing = true := by
  have hcd : s.closed = false := by
    cases h : s.closed with
    | false => rfl
    | true => have := (all_reach f cfg evs s hr).1.2.1 h; simp [hc] at this
  cases ht : cfg.t <;> simp [run, step, hc, ha, hl, ht, hcd, Transport.shared]

/-- Witness for a Close() guarded by the client's state (returns early when the state is Disconnected): the legacy SSE
    handshake fails after the event stream is up (the initialize POST is answered by nothing, the caller's deadline
    passes); Close() is not enabled at all, and nothing else can move: the reader (and its connection) stays for ever. -/
theorem C08_close_skipped_witness :
    ∃ s, run { Facts.allGood with closeAny := false } { t := .sse, connected := false } (init { t := .sse, connected := false })
        [.issue 0, .ctxDone 0, .complete 0 .ctx] = some s ∧ (s.calls 0).returned = some .err ∧
      step { Facts.allGood with closeAny := false } { t := .sse, connected := false } s .closeBegin = none ∧
      step { Facts.allGood with closeAny := false } { t := .sse, connected := false } s .readerExit = none ∧
      s.reader = true := by
  refine ⟨_, rfl, ?_⟩; decide

/-- … and for the Streamable client: Close() issued while the handshake is in flight (state Disconnected) does nothing,
    the handshake then succeeds and its asynchronous starter opens the listening stream: it outlives the Close(). -/
theorem C08_close_during_handshake_witness :
    ∃ s, run { Facts.allGood with closeAny := false } { t := .streamJson, getSSE := true, connected := false }
        (init { t := .streamJson, getSSE := true, connected := false })
        [.issue 0, .headers 0 true, .deliver 0, .bodyEnd 0, .complete 0 .answer, .starterRun] = some s ∧
      step { Facts.allGood with closeAny := false } { t := .streamJson, getSSE := true, connected := false } s .closeBegin = none ∧
      s.stream = true := by
  refine ⟨_, rfl, ?_⟩; decide

/-- Witness for a wait whose request is sent with a context detached from the caller's (the legacy SSE handshake's stream
    request as it was before /repo 0002846: `start` built it with `context.WithoutCancel(ctx)` and nothing else watched the
    caller's context; finding `calls:sse:initialize_ignores_context_before_stream_headers`): the caller's context ends and
    no case of the wait is ready; only Close() ends the call — with an error. -/
theorem C08_detached_wait_witness :
    ∃ s, run { Facts.allGood with selCtx := false } { t := .sse, connected := false } (init { t := .sse, connected := false })
        [.issue 0, .ctxDone 0] = some s ∧ (s.calls 0).ctxDone = true ∧
      (∀ k, step { Facts.allGood with selCtx := false } { t := .sse, connected := false } s (.complete 0 k) = none) ∧
      ∃ s', run { Facts.allGood with selCtx := false } { t := .sse, connected := false } s
        [.closeBegin, .closeEnd, .complete 0 .closedChan] = some s' ∧ (s'.calls 0).returned = some .err := by
  refine ⟨_, rfl, by decide, ?_, ⟨_, rfl, by decide⟩⟩
  intro k; cases k <;> decide

/-- Witness for a back-off that sleeps (`time.Sleep(backoff)` between two attempts of a retrying client instead of a select
    over {timer, caller's context}): the call is between two attempts, its caller's context ends, and no case of its wait is
    ready; it moves again only when the back-off timer fires — and returns the context's error then. -/
theorem C08_backoff_sleep_witness :
    ∃ s, run { Facts.allGood with selCtx := false } { t := .streamJson } (init { t := .streamJson })
        [.issue 0, .ctxDone 0] = some s ∧ (s.calls 0).ctxDone = true ∧
      (∀ k, step { Facts.allGood with selCtx := false } { t := .streamJson } s (.complete 0 k) = none) ∧
      ∃ s', run { Facts.allGood with selCtx := false } { t := .streamJson } s
        [.timeout 0, .complete 0 .timeout] = some s' ∧ (s'.calls 0).returned = some .err := by
  refine ⟨_, rfl, by decide, ?_, ⟨_, rfl, by decide⟩⟩
  intro k; cases k <;> decide

/-- Witness for a wait without a case that ends on Close() (the legacy SSE handshake's wait for the endpoint event as it was
    before /repo 3e0df05: a select over the endpoint event, the caller's context and a timer; finding
    `calls:sse:close_does_not_end_initialize_before_endpoint_event`): Close() runs to completion, closes the call's channel
    and ends the reader, and no case of the wait is ready; the call ends only when its caller's context does. -/
theorem C08_wait_without_close_case_witness :
    ∃ s, run { Facts.allGood with selClosed := false } { t := .sse, connected := false } (init { t := .sse, connected := false })
        [.issue 0, .closeBegin, .closeEnd, .readerExit] = some s ∧ s.closed = true ∧ s.reader = false ∧
      (s.calls 0).chClosed = true ∧
      (∀ k, step { Facts.allGood with selClosed := false } { t := .sse, connected := false } s (.complete 0 k) = none) ∧
      ∃ s', run { Facts.allGood with selClosed := false } { t := .sse, connected := false } s
        [.ctxDone 0, .complete 0 .ctx] = some s' ∧ (s'.calls 0).returned = some .err := by
  refine ⟨_, rfl, by decide, by decide, by decide, ?_, ⟨_, rfl, by decide⟩⟩
  intro k; cases k <;> decide

/-- Witness for an answer POST made with a context detached from the stream's: the server's request arrives on the listening
    stream, the reader starts the POST with the client's answer, the peer stalls on it; Close() completes, everything else
    is quiescent — the POST (its goroutine and connection) is still there, until the peer responds or its own timer fires. -/
theorem C08_answer_post_outlives_close_witness :
    ∃ s, run { Facts.allGood with answerBound := false } { t := .streamJson, getSSE := true } (init { t := .streamJson, getSSE := true })
        [.starterRun, .srvRequest, .closeBegin, .closeEnd] = some s ∧ s.closed = true ∧ s.stream = false ∧ s.answerPost = true ∧
      ∃ s', step { Facts.allGood with answerBound := false } { t := .streamJson, getSSE := true } s .answerDone = some s' ∧ s'.answerPost = false := by
  refine ⟨_, rfl, by decide, by decide, by decide, ⟨_, rfl, by decide⟩⟩

/-- Witness for a body that is not closed (D18): a Streamable call with an SSE answer returns at the result; after Close,
    with everything quiescent, its response body is still held. -/
theorem C08_body_leak_witness :
    ∃ s, run { Facts.allGood with bodyClosed := false } { t := .streamSse } (init { t := .streamSse })
        [.issue 0, .headers 0 true, .deliver 0, .complete 0 .answer, .closeBegin, .closeEnd] = some s ∧
      s.closed = true ∧ (s.calls 0).returned = some .ok ∧ (s.calls 0).body = true := by
  refine ⟨_, rfl, ?_⟩; decide

/-- Witness for an unguarded asynchronous stream start (D19): Close() runs before the starter goroutine; the stream is
    opened afterwards and stays. -/
theorem C08_stream_after_close_witness :
    ∃ s, run { Facts.allGood with startGuarded := false } { t := .streamJson, getSSE := true } (init { t := .streamJson, getSSE := true })
        [.closeBegin, .closeEnd, .starterRun] = some s ∧ s.closed = true ∧ s.starter = false ∧ s.stream = true := by
  refine ⟨_, rfl, ?_⟩; decide

/-- Witness for two `Cmd.Wait` call sites: Close() on a live child starts a second waiter; whichever of the two receives
    the Cmd's single context result, the other one stays for ever. -/
theorem C08_double_wait_witness :
    (∃ s, run { Facts.allGood with oneWait := false } { t := .stdio } (init { t := .stdio })
        [.closeBegin, .closeEnd, .readerExit, .watcherExit] = some s ∧ s.closeWaiter = true ∧
        step { Facts.allGood with oneWait := false } { t := .stdio } s .closeWaitExit = none) ∧
    (∃ s, run { Facts.allGood with oneWait := false } { t := .stdio } (init { t := .stdio })
        [.closeBegin, .closeEnd, .readerExit, .closeWaitExit] = some s ∧ s.watcher = true ∧
        step { Facts.allGood with oneWait := false } { t := .stdio } s .watcherExit = none) := by
  refine ⟨⟨_, rfl, ?_⟩, ⟨_, rfl, ?_⟩⟩ <;> decide

/-! ## The regenerated facts -/

open Mcp.Gen.CallFacts in
/-- Legacy SSE client of today: every fact of its region holds (select with context and checked receive, deferred delete,
    one closer, `readSSE` ends in `close()`, every body closed or handed to `readSSE` which closes it). -/
theorem C08_facts_sse : (factsOf clTables .sse).goodFor .sse = true := by decide

open Mcp.Gen.CallFacts in
/-- Streamable client, JSON answers, today: in the good region (request built with the caller's context, body closed by
    `send`'s deferred Close, the listening stream's start refused after `close()`). -/
theorem C08_facts_streamJson : (factsOf clTables .streamJson).goodFor .streamJson = true := by decide

open Mcp.Gen.CallFacts in
/-- Streamable client, SSE answers, today: in the good region (`handleSSEResponse` closes the body it is handed, its wait
    has the caller-context case, guarded stream start). -/
theorem C08_facts_streamSse : (factsOf clTables .streamSse).goodFor .streamSse = true := by decide

open Mcp.Gen.CallFacts in
/-- stdio client of today: in the good region (wait with answer / caller context / timer / transport context and a
    checked receive, deferred delete, `close()` the only closer of a pending channel, `processWatcher` the only caller of
    `Cmd.Wait` and it cancels the transport context). -/
theorem C08_facts_stdio : (factsOf clTables .stdio).goodFor .stdio = true := by decide

open Mcp.Gen.CallFacts in
/-- (a) Every function that inserts into a pending table defers the delete. -/
theorem C08_inserts_deferred : clInserts.isEmpty = false ∧ clInserts.all (·.deleteDeferred) = true := by decide

open Mcp.Gen.CallFacts in
/-- (a') The same on the servers: every function of the Streamable, legacy SSE and stdio servers that registers a
    server-issued request (directly, or through `RegisterRequest`) defers the delete before any return can follow. -/
theorem C08_server_inserts_deferred : ∀ sv : Server, (srvFacts srvInserts sv).deleteDeferred = true := by
  intro sv; cases sv <;> decide

open Mcp.Gen.CallFacts in
/-- (d) `Client.Close` and `StdioClient.Close` reach `transport.close()` under no condition but `transport != nil`. -/
theorem C08_close_unguarded : ∀ c : Client, clTables.closeUnguarded.any (· = c) = true := by
  intro c; cases c <;> decide

open Mcp.Gen.CallFacts in
/-- (i) The Streamable server's `handleGet`, on its way out (after the stream's context ended): the write deadline is set
    before the stream's write lock is taken.  A sender blocked in a write to a peer that stays connected but no longer
    reads holds that lock; the deadline is what releases it.  (The other order is the shape of
    `C08_lock_across_read_witness`: a lock held across a blocked I/O operation keeps everybody who needs it waiting —
    here the handler, the blocked sender and every later writer; reached on the real server by the script
    `stalledPeer`, fingerprints `calls:server:streamable:stalled-peer-not-released-after-{delete,replace}`.) -/
theorem C08_get_exit_deadline_before_lock : clTables.getExitDeadlineFirst = true := by decide

open Mcp.Gen.CallFacts in
/-- (h) No stream-reading function of the three client transports (`handleSSEResponse`, `handleGetSSEEvents`, `readSSE`,
    `readLoop`, …) holds a lock across its read loop: no deferred unlock in such a function, every lock taken before the
    loop released before it. -/
theorem C08_no_lock_across_reads : ∀ c : Client, clTables.lockFree.any (· = c) = true := by
  intro c; cases c <;> decide

open Mcp.Gen.CallFacts in
/-- (g) `retry.Execute` waits between two attempts in a select over the back-off timer and the caller's context; it never
    sleeps.  Part of `selCtx` of every transport (`factsOf`). -/
theorem C08_backoff_selects_ctx : clTables.backoffCtx = true := by decide

open Mcp.Gen.CallFacts in
/-- (f) `sendResponseToServer` (Streamable) and `sendResponseMessage` (legacy SSE) make the POST that carries the client's
    answer to a request of the server with a context derived from the stream's context, which Close() cancels. -/
theorem C08_answer_posts_bound : clTables.answerBound.any (· = .streamable) = true ∧ clTables.answerBound.any (· = .sse) = true := by decide

open Mcp.Gen.CallFacts in
/-- (e) The legacy SSE client's `start`: the stream request is bounded by the caller's context while it is being established
    (built with it, or cancelled by a goroutine that watches it), and the wait for the endpoint event has the case of the
    stream's context, which Close() cancels.  Both are part of `factsOf clTables .sse` (`selCtx`, `selClosed`). -/
theorem C08_sse_start_bounded : clTables.startBounded = true ∧ clTables.startSelStream = true := by decide

open Mcp.Gen.CallFacts in
/-- (b) Every function that obtains an `*http.Response` closes its body on every path or hands it to a function that
    does (`send` → `handleSSEResponse`, `start` → `readSSE`). -/
theorem C08_bodies_closed : ((clBodies.filter (·.obtains)).all (siteOk clTables)) = true := by decide

open Mcp.Gen.CallFacts in
/-- (c) The waits of today's call paths have the cases the property needs: `sendRequest` (stdio) answer / caller context /
    timer / transport context; `sendRequestInternal` (legacy SSE) caller context / checked receive;
    `handleSSEResponse` (Streamable) caller context around a blocking read. -/
theorem C08_selects_current :
    selHas clTables .stdio (fun x => x.ctx && x.tctx && x.timer && x.recv) = true ∧
    selHas clTables .sse (fun x => x.ctx && x.recv && x.recvOk) = true ∧
    selHas clTables .streamSse (fun x => x.ctx && x.dflt) = true := by decide

-- non-vacuity: the good corner is good for every transport
example : ∀ t : Transport, Facts.allGood.goodFor t = true := by intro t; cases t <;> decide

-- non-vacuity of `C08_server_pending_released`: a request answered, one ended by its context, one whose write failed
example : ∃ s, run (srvFacts [{ server := .streamable, fn := [], table := [], deleteDeferred := true }] .streamable) srvCfg (init srvCfg)
      [.issue 0, .issue 1, .issue 2, .frame 0, .deliver 0, .complete 0 .answer, .ctxDone 1, .complete 1 .ctx, .connErr 2, .complete 2 .connErr] = some s ∧
    (s.calls 0).returned = some .ok ∧ (s.calls 1).returned = some .err ∧ (s.calls 2).returned = some .err ∧
    (s.calls 0).inTable = false ∧ (s.calls 1).inTable = false ∧ (s.calls 2).inTable = false := by
  refine ⟨_, rfl, ?_⟩; decide

-- non-vacuity of `C08_close_takes_effect`: Close() after a failed legacy SSE handshake (state Disconnected, reader alive)
example : ∃ s, run Facts.allGood { t := .sse, connected := false } (init { t := .sse, connected := false })
      [.issue 0, .ctxDone 0, .complete 0 .ctx, .closeBegin, .closeEnd, .readerExit] = some s ∧
    s.closed = true ∧ s.reader = false ∧ (s.calls 0).inTable = false := by
  refine ⟨_, rfl, ?_⟩; decide

-- non-vacuity of `C08_returns`: reachable states with a waiting call and a cause that happened; one call got its answer
example : ∃ s, run Facts.allGood { t := .sse } (init { t := .sse })
      [.issue 0, .issue 1, .frame 0, .deliver 0, .complete 0 .answer, .streamEnd] = some s ∧
    (s.calls 0).returned = some .ok ∧ waiting (s.calls 1) = true ∧ happened s 1 .streamEnd = true ∧
    applicable Transport.sse .streamEnd = true := by
  refine ⟨_, rfl, ?_⟩; decide

example : ∃ s, run Facts.allGood { t := .stdio } (init { t := .stdio })
      [.issue 0, .procExit, .watcherExit, .complete 0 .tctx] = some s ∧ (s.calls 0).returned = some .err ∧ (s.calls 0).inTable = false := by
  refine ⟨_, rfl, ?_⟩; decide

-- non-vacuity of `C08_ledger_zero_after_close`: a closed, quiescent state (a call answered, a call ended by the stream's
-- end, then Close)
example : ∃ s, run Facts.allGood { t := .stdio } (init { t := .stdio })
      [.issue 0, .frame 0, .deliver 0, .complete 0 .answer, .issue 1, .closeBegin, .complete 1 .tctx, .closeEnd, .readerExit, .watcherExit] = some s ∧
    s.closed = true ∧ quiescent Facts.allGood { t := .stdio } s ∧ ledgerZero s := by
  refine ⟨_, rfl, by decide, ⟨?_, by decide, by decide, by decide, by decide⟩, ⟨?_, by decide, by decide, by decide, by decide, by decide⟩⟩
  · intro c
    by_cases h0 : c = 0
    · subst h0; decide
    · by_cases h1 : c = 1
      · subst h1; decide
      · simp [setCall, closeChans, h0, h1, init, Facts.allGood, Transport.shared]
  · intro c
    by_cases h0 : c = 0
    · subst h0; decide
    · by_cases h1 : c = 1
      · subst h1; decide
      · simp [setCall, closeChans, h0, h1, init, Facts.allGood, Transport.shared]

end Mcp.Props.C08
