/-
  C20 — Safe for concurrent use: no data races in servers or clients.   (PARTIAL, see below)

  * Part A (abstract semantics, `Mcp.Lockset` traces — any length, any number of threads, locks, locations):
    the three disciplines imply race freedom: one common mutex, readers shared / writers exclusive
    (`C20_lockset_sound`), all accesses atomic (`C20_atomic_sound`), written only by the constructing thread
    before publication (`C20_init_sound`).
  * Part B (the regenerated table `Mcp.Gen.rcSharedFields`, decided by the kernel): the statement in full is
    `AllFieldsDisciplined Mcp.Gen.rcSharedFields`.  It is FALSE of today's tree (`C20_full_statement_refuted`):
    `C20_undisciplined_witness` names exactly the (type, field) pairs without a discipline (what is left of defect
    family D32 after the repairs; each confirmed by the race detector in the harness), `C20_all_fields_disciplined_partial` proves the rest.
    `C20_disciplined_no_conflict` ties the per-field predicate to the pairwise one the harness queries.

    The table also has the REGISTRY ENTRIES (`Tool`, `Prompt`, `Resource`, `ResourceTemplate`, the managers' records;
    `Mcp.Entries`): accesses through entry pointers with every mutex held at that point, value copies as reads of all
    fields.  `C20_registry_entries_read_only`: no request path writes an entry; `C20_entry_store_on_request_path_rejected`:
    a lazily filled `Tool.InputSchema` is rejected.
  * Part C (the regenerated table `Mcp.Gen.rcGlobals` of EVERY package-level variable of the library — root package
    and internal/… —, `Mcp.Globals`): state shared by all clients and servers of the process.  `C20_all_globals_disciplined`
    (kernel-decided over the complete table): every variable is immutable-and-never-reassigned, a sync primitive, an
    object safe for concurrent use, only read after initialisation, atomic, or under one package-level mutex at every
    access; an object whose methods may mutate it (`rand.New(…)`, a buffer, any type the extractor cannot see into)
    counts as written by every use.  `C20_unsafe_global_rejected` shows the predicate rejects such a generator used
    from `retry.Execute` (and a plain counter, a half-locked cache, a handed-out table) and accepts the locked variant;
    `C20_globals_config_assumed` names the one variable whose verdict rests on the configuration-setter assumption.

  * Part D (the regenerated table `Mcp.Gen.rcApiArgs` of every map / slice / pointer parameter of the public API,
    `Mcp.ApiArgs`): the caller's memory.  `C20_api_args_not_retained` (kernel-decided over the complete table): the
    library keeps no argument's own object beyond the call — does not store it, hand it to another goroutine, return
    an alias of it, or pass it to code without a summary — except the entries of `reviewedRetention`, reviewed one by
    one (registration keeps the entry, options keep what they are given, net/http's contracts) and matched by API,
    parameter AND verdict, and the one known defect (`knownRetention`).  `C20_api_args_review_exact`: the lists are
    exactly the non-compliant entries.  `C20_send_apis_keep_nothing` names the send APIs that must be in the table and
    compliant; `C20_retained_argument_rejected` shows the predicate rejects a params map queued for a writer goroutine.

  * Part E (the regenerated table `Mcp.Gen.rcSharedLocals`, `Mcp.GoClosures`): local variables a function shares with
    the goroutines it starts itself.  `C20_shared_locals_disciplined`: every variable written by a goroutine literal
    has at most one writing goroutine instance or one common mutex around every write (today NO goroutine literal of
    the library writes a variable of its enclosing function at all: the table is empty, `C20_go_literals_examined` pins
    the functions whose literals were examined); `C20_unguarded_shared_local_rejected`: an error slice appended to by
    three pipe-closing goroutines is rejected.

  Partial: lock tracking is lexical and per function (no alias analysis, no inter-procedural propagation), memory
  reached through a pointer stored in a field is outside the table, and the Go memory model itself is trusted,
  not modelled instruction by instruction; `HB` here is a subset of Go's happens-before.
-/
import Mcp.Model.Lockset
import Mcp.Model.Globals
import Mcp.Model.ApiArgs
import Mcp.Model.Entries
import Mcp.Model.GoClosures
import Mcp.Gen.FieldLocks
import Mcp.Gen.Globals
import Mcp.Gen.ApiArgs
import Mcp.Gen.GoClosures
namespace Mcp.Props.C20
open Mcp.Lockset Mcp.Str

/-! ## Part A — soundness of the disciplines -/

private theorem stateAt_succ (l : Nat) (tr : List Ev) (i : Nat) :
    stateAt l tr (i + 1) = match tr[i]? with
      | some e => stepL l (stateAt l tr i) e
      | none => stateAt l tr i := by
  unfold stateAt
  rw [List.take_add_one]
  cases h : tr[i]? <;> simp [List.foldl_append]

/-- An exclusive holder excludes shared holders. -/
private def LInv (s : LS) : Prop := ∀ t, s.writer = some t → s.readers = []

private theorem linv_at (tr : List Ev) (hv : Valid tr) (l : Nat) : ∀ i, LInv (stateAt l tr i) := by
  intro i
  induction i with
  | zero => intro t h; simp [stateAt] at h
  | succ i ih =>
    rw [stateAt_succ]
    cases he : tr[i]? with
    | none => exact ih
    | some e =>
      have ok := hv l i e he
      cases e with
      | acqW t l' =>
        by_cases hl : l' = l
        · have := ok hl; intro t' _; simp [stepL, hl, this.2]
        · simpa [stepL, hl] using ih
      | relW t l' =>
        by_cases hl : l' = l
        · intro t' h; simp [stepL, hl] at h
        · simpa [stepL, hl] using ih
      | acqR t l' =>
        by_cases hl : l' = l
        · have := ok hl; intro t' h; simp [stepL, hl, this] at h
        · simpa [stepL, hl] using ih
      | relR t l' =>
        by_cases hl : l' = l
        · intro t' h
          have h' : (stateAt l tr i).writer = some t' := by simpa [stepL, hl] using h
          simp [stepL, hl, ih t' h']
        · simpa [stepL, hl] using ih
      | rd t y | wr t y | ard t y | awr t y | go t y => simpa [stepL] using ih

/-- If `t` held the mutex exclusively and no longer does, `t` unlocked in between. -/
private theorem writer_leaves (tr : List Ev) (hv : Valid tr) (l t : Nat) : ∀ d i,
    (stateAt l tr i).writer = some t → (stateAt l tr (i + d)).writer ≠ some t →
    ∃ k, i ≤ k ∧ k < i + d ∧ tr[k]? = some (Ev.relW t l) := by
  intro d
  induction d with
  | zero => intro i h1 h2; exact absurd h1 h2
  | succ d ih =>
    intro i h1 h2
    by_cases hw : (stateAt l tr (i + d)).writer = some t
    · refine ⟨i + d, by omega, by omega, ?_⟩
      rw [show i + (d + 1) = (i + d) + 1 by omega, stateAt_succ] at h2
      cases he : tr[i + d]? with
      | none => rw [he] at h2; exact absurd hw h2
      | some e =>
        rw [he] at h2
        have ok := hv l (i + d) e he
        cases e with
        | acqW t' l' =>
          by_cases hl : l' = l
          · have := (ok hl).1; rw [this] at hw; cases hw
          · simp [stepL, hl] at h2; exact absurd hw h2
        | relW t' l' =>
          by_cases hl : l' = l
          · have := ok hl; rw [this] at hw; cases hw; subst hl; rfl
          · simp [stepL, hl] at h2; exact absurd hw h2
        | acqR t' l' => by_cases hl : l' = l <;> simp [stepL, hl] at h2 <;> exact absurd hw h2
        | relR t' l' => by_cases hl : l' = l <;> simp [stepL, hl] at h2 <;> exact absurd hw h2
        | rd t' y | wr t' y | ard t' y | awr t' y | go t' y => simp [stepL] at h2; exact absurd hw h2
    · obtain ⟨k, a, b, c⟩ := ih i h1 hw
      exact ⟨k, a, by omega, c⟩

/-- If `t` came to hold the mutex exclusively, `t` locked in between — at a moment without shared holders. -/
private theorem writer_arrives (tr : List Ev) (hv : Valid tr) (l t : Nat) : ∀ d i,
    (stateAt l tr i).writer ≠ some t → (stateAt l tr (i + d)).writer = some t →
    ∃ m, i ≤ m ∧ m < i + d ∧ tr[m]? = some (Ev.acqW t l) ∧ (stateAt l tr m).readers = [] := by
  intro d
  induction d with
  | zero => intro i h1 h2; exact absurd h2 h1
  | succ d ih =>
    intro i h1 h2
    by_cases hw : (stateAt l tr (i + d)).writer = some t
    · obtain ⟨m, a, b, c⟩ := ih i h1 hw
      exact ⟨m, a, by omega, c⟩
    · refine ⟨i + d, by omega, by omega, ?_⟩
      rw [show i + (d + 1) = (i + d) + 1 by omega, stateAt_succ] at h2
      cases he : tr[i + d]? with
      | none => rw [he] at h2; exact absurd h2 hw
      | some e =>
        rw [he] at h2
        have ok := hv l (i + d) e he
        cases e with
        | acqW t' l' =>
          by_cases hl : l' = l
          · simp [stepL, hl] at h2; subst h2; subst hl; exact ⟨rfl, (ok rfl).2⟩
          · simp [stepL, hl] at h2; exact absurd h2 hw
        | relW t' l' => by_cases hl : l' = l <;> simp [stepL, hl] at h2; exact absurd h2 hw
        | acqR t' l' => by_cases hl : l' = l <;> simp [stepL, hl] at h2 <;> exact absurd h2 hw
        | relR t' l' => by_cases hl : l' = l <;> simp [stepL, hl] at h2 <;> exact absurd h2 hw
        | rd t' y | wr t' y | ard t' y | awr t' y | go t' y => simp [stepL] at h2; exact absurd h2 hw

/-- If `t` was a shared holder and no longer is, `t` r-unlocked in between. -/
private theorem reader_leaves (tr : List Ev) (l t : Nat) : ∀ d i,
    t ∈ (stateAt l tr i).readers → t ∉ (stateAt l tr (i + d)).readers →
    ∃ k, i ≤ k ∧ k < i + d ∧ tr[k]? = some (Ev.relR t l) := by
  intro d
  induction d with
  | zero => intro i h1 h2; exact absurd h1 h2
  | succ d ih =>
    intro i h1 h2
    by_cases hr : t ∈ (stateAt l tr (i + d)).readers
    · refine ⟨i + d, by omega, by omega, ?_⟩
      rw [show i + (d + 1) = (i + d) + 1 by omega, stateAt_succ] at h2
      cases he : tr[i + d]? with
      | none => rw [he] at h2; exact absurd hr h2
      | some e =>
        rw [he] at h2
        cases e with
        | acqW t' l' => by_cases hl : l' = l <;> simp [stepL, hl] at h2 <;> exact absurd hr h2
        | relW t' l' => by_cases hl : l' = l <;> simp [stepL, hl] at h2 <;> exact absurd hr h2
        | acqR t' l' =>
          by_cases hl : l' = l
          · simp [stepL, hl] at h2; exact absurd hr h2.2
          · simp [stepL, hl] at h2; exact absurd hr h2
        | relR t' l' =>
          by_cases hl : l' = l
          · by_cases ht : t = t'
            · subst ht; subst hl; rfl
            · simp only [stepL, hl, if_true] at h2
              exact absurd ((List.mem_erase_of_ne ht).2 hr) h2
          · simp [stepL, hl] at h2; exact absurd hr h2
        | rd t' y | wr t' y | ard t' y | awr t' y | go t' y => simp [stepL] at h2; exact absurd hr h2
    · obtain ⟨k, a, b, c⟩ := ih i h1 hr
      exact ⟨k, a, by omega, c⟩

/-- If `t` holds the mutex (in either mode) and did not before, `t` acquired it in between. -/
private theorem holder_arrives (tr : List Ev) (l t : Nat) : ∀ d i,
    ¬ holdsAny (stateAt l tr i) t → holdsAny (stateAt l tr (i + d)) t →
    ∃ m, i ≤ m ∧ m < i + d ∧ (tr[m]? = some (Ev.acqW t l) ∨ tr[m]? = some (Ev.acqR t l)) := by
  intro d
  induction d with
  | zero => intro i h1 h2; exact absurd h2 h1
  | succ d ih =>
    intro i h1 h2
    by_cases hh : holdsAny (stateAt l tr (i + d)) t
    · obtain ⟨m, a, b, c⟩ := ih i h1 hh
      exact ⟨m, a, by omega, c⟩
    · refine ⟨i + d, by omega, by omega, ?_⟩
      rw [show i + (d + 1) = (i + d) + 1 by omega, stateAt_succ] at h2
      have hh' : ¬ ((stateAt l tr (i + d)).writer = some t) ∧ t ∉ (stateAt l tr (i + d)).readers := by
        simp only [holdsAny, not_or] at hh; exact hh
      cases he : tr[i + d]? with
      | none => rw [he] at h2; exact absurd h2 hh
      | some e =>
        rw [he] at h2
        cases e with
        | acqW t' l' =>
          by_cases hl : l' = l
          · simp only [stepL, hl, if_true, holdsAny] at h2
            rcases h2 with h2 | h2
            · cases h2; subst hl; exact Or.inl rfl
            · exact absurd h2 hh'.2
          · simp [stepL, hl] at h2; exact absurd h2 hh
        | relW t' l' =>
          by_cases hl : l' = l
          · simp only [stepL, hl, if_true, holdsAny] at h2
            rcases h2 with h2 | h2
            · cases h2
            · exact absurd h2 hh'.2
          · simp [stepL, hl] at h2; exact absurd h2 hh
        | acqR t' l' =>
          by_cases hl : l' = l
          · simp only [stepL, hl, if_true, holdsAny, List.mem_cons] at h2
            rcases h2 with h2 | h2 | h2
            · exact absurd h2 hh'.1
            · subst h2; subst hl; exact Or.inr rfl
            · exact absurd h2 hh'.2
          · simp [stepL, hl] at h2; exact absurd h2 hh
        | relR t' l' =>
          by_cases hl : l' = l
          · simp only [stepL, hl, if_true, holdsAny] at h2
            rcases h2 with h2 | h2
            · exact absurd h2 hh'.1
            · exact absurd (List.mem_of_mem_erase h2) hh'.2
          · simp [stepL, hl] at h2; exact absurd h2 hh
        | rd t' y | wr t' y | ard t' y | awr t' y | go t' y => simp [stepL] at h2; exact absurd h2 hh

private theorem access_not_lockop (x : Nat) (e : Ev) (t l : Nat) (h : isAccess x e = true) :
    e ≠ Ev.relW t l ∧ e ≠ Ev.relR t l ∧ e ≠ Ev.acqW t l := by
  refine ⟨?_, ?_, ?_⟩ <;> intro he <;> subst he <;> simp [isAccess] at h

/-- **Lockset soundness, for any location `x` and any mutex `l = L(x)`.** In every trace the mutexes allow — any
    length, any number of threads, other locks, other locations, atomics and goroutine starts in between — if every
    write of `x` happens while its thread holds `l` exclusively and every read while it holds `l` shared or
    exclusively, then any two conflicting accesses to `x` are ordered by happens-before: no data race on `x`. -/
theorem C20_lockset_sound (tr : List Ev) (x l : Nat) (hv : Valid tr) (hd : Disciplined tr x l) : ¬ Race tr x := by
  rintro ⟨i, j, a, b, hij, ha, hb, hax, hbx, hw, _, hne, hnhb⟩
  apply hnhb
  obtain ⟨hwa, haa⟩ := hd i a ha hax
  obtain ⟨hwb, hab⟩ := hd j b hb hbx
  have hj : j = i + (j - i) := by omega
  by_cases hWi : holdsW (stateAt l tr i) a.tid
  · -- the earlier access holds the mutex exclusively
    have hnw : (stateAt l tr j).writer ≠ some a.tid := by
      rcases hab with h | h
      · rw [h]; intro e; exact hne (Option.some.inj e).symm
      · intro e; have := linv_at tr hv l j _ e; rw [this] at h; cases h
    rw [hj] at hnw
    obtain ⟨k, hk1, hk2, hk⟩ := writer_leaves tr hv l a.tid (j - i) i hWi hnw
    have hki : k ≠ i := by
      intro e; subst e
      exact (access_not_lockop x a a.tid l hax).1 (Option.some.inj (ha.symm.trans hk))
    have okk := hv l k _ hk rfl
    have hrk : (stateAt l tr k).readers = [] := linv_at tr hv l k _ okk
    have hnone : ¬ holdsAny (stateAt l tr (k + 1)) b.tid := by
      rw [stateAt_succ, hk]; simp [stepL, holdsAny, hrk]
    have hj2 : j = (k + 1) + (j - (k + 1)) := by omega
    rw [hj2] at hab
    obtain ⟨m, hm1, hm2, hm⟩ := holder_arrives tr l b.tid (j - (k + 1)) (k + 1) hnone hab
    have h1 : HB tr i k := HB.po (by omega) ha hk rfl
    rcases hm with hm | hm
    · exact HB.trans h1 (HB.trans (HB.sync (by omega) hk hm rfl) (HB.po (by omega) hm hb rfl))
    · exact HB.trans h1 (HB.trans (HB.sync (by omega) hk hm rfl) (HB.po (by omega) hm hb rfl))
  · -- the earlier access is a read under the shared lock, so the later one is a write under the exclusive lock
    have hnotw : isWrite x a = false := by
      cases h : isWrite x a
      · rfl
      · exact absurd (hwa h) hWi
    have hwb' : holdsW (stateAt l tr j) b.tid := by
      rcases hw with h | h
      · rw [hnotw] at h; cases h
      · exact hwb h
    have hri : a.tid ∈ (stateAt l tr i).readers := by
      rcases haa with h | h
      · exact absurd h hWi
      · exact h
    have hnw : (stateAt l tr i).writer ≠ some b.tid := by
      intro e; have := linv_at tr hv l i _ e; rw [this] at hri; cases hri
    rw [holdsW, hj] at hwb'
    obtain ⟨m, hm1, hm2, hm, hrm⟩ := writer_arrives tr hv l b.tid (j - i) i hnw hwb'
    have hmi : m ≠ i := by
      intro e; subst e
      exact (access_not_lockop x a b.tid l hax).2.2 (Option.some.inj (ha.symm.trans hm))
    have hnr : a.tid ∉ (stateAt l tr (i + (m - i))).readers := by
      rw [show i + (m - i) = m by omega, hrm]; simp
    obtain ⟨k, hk1, hk2, hk⟩ := reader_leaves tr l a.tid (m - i) i hri hnr
    have hki : k ≠ i := by
      intro e; subst e
      exact (access_not_lockop x a a.tid l hax).2.1 (Option.some.inj (ha.symm.trans hk))
    exact HB.trans (HB.po (by omega) ha hk rfl)
      (HB.trans (HB.sync (by omega) hk hm rfl) (HB.po (by omega) hm hb rfl))

/-- **Atomics.** If every access to `x` goes through sync/atomic, there is no data race on `x` (in any trace). -/
theorem C20_atomic_sound (tr : List Ev) (x : Nat) (h : AllAtomic tr x) : ¬ Race tr x := by
  rintro ⟨i, j, a, b, _, ha, hb, hax, hbx, _, hna, _, _⟩
  exact hna ⟨h i a ha hax, h j b hb hbx⟩

private theorem hb_lt (tr : List Ev) (i j : Nat) (h : HB tr i j) : i < j := by
  induction h with
  | po h _ _ _ => exact h
  | sync h _ _ _ => exact h
  | trans _ _ ih1 ih2 => omega

/-- **Construction phase.** If `x` is written only by the constructing thread before it publishes the object, and
    every other thread's access happens after the publication, there is no data race on `x` — whatever else the
    trace contains. (The rule behind "never written after construction".) -/
theorem C20_init_sound (tr : List Ev) (x t0 p : Nat) (h : WrittenOnlyBefore tr x t0 p) : ¬ Race tr x := by
  obtain ⟨⟨ep, hep, htp⟩, hwr, hothers⟩ := h
  rintro ⟨i, j, a, b, hij, ha, hb, hax, hbx, hw, _, hne, hnhb⟩
  rcases hw with hwa | hwb
  · obtain ⟨hat, hip⟩ := hwr i a ha hwa
    have hbt : b.tid ≠ t0 := fun e => hne (hat.trans e.symm)
    exact hnhb (HB.trans (HB.po hip ha hep (hat.trans htp.symm)) (hothers j b hb hbx hbt))
  · obtain ⟨hbt, hjp⟩ := hwr j b hb hwb
    have hat : a.tid ≠ t0 := fun e => hne (e.trans hbt.symm)
    have := hb_lt tr p i (hothers i a ha hax hat)
    omega

/-- A `go` statement publishes: everything the started goroutine does happens after it. -/
theorem C20_go_publishes (tr : List Ev) (p j t u : Nat) (e : Ev) (hp : tr[p]? = some (Ev.go t u)) (hj : tr[j]? = some e)
    (hlt : p < j) (hu : e.tid = u) : HB tr p j :=
  HB.sync hlt hp hj hu

/-! ### non-vacuity: the hypotheses are satisfiable by real multi-threaded traces, and `Race` is not empty -/

/-- Two unsynchronised writes by different threads race. -/
example : Race [Ev.wr 0 7, Ev.wr 1 7] 7 := by
  refine ⟨0, 1, Ev.wr 0 7, Ev.wr 1 7, by decide, rfl, rfl, rfl, rfl, Or.inl rfl, by decide, by decide, ?_⟩
  intro h
  have key : ∀ i j, HB [Ev.wr 0 7, Ev.wr 1 7] i j → False := by
    intro i j h
    induction h with
    | @po i j a b hij ha hb hab =>
      match i, j, hij with
      | 0, 1, _ => simp at ha hb; subst ha; subst hb; simp [Ev.tid] at hab
      | 0, (j + 2), _ => simp at hb
      | (i + 1), (j + 2), _ => simp at hb
    | @sync i j a b hij ha hb hab =>
      match i, j, hij with
      | 0, 1, _ => simp at ha hb; subst ha; subst hb; simp [syncs] at hab
      | 0, (j + 2), _ => simp at hb
      | (i + 1), (j + 2), _ => simp at hb
    | trans _ _ ih _ => exact ih
  exact key 0 1 h

/-- A writer under `Lock` and a reader under `RLock` of mutex 3 on location 7, two threads: valid and disciplined. -/
private def exTrace : List Ev :=
  [Ev.acqW 0 3, Ev.wr 0 7, Ev.relW 0 3, Ev.acqR 1 3, Ev.rd 1 7, Ev.relR 1 3]

example : Valid exTrace ∧ Disciplined exTrace 7 3 := by
  constructor
  · intro l i e he
    match i, he with
    | 0, he => simp [exTrace] at he; subst he; simp [okL, stateAt]
    | 1, he => simp [exTrace] at he; subst he; simp [okL]
    | 2, he =>
      simp [exTrace] at he; subst he
      intro hl; subst hl; simp [stateAt, exTrace, stepL]
    | 3, he =>
      simp [exTrace] at he; subst he
      intro hl; subst hl; simp [stateAt, exTrace, stepL]
    | 4, he => simp [exTrace] at he; subst he; simp [okL]
    | 5, he =>
      simp [exTrace] at he; subst he
      intro hl; subst hl; simp [stateAt, exTrace, stepL]
    | (n + 6), he => simp [exTrace] at he
  · intro i e he hacc
    match i, he with
    | 0, he => simp [exTrace] at he; subst he; simp [isAccess] at hacc
    | 1, he => simp [exTrace] at he; subst he; simp [holdsW, holdsAny, stateAt, exTrace, stepL, Ev.tid]
    | 2, he => simp [exTrace] at he; subst he; simp [isAccess] at hacc
    | 3, he => simp [exTrace] at he; subst he; simp [isAccess] at hacc
    | 4, he => simp [exTrace] at he; subst he; simp [isWrite, holdsAny, stateAt, exTrace, stepL, Ev.tid]
    | 5, he => simp [exTrace] at he; subst he; simp [isAccess] at hacc
    | (n + 6), he => simp [exTrace] at he

/-- Constructor thread 0 writes location 7, starts goroutine 1, which reads it: the construction-phase hypothesis. -/
example : WrittenOnlyBefore [Ev.wr 0 7, Ev.go 0 1, Ev.rd 1 7] 7 0 1 := by
  refine ⟨⟨Ev.go 0 1, rfl, rfl⟩, ?_, ?_⟩
  · intro i e he hw
    match i, he with
    | 0, he => simp at he; subst he; simp [Ev.tid]
    | 1, he => simp at he; subst he; simp [isWrite] at hw
    | 2, he => simp at he; subst he; simp [isWrite] at hw
    | (n + 3), he => simp at he
  · intro j e he hacc hne
    match j, he with
    | 0, he => simp at he; subst he; simp [Ev.tid] at hne
    | 1, he => simp at he; subst he; simp [isAccess] at hacc
    | 2, he => simp at he; subst he; exact HB.sync (by decide) (a := Ev.go 0 1) rfl rfl rfl
    | (n + 3), he => simp at he

/-! ## Part B — the regenerated table -/

private theorem holds_congr (a : Acc) (m m' : Text) (h : (m == m') = true) : holds a m' = holds a m := by
  have : m = m' := by simpa using h
  rw [this]

/-- **Per-field discipline ⇒ no conflicting pair.** Whatever the table: if a field is disciplined, no two of its
    post-construction access records conflict — so a race report the harness maps to this field is NOT predicted. -/
theorem C20_disciplined_no_conflict (f : Field) (h : disciplined f = true) (a b : Acc)
    (ha : a ∈ live f) (hb : b ∈ live f) : conflict a b = false := by
  unfold disciplined at h
  simp only [Bool.or_eq_true] at h
  rcases h with (h | h) | h
  · have h1 := List.all_eq_true.1 h a ha
    have h2 := List.all_eq_true.1 h b hb
    have e1 : (a.kind == Kind.write) = false := by cases hk : a.kind <;> simp [hk] at h1 ⊢
    have e2 : (b.kind == Kind.write) = false := by cases hk : b.kind <;> simp [hk] at h2 ⊢
    simp [conflict, e1, e2]
  · have h1 := List.all_eq_true.1 h a ha
    have h2 := List.all_eq_true.1 h b hb
    have e1 : (a.sync == Sync.plain) = false := by cases hk : a.sync <;> simp [hk] at h1 ⊢
    have e2 : (b.sync == Sync.plain) = false := by cases hk : b.sync <;> simp [hk] at h2 ⊢
    simp [conflict, e1, e2]
  · cases hl : live f with
    | nil => rw [hl] at ha; cases ha
    | cons c rest =>
      rw [hl] at h
      simp only [List.any_eq_true] at h
      obtain ⟨m, _, hm⟩ := h
      rw [← hl] at hm
      have hma := List.all_eq_true.1 hm a ha
      have hmb := List.all_eq_true.1 hm b hb
      -- `a` holds `m.1`: some entry of `a.held` is named `m.1`
      have hma' := hma
      unfold holds at hma'
      simp only [List.any_eq_true, Bool.and_eq_true] at hma'
      obtain ⟨h', hh'mem, hh'eq, _⟩ := hma'
      have hcommon : (a.held.any fun h => holds a h.1 && holds b h.1) = true := by
        simp only [List.any_eq_true, Bool.and_eq_true]
        refine ⟨h', hh'mem, ?_, ?_⟩
        · rw [← holds_congr a h'.1 m.1 hh'eq]; exact hma
        · rw [← holds_congr b h'.1 m.1 hh'eq]; exact hmb
      simp [conflict, hcommon]

/-- … hence a predicted report always points at an undisciplined field of the table. -/
theorem C20_predicted_only_undisciplined (tab : List Field) (ty fld f1 f2 : Text)
    (h : predicted tab ty fld f1 f2 = true) : ∃ f ∈ tab, f.type = ty ∧ f.field = fld ∧ disciplined f = false := by
  unfold predicted at h
  simp only [List.any_eq_true, Bool.and_eq_true] at h
  obtain ⟨f, hf, ⟨hty, hfld⟩, a, ha, _, b, hb, _, hc⟩ := h
  refine ⟨f, hf, by simpa using hty, by simpa using hfld, ?_⟩
  cases hd : disciplined f
  · rfl
  · rw [C20_disciplined_no_conflict f hd a b ha hb] at hc; cases hc

/-- The fields of today's tree without a discipline (defect family D32): literal, compared with the regenerated table
    by `C20_undisciplined_witness`. When a defect is repaired its line goes away here. -/
def knownUndisciplined : List (Text × Text) :=
  [(t!"Client", t!"initialized"),
   (t!"Client", t!"state"),
   (t!"sseClientTransport", t!"endpoint"),
   -- the five stdio fields below are written once, under startMutex held by the CALLER of startProcessLocked, and read
   -- by the goroutines that function starts afterwards: ordered by the go statement, which the lexical table cannot
   -- express.  Close and the getters read them under startMutex since /repo efdf9ce; the race-detector runs are clean.
   (t!"stdioClientTransport", t!"process"),
   (t!"stdioClientTransport", t!"stderr"),
   (t!"stdioClientTransport", t!"stdin"),
   (t!"stdioClientTransport", t!"stdout"),
   (t!"stdioClientTransport", t!"waitDone"),
   (t!"streamableHTTPClientTransport", t!"enableGetSSE"),
   (t!"streamableHTTPClientTransport", t!"isStateless"),
   (t!"streamableHTTPClientTransport", t!"lastEventID"),
   (t!"streamableHTTPClientTransport", t!"sessionID")]

/-- **What holds of today's source**: every shared field of the tracked structs other than the named ones is
    disciplined (never written after construction / atomic or sync.Map / one common mutex in the right mode),
    decided by the kernel over the complete regenerated table. -/
theorem C20_all_fields_disciplined_partial :
    ∀ f ∈ Mcp.Gen.rcSharedFields, key f ∉ knownUndisciplined → disciplined f = true := by
  have h : (Mcp.Gen.rcSharedFields.all fun f => knownUndisciplined.contains (key f) || disciplined f) = true := by
    decide +kernel
  intro f hf hk
  have := List.all_eq_true.1 h f hf
  simp only [Bool.or_eq_true] at this
  rcases this with h1 | h2
  · exact absurd (List.contains_iff_mem.1 h1) hk
  · exact h2

/-- **Witness**: the undisciplined fields of the regenerated table are exactly the named ones — none more (a new
    unsynchronised field breaks this), none fewer (a repaired one must be taken off the list). -/
theorem C20_undisciplined_witness : undisciplinedKeys Mcp.Gen.rcSharedFields = knownUndisciplined := by
  decide +kernel

/-- **C20's table obligation as stated** (`AllFieldsDisciplined`) is false of today's tree. -/
theorem C20_full_statement_refuted : ¬ AllFieldsDisciplined Mcp.Gen.rcSharedFields := by
  intro h
  have hall : (Mcp.Gen.rcSharedFields.all disciplined) = true := List.all_eq_true.2 h
  have : (Mcp.Gen.rcSharedFields.all disciplined) = false := by decide +kernel
  rw [this] at hall; cases hall

/-- **Repaired findings stay detectable**: the access records of `Session.LastActivity` and of
    `lifecycleManager.capabilities` as they were before their repair (literals) are rejected by the predicate, and the
    pairs the race detector reported on them are exactly pairs the table predicts. -/
theorem C20_repaired_records_rejected :
    disciplined d32LastActivity = false ∧ disciplined d32Capabilities = false ∧
    predicted [d32LastActivity] t!"session.Session" t!"LastActivity"
      t!"session.Session.GetLastActivity" t!"session.Session.UpdateActivity" = true ∧
    predicted [d32Capabilities] t!"lifecycleManager" t!"capabilities"
      t!"lifecycleManager.buildInitializeResponse" t!"lifecycleManager.updateCapabilities" = true ∧
    predicted [d32LastActivity] t!"session.Session" t!"LastActivity"
      t!"session.Session.UpdateActivity" t!"session.SessionManager.cleanupExpiredSessions" = false := by
  decide

/-- The table is not degenerate: it has fields under each of the three disciplines. -/
theorem C20_table_covers :
    (Mcp.Gen.rcSharedFields.any fun f => (live f).any (fun a => a.kind == .write) && (live f).all (fun a => a.sync != .plain)) = true ∧
    (Mcp.Gen.rcSharedFields.any fun f => (live f).any (fun a => a.kind == .write && a.sync == .plain) && disciplined f) = true ∧
    (Mcp.Gen.rcSharedFields.any fun f => (live f).all (fun a => a.kind != .write) && (f.accs.any fun a => a.init)) = true := by
  decide +kernel

/-! ### registry entries (rows of the same table: `Mcp.Entries`) -/

open Mcp.Entries in
/-- **Registered entries are read-only on the request paths**: every field of `Tool`, `Prompt`, `Resource`,
    `ResourceTemplate` and of the managers' records that is touched after construction — by the listings, the getters
    (`*tool` copies read all fields), calls, registration — is never written there (kernel-decided over the table; the
    rows are part of `rcSharedFields`, so `C20_all_fields_disciplined_partial` / `C20_undisciplined_witness` cover them
    too: a store through an entry pointer on a request path shows up as an undisciplined field). -/
theorem C20_registry_entries_read_only :
    ∀ f ∈ Mcp.Gen.rcSharedFields, isEntry f = true → readOnlyAfterInit f = true := by
  have h : (Mcp.Gen.rcSharedFields.all fun f => !isEntry f || readOnlyAfterInit f) = true := by decide +kernel
  intro f hf he
  have := List.all_eq_true.1 h f hf
  simpa [he] using this

open Mcp.Entries in
/-- The entry rows exist and see the value copies: `Tool.InputSchema` (like every `Tool` field) is read by the listing
    and by the getters of the three servers; the manager's lock is recorded where it is held. -/
theorem C20_registry_entries_covered :
    (Mcp.Gen.rcSharedFields.any fun f => f.type == t!"Tool" && f.field == t!"InputSchema" &&
      (live f).any (fun a => a.fn == t!"toolManager.handleListTools" && a.kind == .read) &&
      (live f).any (fun a => a.fn == t!"Server.GetTools" && a.kind == .read) &&
      (live f).any (fun a => a.fn == t!"SSEServer.GetTool" && a.kind == .read) &&
      (live f).any (fun a => a.fn == t!"StdioServer.GetTools" && a.kind == .read)) = true ∧
    (Mcp.Gen.rcSharedFields.any fun f => f.type == t!"registeredTool" && f.field == t!"Tool" &&
      (live f).any (fun a => a.fn == t!"toolManager.getTools" && a.held == [(t!"toolManager.mu", false)])) = true ∧
    (Mcp.Gen.rcSharedFields.any fun f => f.type == t!"Prompt" && isEntry f) = true ∧
    (Mcp.Gen.rcSharedFields.any fun f => f.type == t!"Resource" && isEntry f) = true ∧
    (Mcp.Gen.rcSharedFields.any fun f => f.type == t!"ResourceTemplate" && isEntry f) = true := by
  decide +kernel

open Mcp.Entries in
/-- **A store through an entry pointer on a request path is rejected**: the default input schema written through the
    shared `*Tool` by the first tools/list with no lock (and the table predicts the races of that store with another
    listing and with a getter), or under the manager's READ lock; under the write lock with every reader under the read
    lock it is accepted — not while one getter copies the tool outside the lock. -/
theorem C20_entry_store_on_request_path_rejected :
    disciplined schemaFilledByFirstList = false ∧ readOnlyAfterInit schemaFilledByFirstList = false ∧
    predicted [schemaFilledByFirstList] t!"Tool" t!"InputSchema" t!"toolManager.handleListTools" t!"toolManager.handleListTools" = true ∧
    predicted [schemaFilledByFirstList] t!"Tool" t!"InputSchema" t!"Server.GetTools" t!"toolManager.handleListTools" = true ∧
    disciplined schemaFilledUnderRLock = false ∧
    disciplined schemaFilledUnderLock = true ∧
    disciplined schemaFilledUnderLockOneReaderOutside = false := by
  decide

/-! ## Part C — package-level variables (shared by every client and server of the process) -/

open Mcp.Globals in
/-- **Every package-level variable of the library is used with discipline** — decided by the kernel over the complete
    regenerated table (root package and every internal/… package): its declaration is understood and, after package
    initialisation, it is never written nor mutated through (a method call or hand-over of a container / an object
    whose methods may mutate it counts as a write), or only touched atomically, or always under one package-level
    mutex held in the right mode.  A `*rand.Rand`, buffer, map, slice, counter … shared by the goroutines of all
    clients without such a discipline makes this fail. -/
theorem C20_all_globals_disciplined : AllGlobalsDisciplined Mcp.Gen.rcGlobals := by
  have h : (Mcp.Gen.rcGlobals.all gDisciplined) = true := by decide +kernel
  exact fun g hg => List.all_eq_true.1 h g hg

open Mcp.Globals in
/-- A disciplined variable has no two post-initialisation accesses that conflict — under the reading in which every
    mutating use is a write: a race report the harness maps to the variable is then not predicted. -/
theorem C20_global_disciplined_no_conflict (g : Global) (h : gDisciplined g = true) (a b : Acc)
    (ha : a ∈ live (asField g)) (hb : b ∈ live (asField g)) : conflict a b = false := by
  have hd : disciplined (asField g) = true := by
    unfold gDisciplined at h
    simp only [Bool.and_eq_true] at h
    exact h.2
  exact C20_disciplined_no_conflict _ hd a b ha hb

open Mcp.Globals in
/-- **The predicate rejects what it must.**  A generator built with `rand.New` in a package-level variable and drawn
    from in the back-off step of `retry.Execute` with no lock is undisciplined, and the table predicts the race of
    `withJitter` with itself (two client calls backing off at the same time); behind a package-level mutex it is
    accepted; the same accesses on an object that is safe for concurrent use are accepted; a plain counter, a cache
    written under a lock but read without, a lookup table handed out to callers, and a declaration that was not
    understood are rejected. -/
theorem C20_unsafe_global_rejected :
    gDisciplined jitterUnlocked = false ∧
    predicted [asField jitterUnlocked] t!"retry" t!"jitterSource" t!"retry.withJitter" t!"retry.withJitter" = true ∧
    gDisciplined jitterLocked = true ∧
    predicted [asField jitterLocked] t!"retry" t!"jitterSource" t!"retry.withJitter" t!"retry.withJitter" = false ∧
    gDisciplined safeUsed = true ∧
    gDisciplined counterPlain = false ∧
    gDisciplined cacheHalfLocked = false ∧
    gDisciplined tableHandedOut = false ∧
    gDisciplined { jitterLocked with vkind := .unknown } = false := by
  decide

open Mcp.Globals in
/-- Non-vacuity of the table obligation: it is false of a table that contains the unlocked generator. -/
example : ¬ AllGlobalsDisciplined (jitterUnlocked :: Mcp.Gen.rcGlobals) := by
  intro h
  have := h jitterUnlocked (List.mem_cons_self ..)
  revert this
  decide

open Mcp.Globals in
/-- **The configuration-setter assumption, pinned**: exactly one variable's verdict rests on it — `defaultLogger`,
    assigned by `SetDefaultLogger` with no lock and read by every constructor (`GetDefaultLogger`).  Calling the
    setter while another goroutine constructs a client or server IS a data race; the property's workloads do not
    include it (assumption in props.d/C20.json).  A new setter-written variable changes this list. -/
theorem C20_globals_config_assumed :
    configAssumed Mcp.Gen.rcGlobals = [((t!"mcp", t!"defaultLogger"), [t!"SetDefaultLogger"])] := by
  decide +kernel

open Mcp.Globals in
/-- The table is not degenerate: it reaches the root package and the internal packages (the retry package's table of
    status codes among them), and has variables of several kinds that ARE used after initialisation. -/
theorem C20_globals_table_covers :
    (Mcp.Gen.rcGlobals.any fun g => g.pkg == t!"mcp") = true ∧
    (Mcp.Gen.rcGlobals.any fun g => g.pkg == t!"retry" && g.vkind == .container && !(live (asField g)).isEmpty) = true ∧
    (Mcp.Gen.rcGlobals.any fun g => g.pkg == t!"errors" && g.vkind == .immutable && !(live (asField g)).isEmpty) = true ∧
    (Mcp.Gen.rcGlobals.any fun g => g.vkind == .safeObject && (g.accs.any fun a => a.kind == .use && !a.init)) = true ∧
    (Mcp.Gen.rcGlobals.all fun g => g.accs.any fun a => a.init && a.kind == .write) = true := by
  decide +kernel

/-! ## Part D — the caller's memory behind API arguments -/

open Mcp.ApiArgs in
/-- **Arguments the library keeps by contract** — every non-compliant entry of today's table, reviewed; table order.
    Reasons:
    * [opt]  option / property constructors (`With…`, `Enum`, `Items`, `Properties`): the result is a closure that
             captures the argument (`returnedAsIs`) and reads or copies it when the option is APPLIED — by `NewTool`,
             `NewServer`, `NewSSEServer`, `NewClient`, `NewStdioClient`, `NewResourceTemplate` before they return; where
             the built object keeps the argument itself (`storedAsIs`: `Items`, `Properties`, `WithToolAnnotations`,
             `WithTemplateAnnotations`, `WithHTTPHeaders`, `WithCustomServer`, `WithHTTPServer`) it is configuration
             handed over at construction: the caller does not touch it afterwards.
    * [reg]  registration keeps the entry: `Register{Tool,Prompt,Resource,Resources,ResourceTemplate}` of the three
             servers store the pointer in the registry, listings and calls read it later; `GetTool(s)` hand out
             copies.  Contract (assumption of this property): registered entries are not mutated after registration.
    * [http] net/http's own contracts: the `*http.Request` of `ServeHTTP` is net/http's for the duration of the
             handler (the legacy SSE server reads its context and headers from the goroutines of that request);
             `defaultHTTPReqHandler.Handle` performs the request it is given with the client it is given
             (`http.Client` is safe for concurrent use, the request was built by the library for this one call). -/
def reviewedRetention : List Reviewed :=
  [⟨t!"Enum", t!"values", .returnedAsIs⟩,                                   -- [opt] copied into a fresh []any when applied
   ⟨t!"Items", t!"itemSchema", .storedAsIs⟩,                                -- [opt] the schema keeps the item schema
   ⟨t!"Properties", t!"props", .storedAsIs⟩,                                -- [opt] the schema keeps the property map
   ⟨t!"SSEServer.RegisterPrompt", t!"prompt", .storedAsIs⟩,                 -- [reg]
   ⟨t!"SSEServer.RegisterResource", t!"resource", .storedAsIs⟩,             -- [reg]
   ⟨t!"SSEServer.RegisterResourceTemplate", t!"template", .storedAsIs⟩,     -- [reg]
   ⟨t!"SSEServer.RegisterResources", t!"resource", .storedAsIs⟩,            -- [reg]
   ⟨t!"SSEServer.RegisterTool", t!"tool", .storedAsIs⟩,                     -- [reg]
   ⟨t!"SSEServer.ServeHTTP", t!"r", .unknown⟩,                              -- [http]
   ⟨t!"Server.RegisterPrompt", t!"prompt", .storedAsIs⟩,                    -- [reg]
   ⟨t!"Server.RegisterResource", t!"resource", .storedAsIs⟩,                -- [reg]
   ⟨t!"Server.RegisterResourceTemplate", t!"template", .storedAsIs⟩,        -- [reg]
   ⟨t!"Server.RegisterResources", t!"resource", .storedAsIs⟩,               -- [reg]
   ⟨t!"Server.RegisterTool", t!"tool", .storedAsIs⟩,                        -- [reg]
   ⟨t!"StdioServer.RegisterPrompt", t!"prompt", .storedAsIs⟩,               -- [reg]
   ⟨t!"StdioServer.RegisterResource", t!"resource", .storedAsIs⟩,           -- [reg]
   ⟨t!"StdioServer.RegisterResourceTemplate", t!"template", .storedAsIs⟩,   -- [reg]
   ⟨t!"StdioServer.RegisterResources", t!"resource", .storedAsIs⟩,          -- [reg]
   ⟨t!"StdioServer.RegisterTool", t!"tool", .storedAsIs⟩,                   -- [reg]
   ⟨t!"WithArray", t!"opts", .returnedAsIs⟩,                                -- [opt] property options applied when the tool option is
   ⟨t!"WithBoolean", t!"opts", .returnedAsIs⟩,                              -- [opt]
   ⟨t!"WithCustomServer", t!"srv", .storedAsIs⟩,                            -- [opt] the server uses the caller's http.Server
   ⟨t!"WithHTTPHeaders", t!"headers", .storedAsIs⟩,                         -- [opt] the transport keeps the header map and reads it per request
   ⟨t!"WithHTTPReqHandlerOption", t!"options", .returnedAsIs⟩,              -- [opt] appended to the transport's own slice when applied
   ⟨t!"WithHTTPServer", t!"srv", .storedAsIs⟩,                              -- [opt]
   ⟨t!"WithInputStruct", t!"opts", .returnedAsIs⟩,                          -- [opt]
   ⟨t!"WithInteger", t!"opts", .returnedAsIs⟩,                              -- [opt]
   ⟨t!"WithMiddleware", t!"middlewares", .returnedAsIs⟩,                    -- [opt] appended to the server's own slice when applied
   ⟨t!"WithNumber", t!"opts", .returnedAsIs⟩,                               -- [opt]
   ⟨t!"WithObject", t!"opts", .returnedAsIs⟩,                               -- [opt]
   ⟨t!"WithOutputStruct", t!"opts", .returnedAsIs⟩,                         -- [opt]
   ⟨t!"WithSSEMiddleware", t!"middlewares", .returnedAsIs⟩,                 -- [opt]
   ⟨t!"WithStdioCapabilities", t!"capabilities", .returnedAsIs⟩,            -- [opt] copied entry by entry when applied
   ⟨t!"WithString", t!"opts", .returnedAsIs⟩,                               -- [opt]
   ⟨t!"WithTemplateAnnotations", t!"audience", .storedAsIs⟩,                -- [opt] the template keeps the audience slice
   ⟨t!"WithToolAnnotations", t!"annotations", .storedAsIs⟩,                 -- [opt] the tool keeps the annotations object
   ⟨t!"defaultHTTPReqHandler.Handle", t!"client", .unknown⟩,                -- [http]
   ⟨t!"defaultHTTPReqHandler.Handle", t!"req", .unknown⟩]                   -- [http]

open Mcp.ApiArgs in
/-- **Known defect** (open finding `races:arg:StdioServer.SendRequest:request`, confirmed by the race detector):
    `StdioServer.SendRequest` puts the caller's `*JSONRPCRequest` itself on the session's message channel; the writer
    goroutine encodes it later.  When the call returns early — the caller's context ends while the request is queued —
    the caller owns the request again while the library still reads it. -/
def knownRetention : List Reviewed :=
  [⟨t!"StdioServer.SendRequest", t!"request", .sentAsIs⟩]

open Mcp.ApiArgs in
/-- **The library keeps no API argument beyond the call**, decided by the kernel over the complete regenerated table of
    the map / slice / pointer parameters of the public API: the argument's own object is not stored in memory that
    outlives the call, not handed to another goroutine, not aliased by the result, not passed to unknown code — it is
    only read before the call returns, or copied — except the reviewed entries (by contract) and the known defect,
    each matched with its exact verdict. -/
theorem C20_api_args_not_retained : ArgsNotRetained (reviewedRetention ++ knownRetention) Mcp.Gen.rcApiArgs := by
  have h : (Mcp.Gen.rcApiArgs.all fun e => compliant e || reviewedBy (reviewedRetention ++ knownRetention) e) = true := by
    decide +kernel
  intro e he
  have := List.all_eq_true.1 h e he
  simpa [Bool.or_eq_true] using this

open Mcp.ApiArgs in
/-- … and the reviewed and known entries are exactly the non-compliant ones: none more (a new retention breaks
    `C20_api_args_not_retained`), none fewer (an entry that became compliant, or changed its verdict, must leave). -/
theorem C20_api_args_review_exact :
    ∀ r, r ∈ retained Mcp.Gen.rcApiArgs ↔ r ∈ reviewedRetention ++ knownRetention := by
  have h1 : ((retained Mcp.Gen.rcApiArgs).all fun r => (reviewedRetention ++ knownRetention).contains r) = true := by decide +kernel
  have h2 : ((reviewedRetention ++ knownRetention).all fun r => (retained Mcp.Gen.rcApiArgs).contains r) = true := by decide +kernel
  intro r
  constructor
  · intro h; exact List.contains_iff_mem.1 (List.all_eq_true.1 h1 r h)
  · intro h; exact List.contains_iff_mem.1 (List.all_eq_true.1 h2 r h)

open Mcp.ApiArgs in
/-- **The send APIs are in the table and keep nothing**: the notification constructors and every public way of sending
    a notification or a server→client request with caller-built parameters (the three `Server` send APIs, the legacy
    SSE server's, the notification sender handlers find in their context), the client calls, and `UnregisterTools`. -/
theorem C20_send_apis_keep_nothing :
    keepsNothing Mcp.Gen.rcApiArgs t!"NewJSONRPCNotificationFromMap" t!"params" = true ∧
    keepsNothing Mcp.Gen.rcApiArgs t!"NewNotification" t!"params" = true ∧
    keepsNothing Mcp.Gen.rcApiArgs t!"Server.NewNotification" t!"params" = true ∧
    keepsNothing Mcp.Gen.rcApiArgs t!"Server.SendNotification" t!"params" = true ∧
    keepsNothing Mcp.Gen.rcApiArgs t!"Server.BroadcastNotification" t!"params" = true ∧
    keepsNothing Mcp.Gen.rcApiArgs t!"Server.SendFilteredNotification" t!"params" = true ∧
    keepsNothing Mcp.Gen.rcApiArgs t!"SSEServer.SendNotification" t!"params" = true ∧
    keepsNothing Mcp.Gen.rcApiArgs t!"sseNotificationSender.SendCustomNotification" t!"params" = true ∧
    keepsNothing Mcp.Gen.rcApiArgs t!"sseNotificationSender.SendNotification" t!"notification" = true ∧
    keepsNothing Mcp.Gen.rcApiArgs t!"Server.SendRequest" t!"request" = true ∧
    keepsNothing Mcp.Gen.rcApiArgs t!"SSEServer.SendRequest" t!"request" = true ∧
    keepsNothing Mcp.Gen.rcApiArgs t!"Client.CallTool" t!"callToolReq" = true ∧
    keepsNothing Mcp.Gen.rcApiArgs t!"StdioClient.CallTool" t!"req" = true ∧
    keepsNothing Mcp.Gen.rcApiArgs t!"Server.UnregisterTools" t!"names" = true := by
  decide +kernel

open Mcp.ApiArgs in
/-- **The predicate rejects what it must.**  A notification constructor that uses the caller's params map itself
    (`returnedAsIs`) and a `SendNotification` that queues that notification for the session's writer goroutine
    (`sentAsIs`) are neither compliant nor reviewed; the same API with a copying constructor is compliant; an argument
    passed to unknown code is rejected; `RegisterTool` keeping the `*Tool` is reviewed, but not if it also handed the
    tool to another goroutine (the verdict is part of the review). -/
theorem C20_retained_argument_rejected :
    compliant ctorKeepsMap = false ∧ reviewedBy (reviewedRetention ++ knownRetention) ctorKeepsMap = false ∧
    compliant sendQueuesMap = false ∧ verdict sendQueuesMap = .sentAsIs ∧
    reviewedBy (reviewedRetention ++ knownRetention) sendQueuesMap = false ∧
    compliant sendCopiesMap = true ∧
    compliant argEscapes = false ∧ reviewedBy (reviewedRetention ++ knownRetention) argEscapes = false ∧
    compliant registerKeepsTool = false ∧ reviewedBy (reviewedRetention ++ knownRetention) registerKeepsTool = true ∧
    reviewedBy (reviewedRetention ++ knownRetention) registerSendsTool = false := by
  decide

open Mcp.ApiArgs in
/-- Non-vacuity of the table obligation: it is false of a table that contains the queued params map. -/
example : ¬ ArgsNotRetained (reviewedRetention ++ knownRetention) (sendQueuesMap :: Mcp.Gen.rcApiArgs) := by
  intro h
  have := h sendQueuesMap (List.mem_cons_self ..)
  revert this
  decide

/-! ## Part E — locals shared with the goroutines a function starts -/

open Mcp.GoClosures in
/-- **No local variable is written by several goroutines of its function without a mutex**, decided by the kernel over
    the complete regenerated table of the variables that goroutine literals (`go func(){…}()`, `go f()` for a bound
    literal) write in their enclosing function: at most one writing goroutine instance, or one common mutex held
    exclusively at every write. -/
theorem C20_shared_locals_disciplined : AllSharedLocalsDisciplined Mcp.Gen.rcSharedLocals := by
  have h : (Mcp.Gen.rcSharedLocals.all lDisciplined) = true := by decide +kernel
  exact fun l hl => List.all_eq_true.1 h l hl

/-- The search behind that table is not empty: goroutine literals were found and examined in these functions (the
    legacy SSE server's stream handler, the stdio transports, the client transports' stream starters). -/
theorem C20_go_literals_examined :
    (Mcp.Gen.rcGoFunctions.any fun p => p.1 == t!"SSEServer.handleSSE" && decide (p.2 ≥ 1)) = true ∧
    (Mcp.Gen.rcGoFunctions.any fun p => p.1 == t!"stdioTransport.processInputStream" && decide (p.2 ≥ 1)) = true ∧
    (Mcp.Gen.rcGoFunctions.any fun p => p.1 == t!"streamableHTTPClientTransport.establishGetSSE" && decide (p.2 ≥ 1)) = true ∧
    (Mcp.Gen.rcGoFunctions.any fun p => p.1 == t!"sseClientTransport.start" && decide (p.2 ≥ 1)) = true := by
  decide +kernel

open Mcp.GoClosures in
/-- **The predicate rejects what it must**: the failures of three pipe-closing goroutines appended to the function's
    `errs` slice with no lock (and the table predicts the race of the literal with itself), a counter guarded in one
    place only, a write under a read lock; it accepts the append under a mutex and a single writing goroutine. -/
theorem C20_unguarded_shared_local_rejected :
    lDisciplined errsAppendedByClosers = false ∧
    predicted [asField errsAppendedByClosers] t!"stdioClientTransport.close" t!"errs"
      t!"stdioClientTransport.close.go#1" t!"stdioClientTransport.close.go#1" = true ∧
    lDisciplined errsAppendedUnderMutex = true ∧
    lDisciplined singleWriter = true ∧
    lDisciplined halfGuardedTotal = false ∧
    lDisciplined underReadLock = false := by
  decide

open Mcp.GoClosures in
/-- Non-vacuity of the table obligation. -/
example : ¬ AllSharedLocalsDisciplined (errsAppendedByClosers :: Mcp.Gen.rcSharedLocals) := by
  intro h
  have := h errsAppendedByClosers (List.mem_cons_self ..)
  revert this
  decide

end Mcp.Props.C20
