/-
  C01 — server side: the answer echoes the request's id (reuses the `Rpc` model of the three servers' request paths,
  `Mcp.Model.Rpc`, and its normal-form lemmas in `Mcp.Lemmas.Rpc`).
-/
import Mcp.Lemmas.Rpc
namespace Mcp.Props.C01
open Mcp.Str Mcp.Json Mcp.Content Mcp.RpcSpec Mcp.Rpc Mcp.Session

/-- the `id` member of a message -/
def msgId : Json → Option Json
  | .obj o => lookup o t!"id"
  | _ => none

/-- a string id, or an integer id a float64 holds exactly -/
def exactId : Json → Prop
  | .str _ => True
  | .int i => i.natAbs ≤ two53
  | _ => False

private theorem ansMsg_id (id : Json) (a : Ans) (msg : Json) (h : ansMsg (some id) a = some msg) : msgId msg = some id := by
  cases a with
  | result r =>
    simp only [ansMsg, Option.some.injEq] at h; subst h
    simp [msgId, okMsg, lookup, jsonrpcField]
  | error c m =>
    simp only [ansMsg, Option.some.injEq] at h; subst h
    simp [msgId, errMsg, lookup, jsonrpcField]
  | unencodable why =>
    simp only [ansMsg, Option.some.injEq] at h; subst h
    simp [msgId, errMsg, lookup, jsonrpcField]

private theorem goDecode_exact (id : Json) (h : exactId id) : goDecode id = some id := by
  cases id with
  | str s => simp [goDecode]
  | int i =>
    have hi : i.natAbs ≤ two53 := h
    have hlt : i.natAbs < f64Overflow := by
      have : two53 < f64Overflow := by decide +kernel
      omega
    simp [goDecode, hlt, f64RoundInt_exact i hi]
  | null => exact absurd h (by simp [exactId])
  | bool b => exact absurd h (by simp [exactId])
  | dec m e => exact absurd h (by simp [exactId])
  | arr xs => exact absurd h (by simp [exactId])
  | obj kvs => exact absurd h (by simp [exactId])

/-- **Id echo**: a request with a well-formed JSON-RPC envelope whose id is a string or an integer of magnitude up to 2^53,
    arriving in a session that accepts it, is answered — on the Streamable server (the HTTP answer of the POST), on the legacy
    SSE server (one frame on the session's stream) and on the stdio server (one line) — by exactly one message, and that
    message carries the request's id unchanged: the same JSON value, a string stays a string, an integer stays that
    integer. (`a` is whatever the dispatcher computed from this request's own method and params; an unencodable result is
    answered with an internal-error message for the same id.) -/
theorem C01_echo (reg : Registry) (o mm : Obj) (hwf : wfEnvelope (.obj o) = true) (hrep : goDecodeFields o = some mm)
    (m : Text) (hm : lookup o t!"method" = some (.str m)) (hne : m ≠ [])
    (c : SCfg) (st : St) (ref : Ref) (acc : Bool) (hs : sessionOk c st ref m)
    (id : Json) (hid : lookup o t!"id" = some id) (hex : exactId id) :
    (∀ a msg, dispatch reg ⟨some id, m, paramsOf mm⟩ = .ok a → ansMsg (some id) a = some msg →
        (serveStreamable c reg st (postOf ref acc (.obj o))).2 = .http 200 (some msg) ∧
        serveSSE reg (ssePostOf (.obj o)) = .resp ⟨some 202, none, [msg]⟩ ∧ msgId msg = some id) ∧
    (∀ a msg, dispatchStdio reg ⟨some id, m, paramsOf mm⟩ = .ok a → ansMsg (some id) a = some msg →
        serveStdio reg (.json (.obj o)) = .resp ⟨none, none, [msg]⟩ ∧ msgId msg = some id) := by
  obtain ⟨id0, id', m', hid0, _, hid', hm', hreq, hbase, hcls⟩ := decode_wfEnvelope o mm hwf hrep
  have e0 : id0 = id := by rw [hid] at hid0; exact (Option.some.inj hid0).symm
  subst e0
  have e1 : id' = id0 := by
    have := goDecode_exact id0 hex
    rw [this] at hid'; exact (Option.some.inj hid').symm
  subst e1
  have : m' = m := by rw [hm] at hm'; simpa using hm'.symm
  subst this
  have hne' : m'.isEmpty = false := by cases m' <;> simp_all
  obtain ⟨st1, sess, hres⟩ := resolve_ok c st ref m' hs
  refine ⟨?_, ?_⟩
  · intro a msg ha hmsg
    refine ⟨?_, ?_, ansMsg_id _ a msg hmsg⟩
    · simp only [postOf, serveStreamable, servePost, hbase, hreq, hne', ha]
      simp [hres, hmsg]
    · simp only [ssePostOf, serveSSE, serveSSEMessage, hbase, hreq, hne', ha]
      simp [hmsg]
  · intro a msg ha hmsg
    refine ⟨?_, ansMsg_id _ a msg hmsg⟩
    simp [serveStdio, hcls, hreq, ha, hmsg]

/-- Beyond 2^53 the echo is the float64 the id was decoded into, not the id: 2^53+1 comes back as 2^53. -/
theorem C01_echo_counterexample : f64RoundInt 9007199254740993 = 9007199254740992 := by decide +kernel

-- non-vacuity: a well-formed envelope with a string id, and one with an integer id
example : wfEnvelope (.obj [(t!"jsonrpc", .str t!"2.0"), (t!"id", .str t!"abc"), (t!"method", .str t!"ping")]) = true ∧ exactId (.str t!"abc") := by
  refine ⟨by decide, trivial⟩

end Mcp.Props.C01
