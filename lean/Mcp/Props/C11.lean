/-
  C11 — A newer listening stream owns the session; an old one's exit never evicts it.
-/
import Mcp.Model.Streams
import Mcp.Model.StreamsSplit
import Mcp.Gen.HandleGet
namespace Mcp.Props.C11
open Mcp.Streams

/-- Invariant for the good region of the family (store before flush, identity check on exit). -/
def Inv (s : St) : Prop :=
  (∀ n, (s.hs n).flushed = true → (s.hs n).stored = true) ∧
  (∀ n, (s.hs n).stored = true → (s.hs n).cancelled = false → s.table = some n) ∧
  (∀ n, (s.hs n).woken = true → (s.hs n).cancelled = true)

theorem inv_init : Inv {} := by
  refine ⟨?_, ?_, ?_⟩ <;> intro n h <;> simp at h

/-- Field-wise description of `cancel`. -/
private theorem cancel_fields (hs : Nat → H) (o n : Nat) :
    (cancel hs o n).stored = (hs n).stored ∧ (cancel hs o n).flushed = (hs n).flushed ∧
    (cancel hs o n).woken = (hs n).woken ∧ (cancel hs o n).opened = (hs n).opened ∧
    (cancel hs o n).exited = (hs n).exited ∧
    (cancel hs o n).cancelled = (if n = o then true else (hs n).cancelled) := by
  by_cases h : n = o
  · subst h; simp [cancel, upd]
  · simp [cancel, upd, h]

theorem inv_step (f : Facts) (hf : f.good = true) (s s' : St) (e : Ev) (h : Inv s) (hs : step f s e = some s') : Inv s' := by
  obtain ⟨i1, i2, i3⟩ := h
  have hfb : f.flushBeforeStore = false := by
    cases hx : f.flushBeforeStore <;> simp [Facts.good, hx] at hf ⊢
  have hid : f.identityCheckOnExit = true := by
    cases hx : f.identityCheckOnExit <;> simp [Facts.good, hx] at hf ⊢
  cases e with
  | open_ n =>
    simp only [step] at hs
    split at hs
    · simp at hs
    · simp only [Option.some.injEq] at hs; subst hs
      refine ⟨?_, ?_, ?_⟩ <;> intro m <;> by_cases hmn : m = n
      · subst hmn; simpa using i1 m
      · simpa [upd_other _ _ _ _ hmn] using i1 m
      · subst hmn; simpa using i2 m
      · simpa [upd_other _ _ _ _ hmn] using i2 m
      · subst hmn; simpa using i3 m
      · simpa [upd_other _ _ _ _ hmn] using i3 m
  | flush n =>
    simp only [step, hfb, Bool.false_or] at hs
    split at hs
    · rename_i hc
      simp only [Option.some.injEq] at hs; subst hs
      have hst : (s.hs n).stored = true := by simp at hc; exact hc.1.2
      refine ⟨?_, ?_, ?_⟩ <;> intro m <;> by_cases hmn : m = n
      · subst hmn; intro _; simpa using hst
      · simpa [upd_other _ _ _ _ hmn] using i1 m
      · subst hmn; simpa using i2 m
      · simpa [upd_other _ _ _ _ hmn] using i2 m
      · subst hmn; simpa using i3 m
      · simpa [upd_other _ _ _ _ hmn] using i3 m
    · simp at hs
  | store n =>
    simp only [step, hfb, Bool.not_false, Bool.true_or, Bool.and_true] at hs
    split at hs
    · rename_i hc
      simp only [Option.some.injEq] at hs; subst hs
      cases ht : s.table with
      | none =>
        simp only
        refine ⟨?_, ?_, ?_⟩ <;> intro m <;> by_cases hmn : m = n
        · subst hmn; simp
        · simpa [upd_other _ _ _ _ hmn] using i1 m
        · subst hmn; simp
        · simp only [upd_other _ _ _ _ hmn]
          intro a b; have := i2 m a b; rw [ht] at this; cases this
        · subst hmn; simpa using i3 m
        · simpa [upd_other _ _ _ _ hmn] using i3 m
      | some o =>
        simp only
        have cf := cancel_fields s.hs o
        refine ⟨?_, ?_, ?_⟩ <;> intro m <;> by_cases hmn : m = n
        · subst hmn; simp
        · simp only [upd_other _ _ _ _ hmn, (cf m).1, (cf m).2.1]; exact i1 m
        · subst hmn; simp
        · simp only [upd_other _ _ _ _ hmn, (cf m).1, (cf m).2.2.2.2.2]
          intro a b
          by_cases hmo : m = o
          · simp [hmo] at b
          · simp only [hmo, ite_false] at b
            have := i2 m a b; rw [ht] at this
            exact absurd (Option.some.inj this).symm hmo
        · subst hmn
          simp only [upd_same, (cf m).2.2.1, (cf m).2.2.2.2.2]
          intro a; have := i3 m a; simp [this]
        · simp only [upd_other _ _ _ _ hmn, (cf m).2.2.1, (cf m).2.2.2.2.2]
          intro a; have := i3 m a; simp [this]
    · simp at hs
  | clientClose n =>
    simp only [step] at hs
    split at hs
    · simp only [Option.some.injEq] at hs; subst hs
      have cf := cancel_fields s.hs n
      refine ⟨?_, ?_, ?_⟩ <;> intro m
      · simp only [(cf m).1, (cf m).2.1]; exact i1 m
      · simp only [(cf m).1, (cf m).2.2.2.2.2]
        intro a b
        by_cases hmn : m = n
        · simp [hmn] at b
        · simp only [hmn, ite_false] at b; exact i2 m a b
      · simp only [(cf m).2.2.1, (cf m).2.2.2.2.2]
        intro a; have := i3 m a; simp [this]
    · simp at hs
  | wake n =>
    simp only [step] at hs
    split at hs
    · rename_i hc
      simp only [Option.some.injEq] at hs; subst hs
      have hcn : (s.hs n).cancelled = true := by simp at hc; exact hc.1.2
      refine ⟨?_, ?_, ?_⟩ <;> intro m <;> by_cases hmn : m = n
      · subst hmn; simpa using i1 m
      · simpa [upd_other _ _ _ _ hmn] using i1 m
      · subst hmn; simpa using i2 m
      · simpa [upd_other _ _ _ _ hmn] using i2 m
      · subst hmn; intro _; simpa using hcn
      · simpa [upd_other _ _ _ _ hmn] using i3 m
    · simp at hs
  | exit_ n =>
    simp only [step, hid, ite_true] at hs
    split at hs
    · rename_i hc
      simp only [Option.some.injEq] at hs; subst hs
      have hw : (s.hs n).woken = true := by simp at hc; exact hc.1
      have hcn : (s.hs n).cancelled = true := i3 n hw
      refine ⟨?_, ?_, ?_⟩ <;> intro m <;> by_cases hmn : m = n
      · subst hmn; simpa using i1 m
      · simpa [upd_other _ _ _ _ hmn] using i1 m
      · subst hmn; simp [hcn]
      · simp only [upd_other _ _ _ _ hmn]
        intro a b
        have := i2 m a b
        rw [this]
        have : ¬ (some m = some n) := fun hx => hmn (Option.some.inj hx)
        simp [this]
      · subst hmn; simpa using i3 m
      · simpa [upd_other _ _ _ _ hmn] using i3 m
    · simp at hs
  | delete =>
    simp only [step] at hs
    split at hs
    · rename_i o ht
      simp only [Option.some.injEq] at hs; subst hs
      have cf := cancel_fields s.hs o
      refine ⟨?_, ?_, ?_⟩ <;> intro m
      · simp only [(cf m).1, (cf m).2.1]; exact i1 m
      · simp only [(cf m).1, (cf m).2.2.2.2.2]
        intro a b
        by_cases hmo : m = o
        · simp [hmo] at b
        · simp only [hmo, ite_false] at b
          have := i2 m a b; rw [ht] at this
          exact absurd (Option.some.inj this).symm hmo
      · simp only [(cf m).2.2.1, (cf m).2.2.2.2.2]
        intro a; have := i3 m a; simp [this]
    · simp only [Option.some.injEq] at hs; subst hs; exact ⟨i1, i2, i3⟩
  | send m =>
    simp only [step] at hs
    split at hs
    · split at hs <;> (simp only [Option.some.injEq] at hs; subst hs; exact ⟨i1, i2, i3⟩)
    · simp only [Option.some.injEq] at hs; subst hs; exact ⟨i1, i2, i3⟩
  | breakStream n =>
    simp only [step, Option.some.injEq] at hs; subst hs; exact ⟨i1, i2, i3⟩
  | sendBegin m =>
    simp only [step] at hs
    split at hs
    · simp at hs
    · split at hs <;> (simp only [Option.some.injEq] at hs; subst hs; exact ⟨i1, i2, i3⟩)
  | sendEnd m =>
    simp only [step] at hs
    split at hs
    · simp at hs
    · split at hs
      · split at hs <;> (simp only [Option.some.injEq] at hs; subst hs; exact ⟨i1, i2, i3⟩)
      · split at hs <;> (simp only [Option.some.injEq] at hs; subst hs; exact ⟨i1, i2, i3⟩)

theorem inv_run (f : Facts) (hf : f.good = true) (evs : List Ev) :
    ∀ (s s' : St), Inv s → run f s evs = some s' → Inv s' := by
  induction evs with
  | nil => intro s s' h hr; simp [run] at hr; subst hr; exact h
  | cons e es ih =>
    intro s s' h hr
    simp only [run] at hr
    split at hr
    · simp at hr
    · rename_i s1 hs1
      exact ih s1 s' (inv_step f hf s s1 e h hs1) hr

/-- **A newer listening stream owns the session.** For the good region of the family (table store before the
    header flush, identity check on exit) and every schedule of any number of GET handlers, client disconnects,
    DELETEs and sends: whenever a stream's headers have been received and nobody has ended that stream, the table
    entry of the session is that stream — so every send succeeds and is delivered on it. -/
theorem C11_newest_owns (f : Facts) (hf : f.good = true) (evs : List Ev) (s : St)
    (hr : run f {} evs = some s) (n : Nat) (hl : listening s n = true) (m : Nat) :
    s.table = some n ∧
    (s.broken.contains n = false →   -- the peer of that stream is alive (writes on it succeed)
      step f s (.send m) = some { s with delivered := s.delivered ++ [(n, m)] }) := by
  obtain ⟨i1, i2, _⟩ := inv_run f hf evs {} s inv_init hr
  simp only [listening, Bool.and_eq_true, Bool.not_eq_true'] at hl
  have ht : s.table = some n := i2 n (i1 n hl.1) hl.2
  refine ⟨ht, fun hb => ?_⟩
  have hb' : n ∉ s.broken := by simpa using hb
  simp [step, ht, hb']

/-- At most one stream is listening at any time (the old one has been ended by the time the new one's headers
    are out). -/
theorem C11_one_listener (f : Facts) (hf : f.good = true) (evs : List Ev) (s : St)
    (hr : run f {} evs = some s) (a b : Nat) (ha : listening s a = true) (hb : listening s b = true) : a = b := by
  have h1 := (C11_newest_owns f hf evs s hr a ha 0).1
  have h2 := (C11_newest_owns f hf evs s hr b hb 0).1
  rw [h1] at h2; exact Option.some.inj h2

/-- A stream that ends removes only itself: with the identity check the exit step leaves any other stream's
    entry in place. -/
theorem C11_exit_removes_self_only (f : Facts) (hid : f.identityCheckOnExit = true) (s s' : St) (n : Nat)
    (hs : step f s (.exit_ n) = some s') : s'.table = (if s.table = some n then none else s.table) := by
  simp only [step, hid, ite_true] at hs
  split at hs
  · simp only [Option.some.injEq] at hs; subst hs; rfl
  · simp at hs

/-- A send — successful, failed on a dead peer, or not deliverable at all — never changes which stream owns the
    session, nor any handler's state: in particular a failed write on an old stream cannot evict the new one. -/
theorem C11_send_leaves_table (f : Facts) (s s' : St) (e : Ev)
    (he : (∃ m, e = .send m) ∨ (∃ m, e = .sendBegin m) ∨ (∃ m, e = .sendEnd m) ∨ (∃ n, e = .breakStream n))
    (hs : step f s e = some s') : s'.table = s.table ∧ s'.hs = s.hs := by
  rcases he with ⟨m, rfl⟩ | ⟨m, rfl⟩ | ⟨m, rfl⟩ | ⟨n, rfl⟩ <;> simp only [step] at hs
  · split at hs
    · split at hs <;> (simp at hs; subst hs; exact ⟨rfl, rfl⟩)
    · simp at hs; subst hs; exact ⟨rfl, rfl⟩
  · split at hs
    · simp at hs
    · split at hs <;> (simp at hs; subst hs; exact ⟨rfl, rfl⟩)
  · split at hs
    · simp at hs
    · split at hs
      · split at hs <;> (simp at hs; subst hs; exact ⟨rfl, rfl⟩)
      · split at hs <;> (simp at hs; subst hs; exact ⟨rfl, rfl⟩)
  · simp at hs; subst hs; exact ⟨rfl, rfl⟩

/-- The regenerated facts about today's `handleGet` are in the good region. -/
theorem C11_facts_good : Mcp.Gen.handleGetFacts.good = true := by decide

/-- The model's `store` and `exit_` are single steps because the code performs each in ONE exclusive critical section of the
    stream-table lock (regenerated): registration = look up the session's entry, cancel the stream found, store the new
    one; exit = "is the entry still mine?" and the delete. Split in two critical sections, two racing re-opens can both
    stay open, and an old stream's exit can evict a stream registered between its check and its delete — schedules the
    model does not contain, so the theorems above would say nothing about such code. -/
theorem C11_steps_atomic_fact : Mcp.Gen.handleGetStoreAtomic = true ∧ Mcp.Gen.handleGetExitAtomic = true := by decide

/-- Client side of the same rule (`streamable_client.go establishGetSSE`, regenerated): a re-open cancels the previous
    stream's context and installs the new one under the slot's mutex, and a reader goroutine that exits cancels / replaces
    nothing in the shared slot — by then the slot may belong to a newer stream ("a stream that ends removes only
    itself"). -/
theorem C11_client_slot_fact : Mcp.Gen.clientGetReplaceLocked = true ∧ Mcp.Gen.clientGetExitOwnOnly = true := by decide

/-- Why `handleGetExitAtomic` is an obligation: with the identity check and the delete in two critical sections (good
    facts otherwise) an old stream that ended by itself evicts a stream registered between its check and its delete — the
    new stream is listening, a send after its headers fails. -/
theorem C11_split_exit_witness :
    ∃ x, runS ⟨false, true, true⟩ {}
        [.base (.open_ 0), .base (.store 0), .base (.flush 0), .base (.clientClose 0), .base (.wake 0), .exitCheck 0,
         .base (.open_ 1), .base (.store 1), .base (.flush 1), .exitDelete 0, .base (.send 7)] = some x ∧
      listening x.s 1 = true ∧ x.s.table = none ∧ x.s.failed = [7] ∧ x.s.delivered = [] := by
  refine ⟨_, rfl, ?_⟩; decide

/-- Why `handleGetStoreAtomic` is an obligation: with the look-up of the predecessor and the store in two critical
    sections two racing re-opens both cancel only the stream they saw: the one whose entry is overwritten stays open
    (two listeners), and it never receives anything. -/
theorem C11_split_store_witness :
    ∃ x, runS ⟨false, true, true⟩ {}
        [.base (.open_ 0), .base (.store 0), .base (.flush 0), .base (.open_ 1), .base (.open_ 2),
         .storeLookup 1, .storeLookup 2, .storeCommit 1, .base (.flush 1), .storeCommit 2, .base (.flush 2), .base (.send 7)] = some x ∧
      listening x.s 1 = true ∧ listening x.s 2 = true ∧ x.s.table = some 2 ∧ x.s.delivered = [(2, 7)] := by
  refine ⟨_, rfl, ?_⟩; decide

/-- The split model restricted to base events is the model the theorems above are about. -/
theorem C11_split_model_conservative (f : Facts) (x : StS) (e : Ev) :
    stepS f x (.base e) = (step f x.s e).map fun s' => { x with s := s' } := rfl

/-- Witness for the bad region "exit deletes by key" (the tree before its `fix:` commit): after a reconnect the old
    handler's exit evicts the new stream and a send fails although stream 1 is listening. -/
theorem C11_bad_exit_witness :
    ∃ s, run ⟨false, false, true⟩ {} [.open_ 0, .store 0, .flush 0, .open_ 1, .store 1, .flush 1, .wake 0, .exit_ 0, .send 7] = some s ∧
      listening s 1 = true ∧ s.failed = [7] ∧ s.delivered = [] := by
  refine ⟨_, rfl, ?_⟩; decide

/-- Witness for the bad region "headers flushed before the table store": the client has the new stream's headers,
    yet a send is delivered on the old stream (or fails, for a first stream). -/
theorem C11_bad_order_witness :
    (∃ s, run ⟨true, true, true⟩ {} [.open_ 0, .flush 0, .store 0, .open_ 1, .flush 1, .send 7] = some s ∧
      listening s 1 = true ∧ s.delivered = [(0, 7)]) ∧
    (∃ s, run ⟨true, true, true⟩ {} [.open_ 0, .flush 0, .send 7] = some s ∧ listening s 0 = true ∧ s.failed = [7]) := by
  refine ⟨⟨_, rfl, ?_⟩, ⟨_, rfl, ?_⟩⟩ <;> decide

private theorem step_crashed (f : Facts) (hc : f.closedMarkOnExit = true) (s s' : St) (e : Ev)
    (h : step f s e = some s') : s'.crashed = s.crashed := by
  cases e with
  | open_ n => simp only [step] at h; split at h <;> simp at h; subst h; rfl
  | flush n => simp only [step] at h; split at h <;> simp at h; subst h; rfl
  | store n => simp only [step] at h; split at h <;> simp at h; subst h; rfl
  | clientClose n => simp only [step] at h; split at h <;> simp at h; subst h; rfl
  | wake n => simp only [step] at h; split at h <;> simp at h; subst h; rfl
  | exit_ n => simp only [step] at h; split at h <;> simp at h; subst h; rfl
  | delete => simp only [step] at h; split at h <;> (simp at h; subst h; rfl)
  | send m =>
    simp only [step] at h
    split at h
    · split at h <;> (simp at h; subst h; rfl)
    · simp at h; subst h; rfl
  | breakStream n => simp only [step, Option.some.injEq] at h; subst h; rfl
  | sendBegin m =>
    simp only [step] at h
    split at h
    · simp at h
    · split at h <;> (simp at h; subst h; rfl)
  | sendEnd m =>
    simp only [step, hc, ite_true] at h
    split at h
    · simp at h
    · split at h
      · simp at h; subst h; rfl
      · split at h <;> (simp at h; subst h; rfl)

/-- **A send never writes to a finished response.** With the closed mark (set by the exiting handler under the
    connection's write lock and checked by writers under that lock) no schedule — whatever the interleaving of a
    send's lookup and write with the teardown of the stream it found — makes a write hit a response whose handler has
    returned. -/
theorem C11_no_write_after_return (f : Facts) (hc : f.closedMarkOnExit = true) (evs : List Ev) :
    ∀ (s s' : St), s.crashed = [] → run f s evs = some s' → s'.crashed = [] := by
  induction evs with
  | nil => intro s s' h hr; simp [run] at hr; subst hr; exact h
  | cons e es ih =>
    intro s s' h hr
    simp only [run] at hr
    split at hr
    · simp at hr
    · rename_i s1 hs1
      refine ih s1 s' ?_ hr
      rw [step_crashed f hc s s1 e hs1]; exact h

/-- The regenerated fact: today's `handleGet` exit path sets the mark and both writers check it. -/
theorem C11_closed_mark_fact : Mcp.Gen.handleGetFacts.closedMarkOnExit = true := by decide

/-- Witness for the bad region (no closed mark — the tree before its `fix:` commit): a send looks the stream up, the
    client drops the stream, the handler wakes, cleans up and returns, then the send writes: a write on a finished
    response (in the real server: a nil-pointer panic inside net/http in the goroutine that called SendNotification). -/
theorem C11_write_after_return_witness :
    ∃ s, run ⟨false, true, false⟩ {} [.open_ 0, .store 0, .flush 0, .sendBegin 7, .clientClose 0, .wake 0, .exit_ 0, .sendEnd 7] = some s ∧
      s.crashed = [7] := by
  refine ⟨_, rfl, ?_⟩; decide

-- non-vacuity: reconnect under the good facts, then a send lands on the new stream
example : ∃ s, run ⟨false, true, true⟩ {} [.open_ 0, .store 0, .flush 0, .open_ 1, .store 1, .flush 1, .wake 0, .exit_ 0, .send 7] = some s ∧
    listening s 1 = true ∧ s.delivered = [(1, 7)] ∧ s.failed = [] := by
  refine ⟨_, rfl, ?_⟩; decide

end Mcp.Props.C11
