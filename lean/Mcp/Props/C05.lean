/-
  C05 — Server-initiated traffic reaches exactly the addressed session.

  Full statement: a notification / request sent inside session `s` is written once, in sending order (per kind), on `s`'s
  stream and on no other; a broadcast / filtered send reaches every selected session with an open stream once and reports
  that number; the answer accepted for a server-issued request was posted by the session the request was sent to; answer /
  timeout / cancel leave nothing pending.

  The model is a family indexed by structural facts of the source (`Facts`, regenerated and decided: `C05_fact_region`).
  Since the repairs of D01, D13 and D14 the source is in the good region and the full statement holds for today's facts
  (`C05_answer_from_addressee_today`, `C05_sse_notification_today`, `C05_nothing_left`, `C05_key_roundtrip`). The bad
  regions stay in the family, with their witnesses as theorems about explicit bad facts:
  * D13 — a lookup that does not look at the posting session accepts a foreign session's answer
    (`C05_answer_from_addressee_counterexample`, Streamable and legacy SSE);
  * D14 — if nothing ever marks a legacy SSE session initialized, `sendNotificationToSession` refuses every send
    (`C05_sse_notification_counterexample`);
  * D01 — a `%v`-keyed Streamable table loses even the addressee's answer from request number 10^6 on
    (`C05_answer_lost_witness`).
-/
import Mcp.Model.Routing
import Mcp.Model.RoutingToday
import Mcp.Gen.PendingFacts
namespace Mcp.Props.C05
open Mcp.Str Mcp.Ids Mcp.Routing
open Mcp.Pending (Key KeyKind WireId keyOfReq keyOfWire)

/-! ## well-formedness of the session table -/

def WF (s : St) : Prop := s.sessions.Nodup ∧ ∀ a ∈ s.sessions, a < s.nextSid

private theorem nodup_filter {α} (p : α → Bool) (l : List α) (h : l.Nodup) : (l.filter p).Nodup :=
  List.Nodup.sublist List.filter_sublist h

private theorem wf_del (s : St) (a : Nat) (h : WF s) (s' : St) (h1 : s'.sessions = s.sessions.filter (· ≠ a))
    (h2 : s'.nextSid = s.nextSid) : WF s' := by
  unfold WF
  rw [h1, h2]
  exact ⟨nodup_filter _ _ h.1, fun x hx => h.2 x (List.mem_filter.mp hx).1⟩

private theorem wf_new (s : St) (h : WF s) (st : List Nat) :
    WF { s with nextSid := s.nextSid + 1, sessions := s.sessions ++ [s.nextSid], streams := st } := by
  refine ⟨?_, ?_⟩
  · rw [List.nodup_append]
    refine ⟨h.1, by simp, ?_⟩
    intro a ha b hb hab
    simp only [List.mem_singleton] at hb
    have := h.2 a ha
    omega
  · intro x hx
    simp only [List.mem_append, List.mem_singleton] at hx
    rcases hx with hx | hx
    · have := h.2 x hx; simp; omega
    · subst hx; simp

/-- every step appends to the write log; sessions stay well formed. -/
private theorem step_frames (srv : Server) (f : Facts) (s : St) (op : Op) (hw : WF s) :
    WF (step srv f s op).1 ∧
    ∃ new, (step srv f s op).1.delivered = s.delivered ++ new ∧
      ((∃ a m, new = [notifFrame a m] ∧ opTags .notif [op] = [m]) ∨
       (∃ a m, new = [(a, ⟨.req, a, m⟩)] ∧ opTags .req [op] = [m]) ∨
       (∃ (l : List Nat) (m : Nat), l.Nodup ∧ new = l.map (fun a => notifFrame a m) ∧ opTags .notif [op] = [m]) ∨
       new = []) := by
  cases op with
  | newSession =>
    cases srv with
    | streamable b => cases b <;> simp only [step]
                      · exact ⟨wf_new s hw _, [], by simp, Or.inr (Or.inr (Or.inr rfl))⟩
                      · exact ⟨hw, [], by simp, Or.inr (Or.inr (Or.inr rfl))⟩
    | legacySse => exact ⟨wf_new s hw _, [], by simp [step], Or.inr (Or.inr (Or.inr rfl))⟩
    | stdio => exact ⟨hw, [], by simp [step], Or.inr (Or.inr (Or.inr rfl))⟩
  | delSession a =>
    simp only [step]
    split
    · exact ⟨wf_del s a hw _ rfl rfl, [], by simp, Or.inr (Or.inr (Or.inr rfl))⟩
    · exact ⟨hw, [], by simp, Or.inr (Or.inr (Or.inr rfl))⟩
  | openStream a =>
    simp only [step]
    split
    · split
      · exact ⟨hw, [], by simp, Or.inr (Or.inr (Or.inr rfl))⟩
      · exact ⟨hw, [], by simp, Or.inr (Or.inr (Or.inr rfl))⟩
    · exact ⟨hw, [], by simp, Or.inr (Or.inr (Or.inr rfl))⟩
  | breakStream a =>
    simp only [step]
    split
    · split
      · exact ⟨hw, [], by simp, Or.inr (Or.inr (Or.inr rfl))⟩
      · exact ⟨hw, [], by simp, Or.inr (Or.inr (Or.inr rfl))⟩
    · exact ⟨hw, [], by simp, Or.inr (Or.inr (Or.inr rfl))⟩
  | closeStream a =>
    simp only [step]
    split
    · exact ⟨hw, [], by simp, Or.inr (Or.inr (Or.inr rfl))⟩
    · exact ⟨wf_del s a hw _ rfl rfl, [], by simp, Or.inr (Or.inr (Or.inr rfl))⟩
    · exact ⟨hw, [], by simp, Or.inr (Or.inr (Or.inr rfl))⟩
  | send a m =>
    simp only [step]
    split
    · exact ⟨hw, [], by simp, Or.inr (Or.inr (Or.inr rfl))⟩
    · split
      · exact ⟨hw, [notifFrame a m], rfl, Or.inl ⟨a, m, rfl, by simp [opTags]⟩⟩
      · exact ⟨hw, [], by simp, Or.inr (Or.inr (Or.inr rfl))⟩
  | broadcast m =>
    simp only [step]
    split
    · exact ⟨hw, [], by simp, Or.inr (Or.inr (Or.inr rfl))⟩
    · exact ⟨hw, _, rfl, Or.inr (Or.inr (Or.inl ⟨_, m, nodup_filter _ _ hw.1, rfl, by simp [opTags]⟩))⟩
    · exact ⟨hw, [], by simp, Or.inr (Or.inr (Or.inr rfl))⟩
  | filtered sel m =>
    simp only [step]
    split
    · exact ⟨hw, [], by simp, Or.inr (Or.inr (Or.inr rfl))⟩
    · exact ⟨hw, _, rfl, Or.inr (Or.inr (Or.inl ⟨_, m, nodup_filter _ _ (nodup_filter _ _ hw.1), rfl, by simp [opTags]⟩))⟩
    · exact ⟨hw, [], by simp, Or.inr (Or.inr (Or.inr rfl))⟩
  | request a m =>
    simp only [step]
    split
    · exact ⟨hw, [], by simp, Or.inr (Or.inr (Or.inr rfl))⟩
    · split
      · exact ⟨hw, [], by simp, Or.inr (Or.inr (Or.inr rfl))⟩
      · split
        · exact ⟨hw, [], by simp, Or.inr (Or.inr (Or.inr rfl))⟩
        · split
          · exact ⟨hw, [], by simp, Or.inr (Or.inr (Or.inr rfl))⟩
          · split
            · exact ⟨hw, [], by simp, Or.inr (Or.inr (Or.inr rfl))⟩
            · exact ⟨hw, [(a, ⟨.req, a, m⟩)], rfl, Or.inr (Or.inl ⟨a, m, rfl, by simp [opTags]⟩)⟩
  | postAnswer p idw payload =>
    simp only [step]
    split
    · exact ⟨hw, [], by simp, Or.inr (Or.inr (Or.inr rfl))⟩
    · split
      · exact ⟨hw, [], by simp, Or.inr (Or.inr (Or.inr rfl))⟩
      · split
        · exact ⟨hw, [], by simp, Or.inr (Or.inr (Or.inr rfl))⟩
        · exact ⟨hw, [], by simp, Or.inr (Or.inr (Or.inr rfl))⟩
  | complete m =>
    simp only [step]
    split
    · split
      · exact ⟨hw, [], by simp, Or.inr (Or.inr (Or.inr rfl))⟩
      · exact ⟨hw, [], by simp, Or.inr (Or.inr (Or.inr rfl))⟩
    · exact ⟨hw, [], by simp, Or.inr (Or.inr (Or.inr rfl))⟩
  | timeout m =>
    simp only [step]
    split
    · exact ⟨hw, [], by simp, Or.inr (Or.inr (Or.inr rfl))⟩
    · exact ⟨hw, [], by simp, Or.inr (Or.inr (Or.inr rfl))⟩
  | cancel m =>
    simp only [step]
    split
    · exact ⟨hw, [], by simp, Or.inr (Or.inr (Or.inr rfl))⟩
    · exact ⟨hw, [], by simp, Or.inr (Or.inr (Or.inr rfl))⟩

private theorem wf_init (srv : Server) (start : Nat) : WF (init srv start) := by
  cases srv <;> simp [init, WF]

private theorem run_cons (srv : Server) (f : Facts) (s : St) (o : Op) (os : List Op) :
    run srv f s (o :: os) = ((run srv f (step srv f s o).1 os).1, (step srv f s o).2 :: (run srv f (step srv f s o).1 os).2) := by
  simp [run]

private theorem wf_run (srv : Server) (f : Facts) (ops : List Op) : ∀ s, WF s → WF (run srv f s ops).1 := by
  induction ops with
  | nil => intro s h; simpa [run] using h
  | cons o os ih =>
    intro s h
    rw [run_cons]
    exact ih _ (step_frames srv f s o h).1

/-! ## isolation -/

private theorem step_isolated (srv : Server) (f : Facts) (s : St) (op : Op) (hw : WF s)
    (h : ∀ x ∈ s.delivered, x.2.to = x.1) : ∀ x ∈ (step srv f s op).1.delivered, x.2.to = x.1 := by
  obtain ⟨_, new, hd, hn⟩ := step_frames srv f s op hw
  rw [hd]
  intro x hx
  simp only [List.mem_append] at hx
  rcases hx with hx | hx
  · exact h x hx
  · rcases hn with ⟨a, m, hn, _⟩ | ⟨a, m, hn, _⟩ | ⟨l, m, _, hn, _⟩ | hn
    · subst hn; simp only [List.mem_singleton] at hx; subst hx; rfl
    · subst hn; simp only [List.mem_singleton] at hx; subst hx; rfl
    · subst hn
      obtain ⟨a, _, ha⟩ := List.mem_map.mp hx
      subst ha; rfl
    · subst hn; simp at hx

/-- **Isolation**: for every history of sends, broadcasts, filtered sends, requests, posts, stream and session changes,
    on every server kind: a frame written on the stream of session `s'` was addressed to `s'`. -/
theorem C05_isolated (srv : Server) (f : Facts) (start : Nat) (ops : List Op) :
    ∀ x ∈ (run srv f (init srv start) ops).1.delivered, x.2.to = x.1 := by
  suffices h : ∀ s, WF s → (∀ x ∈ s.delivered, x.2.to = x.1) → ∀ x ∈ (run srv f s ops).1.delivered, x.2.to = x.1 by
    exact h _ (wf_init srv start) (by cases srv <;> simp [init])
  induction ops with
  | nil => intro s _ h; simpa [run] using h
  | cons o os ih =>
    intro s hw h
    rw [run_cons]
    exact ih _ (step_frames srv f s o hw).1 (step_isolated srv f s o hw h)

/-! ## once, in sending order, per kind -/

private theorem nodup_filter_eq (l : List Nat) (a : Nat) (h : l.Nodup) : l.filter (· = a) = [] ∨ l.filter (· = a) = [a] := by
  induction l with
  | nil => simp
  | cons x xs ih =>
    simp only [List.nodup_cons] at h
    by_cases hx : x = a
    · subst hx
      right
      have : xs.filter (· = x) = [] := by
        rw [List.filter_eq_nil_iff]
        intro y hy hyx
        simp at hyx; subst hyx; exact h.1 hy
      simp [this]
    · rcases ih h.2 with h1 | h1
      · left; simp [hx, h1]
      · right; simp [hx, h1]

private def sel (a : Nat) (k : Kind) (l : List (Nat × Frame)) : List Nat :=
  (l.filter (fun x => x.1 = a ∧ x.2.kind = k)).map (fun x => x.2.tag)

private theorem sel_append (a : Nat) (k : Kind) (l1 l2 : List (Nat × Frame)) : sel a k (l1 ++ l2) = sel a k l1 ++ sel a k l2 := by
  simp [sel]

private theorem sel_broadcast (a : Nat) (k : Kind) (l : List Nat) (m : Nat) (h : l.Nodup) :
    (sel a k (l.map (fun b => notifFrame b m))).Sublist (if k = .notif then [m] else []) := by
  have hsel : sel a k (l.map (fun b => notifFrame b m)) = if k = .notif then (l.filter (· = a)).map (fun _ => m) else [] := by
    induction l with
    | nil => simp [sel]
    | cons x xs ih =>
      have ih' := ih (List.nodup_cons.mp h).2
      simp only [sel, List.map_cons, List.filter_cons, notifFrame] at ih' ⊢
      by_cases hk : k = .notif
      · subst hk
        by_cases hx : x = a
        · subst hx; simpa using ih'
        · simpa [hx] using ih'
      · have hk' : ¬ (Kind.notif = k) := fun h' => hk h'.symm
        simp [hk, hk']
  rw [hsel]
  by_cases hk : k = .notif
  · simp only [hk, if_true]
    rcases nodup_filter_eq l a h with h1 | h1 <;> simp [h1]
  · simp [hk]

private theorem step_sel (srv : Server) (f : Facts) (s : St) (op : Op) (hw : WF s) (a : Nat) (k : Kind) :
    ∃ y, sel a k (step srv f s op).1.delivered = sel a k s.delivered ++ y ∧ y.Sublist (opTags k [op]) := by
  obtain ⟨_, new, hd, hn⟩ := step_frames srv f s op hw
  refine ⟨sel a k new, by rw [hd, sel_append], ?_⟩
  rcases hn with ⟨b, m, hn, ht⟩ | ⟨b, m, hn, ht⟩ | ⟨l, m, hl, hn, ht⟩ | hn
  · subst hn
    have := sel_broadcast a k [b] m (by simp)
    cases k
    · rw [ht]; simpa using this
    · simp [sel, notifFrame]
  · subst hn
    cases k
    · simp [sel]
    · rw [ht]
      by_cases hb : b = a
      · simp [sel, hb]
      · simp [sel, hb]
  · subst hn
    have := sel_broadcast a k l m hl
    cases k
    · rw [ht]; simpa using this
    · have h' : sel a .req (l.map (fun b => notifFrame b m)) = [] := by simpa using this
      rw [h']; exact List.nil_sublist _
  · subst hn; simp [sel]

private theorem opTags_cons (k : Kind) (o : Op) (os : List Op) : opTags k (o :: os) = opTags k [o] ++ opTags k os := by
  cases o <;> simp [opTags]

/-- **Once, in sending order, per kind**: for every history, every session `a` and each kind of traffic, the tags of the
    frames written on `a`'s stream form a subsequence of the tags of the sends of that kind in sending order; hence, with
    one nonce per send, no frame is written twice and the order of sending is kept. (Which sends appear is settled by
    `C05_send_delivered_iff_ok`, `C05_request_delivered_iff_issued` and `C05_broadcast_count`.) -/
theorem C05_once_in_order (srv : Server) (f : Facts) (start : Nat) (ops : List Op) (a : Nat) (k : Kind) :
    (outboxTags (run srv f (init srv start) ops).1 a k).Sublist (opTags k ops) ∧
    ((opTags k ops).Nodup → (outboxTags (run srv f (init srv start) ops).1 a k).Nodup) := by
  have key : ∀ s, WF s → ∃ y, sel a k (run srv f s ops).1.delivered = sel a k s.delivered ++ y ∧ y.Sublist (opTags k ops) := by
    induction ops with
    | nil => intro s _; exact ⟨[], by simp [run], by simp [opTags]⟩
    | cons o os ih =>
      intro s hw
      rw [run_cons]
      obtain ⟨y1, h1, hs1⟩ := step_sel srv f s o hw a k
      obtain ⟨y2, h2, hs2⟩ := ih _ (step_frames srv f s o hw).1
      refine ⟨y1 ++ y2, by rw [h2, h1, List.append_assoc], ?_⟩
      rw [opTags_cons]
      exact List.Sublist.append hs1 hs2
  obtain ⟨y, hy, hs⟩ := key _ (wf_init srv start)
  have h0 : sel a k (init srv start).delivered = [] := by cases srv <;> simp [init, sel]
  have : outboxTags (run srv f (init srv start) ops).1 a k = y := by
    show sel a k _ = y
    rw [hy, h0]; simp
  rw [this]
  exact ⟨hs, fun hn => List.Nodup.sublist hs hn⟩

/-- **A notification is written iff the send reports success**: `SendNotification(a, m)` returns `nil` exactly when the
    frame was appended to `a`'s stream; on an error nothing is written anywhere. -/
theorem C05_send_delivered_iff_ok (srv : Server) (f : Facts) (s : St) (a m : Nat) :
    ((step srv f s (.send a m)).2 = .ok ∧ (step srv f s (.send a m)).1.delivered = s.delivered ++ [(a, ⟨.notif, a, m⟩)]) ∨
    ((∃ e, (step srv f s (.send a m)).2 = .err e) ∧ (step srv f s (.send a m)).1 = s) := by
  simp only [step]
  split
  · exact Or.inr ⟨⟨_, rfl⟩, rfl⟩
  · split
    · exact Or.inl ⟨rfl, rfl⟩
    · exact Or.inr ⟨⟨_, rfl⟩, rfl⟩

/-- **A request frame is written iff the request was issued**, on the addressee's stream, together with its pending entry. -/
theorem C05_request_delivered_iff_issued (srv : Server) (f : Facts) (s : St) (a m : Nat) :
    (∃ id, (step srv f s (.request a m)).2 = .issued id ∧
        (step srv f s (.request a m)).1.delivered = s.delivered ++ [(a, ⟨.req, a, m⟩)] ∧
        ∃ key, (step srv f s (.request a m)).1.pending = s.pending ++ [⟨key, a, m, none⟩]) ∨
    ((∃ e, (step srv f s (.request a m)).2 = .err e) ∧ (step srv f s (.request a m)).1.delivered = s.delivered ∧
        (step srv f s (.request a m)).1.pending = s.pending) := by
  simp only [step]
  split
  · exact Or.inr ⟨⟨_, rfl⟩, rfl, rfl⟩
  · split
    · exact Or.inr ⟨⟨_, rfl⟩, rfl, rfl⟩
    · split
      · exact Or.inr ⟨⟨_, rfl⟩, rfl, rfl⟩
      · split
        · exact Or.inr ⟨⟨_, rfl⟩, rfl, rfl⟩
        · split
          · exact Or.inr ⟨⟨_, rfl⟩, rfl, rfl⟩
          · exact Or.inl ⟨_, rfl, rfl, _, rfl⟩

/-! ## broadcast / filtered accounting -/

private theorem filter_frames (l : List Nat) (a m : Nat) :
    (l.map (fun b => notifFrame b m)).filter (fun x => x.1 = a) = (l.filter (· = a)).map (fun b => notifFrame b m) := by
  induction l with
  | nil => rfl
  | cons x xs ih =>
    by_cases hx : x = a
    · simp only [List.map_cons, List.filter_cons, notifFrame, hx, decide_true, if_true, List.cons.injEq, true_and]
      simpa [notifFrame] using ih
    · simp only [List.map_cons, List.filter_cons, notifFrame, hx, decide_false]
      simpa [notifFrame] using ih

private theorem count_reached (l : List Nat) (a m : Nat) (hl : l.Nodup) (ha : a ∈ l) :
    ((l.map (fun b => notifFrame b m)).filter (fun x => x.1 = a)).length = 1 := by
  rw [filter_frames]
  rcases nodup_filter_eq l a hl with h1 | h1
  · exfalso
    have : a ∈ l.filter (· = a) := List.mem_filter.mpr ⟨ha, by simp⟩
    rw [h1] at this; simp at this
  · simp [h1]

private theorem count_unreached (l : List Nat) (a m : Nat) (ha : a ∉ l) :
    (l.map (fun b => notifFrame b m)).filter (fun x => x.1 = a) = [] := by
  rw [filter_frames]
  have : l.filter (· = a) = [] := by
    rw [List.filter_eq_nil_iff]; intro y hy hya
    have : y = a := by simpa using hya
    subst this; exact ha hy
  simp [this]

/-- **Broadcast count** (Streamable, stateful): `BroadcastNotification` returns as its count the number of active sessions
    that have an open stream whose write succeeds (`reaches`: a session whose stream is registered but fails its writes is
    one failure, it does not hide the sessions after it); exactly those sessions gain exactly one frame, tagged with this send and addressed to them,
    and no other stream gains anything. (When every session fails the call returns 0 and an error — 0 is again the number
    reached.) -/
theorem C05_broadcast_count (f : Facts) (s : St) (m : Nat) (hw : WF s) :
    let reached := s.sessions.filter (reaches s)
    let r := step (.streamable false) f s (.broadcast m)
    (r.2 = .count reached.length none ∨ (r.2 = .count 0 (some .allFailed) ∧ reached.length = 0)) ∧
    r.1.delivered = s.delivered ++ reached.map (fun a => (a, ⟨.notif, a, m⟩)) ∧
    (∀ a ∈ reached, ((reached.map (fun a => notifFrame a m)).filter (fun x => x.1 = a)).length = 1) ∧
    (∀ a, a ∉ reached → ((reached.map (fun a => notifFrame a m)).filter (fun x => x.1 = a)) = []) := by
  intro reached r
  have hnd : reached.Nodup := nodup_filter _ _ hw.1
  refine ⟨?_, rfl, ?_, ?_⟩
  · have hret : r.2 = (if s.sessions.length - reached.length = s.sessions.length ∧ s.sessions.length - reached.length > 0
        then .count 0 (some .allFailed) else .count reached.length none) := rfl
    rw [hret]
    split
    · rename_i hc
      right
      refine ⟨rfl, ?_⟩
      have hle : reached.length ≤ s.sessions.length := List.length_filter_le _ _
      omega
    · left; rfl
  · intro a ha; exact count_reached reached a m hnd ha
  · intro a ha; exact count_unreached reached a m ha

/-- **Filtered count**: `SendFilteredNotification` reports (reached, failed) = (selected sessions with an open stream whose
    write succeeds, the other selected sessions — no stream, or a stream whose write fails); exactly the reached ones gain
    one frame each. -/
theorem C05_filtered_count (f : Facts) (s : St) (sl : List Nat) (m : Nat) (hw : WF s) :
    let chosen := s.sessions.filter (sl.contains ·)
    let reached := chosen.filter (reaches s)
    let r := step (.streamable false) f s (.filtered sl m)
    (r.2 = .counts reached.length (chosen.length - reached.length) none ∨
      (r.2 = .counts 0 (chosen.length - reached.length) (some .allFailed) ∧ reached.length = 0)) ∧
    r.1.delivered = s.delivered ++ reached.map (fun a => (a, ⟨.notif, a, m⟩)) ∧
    (∀ a ∈ reached, ((reached.map (fun a => notifFrame a m)).filter (fun x => x.1 = a)).length = 1) := by
  intro chosen reached r
  have hnd : reached.Nodup := nodup_filter _ _ (nodup_filter _ _ hw.1)
  refine ⟨?_, rfl, ?_⟩
  · have hret : r.2 = (if chosen.length - reached.length > 0 ∧ reached.length = 0
        then .counts 0 (chosen.length - reached.length) (some .allFailed) else .counts reached.length (chosen.length - reached.length) none) := rfl
    rw [hret]
    split
    · rename_i hc
      right; exact ⟨rfl, hc.2⟩
    · left; rfl
  · intro a ha; exact count_reached reached a m hnd ha

/-- **A session whose stream fails its writes does not hide the others**: whatever sessions are broken, every healthy
    selected session with an open stream is among the reached ones of a broadcast (it gains its one frame and is counted),
    and no broken or stream-less session is. -/
theorem C05_broadcast_reaches_every_healthy (f : Facts) (s : St) (m a : Nat) (ha : a ∈ s.sessions) :
    (hasStream s a = true ∧ s.broken.contains a = false ↔ a ∈ s.sessions.filter (reaches s)) ∧
    ((step (.streamable false) f s (.broadcast m)).1.delivered = s.delivered ++ (s.sessions.filter (reaches s)).map (fun b => (b, ⟨.notif, b, m⟩))) := by
  refine ⟨?_, rfl⟩
  simp [reaches, List.mem_filter, ha]

/-- a server with `n` sessions, every one of them with an open, healthy stream. -/
def allOpen (n : Nat) : St := { nextSid := n, sessions := List.range n, streams := List.range n }

/-- the history the harness drives for size `n`: `n` sessions, `n` streams. -/
def openAll (n : Nat) : List Op := (List.range n).map (fun _ => Op.newSession) ++ (List.range n).map Op.openStream

/-- **Every session with an open stream, for every number of sessions**: with `n ≥ 1` sessions that all have a healthy
    stream a broadcast answers `n` and writes exactly one frame to every one of the `n` sessions; a filtered send answers the
    number of selected sessions (none failed) and writes one frame to each of those and none to the others. -/
theorem C05_broadcast_all_open (f : Facts) (n m : Nat) (hn : 0 < n) :
    let r := step (.streamable false) f (allOpen n) (.broadcast m)
    r.2 = .count n none ∧
    r.1.delivered = (List.range n).map (fun a => (a, ⟨.notif, a, m⟩)) ∧
    ∀ a, a < n → (r.1.delivered.filter (fun x => x.1 = a)).length = 1 := by
  intro r
  have hfil : (allOpen n).sessions.filter (reaches (allOpen n)) = List.range n := by
    apply List.filter_eq_self.mpr
    intro a ha
    have : a ∈ List.range n := ha
    simp [reaches, hasStream, allOpen, List.mem_range.mp this]
  have hw : WF (allOpen n) := ⟨List.nodup_range, fun a ha => List.mem_range.mp ha⟩
  have hc := C05_broadcast_count f (allOpen n) m hw
  simp only [hfil] at hc
  obtain ⟨hret, hdel, hone, _⟩ := hc
  have hlen : (List.range n).length = n := List.length_range
  refine ⟨?_, ?_, ?_⟩
  · rcases hret with h | ⟨_, h0⟩
    · rw [hlen] at h; exact h
    · rw [hlen] at h0; omega
  · have : (allOpen n).delivered = [] := rfl
    rw [this] at hdel; simpa using hdel
  · intro a ha
    have : (allOpen n).delivered = [] := rfl
    rw [this] at hdel
    have hd : r.1.delivered = (List.range n).map (fun a => notifFrame a m) := by simpa [notifFrame] using hdel
    rw [hd]
    exact hone a (List.mem_range.mpr ha)

theorem C05_filtered_all_open (f : Facts) (n m : Nat) (sel : List Nat) :
    let chosen := (List.range n).filter (sel.contains ·)
    let r := step (.streamable false) f (allOpen n) (.filtered sel m)
    r.2 = .counts chosen.length 0 none ∧
    r.1.delivered = chosen.map (fun a => (a, ⟨.notif, a, m⟩)) := by
  intro chosen r
  have hfil : chosen.filter (reaches (allOpen n)) = chosen := by
    apply List.filter_eq_self.mpr
    intro a ha
    have : a ∈ List.range n := (List.mem_filter.mp ha).1
    simp [reaches, hasStream, allOpen, List.mem_range.mp this]
  have hret : r.2 = (if chosen.length - (chosen.filter (reaches (allOpen n))).length > 0 ∧ (chosen.filter (reaches (allOpen n))).length = 0
      then .counts 0 (chosen.length - (chosen.filter (reaches (allOpen n))).length) (some .allFailed)
      else .counts (chosen.filter (reaches (allOpen n))).length (chosen.length - (chosen.filter (reaches (allOpen n))).length) none) := rfl
  have hdel : r.1.delivered = (allOpen n).delivered ++ (chosen.filter (reaches (allOpen n))).map (fun a => notifFrame a m) := rfl
  rw [hfil] at hret hdel
  refine ⟨?_, ?_⟩
  · rw [hret]; simp
  · rw [hdel]; simp [allOpen, notifFrame]

/-- the state after the harness's opening history is `allOpen n` (sizes the harness drives, among them the ones that do
    not divide evenly into 2, 3, 4, 5 or 8 parts). -/
theorem C05_open_all_sizes :
    ∀ n ∈ [1, 2, 3, 5, 7, 8, 9, 10, 11, 13, 14, 15, 17, 23, 31, 37, 40],
      let s := (run (.streamable false) factsToday (init (.streamable false) 0) (openAll n)).1
      s.sessions = (allOpen n).sessions ∧ s.streams = (allOpen n).streams ∧ s.broken = [] ∧ s.delivered = [] ∧ s.nextSid = n := by decide

/-- instances: 10, 11, 13, 17 and 40 sessions, all with open streams — the broadcast answers the number of sessions and
    each of them gets the frame exactly once; the filtered send to every second one answers ⌈n/2⌉. -/
theorem C05_broadcast_sizes_examples :
    ∀ n ∈ [10, 11, 13, 17, 40],
      let r := run (.streamable false) factsToday (init (.streamable false) 0)
        (openAll n ++ [.broadcast 1, .filtered ((List.range n).filter (· % 2 = 0) ++ [n + 3]) 2])
      r.2.drop (2 * n) = [.count n none, .counts ((n + 1) / 2) 0 none] ∧
      (List.range n).all (fun a => outboxTags r.1 a .notif = if a % 2 = 0 then [1, 2] else [1]) = true := by decide

/-- a send to a session whose stream fails its writes reports the failure and writes nothing. -/
theorem C05_send_to_broken_stream (f : Facts) (s : St) (a m : Nat) (h1 : hasStream s a = true) (h2 : s.broken.contains a = true) :
    step (.streamable false) f s (.send a m) = (s, .err .writeFailed) := by
  have h2' : a ∈ s.broken := List.contains_iff_mem.mp h2
  simp [step, canNotify, h1, h2']

/-! ## who may answer -/

structure AInv (s : St) : Prop where
  slot : ∀ e ∈ s.pending, ∀ p pl, e.slot = some (p, pl) → p = e.to
  res : ∀ r ∈ s.results, ∀ p pl, r.answer = some (p, pl) → p = r.to

private theorem fillP_mem (key : Key) (p pl : Nat) (l : List PEntry) (e' : PEntry) (h : e' ∈ fillP true key p pl l) :
    ∃ e ∈ l, e'.to = e.to ∧ e'.tag = e.tag ∧ (e'.slot = e.slot ∨ (e.to = p ∧ e'.slot = some (p, pl))) := by
  induction l with
  | nil => simp [fillP] at h
  | cons e es ih =>
    simp only [fillP] at h
    split at h
    · simp only [List.mem_cons] at h
      rcases h with h | h
      · refine ⟨e, by simp, ?_⟩
        split at h
        · rename_i hc
          subst h
          simp only [Bool.not_true, Bool.false_or, Bool.and_eq_true, decide_eq_true_eq] at hc
          exact ⟨rfl, rfl, Or.inr ⟨hc.2, rfl⟩⟩
        · subst h; exact ⟨rfl, rfl, Or.inl rfl⟩
      · exact ⟨e', by simp [h], rfl, rfl, Or.inl rfl⟩
    · simp only [List.mem_cons] at h
      rcases h with h | h
      · subst h; exact ⟨e', by simp, rfl, rfl, Or.inl rfl⟩
      · obtain ⟨e0, hm, hr⟩ := ih h
        exact ⟨e0, by simp [hm], hr⟩

private theorem findTag_some (m : Nat) (l : List PEntry) (e : PEntry) (h : findTag m l = some e) : e ∈ l ∧ e.tag = m := by
  induction l with
  | nil => simp [findTag] at h
  | cons x xs ih =>
    simp only [findTag] at h
    split at h
    · rename_i hx
      have := Option.some.inj h; subst this; exact ⟨by simp, hx⟩
    · have := ih h; exact ⟨by simp [this.1], this.2⟩

private theorem ainv_step (srv : Server) (f : Facts) (hf : f.answerChecksSession = true) (s : St) (op : Op) (hi : AInv s) :
    AInv (step srv f s op).1 := by
  have keep : ∀ s' : St, s'.pending = s.pending → s'.results = s.results → AInv s' := by
    intro s' h1 h2; exact ⟨by rw [h1]; exact hi.slot, by rw [h2]; exact hi.res⟩
  have sub : ∀ (s' : St) (m : Nat), (s'.pending = removeTag m s.pending ∨ s'.pending = s.pending) →
      (∀ r ∈ s'.results, r ∈ s.results ∨ ∃ e ∈ s.pending, r.to = e.to ∧ (r.answer = none ∨ r.answer = e.slot)) → AInv s' := by
    intro s' m h1 h2
    refine ⟨?_, ?_⟩
    · intro e he
      rcases h1 with h1 | h1
      · rw [h1] at he; exact hi.slot e (List.mem_filter.mp he).1
      · rw [h1] at he; exact hi.slot e he
    · intro r hr p pl ha
      rcases h2 r hr with h | ⟨e, he, hto, hans⟩
      · exact hi.res r h p pl ha
      · rcases hans with hans | hans
        · rw [hans] at ha; cases ha
        · rw [hto]; exact hi.slot e he p pl (by rw [← hans]; exact ha)
  cases op with
  | newSession => cases srv with
    | streamable b => cases b <;> exact keep _ rfl rfl
    | legacySse => exact keep _ rfl rfl
    | stdio => exact keep _ rfl rfl
  | delSession a => simp only [step]; split <;> exact keep _ rfl rfl
  | openStream a =>
    simp only [step]
    split
    · split <;> exact keep _ rfl rfl
    · exact keep _ rfl rfl
  | breakStream a =>
    simp only [step]
    split
    · split <;> exact keep _ rfl rfl
    · exact keep _ rfl rfl
  | closeStream a => simp only [step]; split <;> exact keep _ rfl rfl
  | send a m =>
    simp only [step]
    split
    · exact keep _ rfl rfl
    · split <;> exact keep _ rfl rfl
  | broadcast m => simp only [step]; split <;> exact keep _ rfl rfl
  | filtered sl m => simp only [step]; split <;> exact keep _ rfl rfl
  | request a m =>
    simp only [step]
    split
    · exact keep _ rfl rfl
    · split
      · exact keep _ rfl rfl
      · split
        · exact keep _ rfl rfl
        · split
          · exact keep _ rfl rfl
          · split
            · exact keep _ rfl rfl
            · refine ⟨?_, hi.res⟩
              intro e he p pl hs
              simp only [List.mem_append, List.mem_singleton] at he
              rcases he with he | he
              · exact hi.slot e he p pl hs
              · subst he; simp at hs
  | postAnswer p idw payload =>
    simp only [step]
    split
    · exact keep _ rfl rfl
    · split
      · exact keep _ rfl rfl
      · split
        · exact keep _ rfl rfl
        · refine ⟨?_, hi.res⟩
          intro e he q ql hs
          simp only [hf] at he
          obtain ⟨e0, hm, hto, _, hsl⟩ := fillP_mem _ p payload s.pending e he
          rcases hsl with hsl | ⟨h1, hsl⟩
          · rw [hto]; exact hi.slot e0 hm q ql (by rw [← hsl]; exact hs)
          · rw [hsl] at hs
            simp only [Option.some.injEq, Prod.mk.injEq] at hs
            rw [hto, h1]; exact hs.1.symm
  | complete m =>
    simp only [step]
    split
    · rename_i e hfnd
      obtain ⟨hem, _⟩ := findTag_some m s.pending e hfnd
      split
      · rename_i p pl hsl
        refine sub _ m (Or.inl rfl) ?_
        intro r hr
        simp only [List.mem_append, List.mem_singleton] at hr
        rcases hr with hr | hr
        · exact Or.inl hr
        · subst hr; exact Or.inr ⟨e, hem, rfl, Or.inr hsl.symm⟩
      · exact keep _ rfl rfl
    · exact keep _ rfl rfl
  | timeout m =>
    simp only [step]
    split
    · rename_i e hfnd
      obtain ⟨hem, _⟩ := findTag_some m s.pending e hfnd
      refine sub _ m (by by_cases hd : f.deferredDelete = true <;> simp [hd]) ?_
      intro r hr
      simp only [List.mem_append, List.mem_singleton] at hr
      rcases hr with hr | hr
      · exact Or.inl hr
      · subst hr; exact Or.inr ⟨e, hem, rfl, Or.inl rfl⟩
    · exact keep _ rfl rfl
  | cancel m =>
    simp only [step]
    split
    · rename_i e hfnd
      obtain ⟨hem, _⟩ := findTag_some m s.pending e hfnd
      refine sub _ m (by by_cases hd : f.deferredDelete = true <;> simp [hd]) ?_
      intro r hr
      simp only [List.mem_append, List.mem_singleton] at hr
      rcases hr with hr | hr
      · exact Or.inl hr
      · subst hr; exact Or.inr ⟨e, hem, rfl, Or.inl rfl⟩
    · exact keep _ rfl rfl

/-- **The accepted answer comes from the addressee — for a table whose lookup takes the posting session into account**
    (fact `answerChecksSession`): for every history, every completed server-issued request that got an answer got it from
    the session it was sent to. (The current source is NOT in this region, see the counterexamples below.) -/
theorem C05_answer_from_addressee (srv : Server) (f : Facts) (hf : f.answerChecksSession = true) (start : Nat) (ops : List Op) :
    ∀ r ∈ (run srv f (init srv start) ops).1.results, ∀ p pl, r.answer = some (p, pl) → p = r.to := by
  suffices h : ∀ s, AInv s → AInv (run srv f s ops).1 by
    exact (h _ ⟨by cases srv <;> simp [init], by cases srv <;> simp [init]⟩).res
  induction ops with
  | nil => intro s h; simpa [run] using h
  | cons o os ih => intro s h; rw [run_cons]; exact ih _ (ainv_step srv f hf s o h)

/-- **Counterexample for a lookup by the id alone (D13, the tree before the repair), Streamable**: two sessions with open streams; the server asks session 0 for
    its roots (request tagged 7, id 1); session 1 posts an answer bearing id 1; `ListRoots` inside session 0 returns
    session 1's payload. -/
theorem C05_answer_from_addressee_counterexample :
    (run (.streamable false) ⟨true, false, true, true⟩ (init (.streamable false) 0)
      [.newSession, .newSession, .openStream 0, .openStream 1, .request 0 7, .postAnswer 1 (.num 1) 99, .complete 7]).2
      = [.sid 0, .sid 1, .ok, .ok, .issued 1, .posted 202, .answered 1 99] := by decide

/-- the same on the legacy SSE server (`handleResponseMessage` ignores its session argument). -/
theorem C05_answer_from_addressee_counterexample_sse :
    (run .legacySse ⟨true, false, true, true⟩ (init .legacySse 0)
      [.newSession, .newSession, .request 0 7, .postAnswer 1 (.num 1) 99, .complete 7]).2
      = [.sid 0, .sid 1, .issued 1, .posted 202, .answered 1 99] := by decide

/-- with a session-checking lookup the foreign answer is ignored and the addressee's own answer is accepted. -/
theorem C05_answer_checked_example :
    (run (.streamable false) ⟨true, true, true, true⟩ (init (.streamable false) 0)
      [.newSession, .newSession, .openStream 0, .openStream 1, .request 0 7, .postAnswer 1 (.num 1) 99, .postAnswer 0 (.num 1) 55, .complete 7]).2
      = [.sid 0, .sid 1, .ok, .ok, .issued 1, .posted 202, .posted 202, .answered 0 55] := by decide

/-- **D01 on the server side (a `%v`-keyed table, the tree before the repair)**: a server whose request counter stands at
    999 999 asks session 0; the addressee itself posts the answer with the echoed id 1000000 — it is not matched
    (`"1e+06"` vs `"1000000"`), the request can only time out. With `requestIDKey` the same history is answered. -/
theorem C05_answer_lost_witness :
    (run (.streamable false) ⟨false, true, true, true⟩ (init (.streamable false) 999999)
      [.newSession, .openStream 0, .request 0 7, .postAnswer 0 (.num 1000000) 55, .complete 7, .timeout 7]).2
      = [.sid 0, .ok, .issued 1000000, .posted 202, .err .disabled, .failed] ∧
    (run (.streamable false) ⟨true, true, true, true⟩ (init (.streamable false) 999999)
      [.newSession, .openStream 0, .request 0 7, .postAnswer 0 (.num 1000000) 55, .complete 7]).2
      = [.sid 0, .ok, .issued 1000000, .posted 202, .answered 0 55] := by decide

/-- **Key round trip of the three server tables** for today's key kinds (Streamable: `requestIDKey`; legacy SSE and stdio:
    `uint64`): for every request number 1 ≤ n ≤ 2^53 the key computed from the id of the client's answer is the key the
    request was registered under. -/
theorem C05_key_roundtrip (f : Facts) (hf : f.streamableIdKey = true) (srv : Server) (n : Nat) (_h1 : 1 ≤ n) (h : n ≤ 2 ^ 53) :
    keyOfWire (keyKind f srv) (Mcp.Pending.wireOf n) = keyOfReq (keyKind f srv) (.int (Int.ofNat n)) := by
  have hf64 : f64OfNat n = n := by
    by_cases hn : n < 2 ^ 53
    · exact f64OfNat_small hn
    · have : n = 9007199254740992 := by omega
      subst this; decide
  have hw : Mcp.Pending.wireOf n = .num (Int.ofNat n) := by
    simp [Mcp.Pending.wireOf, Mcp.Pending.echoId, Mcp.Pending.encodeId, Mcp.Pending.decodeId, Mcp.Pending.reencodeId, f64OfInt, hf64]
  have hnn : (0 : Int) ≤ Int.ofNat n := Int.natCast_nonneg n
  have hlt : Int.ofNat n < 2 ^ 64 := by
    show (n : Int) < 2 ^ 64
    omega
  rw [hw]
  cases srv
  · simp [keyKind, hf, keyOfWire, Mcp.Pending.decodeId, Mcp.Pending.keyOfDec, keyOfReq, f64OfInt, hf64]
  all_goals
    simp only [keyKind, keyOfWire, Mcp.Pending.decodeId, Mcp.Pending.keyOfDec, keyOfReq, f64OfInt, hf64, u64OfF64, u64OfI64]
    have h2 : (↑n : Int) < 2 ^ 64 := hlt
    have h3 : (0 : Int) ≤ (↑n : Int) := hnn
    simp [h3]
    intro hx
    omega

/-! ## legacy SSE notifications (D14) -/

/-- **If nothing ever marks a legacy SSE session initialized (D14, the tree before the repair)**: every `SendNotification`
    fails with "session not initialized" and nothing is written, although the session exists and its stream is open. -/
theorem C05_sse_notification_counterexample (f : Facts) (hf : f.sseInitialized = false) (s : St) (a m : Nat) :
    (step .legacySse f s (.send a m)).2 ≠ .ok ∧ (step .legacySse f s (.send a m)).1 = s := by
  by_cases h : a ∈ s.sessions <;> simp [step, canNotify, hf, h]

/-- **Legacy SSE notifications**: once the handshake marks the session initialized, a send to an existing session succeeds
    and is written on its stream. -/
theorem C05_sse_notification (f : Facts) (hf : f.sseInitialized = true) (s : St) (a m : Nat) (ha : s.sessions.contains a = true) :
    (step .legacySse f s (.send a m)).2 = .ok ∧
    (step .legacySse f s (.send a m)).1.delivered = s.delivered ++ [(a, ⟨.notif, a, m⟩)] := by
  have ha' : a ∈ s.sessions := List.contains_iff_mem.mp ha
  simp [step, canNotify, hf, ha', notifFrame]

/-! ## nothing left pending -/

private theorem fillP_tags (c : Bool) (key : Key) (p pl : Nat) (l : List PEntry) :
    (fillP c key p pl l).map PEntry.tag = l.map PEntry.tag := by
  induction l with
  | nil => rfl
  | cons e es ih =>
    simp only [fillP]
    split
    · split <;> simp
    · simp [ih]

private theorem removeTag_tags (m : Nat) (l : List PEntry) : (removeTag m l).map PEntry.tag = (l.map PEntry.tag).filter (· ≠ m) := by
  induction l with
  | nil => rfl
  | cons e es ih =>
    by_cases h : e.tag = m
    · simp [removeTag, h] at ih ⊢; exact ih
    · simp [removeTag, h] at ih ⊢; exact ih

private theorem waiting_step (srv : Server) (f : Facts) (hf : f.deferredDelete = true) (s : St) (op : Op)
    (h : s.pending.map PEntry.tag = s.waiting) :
    (step srv f s op).1.pending.map PEntry.tag = (step srv f s op).1.waiting := by
  cases op with
  | newSession => cases srv with
    | streamable b => cases b <;> exact h
    | legacySse => exact h
    | stdio => exact h
  | delSession a => simp only [step]; split <;> exact h
  | openStream a =>
    simp only [step]
    split
    · split <;> exact h
    · exact h
  | breakStream a =>
    simp only [step]
    split
    · split <;> exact h
    · exact h
  | closeStream a => simp only [step]; split <;> exact h
  | send a m =>
    simp only [step]
    split
    · exact h
    · split <;> exact h
  | broadcast m => simp only [step]; split <;> exact h
  | filtered sl m => simp only [step]; split <;> exact h
  | request a m =>
    simp only [step]
    split
    · exact h
    · split
      · exact h
      · split
        · exact h
        · split
          · exact h
          · split
            · exact h
            · simp [h]
  | postAnswer p idw payload =>
    simp only [step]
    split
    · exact h
    · split
      · exact h
      · split
        · exact h
        · simpa [fillP_tags] using h
  | complete m =>
    simp only [step]
    split
    · split
      · simp [removeTag_tags, h]
      · exact h
    · exact h
  | timeout m =>
    simp only [step]
    split
    · simp [hf, removeTag_tags, h]
    · exact h
  | cancel m =>
    simp only [step]
    split
    · simp [hf, removeTag_tags, h]
    · exact h

/-- **Nothing left**: with the deferred delete in place (fact), in every reachable state the pending table holds exactly
    the requests whose `SendRequest` call has not returned; so once every request has been answered, timed out or been
    cancelled (`waiting = []`) the table is empty. -/
theorem C05_nothing_left (srv : Server) (f : Facts) (hf : f.deferredDelete = true) (start : Nat) (ops : List Op) :
    let s := (run srv f (init srv start) ops).1
    s.pending.map PEntry.tag = s.waiting ∧ (s.waiting = [] → s.pending = []) := by
  intro s
  have key : ∀ s0 : St, s0.pending.map PEntry.tag = s0.waiting →
      (run srv f s0 ops).1.pending.map PEntry.tag = (run srv f s0 ops).1.waiting := by
    induction ops with
    | nil => intro s0 h; simpa [run] using h
    | cons o os ih => intro s0 h; rw [run_cons]; exact ih _ (waiting_step srv f hf s0 o h)
  have h := key (init srv start) (by cases srv <;> simp [init])
  refine ⟨h, ?_⟩
  intro hw
  have : s.pending.map PEntry.tag = [] := by rw [← hw]; exact h
  simpa using this

/-- without the deferred delete a timed-out request would stay in the table for ever. -/
theorem C05_leak_witness :
    let s := (run .legacySse ⟨true, true, true, false⟩ (init .legacySse 0) [.newSession, .request 0 7, .timeout 7]).1
    s.waiting = [] ∧ s.pending.length = 1 := by decide

/-! ## regenerated facts (T-gen) -/

/-- The region of the model family the current source is in (`Mcp.Routing.factsToday`, computed from the regenerated
    facts): the Streamable table renders ids with `requestIDKey` on both sides; every lookup site of the two multi-session
    tables compares the posting session with the entry's; something marks a session initialized; every insert has its
    deferred delete. -/
theorem C05_fact_region : factsToday = ⟨true, true, true, true⟩ := by decide

/-- **The accepted answer comes from the addressee — today's source**: for every history on every server kind. -/
theorem C05_answer_from_addressee_today (srv : Server) (start : Nat) (ops : List Op) :
    ∀ r ∈ (run srv factsToday (init srv start) ops).1.results, ∀ p pl, r.answer = some (p, pl) → p = r.to :=
  C05_answer_from_addressee srv factsToday (by rw [C05_fact_region]) start ops

/-- **Legacy SSE notifications reach the session — today's source.** -/
theorem C05_sse_notification_today (s : St) (a m : Nat) (ha : s.sessions.contains a = true) :
    (step .legacySse factsToday s (.send a m)).2 = .ok ∧
    (step .legacySse factsToday s (.send a m)).1.delivered = s.delivered ++ [(a, ⟨.notif, a, m⟩)] :=
  C05_sse_notification factsToday (by rw [C05_fact_region]) s a m ha

/-- **Nothing left — today's source.** -/
theorem C05_nothing_left_today (srv : Server) (start : Nat) (ops : List Op) :
    let s := (run srv factsToday (init srv start) ops).1
    s.pending.map PEntry.tag = s.waiting ∧ (s.waiting = [] → s.pending = []) :=
  C05_nothing_left srv factsToday (by rw [C05_fact_region]) start ops

/-- the three server tables are keyed as the model keys them (`keyKind`): Streamable by `requestIDKey`, legacy SSE and
    stdio by `uint64` through `parseRequestID`; the entry is inserted before the request frame is queued or written; the
    functions that read each table are exactly the modelled lookup functions (a new function reading a table changes
    `readSites`; whether every reader compares the posting session is part of `lookupUsesSession`, `C05_fact_region`). -/
theorem C05_fact_keys :
    (Mcp.Gen.pdTables.filter (fun t => t.name = t!"streamable_server.pendingRequests" ∨ t.name = t!"sse_server.responses" ∨ t.name = t!"stdio_server.responses")).map
      (fun t => (t.name, t.insertKind, t.lookupKinds, t.insertBeforeSend, t.readSites)) =
      [ (t!"sse_server.responses", t!"uint64OfInt64", [t!"parseRequestID", t!"parseRequestID"], true,
          [t!"SSEServer.handleResponseMessage", t!"SSEServer.handleRootsListResponse"]),
        (t!"stdio_server.responses", t!"uint64OfInt64", [t!"parseRequestID"], true, [t!"stdioServerInternal.HandleResponse"]),
        (t!"streamable_server.pendingRequests", t!"idKey", [t!"idKey"], true, [t!"responseManager.DeliverResponse"]) ] := by decide

/-- **The sessions a broadcast / filtered send goes through are all stored sessions**: `SessionManager.GetActiveSessions`
    has no condition and skips nothing (a session is stored until it is terminated or swept; as long as `GetSession` serves
    it, it is in the list — `sessions` of the model). -/
theorem C05_fact_active_sessions_unfiltered : Mcp.Gen.pdActiveSessionsConds = [] := by decide

/-- **No deadline is left on a listening stream's connection**: the only deadlines / connection timeouts library code sets
    (root package, internal/sseutil, internal/httputil) are the two `SetWriteDeadline(time.Now())` calls on the exit path of
    the GET handlers (`handleSSE`, `handleGet`: they end the handler, nothing is written afterwards). No write of a
    notification or request sets a deadline that a later write could run into. -/
theorem C05_fact_no_stream_deadlines :
    Mcp.Gen.pdDeadlineSites =
      [ ⟨t!"sse_server.go", t!"handleSSE", t!"SetWriteDeadline", t!"time.Now()"⟩,
        ⟨t!"streamable_server.go", t!"handleGet", t!"SetWriteDeadline", t!"time.Now()"⟩ ] := by decide

/-! ## non-vacuity -/

-- three sessions, two with streams: a broadcast reaches two, a send to the third fails, a filtered send reaches one
example :
    let r := run (.streamable false) ⟨true, true, true, true⟩ (init (.streamable false) 0)
      [.newSession, .newSession, .newSession, .openStream 0, .openStream 2, .broadcast 10, .send 1 11, .filtered [1, 2] 12, .send 2 13]
    r.2 = [.sid 0, .sid 1, .sid 2, .ok, .ok, .count 2 none, .err .noStream, .counts 1 1 none, .ok] ∧
    outboxTags r.1 0 .notif = [10] ∧ outboxTags r.1 1 .notif = [] ∧ outboxTags r.1 2 .notif = [10, 12, 13] := by decide

-- six sessions, two of them with a stream that fails its writes, one without a stream: a broadcast reaches the three healthy ones
example :
    let r := run (.streamable false) ⟨true, true, true, true⟩ (init (.streamable false) 0)
      [.newSession, .newSession, .newSession, .newSession, .newSession, .newSession, .openStream 0, .breakStream 1, .openStream 2,
       .breakStream 3, .openStream 4, .broadcast 10, .filtered [1, 2, 5] 11, .send 1 12, .openStream 1, .send 1 13]
    r.2 = [.sid 0, .sid 1, .sid 2, .sid 3, .sid 4, .sid 5, .ok, .ok, .ok, .ok, .ok, .count 3 none, .counts 1 2 none, .err .writeFailed, .ok, .ok] ∧
    outboxTags r.1 0 .notif = [10] ∧ outboxTags r.1 1 .notif = [13] ∧ outboxTags r.1 2 .notif = [10, 11] ∧ outboxTags r.1 3 .notif = [] := by decide

-- stdio: a request answered by the one session; nothing pending afterwards
example :
    let r := run .stdio ⟨true, true, true, true⟩ (init .stdio 0) [.request 0 5, .send 0 6, .postAnswer 0 (.num 1) 42, .complete 5]
    r.2 = [.issued 1, .ok, .posted 202, .answered 0 42] ∧ r.1.pending = [] ∧ outboxTags r.1 0 .req = [5] := by decide

end Mcp.Props.C05
