/-
  C10 — in-call notifications arrive complete, in order and before the result.
  Model: `Mcp.Model.InCall`; facts: `Mcp.Gen.InCallFacts` (regenerated from /repo on every run).
-/
import Mcp.Model.InCall
import Mcp.Gen.InCallFacts
import Mcp.Props.C02Wire
namespace Mcp.Props.C10
open Mcp.Str Mcp.Json Mcp.InCall

/-- the facts of the source as it is now -/
def facts : Facts := ⟨Mcp.Gen.icPostStreamWriters, Mcp.Gen.icDispatchSync, Mcp.Gen.icDrainWithHandlers⟩

/-! ## NotificationParams: what survives marshal → unmarshal -/

private theorem erase_cons (k' : Text) (v : Json) (rest : Obj) (k : Text) :
    erase ((k', v) :: rest) k = if k' = k then erase rest k else (k', v) :: erase rest k := by
  by_cases h : k' = k <;> simp [erase, h]

private theorem lookup_erase_self (m : Obj) (k : Text) : lookup (erase m k) k = none := by
  induction m with
  | nil => rfl
  | cons kv rest ih =>
    obtain ⟨k', v⟩ := kv
    rw [erase_cons]
    by_cases h : k' = k
    · simp [h, ih]
    · simp [h, lookup, ih]

private theorem erase_of_lookup_none (m : Obj) (k : Text) (h : lookup m k = none) : erase m k = m := by
  induction m with
  | nil => rfl
  | cons kv rest ih =>
    obtain ⟨k', v⟩ := kv
    rw [erase_cons]
    by_cases hk : k' = k
    · simp [lookup, hk] at h
    · simp [lookup, hk] at h
      simp [hk, ih h]

private theorem erase_erase (m : Obj) (k : Text) : erase (erase m k) k = erase m k :=
  erase_of_lookup_none _ _ (lookup_erase_self m k)

private theorem lookup_of_erase_eq (m : Obj) (k : Text) (h : erase m k = m) : lookup m k = none := by
  rw [← h]; exact lookup_erase_self m k

/-- what the client decodes from params the server marshalled, in closed form -/
theorem C10_unmarshal_marshal (p : NParams) : unmarshal (marshal p) = some (onWire p) := rfl

/-- `onWire` in closed form: `Meta` always survives; of the additional fields everything but a `_meta` entry -/
theorem C10_onWire_closed (p : NParams) :
    onWire p = ⟨if p.metaMap.isEmpty then metaOf p.extra else p.metaMap, erase p.extra metaKey⟩ := by
  unfold onWire marshalFields
  by_cases h : p.metaMap.isEmpty
  · simp [h]
  · simp [h, metaOf, erase_cons, erase_erase]

/-- **params round trip**: `Meta` (any object, empty included) and additional fields without a `_meta` key come back
    exactly -/
theorem C10_params_roundtrip (p : NParams) (h : lookup p.extra metaKey = none) :
    unmarshal (marshal p) = some p := by
  rw [C10_unmarshal_marshal, C10_onWire_closed, erase_of_lookup_none _ _ h]
  cases p with
  | mk m e =>
    by_cases hm : m.isEmpty
    · simp only [hm, if_true]
      have : m = [] := by cases m <;> simp_all
      subst this
      simp [metaOf, h]
    · simp [hm]

/-- … and that is exactly the set of values that survive -/
theorem C10_params_roundtrip_iff (p : NParams) :
    unmarshal (marshal p) = some p ↔ lookup p.extra metaKey = none := by
  constructor
  · intro h
    rw [C10_unmarshal_marshal, C10_onWire_closed] at h
    have h2 : erase p.extra metaKey = p.extra := by
      have := congrArg (fun o => match o with | some q => NParams.extra q | none => []) h
      simpa using this
    exact lookup_of_erase_eq _ _ h2
  · exact C10_params_roundtrip p


/-! ## the flat params a handler passes to the sender, end to end -/

private theorem metaOf_erase (m : Obj) : metaOf (erase m metaKey) = [] := by
  simp [metaOf, lookup_erase_self]

/-- **`SendCustomNotification(method, fs)` end to end**: the client's handler gets every field of `fs` but `_meta` as
    additional fields, and `_meta` as `Meta` iff it is an object -/
theorem C10_custom_delivery (fs : Obj) : onWire (splitCustom fs) = ⟨metaOf fs, erase fs metaKey⟩ := by
  rw [C10_onWire_closed]
  unfold splitCustom
  cases h : lookup fs metaKey with
  | none => simp [metaOf, h]
  | some v =>
    cases v with
    | obj mm =>
      by_cases hm : mm.isEmpty
      · have : mm = [] := by cases mm <;> simp_all
        subst this
        simp [metaOf, h, erase_erase, lookup_erase_self]
      · simp [metaOf, h, hm, erase_erase]
    | _ => simp [metaOf, h]

/-- `SendNotification(NewNotification(method, fs))` end to end: the same view -/
theorem C10_new_delivery (fs : Obj) : onWire (splitNew fs) = ⟨metaOf fs, erase fs metaKey⟩ := by
  rw [C10_onWire_closed]
  unfold splitNew
  cases h : lookup fs metaKey with
  | none => simp [metaOf, h, erase_of_lookup_none _ _ h]
  | some v =>
    cases v with
    | obj mm =>
      by_cases hm : mm.isEmpty
      · have : mm = [] := by cases mm <;> simp_all
        subst this
        simp [metaOf, h, erase_erase, lookup_erase_self]
      · simp [metaOf, h, hm, erase_erase]
    | _ => simp [metaOf, h, erase_erase, lookup_erase_self]

/-- an object-valued `_meta` arrives intact as `Meta`, next to all the other fields -/
theorem C10_meta_intact (fs mm : Obj) (h : lookup fs metaKey = some (.obj mm)) :
    onWire (splitCustom fs) = ⟨mm, erase fs metaKey⟩ ∧ onWire (splitNew fs) = ⟨mm, erase fs metaKey⟩ := by
  rw [C10_custom_delivery, C10_new_delivery]; simp [metaOf, h]

/-- without `_meta` the fields arrive as they are -/
theorem C10_meta_absent (fs : Obj) (h : lookup fs metaKey = none) :
    onWire (splitCustom fs) = ⟨[], fs⟩ ∧ onWire (splitNew fs) = ⟨[], fs⟩ := by
  rw [C10_custom_delivery, C10_new_delivery]; simp [metaOf, h, erase_of_lookup_none _ _ h]

/-- **counterexample for the rest**: a `_meta` that is not an object (a number, a string, an array, `null`, …) reaches the
    wire (custom) or not even that (NewNotification) and is dropped by the client: the handler sees no trace of it -/
theorem C10_meta_nonobject_lost (fs : Obj) (v : Json) (h : lookup fs metaKey = some v) (hv : asObj? v = none) :
    onWire (splitCustom fs) = ⟨[], erase fs metaKey⟩ ∧ onWire (splitNew fs) = ⟨[], erase fs metaKey⟩ := by
  rw [C10_custom_delivery, C10_new_delivery]
  cases v <;> simp_all [metaOf, asObj?]

example : marshalFields (splitCustom [(metaKey, .int 5), (t!"a", .int 1)]) = [(metaKey, .int 5), (t!"a", .int 1)] := rfl
example : onWire (splitCustom [(metaKey, .int 5), (t!"a", .int 1)]) = ⟨[], [(t!"a", .int 1)]⟩ := rfl
example : onWire (splitCustom [(t!"a", .int 1), (metaKey, .obj [(t!"progressToken", .str t!"t")])])
    = ⟨[(t!"progressToken", .str t!"t")], [(t!"a", .int 1)]⟩ := rfl
/-- additional fields that themselves hold `_meta` next to a non-empty `Meta`: the field is not even marshalled -/
example : unmarshal (marshal ⟨[(t!"k", .null)], [(metaKey, .str t!"x")]⟩) = some ⟨[(t!"k", .null)], []⟩ := rfl


/-! ## the stream: server frames through the client's read loop -/

/-- a notification as the client's handler receives it -/
def delivered (n : Notif) : Notif := ⟨n.method, onWire n.params⟩

/-- the notifications among the events -/
def handledOf : Ev → Option Notif
  | .handled n => some n
  | _ => none

private theorem classify_notif (reqId : Nat) (n : Notif) : classify reqId (notifJson n) = .notif (delivered n) := by
  simp [classify, asResponse, notifJson, decodeNotif, strField, lookup, jsonrpcField, marshal, unmarshal, delivered, onWire]

/-- regenerated fact, decided: the POST-SSE matcher compares `requestIDKey` renderings (D01 repaired) -/
theorem C10_fact_id_key : idKeyToday = true := by decide

private theorem classify_answer (reqId : Nat) (a : Answer) :
    classify reqId (answerJson reqId a) = .response (some (answerRaw reqId a)) := by
  cases a <;>
    simp [classify, asResponse, answerJson, lookup, jsonrpcField, fmtVMatches, idMatchesK, C10_fact_id_key, responseOf, hasKey, answerRaw]

private def feed (f : Facts) (hs : List Text) (st : RS) (ns : List Notif) : RS :=
  ns.foldl (fun s n => dispatch f hs s (delivered n)) st

private theorem finish_result (st : RS) (r : Option Json) (e : Ev) : finish { st with result := r } e = finish st e := rfl

private theorem dispatch_result (f : Facts) (hs : List Text) (st : RS) (n : Notif) (r : Option Json) :
    dispatch f hs { st with result := r } n = { dispatch f hs st n with result := r } := by
  unfold dispatch
  by_cases h1 : n.method ∈ hs <;> by_cases h2 : f.syncDispatch <;> simp [h1, h2]

private theorem dispatch_keeps_result (f : Facts) (hs : List Text) (st : RS) (n : Notif) :
    (dispatch f hs st n).result = st.result := by
  unfold dispatch
  by_cases h1 : n.method ∈ hs <;> by_cases h2 : f.syncDispatch <;> simp [h1, h2]

private theorem feed_result (f : Facts) (hs : List Text) (ns : List Notif) (st : RS) (r : Option Json) :
    feed f hs { st with result := r } ns = { feed f hs st ns with result := r } := by
  induction ns generalizing st with
  | nil => rfl
  | cons n rest ih =>
    simp only [feed, List.foldl_cons] at ih ⊢
    rw [dispatch_result, ih]

/-- the loop on notification frames only, a result already in hand -/
private theorem readLoop_tail (f : Facts) (hs : List Text) (reqId : Nat) (ns : List Notif) (st : RS) (r : Json)
    (hr : st.result = some r) :
    readLoop f hs reqId (ns.map notifJson) st = finish (feed f hs st ns) (.ret r) := by
  induction ns generalizing st with
  | nil => simp [readLoop, hr, feed]
  | cons n rest ih =>
    simp only [List.map_cons, readLoop, classify_notif]
    rw [ih]
    · rfl
    · rw [dispatch_keeps_result]; exact hr

/-- the loop on a server-made stream, whatever the facts -/
private theorem readLoop_frames (f : Facts) (hs : List Text) (reqId : Nat)
    (ns : List Notif) (a : Answer) (st : RS) :
    readLoop f hs reqId (ns.map notifJson ++ [answerJson reqId a]) st
      = finish (feed f hs st ns) (.ret (answerRaw reqId a)) := by
  induction ns generalizing st with
  | nil =>
    simp only [List.map_nil, List.nil_append, readLoop, classify_answer reqId, feed, List.foldl_nil]
    split <;> rfl
  | cons n rest ih =>
    simp only [List.map_cons, List.cons_append, readLoop, classify_notif]
    rw [ih]
    rfl

@[simp] private theorem delivered_method (n : Notif) : (delivered n).method = n.method := rfl

private theorem feed_sync (f : Facts) (hsync : f.syncDispatch = true) (hs : List Text) (ns : List Notif) (st : RS) :
    feed f hs st ns = { st with trace := st.trace ++
      ((ns.filter (fun n => hs.contains n.method)).map (fun n => Ev.handled (delivered n))) } := by
  induction ns generalizing st with
  | nil => simp [feed]
  | cons n rest ih =>
    simp only [feed, List.foldl_cons] at ih ⊢
    rw [ih]
    by_cases h : n.method ∈ hs <;> simp [dispatch, hsync, h]

private theorem feed_none (f : Facts) (hs : List Text) (ns : List Notif) (st : RS)
    (h : ∀ n ∈ ns, hs.contains n.method = false) : feed f hs st ns = st := by
  induction ns generalizing st with
  | nil => rfl
  | cons n rest ih =>
    simp only [feed, List.foldl_cons] at ih ⊢
    have hd : ¬ n.method ∈ hs := by simpa using h n (by simp)
    have : dispatch f hs st (delivered n) = st := by simp [dispatch, hd]
    rw [this]
    exact ih st (fun m hm => h m (by simp [hm]))

private theorem serverFrames_eq (reqId : Nat) (es : List Emit) (a : Answer) :
    serverFrames reqId es a = (es.map Emit.notif).map notifJson ++ [answerJson reqId a] := by
  simp [serverFrames, List.map_map, Function.comp_def]

/-- **in order, exactly once**: with synchronous dispatch the events of a call over an SSE response are: one handler
    invocation per emitted notification whose method has a handler — in emission order, each once, with the params as
    `onWire` gives them (`C10_custom_delivery`) — and then the return with the answer. For all numbers and kinds of
    notifications, all payloads, all handler registrations. -/
theorem C10_order_once (f : Facts) (hsync : f.syncDispatch = true) (hs : List Text) (reqId : Nat) (es : List Emit) (a : Answer) :
    call f true hs reqId es a
      = ((es.map Emit.notif).filter (fun n => hs.contains n.method)).map (fun n => Ev.handled (delivered n))
        ++ [.ret (answerRaw reqId a)] := by
  simp only [call, if_true, serverFrames_eq]
  rw [readLoop_frames f hs reqId, feed_sync f hsync]
  simp [finish, RS.init]

/-- each handler, seen on its own: the handler of method `m` saw exactly the emitted notifications of method `m`,
    in emission order -/
theorem C10_per_handler (f : Facts) (hsync : f.syncDispatch = true) (hs : List Text) (reqId : Nat) (es : List Emit) (a : Answer) (m : Text) (hm : hs.contains m = true) :
    ((call f true hs reqId es a).filterMap handledOf).filter (fun n => n.method == m)
      = ((es.map Emit.notif).filter (fun n => n.method == m)).map delivered := by
  rw [C10_order_once f hsync hs reqId]
  simp only [List.filterMap_append, List.filterMap_map, Function.comp_def, handledOf, List.filterMap_cons,
    List.filterMap_nil, List.append_nil]
  generalize es.map Emit.notif = ns
  have hm' : m ∈ hs := by simpa using hm
  induction ns with
  | nil => rfl
  | cons n rest ih =>
    by_cases h1 : n.method = m
    · have h2 : n.method ∈ hs := by rw [h1]; exact hm'
      simp [List.filter_cons, h1] at ih ⊢
      rw [← h1] at ih ⊢
      simpa [h2] using ih
    · by_cases h2 : n.method ∈ hs
      · simp [h1, h2]
        simpa using ih
      · simp [h1, h2]
        simpa using ih

/-- **before the result**: the trace is handler invocations only, then the return — nothing is handled afterwards -/
theorem C10_before_result (f : Facts) (hsync : f.syncDispatch = true) (hs : List Text) (reqId : Nat) (es : List Emit) (a : Answer) :
    ∃ pre r, call f true hs reqId es a = pre ++ [.ret r] ∧ ∀ e ∈ pre, ∃ n, e = .handled n := by
  refine ⟨_, _, C10_order_once f hsync hs reqId es a, ?_⟩
  intro e he
  simp only [List.mem_map] at he
  obtain ⟨n, _, rfl⟩ := he
  exact ⟨_, rfl⟩

/-- **the result still arrives, unchanged**: the call returns once, and what it returns is the handler's answer — in
    both response modes, for any number of notifications before it -/
theorem C10_result_intact (f : Facts) (hsync : f.syncDispatch = true) (sse : Bool) (hs : List Text) (reqId : Nat) (es : List Emit) (a : Answer) (r : Json) :
    Ev.ret r ∈ call f sse hs reqId es a ↔ r = answerRaw reqId a := by
  cases sse with
  | true =>
    rw [C10_order_once f hsync hs reqId]
    simp
  | false =>
    cases a <;> simp [call, readJsonBody, answerJson, hasKey, lookup, jsonrpcField, answerRaw]

/-- **dropped without harm**: in JSON response mode (no-op sender), and over SSE when no handler is registered for any
    emitted method, the call is just the return of the unchanged answer — whatever the facts -/
theorem C10_dropped_harmless (f : Facts) (hs : List Text) (reqId : Nat)
    (es : List Emit) (a : Answer) :
    call f false hs reqId es a = [.ret (answerRaw reqId a)] ∧
    ((∀ e ∈ es, hs.contains e.notif.method = false) → call f true hs reqId es a = [.ret (answerRaw reqId a)]) := by
  constructor
  · cases a <;> simp [call, readJsonBody, answerJson, hasKey, lookup, jsonrpcField, answerRaw]
  · intro h
    simp only [call, if_true, serverFrames_eq]
    rw [readLoop_frames f hs reqId, feed_none]
    · simp [finish, RS.init]
    · intro n hn
      simp only [List.mem_map] at hn
      obtain ⟨e, he, rfl⟩ := hn
      exact h e he

/-- frames after the answer (not produced by this server, but legal on a stream): with handlers registered the loop
    reads on and still delivers them before it returns -/
theorem C10_late_notifications_delivered (f : Facts) (hsync : f.syncDispatch = true) (hdrain : f.drainWithHandlers = true)
    (hs : List Text) (hne : hs ≠ []) (reqId : Nat) (pre post : List Notif) (a : Answer) :
    readLoop f hs reqId (pre.map notifJson ++ answerJson reqId a :: post.map notifJson) RS.init
      = (((pre ++ post).filter (fun n => hs.contains n.method)).map (fun n => Ev.handled (delivered n)))
        ++ [.ret (answerRaw reqId a)] := by
  have hemp : hs.isEmpty = false := by cases hs <;> simp_all
  have key : ∀ st : RS, readLoop f hs reqId (pre.map notifJson ++ answerJson reqId a :: post.map notifJson) st
      = finish (feed f hs (feed f hs st pre) post) (.ret (answerRaw reqId a)) := by
    induction pre with
    | nil =>
      intro st
      simp only [List.map_nil, List.nil_append, readLoop, classify_answer reqId, hemp, hdrain, Bool.not_true,
        Bool.or_self, Bool.false_eq_true, if_false]
      rw [readLoop_tail f hs reqId post _ _ rfl, feed_result, finish_result]
      rfl
    | cons n rest ih =>
      intro st
      simp only [List.map_cons, List.cons_append, readLoop, classify_notif]
      rw [ih]
      rfl
  rw [key, feed_sync f hsync, feed_sync f hsync]
  simp [finish, RS.init, List.filter_append]


/-! ## what breaks outside the good region of the client facts -/

/-- handlers started with `go`: there is a run in which the call returns before the notification is handled -/
theorem C10_async_dispatch_counterexample :
    call ⟨1, false, true⟩ true [t!"m"] 1 [.custom t!"m" []] (.ok .null)
      = [.ret .null, .handled ⟨t!"m", ⟨[], []⟩⟩] := rfl

/-- a loop that returns at the answer frame although handlers are registered loses what follows on the stream -/
theorem C10_no_drain_counterexample :
    readLoop ⟨1, true, false⟩ [t!"m"] 1 [answerJson 1 (.ok .null), notifJson ⟨t!"m", ⟨[], []⟩⟩] RS.init = [.ret .null] := rfl

/-! ## event ids -/

private theorem notifIds_ctrs (clock : Nat → Nat) : ∀ n k c,
    (notifIds clock n k c).1.map EvId.ctr = List.range' (c + 1) n ∧ (notifIds clock n k c).2 = c + n
  | 0, _, _ => by simp [notifIds]
  | n + 1, k, c => by
    have ih := notifIds_ctrs clock n (k + 1) (c + 1)
    simp only [notifIds, gen, List.map_cons, ih, List.range'_succ]
    exact ⟨by simp, by omega⟩

private theorem nodup_of_ctrs (l : List EvId) (h : (l.map EvId.ctr).Nodup) : l.Nodup := by
  have := List.pairwise_map.mp h
  exact this.imp (fun hne e => hne (by rw [e]))

theorem C10_stream_has_all_ids (w : Nat) (clock : Nat → Nat) (n : Nat) : (streamIds w clock n).length = n + 1 := by
  have := congrArg List.length (notifIds_ctrs clock n 0 0).1
  simp at this
  simp [streamIds, this]

/-- **ids are pairwise distinct on a one-writer stream**: for ANY clock — standing still, jumping back — and any
    number of notifications, because the counter of the one writer object only grows -/
theorem C10_ids_distinct (clock : Nat → Nat) (n : Nat) : (streamIds 1 clock n).Nodup := by
  apply nodup_of_ctrs
  have h := notifIds_ctrs clock n 0 0
  simp only [streamIds, if_true, gen, List.map_append, List.map_cons, List.map_nil, h.1, h.2]
  have : List.range' (0 + 1) n ++ [0 + n + 1] = List.range' 1 (n + 1) := by
    rw [List.range'_concat]; simp; omega
  rw [this]
  exact List.nodup_range' 1

/-- **two writer objects**: as soon as the answer is written in the millisecond of the first notification, the stream
    carries `evt-<ms>-1` twice — for every number of notifications ≥ 1 -/
theorem C10_ids_two_writers_counterexample (clock : Nat → Nat) (n : Nat) (hn : 0 < n) (hms : clock n = clock 0) :
    ¬ (streamIds 2 clock n).Nodup := by
  cases n with
  | zero => omega
  | succ m =>
    simp only [streamIds, notifIds, gen, show (2 : Nat) ≠ 1 by decide, if_false, hms, List.cons_append]
    intro h
    exact (List.nodup_cons.mp h).1 (by simp)

example : streamIds 2 (fun _ => 1759000000000) 3
    = [⟨1759000000000, 1⟩, ⟨1759000000000, 2⟩, ⟨1759000000000, 3⟩, ⟨1759000000000, 1⟩] := by decide
example : streamIds 1 (fun _ => 1759000000000) 3
    = [⟨1759000000000, 1⟩, ⟨1759000000000, 2⟩, ⟨1759000000000, 3⟩, ⟨1759000000000, 4⟩] := by decide

/-! ### … and so are their texts `evt-<ms>-<counter>` -/

private def val (t : Text) : Nat := t.foldl (fun a d => a * 10 + (d - 48)) 0

private theorem digitsAux_append : ∀ (f n : Nat) (acc : Text), digitsAux f n acc = digitsAux f n [] ++ acc
  | 0, _, _ => by simp [digitsAux]
  | f + 1, n, acc => by
    unfold digitsAux
    by_cases h : n < 10
    · simp [h]
    · simp only [h, if_false]
      rw [digitsAux_append f (n / 10) ((48 + n % 10) :: acc), digitsAux_append f (n / 10) [48 + n % 10]]
      simp

private theorem val_digitsAux : ∀ (f n : Nat), n < f → val (digitsAux f n []) = n
  | 0, _, h => by omega
  | f + 1, n, h => by
    unfold digitsAux
    by_cases h10 : n < 10
    · simp [h10, val]
    · simp only [h10, if_false]
      rw [digitsAux_append]
      have ih := val_digitsAux f (n / 10) (by omega)
      unfold val at ih ⊢
      rw [List.foldl_append, ih]
      simp
      omega

private theorem digitsAux_digits : ∀ (f n : Nat), ∀ c ∈ digitsAux f n [], 48 ≤ c ∧ c ≤ 57
  | 0, _ => by simp [digitsAux]
  | f + 1, n => by
    unfold digitsAux
    by_cases h10 : n < 10
    · simp [h10]; omega
    · simp only [h10, if_false]
      rw [digitsAux_append]
      intro c hc
      simp only [List.mem_append, List.mem_singleton] at hc
      rcases hc with hc | hc
      · exact digitsAux_digits f (n / 10) c hc
      · omega

private theorem natDigits_inj {a b : Nat} (h : natDigits a = natDigits b) : a = b := by
  have ha := val_digitsAux (a + 1) a (by omega)
  have hb := val_digitsAux (b + 1) b (by omega)
  unfold natDigits at h
  rw [h] at ha
  omega

private theorem split_unique {x : Nat} : ∀ (a a' b b' : Text), x ∉ a → x ∉ a' → a ++ x :: b = a' ++ x :: b' → a = a' ∧ b = b'
  | [], [], _, _, _, _, h => by simpa using h
  | [], y :: a', _, _, _, h2, h => by
    simp at h
    exact absurd h.1 (by intro e; exact h2 (by simp [e]))
  | y :: a, [], _, _, h1, _, h => by
    simp at h
    exact absurd h.1 (by intro e; exact h1 (by simp [e]))
  | y :: a, z :: a', b, b', h1, h2, h => by
    simp only [List.cons_append, List.cons.injEq] at h
    have := split_unique a a' b b' (fun m => h1 (by simp [m])) (fun m => h2 (by simp [m])) h.2
    exact ⟨by rw [h.1, this.1], this.2⟩

/-- the rendering `evt-%d-%d` is injective: distinct (ms, counter) pairs print differently -/
theorem C10_id_text_injective (e1 e2 : EvId) (h : idText e1 = idText e2) : e1 = e2 := by
  unfold idText at h
  have h' := List.append_cancel_left (by simpa [List.append_assoc] using h :
    t!"evt-" ++ (natDigits e1.ms ++ 45 :: natDigits e1.ctr) = t!"evt-" ++ (natDigits e2.ms ++ 45 :: natDigits e2.ctr))
  have nd : ∀ n, (45 : Nat) ∉ natDigits n := fun n m => by
    have := digitsAux_digits (n + 1) n 45 m
    omega
  have := split_unique _ _ _ _ (nd e1.ms) (nd e2.ms) h'
  cases e1; cases e2
  simp only [EvId.mk.injEq]
  exact ⟨natDigits_inj this.1, natDigits_inj this.2⟩

/-- the `id:` lines of a one-writer stream are pairwise distinct as texts -/
theorem C10_id_lines_distinct (clock : Nat → Nat) (n : Nat) : ((streamIds 1 clock n).map idText).Nodup :=
  List.Pairwise.map idText (fun a b hne h => hne (C10_id_text_injective a b h)) (C10_ids_distinct clock n)

example : idText ⟨1759000000000, 12⟩ = t!"evt-1759000000000-12" := by decide


/-! ## the bytes: many events on one stream -/

open Mcp.Escape in
private theorem splitOn_ne_nil' (s : Text) : splitOn 10 s ≠ [] := by
  cases s with
  | nil => simp [splitOn]
  | cons c s =>
    unfold splitOn
    by_cases h : c = 10
    · simp [h]
    · simp only [h, if_false]
      split <;> simp

open Mcp.Escape in
private theorem splitOn_append_lf (x y : Text) : splitOn 10 (x ++ 10 :: y) = splitOn 10 x ++ splitOn 10 y := by
  induction x with
  | nil => simp [splitOn]
  | cons c x ih =>
    by_cases hc : c = 10
    · simp [splitOn, hc, ih]
    · simp only [List.cons_append, splitOn, hc, if_false, ih]
      cases h : splitOn 10 x with
      | nil => exact absurd h (splitOn_ne_nil' x)
      | cons l ls => simp

open Mcp.Escape in
/-- a stream is read event by event: what ends with a line feed does not interfere with what follows -/
private theorem clientDataLines_append (a b : Text) :
    clientDataLines (a ++ [10] ++ b) = clientDataLines (a ++ [10]) ++ clientDataLines b := by
  have e1 : a ++ [10] ++ b = a ++ 10 :: b := by simp
  have e2 : a ++ [10] = a ++ 10 :: [] := rfl
  unfold clientDataLines
  rw [e1, e2, splitOn_append_lf, splitOn_append_lf, List.dropLast_append_of_ne_nil (splitOn_ne_nil' b)]
  simp [splitOn]

private theorem idText_no_lf (e : EvId) : (10 : Nat) ∉ idText e := by
  have nd : ∀ n, (10 : Nat) ∉ natDigits n := fun n m => by
    have := digitsAux_digits (n + 1) n 10 m
    omega
  simp [idText, nd]

open Mcp.Escape in
/-- **many events, one stream**: whatever the number of events, their ids and their (object) messages, the library's
    per-line reader hands exactly the message texts to the JSON decoder — each once, in writing order; bursts are
    neither merged nor split -/
theorem C10_wire_reads_back (evs : List (EvId × Json)) (hobj : ∀ e ∈ evs, ∃ kvs, e.2 = .obj kvs) :
    clientDataLines (streamText evs) = evs.map (fun e => render e.2) := by
  induction evs with
  | nil => rfl
  | cons e rest ih =>
    obtain ⟨i, j⟩ := e
    obtain ⟨kvs, hj⟩ := hobj (i, j) (by simp)
    simp only at hj
    subst hj
    have ih' := ih (fun e he => hobj e (by simp [he]))
    have hw : ∃ a, writeEvent (idText i) (render (.obj kvs)) = a ++ [10] := ⟨_, rfl⟩
    obtain ⟨a, ha⟩ := hw
    have h1 := Mcp.Props.C02.C02_client_reads_message (idText i) kvs (idText_no_lf i)
    simp only [streamText, List.map_cons]
    rw [ha, clientDataLines_append, ← ha, h1, ih']
    rfl

private theorem serverFrames_objects (reqId : Nat) (es : List Emit) (a : Answer) :
    ∀ j ∈ serverFrames reqId es a, ∃ kvs, j = .obj kvs := by
  intro j hj
  simp only [serverFrames, List.mem_append, List.mem_map, List.mem_singleton] at hj
  rcases hj with ⟨e, _, rfl⟩ | rfl
  · exact ⟨_, rfl⟩
  · cases a <;> exact ⟨_, rfl⟩

open Mcp.Escape in
/-- … in particular the stream a tool call produces: the decoder gets the notifications' texts, then the answer's -/
theorem C10_call_stream_reads_back (reqId : Nat) (es : List Emit) (a : Answer) (ids : List EvId) :
    clientDataLines (streamText (ids.zip (serverFrames reqId es a)))
      = ((ids.zip (serverFrames reqId es a)).map (fun e => render e.2)) := by
  apply C10_wire_reads_back
  intro e he
  exact serverFrames_objects reqId es a e.2 (List.of_mem_zip he).2

/-! ## handler registration histories: the last registration wins -/

/-- what a history says about method `m`, read backwards (newest operation first): the latest operation that names `m`
    decides — written from the statement, without the table -/
def lastReg : List RegOp → Text → Option Nat
  | [], _ => none
  | .register k h :: older, m => if k = m then some h else lastReg older m
  | .unregister k :: older, m => if k = m then none else lastReg older m

private theorem handlerFor_erase (t : Table) (k m : Text) :
    handlerFor (tableErase t k) m = if k = m then none else handlerFor t m := by
  induction t with
  | nil => simp [tableErase, handlerFor]
  | cons kv rest ih =>
    obtain ⟨k', h⟩ := kv
    unfold tableErase at ih ⊢
    by_cases h1 : k' = k
    · subst h1
      by_cases h2 : k' = m
      · simp [h2] at ih ⊢; simpa [h2] using ih
      · simp [handlerFor, h2] at ih ⊢; simpa [h2] using ih
    · by_cases h2 : k = m
      · subst h2
        simp [h1, handlerFor] at ih ⊢; simpa using ih
      · simp [h1, handlerFor, h2] at ih ⊢
        by_cases h3 : k' = m <;> simp [h3, ih]

private theorem handlerFor_applyReg (t : Table) (op : RegOp) (m : Text) :
    handlerFor (applyReg t op) m = match op with
      | .register k h => if k = m then some h else handlerFor t m
      | .unregister k => if k = m then none else handlerFor t m := by
  cases op with
  | register k h =>
    by_cases hk : k = m
    · simp [applyReg, handlerFor, hk]
    · simp [applyReg, handlerFor, hk, handlerFor_erase]
  | unregister k => simp [applyReg, handlerFor_erase]

private theorem handlerFor_rev (rops : List RegOp) (m : Text) :
    handlerFor (tableAfter rops.reverse) m = lastReg rops m := by
  induction rops with
  | nil => rfl
  | cons op older ih =>
    simp only [tableAfter, List.reverse_cons, List.foldl_append, List.foldl_cons, List.foldl_nil] at ih ⊢
    rw [handlerFor_applyReg]
    cases op <;> (simp only [lastReg]; rw [ih])

/-- **last registration wins**: after ANY history of Register / Unregister on a client — re-registering a method with
    another handler, unregistering, registering again, in any order and number — the handler the table yields for method
    `m` is the one of the latest `Register(m, ·)` that no `Unregister(m)` follows, and none if there is no such -/
theorem C10_last_registration_wins (ops : List RegOp) (m : Text) :
    handlerFor (tableAfter ops) m = lastReg ops.reverse m := by
  have := handlerFor_rev ops.reverse m
  rwa [List.reverse_reverse] at this

private theorem methods_contains (t : Table) (m : Text) : (methods t).contains m = (handlerFor t m).isSome := by
  induction t with
  | nil => rfl
  | cons kv rest ih =>
    obtain ⟨k, h⟩ := kv
    by_cases hk : k = m
    · simp [methods, handlerFor, hk]
    · have hk' : ¬ m = k := fun e => hk e.symm
      simp only [methods, List.map_cons, List.contains_cons, handlerFor, hk, if_false] at ih ⊢
      rw [← ih]
      simp [hk']

/-- **… and that handler gets the call's notifications**: after any registration history a call's events are, for each
    emitted notification whose method has a live registration, one invocation of exactly the lastly registered handler
    instance — in emission order — then the return -/
theorem C10_history_dispatch (f : Facts) (hsync : f.syncDispatch = true) (ops : List RegOp) (reqId : Nat) (es : List Emit) (a : Answer) :
    callH f true (tableAfter ops) reqId es a
      = ((es.map Emit.notif).filter (fun n => (lastReg ops.reverse n.method).isSome)).map
          (fun n => (Ev.handled (delivered n), lastReg ops.reverse n.method))
        ++ [(.ret (answerRaw reqId a), none)] := by
  unfold callH
  rw [C10_order_once f hsync _ reqId]
  simp only [List.map_append, List.map_map, List.map_cons, List.map_nil, ranBy]
  congr 1
  have hfil : (fun n : Notif => (methods (tableAfter ops)).contains n.method)
      = (fun n : Notif => (lastReg ops.reverse n.method).isSome) := by
    funext n; rw [methods_contains, C10_last_registration_wins]
  rw [hfil]
  apply List.map_congr_left
  intro n _
  simp [delivered, C10_last_registration_wins]

/-- Register(m, 1), a call, Register(m, 2) without unregistering: the second call's notifications go to instance 2 -/
example : callH ⟨1, true, true⟩ true (tableAfter [.register t!"m" 1, .register t!"x" 5, .register t!"m" 2]) 3
      [.custom t!"m" []] (.ok .null)
    = [(.handled ⟨t!"m", ⟨[], []⟩⟩, some 2), (.ret .null, none)] := rfl

example : lastReg [RegOp.register t!"m" 3, .unregister t!"m", .register t!"m" 1] t!"m" = some 3 := rfl
example : tableAfter [.register t!"m" 1, .unregister t!"m"] = [] := rfl

/-! ## notifications the sender refuses (unencodable: NaN progress, chan / func values, failing MarshalJSON)

  The sender marshals before it writes (`C10_fact_marshal_before_write`), so a refused attempt leaves no trace on the
  stream: the call is the call of the remaining emits. -/

/-- what is sent is what was attempted minus the refused attempts: same order, each once (a sublist) -/
theorem C10_sent_sublist (as : List Attempt) : ((sent as).map Attempt.enc).Sublist as := by
  induction as with
  | nil => exact List.Sublist.slnil
  | cons x rest ih =>
    cases x with
    | enc e => exact ih.cons_cons _
    | refused => exact ih.cons _

/-- every encodable attempt is sent, nothing else is -/
theorem C10_sent_mem (as : List Attempt) (e : Emit) : e ∈ sent as ↔ Attempt.enc e ∈ as := by
  induction as with
  | nil => simp [sent]
  | cons x rest ih =>
    cases x with
    | enc e' => simp [sent, ih]
    | refused => simp [sent, ih]

/-- refusing in between is neutral: attempts before and after a refused one are sent as if it had not been tried -/
theorem C10_sent_append (as bs : List Attempt) : sent (as ++ bs) = sent as ++ sent bs := by
  induction as with
  | nil => rfl
  | cons x rest ih => cases x <;> simp [sent, ih]

/-- **refused notifications do no harm**: whatever unencodable notifications the handler tries to send, at whatever
    positions, the call is: one handler invocation per ENCODABLE emitted notification whose method has a handler, in
    emission order, each once, then the single return of the handler's unchanged answer -/
theorem C10_refused_harmless (f : Facts) (hsync : f.syncDispatch = true) (hs : List Text) (reqId : Nat) (as : List Attempt) (a : Answer) :
    callA f true hs reqId as a
      = (((sent as).map Emit.notif).filter (fun n => hs.contains n.method)).map (fun n => Ev.handled (delivered n))
        ++ [.ret (answerRaw reqId a)] :=
  C10_order_once f hsync hs reqId (sent as) a

/-- the result is intact in both response modes, whatever was refused before it -/
theorem C10_refused_result_intact (f : Facts) (hsync : f.syncDispatch = true) (sse : Bool) (hs : List Text) (reqId : Nat)
    (as : List Attempt) (a : Answer) (r : Json) :
    Ev.ret r ∈ callA f sse hs reqId as a ↔ r = answerRaw reqId a :=
  C10_result_intact f hsync sse hs reqId (sent as) a r

/-- the stream carries one frame per encodable attempt and the answer -/
theorem C10_refused_frame_count (reqId : Nat) (as : List Attempt) (a : Answer) :
    (framesA reqId as a).length = (sent as).length + 1 := by
  simp [framesA, serverFrames]

/-- only refused attempts: the call is just the return -/
theorem C10_only_refused (f : Facts) (sse : Bool) (hs : List Text) (reqId : Nat) (n : Nat) (a : Answer) :
    callA f sse hs reqId (List.replicate n .refused) a = call f sse hs reqId [] a := by
  have h : sent (List.replicate n Attempt.refused) = [] := by
    induction n with
    | zero => rfl
    | succ k ih => simpa [List.replicate_succ, sent] using ih
  simp [callA, h]

/-- valid, refused, refused, valid: the two valid ones are handled in order, then the answer -/
example : callA ⟨1, true, true⟩ true [t!"m", messageMethod] 7
      [.enc (.custom t!"m" [(t!"a", .int 1)]), .refused, .refused, .enc (.log t!"info" t!"hi")] (.ok (.str t!"done"))
    = [ .handled ⟨t!"m", ⟨[], [(t!"a", .int 1)]⟩⟩,
        .handled ⟨messageMethod, ⟨[], [(t!"level", .str t!"info"),
          (t!"data", .obj [(t!"type", .str t!"log_message"), (t!"message", .str t!"hi")])]⟩⟩,
        .ret (.str t!"done") ] := rfl

example : (framesA 7 [.refused, .enc (.custom t!"m" []), .refused] (.ok .null)).length = 2 := rfl

/-! ## instance obligations over the regenerated facts -/

/-- the sender and the responder of one POST-SSE stream draw event ids from ONE counter -/
theorem C10_fact_one_writer : facts.writers = 1 := by decide

/-- the client calls notification handlers in its read loop -/
theorem C10_fact_sync_dispatch : facts.syncDispatch = true := by decide

/-- the client's early return at the answer frame is taken only when no handler is registered -/
theorem C10_fact_drain_with_handlers : facts.drainWithHandlers = true := by decide

/-- the event id is `evt-<ms>-<counter>`, the counter an atomic increment of a field of the writer -/
theorem C10_fact_id_shape : Mcp.Gen.icIdIsMsCounter = true ∧ Mcp.Gen.icResponderOwnsWriter = true := by decide

/-- the sender marshals the whole notification before it takes an event id or writes to the stream: an unencodable
    notification is refused without a trace (the region in which `sent` is the stream's content) -/
theorem C10_fact_marshal_before_write : Mcp.Gen.icMarshalBeforeWrite = true := by decide

/-! ## non-vacuity -/

/-- three notifications of three kinds, handlers for two of the methods, a `_meta` object: two are handled in order, the
    custom one is dropped, the answer follows -/
example :
    call ⟨1, true, true⟩ true [progressMethod, messageMethod] 7
      [.progress (.dec 5 1) t!"half", .custom t!"x/y" [(t!"k", .int 1)], .log t!"info" t!"hi"] (.ok (.str t!"done"))
    = [ .handled ⟨progressMethod, ⟨[], [(t!"progress", .dec 5 1), (t!"message", .str t!"half"),
          (t!"data", .obj [(t!"type", .str t!"process_progress"), (t!"progress", .dec 5 1), (t!"message", .str t!"half")])]⟩⟩,
        .handled ⟨messageMethod, ⟨[], [(t!"level", .str t!"info"),
          (t!"data", .obj [(t!"type", .str t!"log_message"), (t!"message", .str t!"hi")])]⟩⟩,
        .ret (.str t!"done") ] := rfl

example : call ⟨1, true, true⟩ true [t!"m"] 7 [.viaNew t!"m" [(metaKey, .obj [(t!"t", .int 3)]), (t!"a", .null)]] (.err (-32603) t!"boom")
    = [ .handled ⟨t!"m", ⟨[(t!"t", .int 3)], [(t!"a", .null)]⟩⟩, .ret (answerJson 7 (.err (-32603) t!"boom")) ] := rfl

/-- JSON mode: nothing but the answer -/
example : call ⟨1, true, true⟩ false [t!"m"] 7 [.custom t!"m" []] (.ok .null) = [.ret .null] := rfl

/-- a request id from 10^6 on is recognised like any other (since the D01 repair the matcher compares `requestIDKey`
    renderings; the `%v` comparison it replaced did not: `idMatchesK false`) -/
example : call ⟨1, true, true⟩ true [] 1000000 [] (.ok .null) = [.ret .null] := rfl
example : idMatchesK false (.int 1000000) 1000000 = false ∧ idMatchesK true (.int 1000000) 1000000 = true ∧
    idMatchesK false (.str t!"7") 7 = true ∧ idMatchesK true (.str t!"7") 7 = false := by decide

open Mcp.Escape in
example : clientDataLines (streamText [(⟨5, 1⟩, notifJson ⟨t!"m", ⟨[], []⟩⟩), (⟨5, 2⟩, answerJson 1 (.ok .null))])
    = [t!"{\"jsonrpc\":\"2.0\",\"method\":\"m\",\"params\":{}}", t!"{\"jsonrpc\":\"2.0\",\"id\":1,\"result\":null}"] := by
  decide

end Mcp.Props.C10
