/-
  C03 — Every emitted message is a well-formed JSON-RPC 2.0 / MCP message.

  Statement: every message a server writes — in an HTTP response body, an SSE event or a stdio line — in reaction to any input
  is one valid JSON-RPC 2.0 object of the MCP schema for its kind: a response has version "2.0", the request's id and
  exactly one of result / error, a result has the shape the protocol prescribes for the method, a notification has a method
  and no id. Faults are reported with the standard code of their class: unknown method −32601, parameters of the wrong shape
  or missing −32602, unparsable input −32700 or an HTTP 4xx, handler failure (an error, or a result that cannot be encoded)
  −32603 with the handler's message; an input the server does not serve is answered with a non-2xx status or a JSON-RPC error
  object, never with an empty or successful 2xx.

  The oracle is `Mcp.RpcSpec.wfMsg request? message`, written from the two specifications (it only looks members up in the
  emitted JSON; it shares nothing with the encoders). The model is `Mcp.Rpc` (see there). The harness feeds every captured
  frame to the very same `wfMsg`.

  History: on the tree first studied the statement failed in six ways — nil slices encoded as `null` (D07), embedded
  resources tagged "embedded_resource", results the encoder refuses answered by an empty 200 / nothing (D08), a wrong path
  answered by an implicit empty 200 (D09), an id without method / result / error accepted with an empty 202 (D10), stdio
  dropping unparsable / invalid lines in silence and error answers without an `id` member (D11). All were found by this
  check and repaired in the library (legacy SSE's part of D10 excepted, see below); the model is the repaired code and the
  theorems below are FULL statements: `C03_wf_streamable`, `C03_wf_sse`, `C03_wf_stdio` (every message of every reaction, for
  every configuration, registry, session table and input), `C03_codes_*`, `C03_never_silent_*`.

  What remains false, with its witness: the legacy SSE server writes 202 before it classifies and decodes the body, so an
  id without method / result / error, and a request its typed decoder rejects (a number no float64 can hold), are accepted
  with an empty 202 and nothing follows on the stream — `C03_never_silent_sse_partial` + `C03_never_silent_sse_counterexample`.
  Ids: a response carries the request's id as a NUMBER VALUE — exactly up to ±2^53; beyond, where the servers hold the id
  as a float64 and print that, as the double nearest to it, never with another sign or magnitude (`wfMsg` demands
  `nearestDouble`; `C03_ids_beyond_2_53`, `C03_id_edges_witness`).
-/
import Mcp.Lemmas.Rpc
import Mcp.Gen.RpcFacts
namespace Mcp.Props.C03
open Mcp.Str Mcp.Json Mcp.Content Mcp.RpcSpec Mcp.Rpc Mcp.Session

/-! ## well-formedness -/

/-- Streamable HTTP — every mode, every verb, path, session reference, Accept header, body: every JSON-RPC message in the
    answer is well-formed with respect to the request (HTTP-level refusals carry no JSON-RPC message). -/
theorem C03_wf_streamable (c : SCfg) (reg : Registry) (st : St) (i : HttpIn) (hreg : reg.Conforming) :
    ∀ m ∈ (serveStreamable c reg st i).2.messages, wfMsg i.body.json? m = true :=
  wf_serveStreamable c reg st i hreg

/-- legacy SSE — every verb, path, session parameter, body: HTTP body and stream frames. -/
theorem C03_wf_sse (reg : Registry) (i : SseIn) (hreg : reg.Conforming) :
    ∀ m ∈ (serveSSE reg i).messages, wfMsg i.body.json? m = true :=
  wf_serveSSE reg i hreg

/-- stdio — every line. -/
theorem C03_wf_stdio (reg : Registry) (b : Body) (hreg : reg.Conforming) :
    ∀ m ∈ (serveStdio reg b).messages, wfMsg b.json? m = true :=
  wf_serveStdio reg b hreg

/-- …and what comes out of the dispatchers has the result shape of the method whatever the request looked like. -/
theorem C03_result_shapes (reg : Registry) (hreg : reg.Conforming) (req : Req) (r : Json) :
    (dispatch reg req = .ok (.result r) → wfResult req.method r = true) ∧
    (dispatchStdio reg req = .ok (.result r) → wfResult req.method r = true) :=
  ⟨dispatch_result_wf reg hreg req r, dispatchStdio_result_wf reg hreg req r⟩

/-- Every content item the encoder writes — text, image, audio, embedded resource, with or without annotations — and every
    resource contents item is one of the MCP schema (embedded resources carry the tag "resource"). -/
theorem C03_content_items (c : Content) (rc : ResourceContents) :
    wfContent (encodeContent c) = true ∧ wfResourceContents (encodeResourceContents rc) = true :=
  ⟨wf_content c, wf_resourceContents rc⟩

/-- List filters (`WithToolListFilter`, `WithPromptListFilter`, `WithResourceListFilter`, their legacy-SSE counterparts) are
    ARBITRARY functions here — keyed on whatever the request context carries, returning nil or empty slices, hiding
    everything or something: the three list results are well-formed for every one of them (tools: provided the descriptors
    that come back carry an object schema, `Conforming.listed`), the list member is an ARRAY (never `null`), and all three
    servers emit well-formed messages (`C03_wf_*` quantify over these registries too). -/
theorem C03_filtered_lists (reg : Registry) (hreg : reg.Conforming) :
    (∃ xs, handleListTools reg = .result (.obj [(t!"tools", .arr xs)]) ∧ wfResult t!"tools/list" (.obj [(t!"tools", .arr xs)]) = true) ∧
    (∃ xs, handleListPrompts reg = .result (.obj [(t!"prompts", .arr xs)]) ∧ wfResult t!"prompts/list" (.obj [(t!"prompts", .arr xs)]) = true) ∧
    (∃ xs, handleListResources reg = .result (.obj [(t!"resources", .arr xs)]) ∧
      wfResult t!"resources/list" (.obj [(t!"resources", .arr xs)]) = true) :=
  ⟨⟨_, rfl, wf_listTools reg hreg⟩, ⟨_, rfl, wf_listPrompts _⟩, ⟨_, rfl, wf_listResources _⟩⟩

/-- `Conforming.listed` holds for every filter that selects among the registered descriptors (any sublist, in any order,
    with repetitions): what such a filter returns already satisfies `Conforming.schema`. -/
theorem C03_selecting_filters_conform (reg : Registry)
    (hs : ∀ t ∈ reg.tools, ∃ s, t.desc.inputSchema = some (.obj s) ∧ lookup s t!"type" = some (.str t!"object"))
    (hsel : ∀ d ∈ reg.toolFilter (reg.tools.map (·.desc)), d ∈ reg.tools.map (·.desc)) :
    ∀ d ∈ reg.toolFilter (reg.tools.map (·.desc)), ∃ s, d.inputSchema = some (.obj s) ∧ lookup s t!"type" = some (.str t!"object") := by
  intro d hd
  obtain ⟨t, ht, rfl⟩ := List.mem_map.mp (hsel d hd)
  exact hs t ht

/-- A filter that hides everything — returning a nil slice or an empty one is the same `[]` here — on all three servers:
    `"tools": []`, `"prompts": []`, `"resources": []`, well-formed, with a result. -/
theorem C03_hide_all_filters_witness :
    let reg : Registry := { demoReg with toolFilter := fun _ => [], promptFilter := fun _ => [], resourceFilter := fun _ => [] }
    ([t!"tools/list", t!"prompts/list", t!"resources/list"].all fun m =>
      let j := demoEnv (.int 1) m none
      (serveStreamable (demoCfg .stateless) reg {} (postOf .none false j)).2.messages.all (wfMsg (some j)) &&
      (serveStreamable (demoCfg .stateless) reg {} (postOf .none false j)).2.hasResult &&
      (serveSSE reg (ssePostOf j)).messages.all (wfMsg (some j)) && (serveSSE reg (ssePostOf j)).hasResult &&
      (serveStdio reg (.json j)).messages.all (wfMsg (some j)) && (serveStdio reg (.json j)).hasResult) = true ∧
    (match handleListTools reg with | .result (.obj [(k, .arr [])]) => k == t!"tools" | _ => false) = true ∧
    (match handleListPrompts reg with | .result (.obj [(k, .arr [])]) => k == t!"prompts" | _ => false) = true ∧
    (match handleListResources reg with | .result (.obj [(k, .arr [])]) => k == t!"resources" | _ => false) = true := by
  decide +kernel

/-- D07 repaired: a handler that returns a nil slice is answered with an empty array (all three servers). -/
theorem C03_nil_slices_are_arrays :
    let j := demoEnv (.int 1) t!"tools/call" (some (callParams t!"nilcontent"))
    ((serveStreamable (demoCfg .stateless) demoReg {} (postOf .none false j)).2.messages.all (wfMsg (some j))) = true ∧
    ((serveSSE demoReg (ssePostOf j)).messages.all (wfMsg (some j))) = true ∧
    ((serveStdio demoReg (.json j)).messages.all (wfMsg (some j))) = true ∧
    (serveStdio demoReg (.json j)).hasResult = true ∧
    (runResource ⟨[], t!"u", [], [], 0, fun _ => .contents none⟩ none).code? = none := by
  decide +kernel

/-- D11 repaired: where no id can be read the error answer carries `"id": null` — legacy SSE (unparsable body, unreadable
    envelope, neither id nor method) and stdio (unparsable line, invalid envelope, typed decode failure). -/
theorem C03_unidentified_errors_carry_null_id :
    ((serveSSE demoReg ⟨.post, .message, .live, .parseFail⟩).messages.all (wfMsg none)) = true ∧
    (serveSSE demoReg ⟨.post, .message, .live, .parseFail⟩).errorCode = some (-32700) ∧
    ((serveSSE demoReg (ssePostOf (.obj []))).messages.all (wfMsg (some (.obj [])))) = true ∧
    ((serveStdio demoReg .parseFail).messages.all (wfMsg none)) = true ∧
    (let j : Json := .obj [(t!"jsonrpc", .str t!"2.0"), (t!"id", .int 1), (t!"method", .int 5)]
     ((serveStdio demoReg (.json j)).messages.all (wfMsg (some j))) = true ∧ (serveStdio demoReg (.json j)).errorCode = some (-32700)) := by
  decide +kernel

/-- Ids beyond ±2^53. A numeric id is decoded into a double and printed back, so what comes back is the NUMBER VALUE: for
    every integer id below the float64 overflow all three servers answer with the double nearest to it — `nearestDouble`,
    which is what `wfMsg` demands (`C03_wf_*` hold for these ids too) and is the model's `f64RoundInt`; it differs from the
    id by at most half a unit in the last place a double keeps (2^(⌊log₂|id|⌋ − 52)); up to ±2^53 it is the id itself.
    Never another sign, never another magnitude. -/
theorem C03_ids_beyond_2_53 (i : Int) :
    nearestDouble i = f64RoundInt i ∧ (i.natAbs ≤ 9007199254740992 → nearestDouble i = i) ∧
    2 * (nearestDouble i - i).natAbs ≤ 2 ^ (Nat.log2 i.natAbs - 52) ∧
    (0 < i → 0 < nearestDouble i) ∧ (i < 0 → nearestDouble i < 0) := by
  exact ⟨nearestDouble_eq i, fun h => by rw [nearestDouble_eq]; exact f64RoundInt_exact i h, nearestDouble_close i⟩

/-- …at the edges: 2^53 + 1 comes back as 2^53; 2^63 − 1 and 2^63 + 1 as 2^63 (in any decimal rendering of that double, Go's shortest one 9223372036854776000
    included; POSITIVE — an answer bearing −2^63, or the next double, is not well-formed), −2^63 − 1 as −2^63, 2^64 − 1 as 2^64, 10^30 as the double nearest to it; on all three servers, with a result. -/
theorem C03_id_edges_witness :
    let echo (i : Int) : Bool :=
      let j := demoEnv (.int i) t!"ping" none
      (serveStreamable (demoCfg .stateless) demoReg {} (postOf .none false j)).2.messages.all (wfMsg (some j)) &&
      (serveStreamable (demoCfg .stateless) demoReg {} (postOf .none false j)).2.hasResult &&
      (serveSSE demoReg (ssePostOf j)).messages.all (wfMsg (some j)) && (serveSSE demoReg (ssePostOf j)).hasResult &&
      (serveStdio demoReg (.json j)).messages.all (wfMsg (some j)) && (serveStdio demoReg (.json j)).hasResult
    [9007199254740993, -9007199254740993, 9223372036854775807, 9223372036854775808, 9223372036854775809, -9223372036854775808,
      -9223372036854775809, 18446744073709551615, 18446744073709551616, 10 ^ 19, 10 ^ 30].all echo = true ∧
    nearestDouble 9007199254740993 = 9007199254740992 ∧ nearestDouble 9223372036854775807 = 9223372036854775808 ∧
    nearestDouble (-9223372036854775809) = -9223372036854775808 ∧ nearestDouble 18446744073709551615 = 18446744073709551616 ∧
    (let j := demoEnv (.int 9223372036854775807) t!"ping" none
     wfMsg (some j) (okMsg (some (.int 9223372036854775808)) (.obj [])) = true ∧
     wfMsg (some j) (okMsg (some (.int 9223372036854776000)) (.obj [])) = true ∧
     wfMsg (some j) (okMsg (some (.int (-9223372036854775808))) (.obj [])) = false ∧
     wfMsg (some j) (okMsg (some (.int 9223372036854777856)) (.obj [])) = false) ∧
    (let j := demoEnv (.int 5) t!"ping" none
     wfMsg (some j) (okMsg (some (.int 6)) (.obj [])) = false ∧ wfMsg (some j) (okMsg (some (.int 5)) (.obj [])) = true) ∧
    wfEnvelope (demoEnv (.int 9007199254740993) t!"ping" none) = false ∧ wfEnvelope (demoEnv (.int 9007199254740992) t!"ping" none) = true := by
  decide +kernel

/-! ## codes -/

/-- unknown method → −32601, from the table and from the switch, whatever the parameters -/
theorem C03_codes_unknown_method (reg : Registry) (req : Req) :
    (req.method ∉ tableMethods → (dispatch reg req).ans?.bind Ans.code? = some (-32601)) ∧
    (req.method ∉ stdioMethods → (dispatchStdio reg req).ans?.bind Ans.code? = some (-32601)) := by
  constructor
  · intro h; rw [dispatch_unknown reg req h]; rfl
  · intro h; rw [dispatchStdio_unknown reg req h]; rfl

/-- missing or wrongly shaped REQUIRED parameters → −32602, from the table and from the switch: for every registry and every
    decoded request (any JSON value, or none, as `params`). -/
theorem C03_codes_bad_params (reg : Registry) (req : Req) (h : badParams reg req.method req.params = true) :
    (dispatch reg req).ans?.bind Ans.code? = some (-32602) ∧ (dispatchStdio reg req).ans?.bind Ans.code? = some (-32602) :=
  dispatch_bad_params reg req h

/-- handler failure → −32603 and the handler's text is inside the message (tools: after the "tool execution failed" prefix) -/
theorem C03_codes_handler_error_tool (tool : ToolEntry) (a : Option Obj) (msg : Text) (h : tool.run a = .goErr msg) :
    (runTool tool a).code? = some (-32603) ∧ ∃ t, (runTool tool a).text? = some t ∧ Mcp.Str.contains t msg = true :=
  runTool_goErr tool a msg h

theorem C03_codes_handler_error_prompt (p : PromptEntry) (a : List (Text × Text)) (msg : Text) (h : p.run a = .goErr msg) :
    (runPrompt p a).code? = some (-32603) ∧ ∃ t, (runPrompt p a).text? = some t ∧ Mcp.Str.contains t msg = true :=
  runPrompt_goErr p a msg h

theorem C03_codes_handler_error_resource (r : ResEntry) (a : Option Obj) (msg : Text) (h : r.run a = .goErr msg) :
    (runResource r a).code? = some (-32603) ∧ ∃ t, (runResource r a).text? = some t ∧ Mcp.Str.contains t msg = true :=
  runResource_goErr r a msg h

/-- D08 repaired: a result the encoder refuses becomes — for every id and every encoder text — a −32603 error for the same
    id that carries the encoder's text; on all three servers (demo: a channel inside structured content). -/
theorem C03_codes_unencodable (id : Option Json) (why : Text) :
    ansMsg id (.unencodable why) = some (errMsg id (-32603) why) ∧
    (let j := demoEnv (.int 1) t!"tools/call" (some (callParams t!"chan"))
     (serveStreamable (demoCfg .stateless) demoReg {} (postOf .none false j)).2.errorCode = some (-32603) ∧
     (serveSSE demoReg (ssePostOf j)).errorCode = some (-32603) ∧ (serveStdio demoReg (.json j)).errorCode = some (-32603) ∧
     ((serveStdio demoReg (.json j)).messages.all (wfMsg (some j))) = true) :=
  ⟨rfl, by decide +kernel⟩

/-- unparsable input: HTTP 400 on Streamable (any mode / session), a −32700 error object on legacy SSE and on stdio; a JSON
    value that is no JSON-RPC message at all is −32600 on stdio -/
theorem C03_codes_unparsable (c : SCfg) (reg : Registry) (st : St) (ref : Ref) (acc : Bool) :
    (serveStreamable c reg st ⟨.post, true, ref, acc, .parseFail⟩).2.status = some 400 ∧
    (serveSSE reg ⟨.post, .message, .live, .parseFail⟩).errorCode = some (-32700) ∧
    (serveStdio reg .parseFail).errorCode = some (-32700) ∧
    (∀ j, classifyStdio j = none → (serveStdio reg (.json j)).errorCode = some (-32600)) := by
  refine ⟨?_, ?_, ?_, ?_⟩
  · simp [serveStreamable, Reaction.http, Reaction.status]
  · simp [serveSSE, serveSSEMessage, Reaction.http, Reaction.errorCode, Reaction.outcome, Reaction.messages, normMsg, errMsg, lookup,
      jsonrpcField, codeParse]
  · simp [serveStdio, Reaction.errorCode, Reaction.outcome, Reaction.messages, normMsg, errMsg, lookup, jsonrpcField, codeParse]
  · intro j hj
    simp [serveStdio, hj, Reaction.errorCode, Reaction.outcome, Reaction.messages, normMsg, errMsg, lookup, jsonrpcField,
      codeInvalidRequest]

/-- End to end, all three servers: for a well-formed envelope in an accepted session the code the dispatcher chose is the
    code on the wire — so unknown methods are answered −32601 and bad parameters −32602 by Streamable HTTP (every mode),
    legacy SSE and stdio. -/
theorem C03_codes_served (reg : Registry) (o mm : Obj) (hwf : wfEnvelope (.obj o) = true) (hrep : goDecodeFields o = some mm)
    (m : Text) (hm : lookup o t!"method" = some (.str m)) (hne : m ≠ [])
    (c : SCfg) (st : St) (ref : Ref) (acc : Bool) (hs : sessionOk c st ref m) :
    (m ∉ tableMethods →
      (serveStreamable c reg st (postOf ref acc (.obj o))).2.errorCode = some (-32601) ∧
      (serveSSE reg (ssePostOf (.obj o))).errorCode = some (-32601) ∧ (serveStdio reg (.json (.obj o))).errorCode = some (-32601)) ∧
    (badParams reg m (paramsOf mm) = true →
      (serveStreamable c reg st (postOf ref acc (.obj o))).2.errorCode = some (-32602) ∧
      (serveSSE reg (ssePostOf (.obj o))).errorCode = some (-32602) ∧ (serveStdio reg (.json (.obj o))).errorCode = some (-32602)) := by
  obtain ⟨id', h1, h2⟩ := serve_normal_form reg o mm hwf hrep m hm hne c st ref acc hs
  constructor
  · intro hu
    have hu' : m ∉ stdioMethods := by
      intro hmem; apply hu
      simp [stdioMethods] at hmem
      rcases hmem with h | h | h | h | h | h | h | h <;> subst h <;> decide
    obtain ⟨e1, e2⟩ := h1 _ (dispatch_unknown reg ⟨some id', m, paramsOf mm⟩ hu)
    have e3 := h2 _ (dispatchStdio_unknown reg ⟨some id', m, paramsOf mm⟩ hu')
    rw [e1, e2, e3]
    exact ⟨errorCode_http _ _ _ _, errorCode_frames _ _ _ _, errorCode_frames _ _ _ _⟩
  · intro hb
    obtain ⟨b1, b2⟩ := dispatch_bad_params reg ⟨some id', m, paramsOf mm⟩ hb
    cases hd : dispatch reg ⟨some id', m, paramsOf mm⟩ with
    | panic => simp [hd, Outcome.ans?] at b1
    | ok a =>
      cases hd' : dispatchStdio reg ⟨some id', m, paramsOf mm⟩ with
      | panic => simp [hd', Outcome.ans?] at b2
      | ok a' =>
        obtain ⟨e1, e2⟩ := h1 a hd
        have e3 := h2 a' hd'
        rw [e1, e2, e3]
        cases a <;> simp [hd, Outcome.ans?, Ans.code?] at b1
        cases a' <;> simp [hd', Outcome.ans?, Ans.code?] at b2
        subst b1; subst b2
        exact ⟨errorCode_http _ _ _ _, errorCode_frames _ _ _ _, errorCode_frames _ _ _ _⟩

/-- T-gen: the code literal of every error answer built on the request path is the one the model uses in that branch. -/
theorem C03_codes_fact : Mcp.Gen.rpcErrorCodes = modelledErrorCodes := by decide

/-! ## never silent -/

/-- Streamable HTTP: a wrong path gets 404 (D09 repaired), an unknown verb 405, a body that is not a JSON-RPC message an HTTP
    error status, and so does an id with neither method nor result nor error (D10 repaired) — every mode, session reference,
    Accept header. -/
theorem C03_never_silent_streamable (c : SCfg) (reg : Registry) (st : St) (v : Verb) (ref : Ref) (acc : Bool) (b : Body) :
    (serveStreamable c reg st ⟨v, false, ref, acc, b⟩).2.status = some 404 ∧
    (serveStreamable c reg st ⟨.other, true, ref, acc, b⟩).2.status = some 405 ∧
    (Malformed b → (serveStreamable c reg st ⟨.post, true, ref, acc, b⟩).2.answeredWithError = true) ∧
    (∀ j base, b = .json j → decodeBase j = some base → base.id.isSome = true → base.method = [] →
      decodeResponse j = some (false, false) → (serveStreamable c reg st ⟨.post, true, ref, acc, b⟩).2.answeredWithError = true) := by
  refine ⟨by simp [serveStreamable, Reaction.http, Reaction.status], by simp [serveStreamable, Reaction.http, Reaction.status],
    answered_streamable c reg st ref acc b, ?_⟩
  intro j base hb hd hi hm hr
  subst hb
  simpa [serveStreamable] using id_only_refused c reg st ref j base hd hi hm hr

/-- legacy SSE, message endpoint: a body that is not a JSON-RPC message gets an HTTP error status or a JSON-RPC error object;
    every other path gets 404. -/
theorem C03_never_silent_sse_partial (reg : Registry) (verb : Verb) (ref : SseRef) (b : Body) :
    (Malformed b → (serveSSE reg ⟨verb, .message, ref, b⟩).answeredWithError = true) ∧
    (serveSSE reg ⟨verb, .other, ref, b⟩).status = some 404 :=
  ⟨answered_sse reg verb ref b, by simp [serveSSE, Reaction.http, Reaction.status]⟩

/-- What legacy SSE still leaves without an answer (it writes 202 before it classifies and decodes the body): an id without
    method / result / error, and a request whose typed decode fails — where Streamable answers 400 to both. -/
theorem C03_never_silent_sse_counterexample :
    let idOnly : Json := .obj [(t!"jsonrpc", .str t!"2.0"), (t!"id", .int 5)]
    let huge := demoEnv (.int 1) t!"ping" (some (.obj [(t!"x", .int (10 ^ 400))]))
    (serveSSE demoReg (ssePostOf idOnly)).status = some 202 ∧ (serveSSE demoReg (ssePostOf idOnly)).messages.length = 0 ∧
    (serveSSE demoReg (ssePostOf huge)).status = some 202 ∧ (serveSSE demoReg (ssePostOf huge)).messages.length = 0 ∧
    (serveStreamable (demoCfg .stateful) demoReg demoSt (postOf (.sid 0) false idOnly)).2.status = some 400 ∧
    (serveStreamable (demoCfg .stateful) demoReg demoSt (postOf (.sid 0) false huge)).2.status = some 400 := by
  decide +kernel

/-- stdio (D11 repaired): a line that is not JSON, or not a JSON-RPC message, or a request that does not decode, is answered
    with a JSON-RPC error. -/
theorem C03_never_silent_stdio (reg : Registry) (b : Body) :
    (MalformedLine b → (serveStdio reg b).answeredWithError = true) ∧
    (∀ j, b = .json j → classifyStdio j = some .request → decodeRequest j = none → (serveStdio reg b).answeredWithError = true) :=
  ⟨answered_stdio_malformed reg b, fun j hb hc hd => hb ▸ answered_stdio reg j hc hd⟩

/-- A request with a well-formed envelope in an accepted session always gets exactly one message back, on every server —
    whatever the handler does (result, error, a result that cannot be encoded). -/
theorem C03_request_answered (reg : Registry) (o mm : Obj) (hwf : wfEnvelope (.obj o) = true) (hrep : goDecodeFields o = some mm)
    (m : Text) (hm : lookup o t!"method" = some (.str m)) (hne : m ≠ [])
    (c : SCfg) (st : St) (ref : Ref) (acc : Bool) (hs : sessionOk c st ref m) :
    (serveStreamable c reg st (postOf ref acc (.obj o))).2.messages.length = 1 ∧
    (serveSSE reg (ssePostOf (.obj o))).messages.length = 1 ∧ (serveStdio reg (.json (.obj o))).messages.length = 1 := by
  obtain ⟨id', h1, h2⟩ := serve_normal_form reg o mm hwf hrep m hm hne c st ref acc hs
  cases hd : dispatch reg ⟨some id', m, paramsOf mm⟩ with
  | panic => exact absurd hd (dispatch_ne_panic _ _)
  | ok a =>
    cases hd' : dispatchStdio reg ⟨some id', m, paramsOf mm⟩ with
    | panic => exact absurd hd' (dispatchStdio_ne_panic _ _)
    | ok a' =>
      obtain ⟨e1, e2⟩ := h1 a hd
      obtain ⟨msg, hmsg⟩ := Option.isSome_iff_exists.mp (ansMsg_isSome (some id') a)
      obtain ⟨msg', hmsg'⟩ := Option.isSome_iff_exists.mp (ansMsg_isSome (some id') a')
      rw [e1, e2, h2 a' hd', hmsg, hmsg']
      simp [Reaction.http, Reaction.messages]

/-! ## non-vacuity -/

/-- a call goes through all three servers with a well-formed answer; an embedded resource and a handler error too -/
example :
    let j := demoEnv (.str t!"a") t!"tools/call" (some (callParams t!"echo"))
    let e := demoEnv (.int 3) t!"tools/call" (some (callParams t!"embedded"))
    ((serveStreamable (demoCfg .stateful true) demoReg demoSt (postOf (.sid 0) true j)).2.messages.all (wfMsg (some j))) = true ∧
    (serveStreamable (demoCfg .stateful true) demoReg demoSt (postOf (.sid 0) true j)).2.hasResult = true ∧
    ((serveSSE demoReg (ssePostOf j)).messages.all (wfMsg (some j))) = true ∧ ((serveStdio demoReg (.json j)).messages.all (wfMsg (some j))) = true ∧
    ((serveStdio demoReg (.json e)).messages.all (wfMsg (some e))) = true ∧ (serveStdio demoReg (.json e)).hasResult = true ∧
    (serveStdio demoReg (.json (demoEnv (.int 2) t!"tools/call" (some (callParams t!"boom"))))).errorCode = some (-32603) := by
  decide +kernel

/-- the demo registry — nil-slice, embedded-resource and unencodable handlers included — satisfies `Conforming` -/
example : Registry.Conforming demoReg := by
  refine ⟨?_, ?_, ?_⟩
  · intro t ht
    simp [demoReg] at ht
    rcases ht with rfl | rfl | rfl | rfl | rfl <;> exact ⟨_, rfl, rfl⟩
  · intro d hd
    simp [demoReg] at hd
    rcases hd with rfl | rfl | rfl | rfl | rfl <;> exact ⟨_, rfl, rfl⟩
  · intro p hp a r hr
    simp [demoReg] at hp; subst hp
    simp [demoPrompt] at hr; subst hr
    intro m hm
    simp at hm; subst hm
    exact ⟨by decide, _, rfl⟩

/-- `badParams` is not vacuous: each of the four methods has parameters it rejects and parameters it accepts -/
example :
    badParams demoReg t!"tools/call" (some (.obj [(t!"name", .int 5)])) = true ∧
    badParams demoReg t!"tools/call" (some (.obj [(t!"name", .str t!"echo"), (t!"arguments", .arr [])])) = true ∧
    badParams demoReg t!"tools/call" (some (callParams t!"echo")) = false ∧
    badParams demoReg t!"prompts/get" none = true ∧ badParams demoReg t!"prompts/get" (some (.obj [(t!"name", .str t!"p")])) = false ∧
    badParams demoReg t!"resources/read" (some (.obj [(t!"uri", .null)])) = true ∧
    badParams demoReg t!"initialize" (some (.obj [(t!"protocolVersion", .str t!"2025-03-26")])) = false ∧
    badParams demoReg t!"initialize" (some (.str t!"x")) = true ∧ badParams demoReg t!"ping" none = false := by
  decide +kernel

end Mcp.Props.C03
