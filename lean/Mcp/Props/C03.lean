/-
  C03 — Every emitted message is a well-formed JSON-RPC 2.0 / MCP message.

  Statement: every message a server writes — in an HTTP response body, an SSE event or a stdio line — in reaction to any input
  is one valid JSON-RPC 2.0 object of the MCP schema for its kind: a response has version "2.0", the request's id and
  exactly one of result / error, a result has the shape the protocol prescribes for the method, a notification has a method
  and no id. Faults are reported with the standard code of their class: unknown method −32601, parameters of the wrong shape
  or missing −32602, unparsable input −32700 or an HTTP 4xx, handler failure (an error, or a result that cannot be encoded)
  −32603 with the handler's message; an input the server does not serve is answered with a non-2xx status or a JSON-RPC error
  object, never with an empty or successful 2xx.

  The oracle is `Mcp.RpcSpec.wfMsg request? message`, written from the two specifications (it only looks members up in the
  emitted JSON; it shares nothing with the encoders). The model is `Mcp.Rpc` (see there). The harness feeds every captured
  frame to the very same `wfMsg`.

  FULL statements and what the current tree makes of them:

  * (wf)  ∀ configuration, registry, input: every message of the reaction satisfies `wfMsg`.
    FALSE. Proved: `C03_wf_streamable_partial`, `C03_wf_sse_partial`, `C03_wf_stdio_partial` under
      - `reg.Conforming`: handlers return non-nil slices (else `"content": null` etc., D07:
        `C03_null_slice_counterexample`) and no embedded resource (the encoder writes the type tag "embedded_resource", the
        schema says "resource": `C03_embedded_type_counterexample`); descriptors carry an object schema;
      - `idsExact`: integer ids are within ±2^53 (beyond, the id comes back as the float64 it was decoded into:
        `C03_id_rounded_counterexample`);
      - legacy SSE `readableEnvelope` / stdio `stdioAnswerable`: otherwise the error answer has no `id` member at all
        (D11: `C03_error_without_id_counterexample`).
  * (codes) each fault class gets its code. Proved for every registry and every request that reaches the dispatchers:
    `C03_codes_unknown_method` (−32601), `C03_codes_bad_params` (−32602), `C03_codes_handler_error_*` (−32603 with the
    handler's text inside the message), `C03_codes_unparsable` (400 on Streamable, −32700 on legacy SSE); and end to end
    on all three servers for well-formed envelopes: `C03_codes_served`. FALSE for: a result that cannot be encoded (empty
    200 / nothing at all instead of −32603, D08: `C03_unencodable_counterexample`) and unparsable stdio lines (silence,
    D11: `C03_never_silent_stdio_counterexample`). `C03_codes_fact` (T-gen) pins the code literal of every error branch in
    the source to the model's.
  * (never silent) FALSE for: a wrong path on Streamable (D09), an id without method / result / error on both HTTP servers
    (D10), everything stdio drops (D11), unencodable results (D08) — `C03_never_silent_counterexample`; proved otherwise:
    `C03_never_silent_streamable_partial`, `C03_never_silent_sse_partial`, `C03_never_silent_stdio_partial`,
    `C03_request_answered`.
-/
import Mcp.Lemmas.Rpc
import Mcp.Gen.RpcFacts
namespace Mcp.Props.C03
open Mcp.Str Mcp.Json Mcp.Content Mcp.RpcSpec Mcp.Rpc Mcp.Session

/-! ## well-formedness -/

/-- Streamable HTTP — every mode, every verb, path, session reference, Accept header, body: every JSON-RPC message in the
    answer is well-formed with respect to the request (HTTP-level refusals carry no JSON-RPC message). -/
theorem C03_wf_streamable_partial (c : SCfg) (reg : Registry) (st : St) (i : HttpIn) (hreg : reg.Conforming)
    (hid : idsExact i.body.json?) : ∀ m ∈ (serveStreamable c reg st i).2.messages, wfMsg i.body.json? m = true :=
  wf_serveStreamable c reg st i hreg hid

/-- legacy SSE — every verb, path, session parameter; bodies whose envelope offers an id or a method. -/
theorem C03_wf_sse_partial (reg : Registry) (i : SseIn) (hreg : reg.Conforming) (hid : idsExact i.body.json?)
    (henv : readableEnvelope i.body) : ∀ m ∈ (serveSSE reg i).messages, wfMsg i.body.json? m = true :=
  wf_serveSSE reg i hreg hid henv

/-- stdio — every line; when it is classified as a request it decodes into one with an id. -/
theorem C03_wf_stdio_partial (reg : Registry) (b : Body) (hreg : reg.Conforming) (hid : idsExact b.json?)
    (hans : stdioAnswerable b) : ∀ m ∈ (serveStdio reg b).messages, wfMsg b.json? m = true :=
  wf_serveStdio reg b hreg hid hans

/-- …and what comes out of the dispatchers has the result shape of the method whatever the request looked like. -/
theorem C03_result_shapes (reg : Registry) (hreg : reg.Conforming) (req : Req) (r : Json) :
    (dispatch reg req = .ok (.result r) → wfResult req.method r = true) ∧
    (dispatchStdio reg req = .ok (.result r) → wfResult req.method r = true) :=
  ⟨dispatch_result_wf reg hreg req r, dispatchStdio_result_wf reg hreg req r⟩

/-- D07: a handler that returns a nil slice makes the server emit `"content": null` — not an array. All three servers. -/
theorem C03_null_slice_counterexample :
    let j := demoEnv (.int 1) t!"tools/call" (some (callParams t!"nilcontent"))
    ((serveStreamable (demoCfg .stateless) demoReg {} (postOf .none false j)).2.messages.all (wfMsg (some j))) = false ∧
    ((serveSSE demoReg (ssePostOf j)).messages.all (wfMsg (some j))) = false ∧
    ((serveStdio demoReg (.json j)).messages.all (wfMsg (some j))) = false ∧
    (serveStdio demoReg (.json j)).hasResult = true := by
  decide +kernel

/-- The encoder writes embedded resources with the type tag "embedded_resource"; the MCP schema knows "resource". -/
theorem C03_embedded_type_counterexample :
    let j := demoEnv (.int 1) t!"tools/call" (some (callParams t!"embedded"))
    ((serveStreamable (demoCfg .stateless) demoReg {} (postOf .none false j)).2.messages.all (wfMsg (some j))) = false ∧
    ((serveSSE demoReg (ssePostOf j)).messages.all (wfMsg (some j))) = false ∧
    ((serveStdio demoReg (.json j)).messages.all (wfMsg (some j))) = false := by
  decide +kernel

/-- An integer id beyond 2^53 comes back as the float64 it was decoded into: 2^53 + 1 is answered as 2^53. -/
theorem C03_id_rounded_counterexample :
    let j := demoEnv (.int 9007199254740993) t!"ping" none
    wfEnvelope j = true ∧
    ((serveStreamable (demoCfg .stateless) demoReg {} (postOf .none false j)).2.messages.all (wfMsg (some j))) = false ∧
    ((serveStdio demoReg (.json j)).messages.all (wfMsg (some j))) = false ∧
    ((serveStdio demoReg (.json j)).messages.all (wfMsg (some (demoEnv (.int 9007199254740992) t!"ping" none)))) = true := by
  decide +kernel

/-- D11: where no id can be read the error answer must carry `"id": null`; legacy SSE (unparsable body, unreadable
    envelope, neither id nor method) and stdio (typed decode failure) leave the member out. -/
theorem C03_error_without_id_counterexample :
    ((serveSSE demoReg ⟨.post, .message, .live, .parseFail⟩).messages.all (wfMsg none)) = false ∧
    (serveSSE demoReg ⟨.post, .message, .live, .parseFail⟩).errorCode = some (-32700) ∧
    ((serveSSE demoReg (ssePostOf (.obj []))).messages.all (wfMsg (some (.obj [])))) = false ∧
    (let j : Json := .obj [(t!"jsonrpc", .str t!"2.0"), (t!"id", .int 1), (t!"method", .int 5)]
     ((serveStdio demoReg (.json j)).messages.all (wfMsg (some j))) = false ∧ (serveStdio demoReg (.json j)).errorCode = some (-32700)) := by
  decide +kernel

/-! ## codes -/

/-- unknown method → −32601, from the table and from the switch, whatever the parameters -/
theorem C03_codes_unknown_method (reg : Registry) (req : Req) :
    (req.method ∉ tableMethods → (dispatch reg req).ans?.bind Ans.code? = some (-32601)) ∧
    (req.method ∉ stdioMethods → (dispatchStdio reg req).ans?.bind Ans.code? = some (-32601)) := by
  constructor
  · intro h; rw [dispatch_unknown reg req h]; rfl
  · intro h; rw [dispatchStdio_unknown reg req h]; rfl

/-- missing or wrongly shaped REQUIRED parameters → −32602, from the table and from the switch: for every registry and every
    decoded request (any JSON value, or none, as `params`). -/
theorem C03_codes_bad_params (reg : Registry) (req : Req) (h : badParams reg req.method req.params = true) :
    (dispatch reg req).ans?.bind Ans.code? = some (-32602) ∧ (dispatchStdio reg req).ans?.bind Ans.code? = some (-32602) :=
  dispatch_bad_params reg req h

/-- handler failure → −32603 and the handler's text is inside the message (tools: after the "tool execution failed" prefix) -/
theorem C03_codes_handler_error_tool (tool : ToolEntry) (a : Option Obj) (msg : Text) (h : tool.run a = .goErr msg) :
    (runTool tool a).code? = some (-32603) ∧ ∃ t, (runTool tool a).text? = some t ∧ Mcp.Str.contains t msg = true :=
  runTool_goErr tool a msg h

theorem C03_codes_handler_error_prompt (p : PromptEntry) (a : List (Text × Text)) (msg : Text) (h : p.run a = .goErr msg) :
    (runPrompt p a).code? = some (-32603) ∧ ∃ t, (runPrompt p a).text? = some t ∧ Mcp.Str.contains t msg = true :=
  runPrompt_goErr p a msg h

theorem C03_codes_handler_error_resource (r : ResEntry) (a : Option Obj) (msg : Text) (h : r.run a = .goErr msg) :
    (runResource r a).code? = some (-32603) ∧ ∃ t, (runResource r a).text? = some t ∧ Mcp.Str.contains t msg = true :=
  runResource_goErr r a msg h

/-- unparsable input: HTTP 400 on Streamable (any mode / session), a −32700 error object on legacy SSE -/
theorem C03_codes_unparsable (c : SCfg) (reg : Registry) (st : St) (ref : Ref) (acc : Bool) :
    (serveStreamable c reg st ⟨.post, true, ref, acc, .parseFail⟩).2.status = some 400 ∧
    (serveSSE reg ⟨.post, .message, .live, .parseFail⟩).errorCode = some (-32700) := by
  constructor
  · simp [serveStreamable, Reaction.http, Reaction.status]
  · simp [serveSSE, serveSSEMessage, Reaction.http, Reaction.errorCode, Reaction.outcome, Reaction.messages, normMsg, errMsg, lookup,
      jsonrpcField, codeParse]

/-- End to end, all three servers: for a well-formed envelope in an accepted session the code the dispatcher chose is the
    code on the wire — so unknown methods are answered −32601 and bad parameters −32602 by Streamable HTTP (every mode),
    legacy SSE and stdio. -/
theorem C03_codes_served (reg : Registry) (o mm : Obj) (hwf : wfEnvelope (.obj o) = true) (hrep : goDecodeFields o = some mm)
    (m : Text) (hm : lookup o t!"method" = some (.str m)) (hne : m ≠ [])
    (c : SCfg) (st : St) (ref : Ref) (acc : Bool) (hs : sessionOk c st ref m) :
    (m ∉ tableMethods →
      (serveStreamable c reg st (postOf ref acc (.obj o))).2.errorCode = some (-32601) ∧
      (serveSSE reg (ssePostOf (.obj o))).errorCode = some (-32601) ∧ (serveStdio reg (.json (.obj o))).errorCode = some (-32601)) ∧
    (badParams reg m (paramsOf mm) = true →
      (serveStreamable c reg st (postOf ref acc (.obj o))).2.errorCode = some (-32602) ∧
      (serveSSE reg (ssePostOf (.obj o))).errorCode = some (-32602) ∧ (serveStdio reg (.json (.obj o))).errorCode = some (-32602)) := by
  obtain ⟨id', h1, h2⟩ := serve_normal_form reg o mm hwf hrep m hm hne c st ref acc hs
  constructor
  · intro hu
    have hu' : m ∉ stdioMethods := by
      intro hmem; apply hu
      simp [stdioMethods] at hmem
      rcases hmem with h | h | h | h | h | h | h | h <;> subst h <;> decide
    obtain ⟨e1, e2⟩ := h1 _ (dispatch_unknown reg ⟨some id', m, paramsOf mm⟩ hu)
    have e3 := h2 _ (dispatchStdio_unknown reg ⟨some id', m, paramsOf mm⟩ hu')
    rw [e1, e2, e3]
    exact ⟨errorCode_http _ _ _ _, errorCode_frames _ _ _ _, errorCode_frames _ _ _ _⟩
  · intro hb
    obtain ⟨b1, b2⟩ := dispatch_bad_params reg ⟨some id', m, paramsOf mm⟩ hb
    cases hd : dispatch reg ⟨some id', m, paramsOf mm⟩ with
    | panic => simp [hd, Outcome.ans?] at b1
    | ok a =>
      cases hd' : dispatchStdio reg ⟨some id', m, paramsOf mm⟩ with
      | panic => simp [hd', Outcome.ans?] at b2
      | ok a' =>
        obtain ⟨e1, e2⟩ := h1 a hd
        have e3 := h2 a' hd'
        rw [e1, e2, e3]
        cases a <;> simp [hd, Outcome.ans?, Ans.code?] at b1
        cases a' <;> simp [hd', Outcome.ans?, Ans.code?] at b2
        subst b1; subst b2
        exact ⟨errorCode_http _ _ _ _, errorCode_frames _ _ _ _, errorCode_frames _ _ _ _⟩

/-- D08: a result `json.Marshal` refuses is not reported at all — Streamable answers 200 with an empty body, legacy SSE
    accepts with 202 and sends nothing, stdio writes nothing (the statement asks for −32603). -/
theorem C03_unencodable_counterexample :
    let j := demoEnv (.int 1) t!"tools/call" (some (callParams t!"chan"))
    let r := (serveStreamable (demoCfg .stateless) demoReg {} (postOf .none false j)).2
    r.status = some 200 ∧ r.messages.length = 0 ∧
    (serveSSE demoReg (ssePostOf j)).status = some 202 ∧ (serveSSE demoReg (ssePostOf j)).messages.length = 0 ∧
    (serveStdio demoReg (.json j)).messages.length = 0 := by
  decide +kernel

/-- T-gen: the code literal of every error answer built on the request path is the one the model uses in that branch. -/
theorem C03_codes_fact : Mcp.Gen.rpcErrorCodes = modelledErrorCodes := by decide

/-! ## never silent -/

/-- Streamable HTTP, right path: a body that is not a JSON-RPC message gets an HTTP error status; an unknown verb gets 405. -/
theorem C03_never_silent_streamable_partial (c : SCfg) (reg : Registry) (st : St) (ref : Ref) (acc : Bool) (b : Body) :
    (Malformed b → (serveStreamable c reg st ⟨.post, true, ref, acc, b⟩).2.answeredWithError = true) ∧
    (serveStreamable c reg st ⟨.other, true, ref, acc, b⟩).2.status = some 405 :=
  ⟨answered_streamable c reg st ref acc b, by simp [serveStreamable, Reaction.http, Reaction.status]⟩

/-- legacy SSE, message endpoint: a body that is not a JSON-RPC message gets an HTTP error status or a JSON-RPC error object;
    every other path gets 404. -/
theorem C03_never_silent_sse_partial (reg : Registry) (verb : Verb) (ref : SseRef) (b : Body) :
    (Malformed b → (serveSSE reg ⟨verb, .message, ref, b⟩).answeredWithError = true) ∧
    (serveSSE reg ⟨verb, .other, ref, b⟩).status = some 404 :=
  ⟨answered_sse reg verb ref b, by simp [serveSSE, Reaction.http, Reaction.status]⟩

/-- stdio: a line that is classified as a request but does not decode into one is answered (−32700). -/
theorem C03_never_silent_stdio_partial (reg : Registry) (j : Json) (hc : classifyStdio j = some .request)
    (hd : decodeRequest j = none) : (serveStdio reg (.json j)).answeredWithError = true :=
  answered_stdio reg j hc hd

/-- A request with a well-formed envelope in an accepted session always gets exactly one message back, on every server —
    unless the handler's result cannot be encoded (D08). -/
theorem C03_request_answered (reg : Registry) (o mm : Obj) (hwf : wfEnvelope (.obj o) = true) (hrep : goDecodeFields o = some mm)
    (m : Text) (hm : lookup o t!"method" = some (.str m)) (hne : m ≠ [])
    (c : SCfg) (st : St) (ref : Ref) (acc : Bool) (hs : sessionOk c st ref m) :
    ∃ id', (∀ a, dispatch reg ⟨some id', m, paramsOf mm⟩ = .ok a → (ansMsg (some id') a).isSome = true →
        (serveStreamable c reg st (postOf ref acc (.obj o))).2.messages.length = 1 ∧ (serveSSE reg (ssePostOf (.obj o))).messages.length = 1) ∧
      (∀ a, dispatchStdio reg ⟨some id', m, paramsOf mm⟩ = .ok a → (ansMsg (some id') a).isSome = true →
        (serveStdio reg (.json (.obj o))).messages.length = 1) := by
  obtain ⟨id', h1, h2⟩ := serve_normal_form reg o mm hwf hrep m hm hne c st ref acc hs
  refine ⟨id', ?_, ?_⟩
  · intro a ha hs
    obtain ⟨e1, e2⟩ := h1 a ha
    obtain ⟨msg, hmsg⟩ := Option.isSome_iff_exists.mp hs
    rw [e1, e2, hmsg]
    simp [Reaction.http, Reaction.messages]
  · intro a ha hs
    obtain ⟨msg, hmsg⟩ := Option.isSome_iff_exists.mp hs
    rw [h2 a ha, hmsg]
    simp [Reaction.messages]

/-- The inputs that ARE left without an answer today: a wrong path (D09: implicit empty 200) and an id without method /
    result / error (D10: empty 202) on Streamable; the same id-only message on legacy SSE; on stdio an unparsable line, a
    non-object, a missing version, a message with neither id nor method (D11: nothing is written). -/
theorem C03_never_silent_counterexample :
    let idOnly : Json := .obj [(t!"jsonrpc", .str t!"2.0"), (t!"id", .int 5)]
    let wrongPath := (serveStreamable (demoCfg .stateful) demoReg demoSt ⟨.post, false, .sid 0, false, .json (demoEnv (.int 1) t!"ping" none)⟩).2
    let r := (serveStreamable (demoCfg .stateful) demoReg demoSt (postOf (.sid 0) false idOnly)).2
    let r' := serveSSE demoReg (ssePostOf idOnly)
    wrongPath.status = some 200 ∧ wrongPath.messages.length = 0 ∧
    r.status = some 202 ∧ r.messages.length = 0 ∧ r'.status = some 202 ∧ r'.messages.length = 0 ∧
    (serveStdio demoReg .parseFail).messages.length = 0 ∧ (serveStdio demoReg (.json (.arr []))).messages.length = 0 ∧
    (serveStdio demoReg (.json (.obj [(t!"id", .int 1), (t!"method", .str t!"ping")]))).messages.length = 0 ∧
    (serveStdio demoReg (.json (.obj [(t!"jsonrpc", .str t!"2.0")]))).messages.length = 0 := by
  decide +kernel

/-! ## non-vacuity -/

/-- the demo registry restricted to its conforming tools satisfies `Conforming`, and a call goes through all three servers
    with a well-formed answer -/
example :
    let reg : Registry := ⟨t!"srv", t!"1", [demoEcho, demoBoom, demoChan], [demoPrompt], [demoResource]⟩
    let j := demoEnv (.str t!"a") t!"tools/call" (some (callParams t!"echo"))
    ((serveStreamable (demoCfg .stateful true) reg demoSt (postOf (.sid 0) true j)).2.messages.all (wfMsg (some j))) = true ∧
    (serveStreamable (demoCfg .stateful true) reg demoSt (postOf (.sid 0) true j)).2.hasResult = true ∧
    ((serveSSE reg (ssePostOf j)).messages.all (wfMsg (some j))) = true ∧ ((serveStdio reg (.json j)).messages.all (wfMsg (some j))) = true ∧
    (serveStdio reg (.json (demoEnv (.int 2) t!"tools/call" (some (callParams t!"boom"))))).errorCode = some (-32603) := by
  decide +kernel

example : Registry.Conforming ⟨t!"srv", t!"1", [demoEcho, demoBoom, demoChan], [demoPrompt], [demoResource]⟩ := by
  refine ⟨?_, ?_, ?_, ?_⟩
  · intro t ht
    simp at ht
    rcases ht with rfl | rfl | rfl <;> exact ⟨_, rfl, rfl⟩
  · intro t ht a r hr
    simp at ht
    rcases ht with rfl | rfl | rfl <;> simp [demoEcho, demoBoom, demoChan] at hr
    subst hr
    exact ⟨_, rfl, by simp [isEmbedded]⟩
  · intro p hp a r hr
    simp at hp; subst hp
    simp [demoPrompt] at hr; subst hr
    exact ⟨_, rfl, by simp [roleOk, isEmbedded]⟩
  · intro e he a cs hr
    simp at he; subst he
    simp [demoResource] at hr; subst hr; rfl

/-- `badParams` is not vacuous: each of the four methods has parameters it rejects and parameters it accepts -/
example :
    badParams demoReg t!"tools/call" (some (.obj [(t!"name", .int 5)])) = true ∧
    badParams demoReg t!"tools/call" (some (.obj [(t!"name", .str t!"echo"), (t!"arguments", .arr [])])) = true ∧
    badParams demoReg t!"tools/call" (some (callParams t!"echo")) = false ∧
    badParams demoReg t!"prompts/get" none = true ∧ badParams demoReg t!"prompts/get" (some (.obj [(t!"name", .str t!"p")])) = false ∧
    badParams demoReg t!"resources/read" (some (.obj [(t!"uri", .null)])) = true ∧
    badParams demoReg t!"initialize" (some (.obj [(t!"protocolVersion", .str t!"2025-03-26")])) = false ∧
    badParams demoReg t!"initialize" (some (.str t!"x")) = true ∧ badParams demoReg t!"ping" none = false := by
  decide +kernel

end Mcp.Props.C03
