/-
  C02 — What a handler returns is what the caller receives (wire fidelity).

  Encoding (`json.Marshal` over the struct tags) and decoding (the hand-written walkers) are separate code; the theorems
  say, for *all* values, where `decode ∘ encode` is the identity (up to nil-vs-empty), characterise that fragment exactly
  by the decidable predicate `supported…`, and exhibit one concrete counterexample for every construct that is lost.
  Below that: string escaping is invertible and never leaves a raw line break, an SSE event written by `WriteEvent` is
  read back by any conforming reader, and by the library's own per-line reader, as the one JSON text that went in.
-/
import Mcp.Model.Content
import Mcp.Model.Escape
namespace Mcp.Props.C02
open Mcp.Str Mcp.Json Mcp.Content Mcp.Escape

/-! ## the statement -/

/-- the identifications the property allows: an empty list is a nil list, a JSON `null` is no structured content -/
def normResult (r : CallToolResult) : CallToolResult :=
  { r with
    content := match r.content with
      | some [] => none
      | c => c,
    structured := nullAsNil r.structured }

/-- **C02 for tool results as stated**: every result a handler can build comes back as it was.
    False of the code under study (see the counterexamples); `C02_roundtrip_iff` says exactly where it holds. -/
def C02_roundtrip : Prop := ∀ r : CallToolResult, parseResult (encodeResult r) = .ok (normResult r)

/-- what `parseContent` can take back: non-empty text, images with data and a MIME type — no annotations, no audio,
    no embedded resource -/
def supportedContent : Content → Bool
  | .text s none => !s.isEmpty
  | .image d m none => !d.isEmpty && !m.isEmpty
  | _ => false

def supportedResult (r : CallToolResult) : Bool :=
  match r.content with
  | none => true
  | some cs => cs.all supportedContent

/-! ## content items -/

private theorem isEmpty_false {s : Text} (h : (!s.isEmpty) = true) : s ≠ [] := by
  cases s <;> simp_all

private theorem parseContent_text' (s : Text) (rest : Obj) :
    parseContent ((t!"type", .str tagText) :: (t!"text", .str s) :: rest)
      = if s = [] then .error .textMissing else .ok (.text s none) := by
  simp [parseContent, extractString, lookup, tagText]

private theorem parseContent_image' (d m : Text) (rest : Obj) :
    parseContent ((t!"type", .str tagImage) :: (t!"data", .str d) :: (t!"mimeType", .str m) :: rest)
      = if d = [] ∨ m = [] then .error .imageMissing else .ok (.image d m none) := by
  simp [parseContent, extractString, lookup, tagImage]

private theorem parseContent_text (s : Text) (rest : Obj) (h : s ≠ []) :
    parseContent ((t!"type", .str tagText) :: (t!"text", .str s) :: rest) = .ok (.text s none) := by
  simp [parseContent_text', h]

private theorem parseContent_image (d m : Text) (rest : Obj) (hd : d ≠ []) (hm : m ≠ []) :
    parseContent ((t!"type", .str tagImage) :: (t!"data", .str d) :: (t!"mimeType", .str m) :: rest) = .ok (.image d m none) := by
  simp [parseContent_image', hd, hm]

/-- the object `encodeContent` builds (it always builds an object) -/
def contentObj : Content → Obj
  | .text s a => [(t!"type", .str tagText), (t!"text", .str s)] ++ annField a
  | .image d m a => [(t!"type", .str tagImage), (t!"data", .str d), (t!"mimeType", .str m)] ++ annField a
  | .audio d m a => [(t!"type", .str tagAudio), (t!"data", .str d), (t!"mimeType", .str m)] ++ annField a
  | .embedded r a => [(t!"resource", encodeResourceContents r), (t!"type", .str tagEmbedded)] ++ annField a

private theorem encodeContent_obj (c : Content) : encodeContent c = .obj (contentObj c) := by
  cases c <;> rfl

/-- **one item**: a supported item decodes to itself -/
theorem C02_content_roundtrip (c : Content) (h : supportedContent c = true) :
    parseContent (contentObj c) = .ok c := by
  cases c with
  | text s a =>
    cases a with
    | none => exact parseContent_text s [] (isEmpty_false (by simpa [supportedContent] using h))
    | some a => simp [supportedContent] at h
  | image d m a =>
    cases a with
    | none =>
      simp only [supportedContent, Bool.and_eq_true] at h
      exact parseContent_image d m [] (isEmpty_false h.1) (isEmpty_false h.2)
    | some a => simp [supportedContent] at h
  | audio d m a => simp [supportedContent] at h
  | embedded r a => simp [supportedContent] at h

/-- **one item, converse**: an unsupported item is rejected or comes back different -/
theorem C02_content_unsupported (c : Content) (h : supportedContent c = false) :
    parseContent (contentObj c) ≠ .ok c := by
  cases c with
  | text s a =>
    cases a with
    | none =>
      have hs : s = [] := by cases s <;> simp_all [supportedContent]
      subst hs
      simp [contentObj, annField, parseContent_text']
    | some a =>
      simp only [contentObj, annField, List.cons_append, List.nil_append, parseContent_text']
      split <;> simp
  | image d m a =>
    cases a with
    | none =>
      have hs : d = [] ∨ m = [] := by
        cases d <;> cases m <;> simp_all [supportedContent]
      simp [contentObj, annField, parseContent_image', hs]
    | some a =>
      simp only [contentObj, annField, List.cons_append, List.nil_append, parseContent_image']
      split <;> simp
  | audio d m a =>
    simp [contentObj, parseContent, extractString, tagAudio]
  | embedded r a =>
    simp [contentObj, parseContent, extractString, lookup, tagEmbedded]

/-! ## lists of items -/

private theorem parseContents_cons (c : Content) (rest : List Content) :
    parseContents ((c :: rest).map encodeContent) =
      match parseContent (contentObj c) with
      | .error e => .error e
      | .ok c' =>
        match parseContents (rest.map encodeContent) with
        | .error e => .error e
        | .ok cs => .ok (c' :: cs) := by
  simp only [List.map_cons, encodeContent_obj, parseContents]
  cases parseContent (contentObj c) <;> rfl

/-- **every list, both directions**: the loop of `parseCallToolResult` gives the list back iff every item is supported -/
theorem C02_contents_roundtrip_iff (cs : List Content) :
    parseContents (cs.map encodeContent) = .ok cs ↔ cs.all supportedContent = true := by
  induction cs with
  | nil => simp [parseContents]
  | cons c rest ih =>
    rw [parseContents_cons]
    constructor
    · intro h
      cases hc : parseContent (contentObj c) with
      | error e => simp [hc] at h
      | ok c' =>
        cases hr : parseContents (rest.map encodeContent) with
        | error e => simp [hc, hr] at h
        | ok cs' =>
          simp only [hc, hr, Except.ok.injEq, List.cons.injEq] at h
          obtain ⟨h1, h2⟩ := h
          subst h1 h2
          have hs : supportedContent c' = true := by
            cases hsc : supportedContent c' with
            | true => rfl
            | false => exact absurd hc (C02_content_unsupported c' hsc)
          simp [hs, ih.mp hr]
    · intro h
      simp only [List.all_cons, Bool.and_eq_true] at h
      simp [C02_content_roundtrip c h.1, ih.mpr h.2]

/-! ## tool results -/

/-- `decode ∘ encode` on a tool result, in closed form: everything but the content list always survives -/
private theorem parseResult_encode (r : CallToolResult) :
    parseResult (encodeResult r) =
      match r.content with
      | none => .ok ⟨r.metaMap, none, nullAsNil r.structured, r.isError⟩
      | some cs =>
        match parseContents (cs.map encodeContent) with
        | .error e => .error e
        | .ok cs' => .ok ⟨r.metaMap, sliceOf cs', nullAsNil r.structured, r.isError⟩ := by
  obtain ⟨mm, content, st, ie⟩ := r
  cases mm <;> cases content <;> cases ie <;> cases st <;>
    simp [parseResult, encodeResult, asMapTarget, metaField, structuredField, optField, sliceJson, extractMap, lookup,
      nullAsNil]
  all_goals (cases parseContents _ <;> rfl)

/-- **C02, tool results, exact characterisation**: `decode (encode r)` is `r` (up to nil-vs-empty) **iff** every content
    item is a non-empty text or a complete image without annotations — for all lists, strings, structured values. -/
theorem C02_roundtrip_iff (r : CallToolResult) :
    parseResult (encodeResult r) = .ok (normResult r) ↔ supportedResult r = true := by
  rw [parseResult_encode]
  obtain ⟨mm, content, st, ie⟩ := r
  cases content with
  | none => simp [normResult, supportedResult]
  | some cs =>
    simp only [supportedResult, ← C02_contents_roundtrip_iff]
    cases hp : parseContents (cs.map encodeContent) with
    | error e => simp
    | ok cs' =>
      simp only [normResult, Except.ok.injEq, CallToolResult.mk.injEq, true_and, and_true]
      constructor
      · intro h
        cases cs' with
        | nil =>
          -- the decoder produced nothing: then there was nothing to decode
          cases cs with
          | nil => rfl
          | cons c rest =>
            rw [parseContents_cons] at hp
            cases h1 : parseContent (contentObj c) with
            | error e => simp [h1] at hp
            | ok c' =>
              cases h2 : parseContents (rest.map encodeContent) with
              | error e => simp [h1, h2] at hp
              | ok r' => simp [h1, h2] at hp
        | cons c' rest' =>
          cases cs with
          | nil => simp [sliceOf] at h
          | cons c rest => simp only [sliceOf, Option.some.injEq] at h; rw [h]
      · intro h
        cases h
        cases cs <;> rfl

/-- **C02 on the supported fragment** (the direction a user relies on) -/
theorem C02_roundtrip_partial (r : CallToolResult) (h : supportedResult r = true) :
    parseResult (encodeResult r) = .ok (normResult r) :=
  (C02_roundtrip_iff r).mpr h

/-- whenever the client accepts what the server sent, the error flag, the structured content and `_meta` are the
    handler's — for every result, supported or not, and every structured value -/
theorem C02_flags_and_structured_survive (r r' : CallToolResult) (h : parseResult (encodeResult r) = .ok r') :
    r'.isError = r.isError ∧ r'.structured = nullAsNil r.structured ∧ r'.metaMap = r.metaMap := by
  rw [parseResult_encode] at h
  cases hc : r.content with
  | none => simp only [hc, Except.ok.injEq] at h; subst h; exact ⟨rfl, rfl, rfl⟩
  | some cs =>
    simp only [hc] at h
    cases hp : parseContents (cs.map encodeContent) with
    | error e => simp [hp] at h
    | ok cs' => simp only [hp, Except.ok.injEq] at h; subst h; exact ⟨rfl, rfl, rfl⟩

/-! ### where it fails: one concrete witness per construct -/

/-- `NewTextContent("")` — "text is missing" -/
theorem C02_empty_text_counterexample :
    parseResult (encodeResult ⟨[], some [.text [] none], none, false⟩) = .error .textMissing := by rfl

/-- `NewImageContent("", "image/png")` — "image data or mimeType is missing" -/
theorem C02_empty_image_counterexample :
    parseResult (encodeResult ⟨[], some [.image [] t!"image/png" none], none, false⟩) = .error .imageMissing := by rfl

/-- `NewAudioContent(…)` — the decoder's switch has no "audio" case -/
theorem C02_audio_counterexample :
    parseResult (encodeResult ⟨[], some [.audio t!"UklGRg==" t!"audio/wav" none], none, false⟩)
      = .error (.unsupportedType t!"audio") := by rfl

/-- `NewEmbeddedResource(…)` writes `"type":"embedded_resource"`, the decoder (and the MCP schema) say `"resource"` -/
theorem C02_embedded_type_tag_counterexample :
    parseResult (encodeResult ⟨[], some [.embedded (.text t!"file:///a" t!"text/plain" t!"body") none], none, false⟩)
      = .error (.unsupportedType t!"embedded_resource") := by rfl

/-- annotations are accepted and silently dropped: the caller gets a different value -/
theorem C02_annotations_counterexample :
    parseResult (encodeResult ⟨[], some [.text t!"x" (some ⟨[t!"user"], ⟨5, 1⟩⟩)], none, false⟩)
      = .ok ⟨[], some [.text t!"x" none], none, false⟩ := by rfl

/-- one bad item poisons the whole result: the good items are lost with it -/
theorem C02_one_bad_item_counterexample :
    parseResult (encodeResult ⟨[], some [.text t!"fine" none, .text [] none, .image t!"aGk=" t!"image/png" none], none, true⟩)
      = .error .textMissing := by rfl

/-- hence the property as stated is false of this code -/
theorem C02_roundtrip_fails : ¬ C02_roundtrip := by
  intro h
  have := (C02_roundtrip_iff ⟨[], some [.text [] none], none, false⟩).mp (h _)
  simp [supportedResult, supportedContent] at this

/-- latent behind the type tag: even under the tag the decoder expects, an embedded text resource with empty text
    (or a blob with empty payload) is refused — "unsupported resource type" -/
theorem C02_embedded_latent_empty_text :
    parseContent [(t!"type", .str t!"resource"), (t!"resource", .obj [(t!"uri", .str t!"file:///a"), (t!"text", .str [])])]
      = .error .unsupportedResource := by rfl

/-- … whereas a non-empty one is taken under that tag (so the tag is the only obstacle for those) -/
theorem C02_embedded_under_schema_tag (uri mime text : Text) (hu : uri ≠ []) (ht : text ≠ []) :
    parseContent [(t!"resource", encodeResourceContents (.text uri mime text)), (t!"type", .str t!"resource")]
      = .ok (.embedded (.text uri mime text) none) := by
  cases mime <;>
    simp [parseContent, extractString, extractMap, lookup, encodeResourceContents, optField, parseResourceContents, hu, ht]

/-! ### non-vacuity -/

example : supportedResult ⟨[(t!"k", .int 1)], some [.text t!"line1\nline2" none, .image t!"aGk=" t!"image/png" none, .text t!"z" none],
    some (.obj [(t!"a", .arr [.int 1, .null, .str t!"s"])]), true⟩ = true := by rfl

example : parseResult (encodeResult ⟨[(t!"k", .int 1)], some [.text t!"line1\nline2" none, .image t!"aGk=" t!"image/png" none],
    some (.obj [(t!"a", .null)]), true⟩)
  = .ok ⟨[(t!"k", .int 1)], some [.text t!"line1\nline2" none, .image t!"aGk=" t!"image/png" none], some (.obj [(t!"a", .null)]), true⟩ := by
  rfl

/-! ## prompt results (`encoding/json` struct decoding + `PromptMessage.UnmarshalJSON` → `parseContent`) -/

/-- **C02 for prompts as stated** (no normalisation needed: `encoding/json` keeps nil and empty lists apart) -/
def C02_prompt_roundtrip : Prop := ∀ r : GetPromptResult, parseGetPrompt (encodeGetPrompt r) = .ok r

def supportedMessage (m : PromptMessage) : Bool :=
  match m.content with
  | none => true
  | some c => supportedContent c

def supportedPrompt (r : GetPromptResult) : Bool :=
  match r.messages with
  | none => true
  | some ms => ms.all supportedMessage

private theorem parsePromptMessage_encode (m : PromptMessage) :
    parsePromptMessage (encodePromptMessage m) =
      match m.content with
      | none => .ok m
      | some c =>
        match parseContent (contentObj c) with
        | .error e => .error (.promptContent e)
        | .ok c' => .ok ⟨m.role, some c'⟩ := by
  obtain ⟨role, content⟩ := m
  cases content with
  | none => simp [parsePromptMessage, encodePromptMessage, encodeContentOpt, lookup]
  | some c =>
    simp only [parsePromptMessage, encodePromptMessage, encodeContentOpt, encodeContent_obj]
    simp [lookup]
    cases parseContent (contentObj c) <;> rfl

/-- one message: it comes back iff its content is supported; role strings are arbitrary -/
theorem C02_message_roundtrip_iff (m : PromptMessage) :
    parsePromptMessage (encodePromptMessage m) = .ok m ↔ supportedMessage m = true := by
  rw [parsePromptMessage_encode]
  obtain ⟨role, content⟩ := m
  cases content with
  | none => simp [supportedMessage]
  | some c =>
    simp only [supportedMessage]
    cases hs : supportedContent c with
    | true => simp [C02_content_roundtrip c hs]
    | false =>
      have := C02_content_unsupported c hs
      cases hp : parseContent (contentObj c) with
      | error e => simp
      | ok c' =>
        simp only [Except.ok.injEq, PromptMessage.mk.injEq, true_and, Option.some.injEq]
        constructor
        · intro h; subst h; exact absurd hp this
        · intro h; cases h

private theorem parsePromptMessages_iff (ms : List PromptMessage) :
    parsePromptMessages (ms.map encodePromptMessage) = .ok ms ↔ ms.all supportedMessage = true := by
  induction ms with
  | nil => simp [parsePromptMessages]
  | cons m rest ih =>
    simp only [List.map_cons, parsePromptMessages, List.all_cons, Bool.and_eq_true]
    constructor
    · intro h
      cases hm : parsePromptMessage (encodePromptMessage m) with
      | error e => simp [hm] at h
      | ok m' =>
        cases hr : parsePromptMessages (rest.map encodePromptMessage) with
        | error e => simp [hm, hr] at h
        | ok ms' =>
          simp only [hm, hr, Except.ok.injEq, List.cons.injEq] at h
          obtain ⟨h1, h2⟩ := h
          subst h1 h2
          exact ⟨(C02_message_roundtrip_iff _).mp hm, ih.mp hr⟩
    · intro h
      simp [(C02_message_roundtrip_iff m).mpr h.1, ih.mpr h.2]

private theorem parseGetPrompt_encode (r : GetPromptResult) :
    parseGetPrompt (encodeGetPrompt r) =
      match r.messages with
      | none => .ok r
      | some ms =>
        match parsePromptMessages (ms.map encodePromptMessage) with
        | .error e => .error e
        | .ok ms' => .ok ⟨r.metaMap, r.description, some ms'⟩ := by
  obtain ⟨mm, desc, msgs⟩ := r
  cases mm <;> cases desc <;> cases msgs <;>
    simp [parseGetPrompt, encodeGetPrompt, metaField, optField, sliceJson, lookup]
  all_goals (cases parsePromptMessages _ <;> rfl)

/-- **C02, prompt results, exact characterisation**: for every description, `_meta`, list of messages and role strings -/
theorem C02_prompt_roundtrip_iff (r : GetPromptResult) :
    parseGetPrompt (encodeGetPrompt r) = .ok r ↔ supportedPrompt r = true := by
  rw [parseGetPrompt_encode]
  obtain ⟨mm, desc, msgs⟩ := r
  cases msgs with
  | none => simp [supportedPrompt]
  | some ms =>
    simp only [supportedPrompt, ← parsePromptMessages_iff]
    cases parsePromptMessages (ms.map encodePromptMessage) with
    | error e => simp
    | ok ms' => simp

theorem C02_prompt_roundtrip_partial (r : GetPromptResult) (h : supportedPrompt r = true) :
    parseGetPrompt (encodeGetPrompt r) = .ok r :=
  (C02_prompt_roundtrip_iff r).mpr h

/-- a prompt message with empty text makes the whole `GetPrompt` call fail -/
theorem C02_prompt_empty_text_counterexample :
    parseGetPrompt (encodeGetPrompt ⟨[], t!"d", some [⟨t!"user", some (.text t!"q" none)⟩, ⟨t!"assistant", some (.text [] none)⟩]⟩)
      = .error (.promptContent .textMissing) := by rfl

theorem C02_prompt_audio_counterexample :
    parseGetPrompt (encodeGetPrompt ⟨[], [], some [⟨t!"user", some (.audio t!"UklGRg==" t!"audio/wav" none)⟩]⟩)
      = .error (.promptContent (.unsupportedType t!"audio")) := by rfl

theorem C02_prompt_embedded_counterexample :
    parseGetPrompt (encodeGetPrompt ⟨[], [], some [⟨t!"user", some (.embedded (.blob t!"file:///a" [] t!"AAEC") none)⟩]⟩)
      = .error (.promptContent (.unsupportedType t!"embedded_resource")) := by rfl

theorem C02_prompt_annotations_counterexample :
    parseGetPrompt (encodeGetPrompt ⟨[], [], some [⟨t!"user", some (.image t!"aGk=" t!"image/png" (some ⟨[], ⟨1, 0⟩⟩))⟩]⟩)
      = .ok ⟨[], [], some [⟨t!"user", some (.image t!"aGk=" t!"image/png" none)⟩]⟩ := by rfl

theorem C02_prompt_roundtrip_fails : ¬ C02_prompt_roundtrip := by
  intro h
  have := (C02_prompt_roundtrip_iff ⟨[], [], some [⟨[], some (.text [] none)⟩]⟩).mp (h _)
  simp [supportedPrompt, supportedMessage, supportedContent] at this

/-- by-product (malformed peer, not a handler value): a `null` element in `messages` is a nil-pointer dereference in
    `PromptMessage.UnmarshalJSON`, not an error -/
theorem C02_prompt_null_message_panics :
    parseGetPrompt (.obj [(t!"messages", .arr [.null])]) = .error .panicNilDeref := by rfl

example : supportedPrompt ⟨[(t!"k", .bool true)], t!"desc", some [⟨t!"user", some (.text t!"q\r\n" none)⟩, ⟨[], none⟩,
    ⟨t!"assistant", some (.image t!"aGk=" t!"image/png" none)⟩]⟩ = true := by decide

/-! ## resource contents (`parseReadResourceResultFromJSON`: the lenient decoder) -/

private theorem parseResourceItem_encode (rc : ResourceContents) :
    ∃ m, encodeResourceContents rc = .obj m ∧ parseResourceItem m = rc := by
  cases rc with
  | text uri mime text =>
    refine ⟨_, rfl, ?_⟩
    cases mime <;> simp [parseResourceItem, extractString, lookupStr?, lookup, optField]
  | blob uri mime blob =>
    refine ⟨_, rfl, ?_⟩
    cases mime <;> simp [parseResourceItem, extractString, lookupStr?, lookup, optField]

private theorem parseResourceItems_encode (cs : List ResourceContents) :
    parseResourceItems (cs.map encodeResourceContents) = cs := by
  induction cs with
  | nil => rfl
  | cons c rest ih =>
    obtain ⟨m, hm, hp⟩ := parseResourceItem_encode c
    simp [List.map_cons, hm, parseResourceItems, hp, ih]

/-- **C02 for resource contents holds in full**: every list of text / blob contents — empty text, empty blob, empty
    URI, any MIME type, any strings — is what `ReadResource` returns (a nil and an empty list are identified). -/
theorem C02_resource_roundtrip (cs : Option (List ResourceContents)) :
    parseReadResource (encodeReadResource cs) = .ok (match cs with | some [] => none | c => c) := by
  cases cs with
  | none => simp [parseReadResource, encodeReadResource, asMapTarget, extractArray, sliceJson, lookup]
  | some l =>
    simp only [parseReadResource, encodeReadResource, asMapTarget, extractArray, sliceJson, lookup_cons_eq,
      parseResourceItems_encode]
    cases l <;> rfl

example : parseReadResource (encodeReadResource (some [.text [] [] [], .blob t!"u" t!"m" [], .text t!"u" [] t!"a\nb"]))
    = .ok (some [.text [] [] [], .blob t!"u" t!"m" [], .text t!"u" [] t!"a\nb"]) := by rfl

/-! ## tool descriptors (`parseListToolsResultFromJSON`) -/

private theorem parseToolAnnotations_encode (a : ToolAnnotations) :
    ∃ m, encodeToolAnnotations a = .obj m ∧ parseToolAnnotations m = some a := by
  refine ⟨_, rfl, ?_⟩
  obtain ⟨title, ro, de, id, ow⟩ := a
  cases title <;> cases ro <;> cases de <;> cases id <;> cases ow <;>
    simp [parseToolAnnotations, hintField, optField, optBoolField, lookup]

def schemaListable (schemaBad : Json → Bool) : Option Json → Bool
  | none => true
  | some (.obj o) => !schemaBad (.obj o)
  | some _ => false

/-- a descriptor the decoder keeps: a name, and schemas that are JSON objects kin-openapi accepts (or absent) -/
def listableTool (schemaBad : Json → Bool) (t : ToolDesc) : Bool :=
  !t.name.isEmpty && schemaListable schemaBad t.inputSchema && schemaListable schemaBad t.outputSchema

private theorem schemaListable_cases (bad : Json → Bool) (s : Option Json) (h : schemaListable bad s = true) :
    s = none ∨ ∃ o, s = some (.obj o) ∧ bad (.obj o) = false := by
  cases s with
  | none => exact Or.inl rfl
  | some j => cases j <;> simp_all [schemaListable]

private theorem parseTool_encode (bad : Json → Bool) (t : ToolDesc) (h : listableTool bad t = true) :
    ∃ m, encodeTool t = .obj m ∧ parseTool bad m = some t := by
  refine ⟨_, rfl, ?_⟩
  obtain ⟨name, desc, inS, outS, ann⟩ := t
  simp only [listableTool, Bool.and_eq_true] at h
  obtain ⟨⟨hn, hi⟩, ho⟩ := h
  have hn : name ≠ [] := isEmpty_false hn
  rcases schemaListable_cases bad inS hi with hi | ⟨io, hi, hib⟩ <;>
  rcases schemaListable_cases bad outS ho with ho | ⟨oo, ho, hob⟩ <;> subst hi ho <;>
    cases desc <;> cases ann <;>
    simp_all [parseTool, extractString, extractMap, lookup, optField]
  all_goals (
    rename_i a
    obtain ⟨m, hm, hp⟩ := parseToolAnnotations_encode a
    simp_all)

private theorem parseTools_encode (bad : Json → Bool) (ts : List ToolDesc) (h : ∀ t ∈ ts, listableTool bad t = true) :
    parseTools bad (ts.map encodeTool) = ts := by
  induction ts with
  | nil => rfl
  | cons t rest ih =>
    obtain ⟨m, hm, hp⟩ := parseTool_encode bad t (h t (by simp))
    simp only [List.map_cons, hm, parseTools, hp]
    rw [ih (fun t' ht' => h t' (by simp [ht']))]

/-- **descriptors**: the tools listed are the tools registered — names, descriptions (any string), schemas (as JSON),
    annotations (title and the four optional hints) — for every list of listable descriptors -/
theorem C02_descriptors_roundtrip (bad : Json → Bool) (ts : List ToolDesc) (h : ∀ t ∈ ts, listableTool bad t = true) :
    parseListTools bad (encodeListTools ts) = .ok (ts, []) := by
  simp [parseListTools, encodeListTools, asMapTarget, extractArray, extractString, lookup, parseTools_encode bad ts h]

/-- a tool whose schema the client-side schema library refuses vanishes from the listing without any error -/
theorem C02_descriptor_skipped_counterexample :
    parseListTools (fun _ => true) (encodeListTools [⟨t!"a", [], some (.obj [(t!"type", .int 5)]), none, none⟩, ⟨t!"b", [], none, none, none⟩])
      = .ok ([⟨t!"b", [], none, none, none⟩], []) := by rfl

example : listableTool (fun _ => false) ⟨t!"greet", t!"says <hi>", some (.obj [(t!"type", .str t!"object")]), none,
    some ⟨t!"T", some true, none, some false, none⟩⟩ = true := by rfl

/-! ## a handler's Go error -/

/-- **a handler error reaches the caller as an error that carries the handler's message** — for every message text and
    every tool name, on the three request paths (the text itself travels as a JSON string: `C02_string_fidelity`) -/
theorem C02_handler_error (p : Path) (msg : Text) : contains (clientErrorText p msg) msg = true := by
  have key : ∀ pre post : Text, contains (pre ++ msg ++ post) msg = true := by
    intro pre post
    rw [List.append_assoc]
    exact contains_append_left pre _ msg (contains_of_prefix _ _ (hasPrefix_append msg post))
  cases p with
  | tool name =>
    have := key (t!"tool call error: " ++ (t!"tool execution failed (tool: " ++ name ++ t!"): ")) (t!" (code: " ++ intText (-32603) ++ t!")")
    simpa [clientErrorText, clientPrefix, serverErrorMessage, List.append_assoc] using this
  | prompt =>
    have := key t!"get prompt error: " (t!" (code: " ++ intText (-32603) ++ t!")")
    simpa [clientErrorText, clientPrefix, serverErrorMessage, List.append_assoc] using this
  | resource =>
    have := key t!"read resource error: " (t!" (code: " ++ intText (-32603) ++ t!")")
    simpa [clientErrorText, clientPrefix, serverErrorMessage, List.append_assoc] using this

example : clientErrorText (.tool t!"echo") t!"disk full" = t!"tool call error: tool execution failed (tool: echo): disk full (code: -32603)" := by
  decide

end Mcp.Props.C02
