/-
  C02 — What a handler returns is what the caller receives (wire fidelity).

  Encoding (`json.Marshal` over the struct tags) and decoding (the hand-written walkers) are separate code; the theorems
  say, for *all* values, that `decode ∘ encode` is the identity (up to nil-vs-empty), and that the decoders still refuse
  what is malformed. Below that (`C02Wire`): string escaping is invertible and never leaves a raw line break, an SSE
  event written by `WriteEvent` is read back by any conforming reader, and by the library's own per-line reader, as the
  one JSON text that went in.

  History: on the tree first studied the full statement was false — empty text / empty image fields were refused
  ("text is missing"), `audio` had no decoder case, `NewEmbeddedResource` wrote the tag `embedded_resource` while the
  decoder only knew `resource`, embedded resources with empty text / blob / uri were refused, annotations were dropped,
  and a `null` prompt message was a nil dereference (findings `content:{text,image,audio,embedded,annotations}:*` and
  their `content:prompt-*` twins, all fixed in mcp_tools.go / mcp_prompts.go). The model below is the repaired code.
-/
import Mcp.Model.Content
import Mcp.Model.Escape
namespace Mcp.Props.C02
open Mcp.Str Mcp.Json Mcp.Content Mcp.Escape

/-! ## the statement -/

/-- the identifications the property allows: an empty list is a nil list, a JSON `null` is no structured content -/
def normResult (r : CallToolResult) : CallToolResult :=
  { r with
    content := match r.content with
      | none => none
      | some cs => sliceOf cs,
    structured := nullAsNil r.structured }

private theorem isEmpty_false {s : Text} (h : (!s.isEmpty) = true) : s ≠ [] := by
  cases s <;> simp_all

/-! ## annotations -/

private theorem parseAudience_map (aud : List Text) : parseAudience (aud.map .str) = some aud := by
  induction aud with
  | nil => rfl
  | cons a rest ih => simp [parseAudience, ih]

private theorem parseAnnotations_encode (a : Annotations) :
    ∃ m, encodeAnnotations a = .obj m ∧ parseAnnotations m = some a := by
  refine ⟨_, rfl, ?_⟩
  obtain ⟨aud, ⟨pm, pe⟩⟩ := a
  have hz : ∀ (h : Num.isZero ⟨pm, pe⟩ = true), pm = 0 ∧ pe = 0 := by
    intro h; simpa [Num.isZero] using h
  cases aud with
  | nil =>
    by_cases h : Num.isZero ⟨pm, pe⟩ = true
    · obtain ⟨h1, h2⟩ := hz h
      subst h1 h2
      simp [parseAnnotations, optField, Num.isZero]
    · cases pe with
      | zero => simp [parseAnnotations, optField, h, lookup, Num.toJson]
      | succ e => simp [parseAnnotations, optField, h, lookup, Num.toJson]
  | cons a0 rest =>
    have hp := parseAudience_map (a0 :: rest)
    simp only [List.map_cons] at hp
    by_cases h : Num.isZero ⟨pm, pe⟩ = true
    · obtain ⟨h1, h2⟩ := hz h
      subst h1 h2
      simp [parseAnnotations, optField, Num.isZero, lookup, hp]
    · cases pe with
      | zero => simp [parseAnnotations, optField, h, lookup, Num.toJson, hp]
      | succ e => simp [parseAnnotations, optField, h, lookup, Num.toJson, hp]

/-- annotations (any audience list, any priority) come back from what `annField` appends to an item's own fields -/
private theorem parseAnnotated_annField (pre : Obj) (a : Option Annotations) (hpre : lookup pre t!"annotations" = none) :
    parseAnnotated (pre ++ annField a) = a := by
  have hl : ∀ (post : Obj), lookup (pre ++ post) t!"annotations" = lookup post t!"annotations" := by
    intro post
    induction pre with
    | nil => rfl
    | cons kv rest ih =>
      obtain ⟨k, v⟩ := kv
      simp only [List.cons_append, lookup] at hpre ⊢
      split
      · next hk => simp [hk] at hpre
      · next hk => simp only [hk, if_false] at hpre; exact ih hpre
  cases a with
  | none => simp [parseAnnotated, extractMap, annField, hpre]
  | some a =>
    obtain ⟨m, hm, hp⟩ := parseAnnotations_encode a
    simp [parseAnnotated, extractMap, hl, annField, lookup, hm, hp]

/-! ## content items -/

/-- the object `encodeContent` builds (it always builds an object) -/
def contentObj : Content → Obj
  | .text s a => [(t!"type", .str tagText), (t!"text", .str s)] ++ annField a
  | .image d m a => [(t!"type", .str tagImage), (t!"data", .str d), (t!"mimeType", .str m)] ++ annField a
  | .audio d m a => [(t!"type", .str tagAudio), (t!"data", .str d), (t!"mimeType", .str m)] ++ annField a
  | .embedded r a => [(t!"resource", encodeResourceContents r), (t!"type", .str tagEmbedded)] ++ annField a

private theorem encodeContent_obj (c : Content) : encodeContent c = .obj (contentObj c) := by
  cases c <;> rfl

private theorem parseResourceContents_encode (rc : ResourceContents) :
    ∃ m, encodeResourceContents rc = .obj m ∧ parseResourceContents m = .ok rc := by
  cases rc with
  | text uri mime text =>
    refine ⟨_, rfl, ?_⟩
    cases mime <;> simp [parseResourceContents, extractString, lookupStr?, lookup, optField]
  | blob uri mime blob =>
    refine ⟨_, rfl, ?_⟩
    cases mime <;> simp [parseResourceContents, extractString, lookupStr?, lookup, optField]

/-- **one item**: every item the constructors can build — text, image, audio, embedded text / blob resource, with any
    strings (empty included) and any annotations — decodes to itself -/
theorem C02_content_roundtrip (c : Content) : parseContent (contentObj c) = .ok c := by
  cases c with
  | text s a =>
    have ha := parseAnnotated_annField [(t!"type", .str tagText), (t!"text", .str s)] a (by simp [lookup])
    cases a <;> simp_all [contentObj, parseContent, extractString, lookupStr?, lookup, tagText, annField]
  | image d m a =>
    have ha := parseAnnotated_annField [(t!"type", .str tagImage), (t!"data", .str d), (t!"mimeType", .str m)] a (by simp [lookup])
    cases a <;> simp_all [contentObj, parseContent, extractString, lookupStr?, lookup, tagImage, annField]
  | audio d m a =>
    have ha := parseAnnotated_annField [(t!"type", .str tagAudio), (t!"data", .str d), (t!"mimeType", .str m)] a (by simp [lookup])
    cases a <;> simp_all [contentObj, parseContent, extractString, lookupStr?, lookup, tagAudio, annField]
  | embedded r a =>
    have ha := parseAnnotated_annField [(t!"resource", encodeResourceContents r), (t!"type", .str tagEmbedded)] a (by simp [lookup])
    obtain ⟨m, hm, hp⟩ := parseResourceContents_encode r
    cases a <;> simp_all [contentObj, parseContent, extractString, extractMap, lookup, tagEmbedded, annField]

/-! ## lists of items -/

private theorem parseContents_encode (cs : List Content) : parseContents (cs.map encodeContent) = .ok cs := by
  induction cs with
  | nil => rfl
  | cons c rest ih =>
    simp only [List.map_cons, encodeContent_obj, parseContents, C02_content_roundtrip c]
    rw [ih]

/-! ## tool results -/

/-- **C02 for tool results, in full**: every result a handler can build — any sequence of text, image, audio and
    embedded-resource items with arbitrary strings and annotations, the error flag, any structured content, any `_meta`
    — is what `parseCallToolResult` makes of what `json.Marshal` wrote (nil and empty lists identified). -/
theorem C02_roundtrip (r : CallToolResult) : parseResult (encodeResult r) = .ok (normResult r) := by
  obtain ⟨mm, content, st, ie⟩ := r
  cases mm <;> cases content <;> cases ie <;> cases st <;>
    simp [parseResult, encodeResult, asMapTarget, metaField, structuredField, optField, sliceJson, extractMap, lookup,
      normResult, parseContents_encode]

/-- the decoder is still a checker: a text item without a `text` member (or with a non-string one) is refused … -/
theorem C02_missing_text_rejected (rest : Obj) (h : lookupStr? rest t!"text" = none) :
    parseContent ((t!"type", .str tagText) :: rest) = .error .textMissing := by
  have : lookupStr? ((t!"type", Json.str t!"text") :: rest) t!"text" = none := by
    simpa [lookupStr?, lookup] using h
  simp only [parseContent, extractString, lookup_cons_eq, tagText, if_true, this]

/-- … and an unknown type tag still is -/
theorem C02_unknown_type_rejected :
    parseResult (.obj [(t!"content", .arr [.obj [(t!"type", .str t!"video"), (t!"data", .str t!"x")]])])
      = .error (.unsupportedType t!"video") := by rfl

/-- embedded resources are taken under the MCP schema's tag too (what other servers send) -/
theorem C02_embedded_under_schema_tag (rc : ResourceContents) (a : Option Annotations) :
    parseContent ([(t!"resource", encodeResourceContents rc), (t!"type", .str t!"resource")] ++ annField a)
      = .ok (.embedded rc a) := by
  have ha := parseAnnotated_annField [(t!"resource", encodeResourceContents rc), (t!"type", .str t!"resource")] a (by simp [lookup])
  obtain ⟨m, hm, hp⟩ := parseResourceContents_encode rc
  cases a <;> simp_all [parseContent, extractString, extractMap, lookup, tagEmbedded, annField]

/-! ### non-vacuity: the constructs that used to be lost -/

example : parseResult (encodeResult ⟨[(t!"k", .int 1)],
    some [.text [] none, .image [] [] none, .audio t!"UklGRg==" t!"audio/wav" (some ⟨[t!"user"], ⟨5, 1⟩⟩),
      .embedded (.text t!"file:///a" [] []) none, .embedded (.blob [] t!"m" []) (some ⟨[], ⟨0, 0⟩⟩), .text t!"a\nb" (some ⟨[t!"user", t!"assistant"], ⟨1, 0⟩⟩)],
    some (.obj [(t!"a", .null)]), true⟩)
  = .ok ⟨[(t!"k", .int 1)],
    some [.text [] none, .image [] [] none, .audio t!"UklGRg==" t!"audio/wav" (some ⟨[t!"user"], ⟨5, 1⟩⟩),
      .embedded (.text t!"file:///a" [] []) none, .embedded (.blob [] t!"m" []) (some ⟨[], ⟨0, 0⟩⟩), .text t!"a\nb" (some ⟨[t!"user", t!"assistant"], ⟨1, 0⟩⟩)],
    some (.obj [(t!"a", .null)]), true⟩ := by
  rfl

/-! ## prompt results (`encoding/json` struct decoding + `PromptMessage.UnmarshalJSON` → `parseContent`) -/

private theorem parsePromptMessage_encode (m : PromptMessage) :
    parsePromptMessage (encodePromptMessage m) = .ok m := by
  obtain ⟨role, content⟩ := m
  cases content with
  | none => simp [parsePromptMessage, encodePromptMessage, encodeContentOpt, lookup]
  | some c =>
    simp only [parsePromptMessage, encodePromptMessage, encodeContentOpt, encodeContent_obj]
    simp [lookup, C02_content_roundtrip c]

private theorem parsePromptMessages_encode (ms : List PromptMessage) :
    parsePromptMessages (ms.map encodePromptMessage) = .ok ms := by
  induction ms with
  | nil => rfl
  | cons m rest ih => simp [parsePromptMessages, parsePromptMessage_encode, ih]

/-- **C02 for prompt results, in full**: every description, `_meta`, list of messages, role string and message content
    (no normalisation needed: `encoding/json` keeps nil and empty lists apart) -/
theorem C02_prompt_roundtrip (r : GetPromptResult) : parseGetPrompt (encodeGetPrompt r) = .ok r := by
  obtain ⟨mm, desc, msgs⟩ := r
  cases mm <;> cases desc <;> cases msgs <;>
    simp [parseGetPrompt, encodeGetPrompt, metaField, optField, sliceJson, lookup, parsePromptMessages_encode]

/-- a `null` element in `messages` (malformed peer) is an error of the decoder, no longer a nil dereference -/
theorem C02_prompt_null_message_rejected :
    parseGetPrompt (.obj [(t!"messages", .arr [.null])]) = .error .promptStructure := by rfl

example : parseGetPrompt (encodeGetPrompt ⟨[(t!"k", .bool true)], t!"desc", some [⟨t!"user", some (.text [] none)⟩, ⟨[], none⟩,
    ⟨t!"assistant", some (.embedded (.blob t!"u" [] t!"AAEC") (some ⟨[t!"user"], ⟨25, 2⟩⟩))⟩]⟩)
  = .ok ⟨[(t!"k", .bool true)], t!"desc", some [⟨t!"user", some (.text [] none)⟩, ⟨[], none⟩,
    ⟨t!"assistant", some (.embedded (.blob t!"u" [] t!"AAEC") (some ⟨[t!"user"], ⟨25, 2⟩⟩))⟩]⟩ := by rfl

/-! ## resource contents (`parseReadResourceResultFromJSON`: the lenient decoder) -/

private theorem parseResourceItem_encode (rc : ResourceContents) :
    ∃ m, encodeResourceContents rc = .obj m ∧ parseResourceItem m = rc := by
  cases rc with
  | text uri mime text =>
    refine ⟨_, rfl, ?_⟩
    cases mime <;> simp [parseResourceItem, extractString, lookupStr?, lookup, optField]
  | blob uri mime blob =>
    refine ⟨_, rfl, ?_⟩
    cases mime <;> simp [parseResourceItem, extractString, lookupStr?, lookup, optField]

private theorem parseResourceItems_encode (cs : List ResourceContents) :
    parseResourceItems (cs.map encodeResourceContents) = cs := by
  induction cs with
  | nil => rfl
  | cons c rest ih =>
    obtain ⟨m, hm, hp⟩ := parseResourceItem_encode c
    simp [List.map_cons, hm, parseResourceItems, hp, ih]

/-- **C02 for resource contents holds in full**: every list of text / blob contents — empty text, empty blob, empty
    URI, any MIME type, any strings — is what `ReadResource` returns (a nil and an empty list are identified). -/
theorem C02_resource_roundtrip (cs : Option (List ResourceContents)) :
    parseReadResource (encodeReadResource cs) = .ok (match cs with | some [] => none | c => c) := by
  cases cs with
  | none => simp [parseReadResource, encodeReadResource, asMapTarget, extractArray, sliceJson, lookup]
  | some l =>
    simp only [parseReadResource, encodeReadResource, asMapTarget, extractArray, sliceJson, lookup_cons_eq,
      parseResourceItems_encode]
    cases l <;> rfl

example : parseReadResource (encodeReadResource (some [.text [] [] [], .blob t!"u" t!"m" [], .text t!"u" [] t!"a\nb"]))
    = .ok (some [.text [] [] [], .blob t!"u" t!"m" [], .text t!"u" [] t!"a\nb"]) := by rfl

/-! ## tool descriptors (`parseListToolsResultFromJSON`) -/

private theorem parseToolAnnotations_encode (a : ToolAnnotations) :
    ∃ m, encodeToolAnnotations a = .obj m ∧ parseToolAnnotations m = some a := by
  refine ⟨_, rfl, ?_⟩
  obtain ⟨title, ro, de, id, ow⟩ := a
  cases title <;> cases ro <;> cases de <;> cases id <;> cases ow <;>
    simp [parseToolAnnotations, hintField, optField, optBoolField, lookup]

def schemaListable (schemaBad : Json → Bool) : Option Json → Bool
  | none => true
  | some (.obj o) => !schemaBad (.obj o)
  | some _ => false

/-- a descriptor the decoder keeps: a name, and schemas that are JSON objects kin-openapi accepts (or absent) -/
def listableTool (schemaBad : Json → Bool) (t : ToolDesc) : Bool :=
  !t.name.isEmpty && schemaListable schemaBad t.inputSchema && schemaListable schemaBad t.outputSchema

private theorem schemaListable_cases (bad : Json → Bool) (s : Option Json) (h : schemaListable bad s = true) :
    s = none ∨ ∃ o, s = some (.obj o) ∧ bad (.obj o) = false := by
  cases s with
  | none => exact Or.inl rfl
  | some j => cases j <;> simp_all [schemaListable]

private theorem parseTool_encode (bad : Json → Bool) (t : ToolDesc) (h : listableTool bad t = true) :
    ∃ m, encodeTool t = .obj m ∧ parseTool bad m = some t := by
  refine ⟨_, rfl, ?_⟩
  obtain ⟨name, desc, inS, outS, ann⟩ := t
  simp only [listableTool, Bool.and_eq_true] at h
  obtain ⟨⟨hn, hi⟩, ho⟩ := h
  have hn : name ≠ [] := isEmpty_false hn
  rcases schemaListable_cases bad inS hi with hi | ⟨io, hi, hib⟩ <;>
  rcases schemaListable_cases bad outS ho with ho | ⟨oo, ho, hob⟩ <;> subst hi ho <;>
    cases desc <;> cases ann <;>
    simp_all [parseTool, extractString, extractMap, lookup, optField]
  all_goals (
    rename_i a
    obtain ⟨m, hm, hp⟩ := parseToolAnnotations_encode a
    simp_all)

private theorem parseTools_encode (bad : Json → Bool) (ts : List ToolDesc) (h : ∀ t ∈ ts, listableTool bad t = true) :
    parseTools bad (ts.map encodeTool) = ts := by
  induction ts with
  | nil => rfl
  | cons t rest ih =>
    obtain ⟨m, hm, hp⟩ := parseTool_encode bad t (h t (by simp))
    simp only [List.map_cons, hm, parseTools, hp]
    rw [ih (fun t' ht' => h t' (by simp [ht']))]

/-- **descriptors**: the tools listed are the tools registered — names, descriptions (any string), schemas (as JSON),
    annotations (title and the four optional hints) — for every list of listable descriptors -/
theorem C02_descriptors_roundtrip (bad : Json → Bool) (ts : List ToolDesc) (h : ∀ t ∈ ts, listableTool bad t = true) :
    parseListTools bad (encodeListTools ts) = .ok (ts, []) := by
  simp [parseListTools, encodeListTools, asMapTarget, extractArray, extractString, lookup, parseTools_encode bad ts h]

/-- a tool whose schema the client-side schema library refuses vanishes from the listing without any error -/
theorem C02_descriptor_skipped_counterexample :
    parseListTools (fun _ => true) (encodeListTools [⟨t!"a", [], some (.obj [(t!"type", .int 5)]), none, none⟩, ⟨t!"b", [], none, none, none⟩])
      = .ok ([⟨t!"b", [], none, none, none⟩], []) := by rfl

example : listableTool (fun _ => false) ⟨t!"greet", t!"says <hi>", some (.obj [(t!"type", .str t!"object")]), none,
    some ⟨t!"T", some true, none, some false, none⟩⟩ = true := by rfl

/-! ## a handler's Go error -/

/-- **a handler error reaches the caller as an error that carries the handler's message** — for every message text and
    every tool name, on the three request paths (the text itself travels as a JSON string: `C02_string_fidelity`) -/
theorem C02_handler_error (p : Path) (msg : Text) : contains (clientErrorText p msg) msg = true := by
  have key : ∀ pre post : Text, contains (pre ++ msg ++ post) msg = true := by
    intro pre post
    rw [List.append_assoc]
    exact contains_append_left pre _ msg (contains_of_prefix _ _ (hasPrefix_append msg post))
  cases p with
  | tool name =>
    have := key (t!"tool call error: " ++ (t!"tool execution failed (tool: " ++ name ++ t!"): ")) (t!" (code: " ++ intText (-32603) ++ t!")")
    simpa [clientErrorText, clientPrefix, serverErrorMessage, List.append_assoc] using this
  | prompt =>
    have := key t!"get prompt error: " (t!" (code: " ++ intText (-32603) ++ t!")")
    simpa [clientErrorText, clientPrefix, serverErrorMessage, List.append_assoc] using this
  | resource =>
    have := key t!"read resource error: " (t!" (code: " ++ intText (-32603) ++ t!")")
    simpa [clientErrorText, clientPrefix, serverErrorMessage, List.append_assoc] using this

example : clientErrorText (.tool t!"echo") t!"disk full" = t!"tool call error: tool execution failed (tool: echo): disk full (code: -32603)" := by
  decide

/-- **exactly the message**: the caller's error text is the handler's message inside a wrapper that depends on the request
    path only - the message is copied, never interpreted (a `%` in it is a `%`) - so the message can be read back from the
    error text: two handler messages that give the same error text on the same path are the same message -/
theorem C02_handler_error_exact (p : Path) (msg : Text) :
    ∃ pre post : Text, (∀ m : Text, clientErrorText p m = pre ++ m ++ post) ∧ clientErrorText p msg = pre ++ msg ++ post := by
  cases p with
  | tool name =>
    exact ⟨t!"tool call error: " ++ (t!"tool execution failed (tool: " ++ name ++ t!"): "), t!" (code: " ++ intText (-32603) ++ t!")",
      fun m => by simp [clientErrorText, clientPrefix, serverErrorMessage, List.append_assoc],
      by simp [clientErrorText, clientPrefix, serverErrorMessage, List.append_assoc]⟩
  | prompt =>
    exact ⟨t!"get prompt error: ", t!" (code: " ++ intText (-32603) ++ t!")",
      fun m => by simp [clientErrorText, clientPrefix, serverErrorMessage, List.append_assoc],
      by simp [clientErrorText, clientPrefix, serverErrorMessage, List.append_assoc]⟩
  | resource =>
    exact ⟨t!"read resource error: ", t!" (code: " ++ intText (-32603) ++ t!")",
      fun m => by simp [clientErrorText, clientPrefix, serverErrorMessage, List.append_assoc],
      by simp [clientErrorText, clientPrefix, serverErrorMessage, List.append_assoc]⟩

theorem C02_handler_error_injective (p : Path) (m₁ m₂ : Text) (h : clientErrorText p m₁ = clientErrorText p m₂) : m₁ = m₂ := by
  obtain ⟨pre, post, hall, _⟩ := C02_handler_error_exact p m₁
  rw [hall m₁, hall m₂, List.append_assoc, List.append_assoc] at h
  exact List.append_cancel_right (List.append_cancel_left h)

/-- non-vacuity: printf material in a handler's message arrives as it is (not "50%!d(MISSING)one") -/
example : clientErrorText .prompt t!"50% done %d %s" = t!"get prompt error: 50% done %d %s (code: -32603)"
    ∧ clientErrorText (.tool t!"fail 100%d %s") t!"%" = t!"tool call error: tool execution failed (tool: fail 100%d %s): % (code: -32603)" := by
  decide

/-! ## routing: the payload never decides what kind of message a response is -/

/-- **a response is routed as a response whatever its result contains** - for every id and every result JSON (any member
    names at any depth, `"method"` and `"id"` included), by both classifiers of the library -/
theorem C02_response_routed_by_envelope (id result : Json) :
    classifyLegacySSE (responseEnvelope id result) = .response ∧ classifyMessageType (responseEnvelope id result) = .response := by
  constructor <;> simp [classifyLegacySSE, classifyMessageType, responseEnvelope, hasKey, lookup, lookupStr?] <;> decide

/-- ... in particular the encoding of every tool result and of every prompt result -/
theorem C02_result_routed_as_response (id : Json) (r : CallToolResult) (p : GetPromptResult) :
    classifyLegacySSE (responseEnvelope id (encodeResult r)) = .response ∧ classifyLegacySSE (responseEnvelope id (encodeGetPrompt p)) = .response :=
  ⟨(C02_response_routed_by_envelope id _).1, (C02_response_routed_by_envelope id _).1⟩

/-- the foil: a classifier that finds member names at any depth (a raw-text probe for `"id":` / `"method":`) takes the
    response carrying structured content `{"request":{"method":"GET"}}` for a server request - the caller would never get it -/
theorem C02_any_depth_routing_counterexample :
    classifyAnyDepth (responseEnvelope (.int 1) (encodeResult ⟨[], some [.text t!"payload" none],
      some (.obj [(t!"request", .obj [(t!"method", .str t!"GET")])]), false⟩)) = .request := by
  decide

/-- non-vacuity: that very result is routed as a response and decodes to what the handler returned -/
example :
    let r : CallToolResult := ⟨[(t!"id", .int 7), (t!"method", .str t!"tools/call")], some [.text t!"\"method\":" none],
      some (.obj [(t!"request", .obj [(t!"method", .str t!"GET"), (t!"id", .int 1), (t!"params", .obj [(t!"result", .null), (t!"error", .str t!"jsonrpc")])])]), false⟩
    classifyLegacySSE (responseEnvelope (.int 1) (encodeResult r)) = .response ∧ parseResult (encodeResult r) = .ok r := by
  intro r
  exact ⟨rfl, rfl⟩

/-! ## registration histories: a listing shows what is registered now -/

open Mcp.Content.Registry in
private theorem find_register {α} (r : Reg α) (n : Text) (d : α) (k : Text) :
    find (register r n d) k = if k = n then some d else find r k := by
  induction r with
  | nil =>
    by_cases h : k = n
    · subst h; simp [register, find]
    · have : ¬ n = k := fun e => h e.symm
      simp [register, find, h, this]
  | cons p rest ih =>
    obtain ⟨a, v⟩ := p
    by_cases ha : a = n
    · subst ha
      by_cases hk : a = k
      · subst hk; simp [register, find]
      · have : ¬ k = a := fun h => hk h.symm
        simp [register, find, hk, this]
    · by_cases hk : a = k
      · subst hk; simp [register, find, ha]
      · simp [register, find, ha, hk, ih]

open Mcp.Content.Registry in
private theorem find_append_single {α} (r : Reg α) (n : Text) (d : α) (k : Text) :
    find (r ++ [(n, d)]) k = match find r k with | some v => some v | none => if n = k then some d else none := by
  induction r with
  | nil => simp [find]
  | cons p rest ih =>
    obtain ⟨a, v⟩ := p
    by_cases hk : a = k
    · simp [find, hk]
    · simp [find, hk, ih]

open Mcp.Content.Registry in
private theorem find_unregister {α} (r : Reg α) (ns : List Text) (k : Text) :
    find (unregister r ns) k = if k ∈ ns then none else find r k := by
  induction r with
  | nil => simp [unregister, find]
  | cons p rest ih =>
    obtain ⟨a, v⟩ := p
    have ih' : find (List.filter (fun p => !ns.contains p.1) rest) k = if k ∈ ns then none else find rest k := ih
    by_cases ha : a ∈ ns
    · have h1 : (!ns.contains a) = false := by simp [ha]
      have h2 : unregister ((a, v) :: rest) ns = List.filter (fun p => !ns.contains p.1) rest := by
        simp only [unregister]; exact List.filter_cons_of_neg (by simp [ha])
      rw [h2, ih']
      by_cases hk : a = k
      · subst hk; simp [ha]
      · simp [find, hk]
    · have h2 : unregister ((a, v) :: rest) ns = (a, v) :: List.filter (fun p => !ns.contains p.1) rest := by
        simp only [unregister]; exact List.filter_cons_of_pos (by simp [ha])
      rw [h2]
      by_cases hk : a = k
      · subst hk; simp [find, ha]
      · simp only [find, hk, if_false]; exact ih'

open Mcp.Content.Registry in
private theorem find_step {α} (kf : Bool) (r : Reg α) (f : Text → Option α) (hf : ∀ k, find r k = f k) (s : Step α) :
    ∀ k, find (step kf r s) k = specStep kf f s k := by
  intro k
  cases s with
  | reg n d =>
    cases kf with
    | false => simp [step, specStep, find_register, hf]
    | true =>
      simp only [step, specStep, registerKeepFirst, if_true, Bool.true_and]
      by_cases hn : (find r n).isSome = true
      · have hn' : (f n).isSome = true := by rw [← hf n]; exact hn
        rw [if_pos hn]
        by_cases hk : k = n
        · subst hk; simp [hn', hf]
        · simp [hk, hf]
      · have hnone : find r n = none := by cases h : find r n <;> simp_all
        have hn' : (f n).isSome = false := by rw [← hf n, hnone]; rfl
        rw [if_neg hn, find_append_single]
        by_cases hk : k = n
        · subst hk; simp [hnone, hn']
        · have : ¬ n = k := fun h => hk h.symm
          cases hfk : find r k <;> simp [hk, this, ← hf k, hfk]
  | unreg ns => simp [step, specStep, find_unregister, hf]

open Mcp.Content.Registry in
private theorem find_foldl {α} (kf : Bool) (h : List (Step α)) (r : Reg α) (f : Text → Option α) (hf : ∀ k, find r k = f k) :
    ∀ k, find (h.foldl (step kf) r) k = h.foldl (specStep kf) f k := by
  induction h generalizing r f with
  | nil => simpa using hf
  | cons s rest ih => exact ih _ _ (find_step kf r f hf s)

/-- **after ANY history of registrations, re-registrations and unregistrations the registry holds, under every key, exactly
    what is currently registered there** - the last registered descriptor and handler (tools, prompts, resources:
    `keepFirst = false`), the first one for resource templates (`keepFirst = true`: the code refuses a second registration),
    nothing for a key that was unregistered or never registered. For all histories, all keys, any descriptor type. -/
theorem C02_registry_holds_current {α} (keepFirst : Bool) (h : List (Registry.Step α)) (key : Text) :
    Registry.find (Registry.run keepFirst h) key = Registry.current keepFirst h key :=
  find_foldl keepFirst h [] (fun _ => none) (fun _ => rfl) key

open Mcp.Content.Registry in
private theorem names_register {α} (r : Reg α) (n : Text) (d : α) :
    names (register r n d) = if n ∈ names r then names r else names r ++ [n] := by
  induction r with
  | nil => simp [register, names]
  | cons p rest ih =>
    obtain ⟨a, v⟩ := p
    simp only [names] at ih
    by_cases ha : a = n
    · subst ha; simp [register, names]
    · have : ¬ n = a := fun h => ha h.symm
      by_cases hm : n ∈ rest.map (·.1)
      · simp [register, names, ha, this, ih, hm]
      · simp [register, names, ha, this, ih, hm]

open Mcp.Content.Registry in
private theorem find_isSome_iff_mem {α} (r : Reg α) (k : Text) : (find r k).isSome = true ↔ k ∈ names r := by
  induction r with
  | nil => simp [find, names]
  | cons p rest ih =>
    obtain ⟨a, v⟩ := p
    simp only [names] at ih
    by_cases hk : a = k
    · simp [find, names, hk]
    · have : ¬ k = a := fun h => hk h.symm
      simp [find, names, hk, this, ih]

/-- the order of a listing that follows the order slice (resources/list): a re-registered key KEEPS its position, a new key
    goes to the end (both registration policies) -/
theorem C02_registry_order {α} (keepFirst : Bool) (r : Registry.Reg α) (n : Text) (d : α) :
    Registry.names (Registry.step keepFirst r (.reg n d)) = if n ∈ Registry.names r then Registry.names r else Registry.names r ++ [n] := by
  cases keepFirst with
  | false => simpa [Registry.step] using names_register r n d
  | true =>
    simp only [Registry.step, Registry.registerKeepFirst, if_true]
    by_cases hm : n ∈ Registry.names r
    · simp [hm, (find_isSome_iff_mem r n).2 hm]
    · have : ¬ (Registry.find r n).isSome = true := fun h => hm ((find_isSome_iff_mem r n).1 h)
      rw [if_neg this, if_neg hm]
      simp [Registry.names]

open Mcp.Content.Registry in
private theorem nodup_step {α} (kf : Bool) (r : Reg α) (hr : (names r).Nodup) (s : Step α) : (names (step kf r s)).Nodup := by
  cases s with
  | reg n d =>
    rw [C02_registry_order]
    by_cases hm : n ∈ names r
    · simpa [hm] using hr
    · simp only [hm, if_false]
      exact List.nodup_append.2 ⟨hr, by simp, by intro a ha b hb; simp at hb; subst hb; intro h; exact hm (h ▸ ha)⟩
  | unreg ns =>
    simp only [step, unregister, names]
    exact (List.Nodup.sublist (List.Sublist.map _ List.filter_sublist) hr)

/-- every currently registered key is listed exactly once (no key twice, whatever the history) -/
theorem C02_registry_lists_each_once {α} (keepFirst : Bool) (h : List (Registry.Step α)) :
    (Registry.names (Registry.run keepFirst h)).Nodup := by
  have : ∀ (r : Registry.Reg α), (Registry.names r).Nodup → (Registry.names (h.foldl (Registry.step keepFirst) r)).Nodup := by
    induction h with
    | nil => intro r hr; simpa using hr
    | cons s rest ih => intro r hr; exact ih _ (nodup_step keepFirst r hr s)
  exact this [] (by simp [Registry.names])

/-- a key is listed iff something is currently registered under it -/
theorem C02_registry_listed_iff_registered {α} (keepFirst : Bool) (h : List (Registry.Step α)) (key : Text) :
    key ∈ Registry.names (Registry.run keepFirst h) ↔ (Registry.current keepFirst h key).isSome = true := by
  rw [← C02_registry_holds_current, find_isSome_iff_mem]

/-- the foil: a listing served from a snapshot that is refreshed only when the SET of keys changes shows the OLD descriptor
    after register - list - re-register (what the listing must show is `v2`) -/
theorem C02_registry_stale_snapshot_counterexample :
    Registry.find (Registry.run false [.reg t!"a" t!"v1", .reg t!"a" t!"v2"]) t!"a" = some t!"v2"
      ∧ Registry.find (Registry.run false [.reg t!"a" t!"v1"]) t!"a" ≠ some t!"v2" := by
  decide

/-- non-vacuity: register, re-register, a second key, unregister, register again (moves to the end), a refused template -/
example :
    Registry.run false [.reg t!"a" 1, .reg t!"b" 1, .reg t!"a" 2, .unreg [t!"a", t!"x"], .reg t!"c" 1, .reg t!"a" 3, .reg t!"b" 2]
        = [(t!"b", 2), (t!"c", 1), (t!"a", 3)]
      ∧ Registry.run true [.reg t!"t" 1, .reg t!"u" 1, .reg t!"t" 2] = [(t!"t", 1), (t!"u", 1)] := by
  decide

end Mcp.Props.C02
