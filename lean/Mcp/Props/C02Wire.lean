/-
  C02, string and framing layer: what `json.Marshal` makes of a string can be undone and never contains a raw line break
  (so a JSON message is one stdio line / one SSE `data:` line), and what `WriteEvent` / `formatSSEEvent` put on the wire is
  read back by a conforming SSE reader as the data that went in.
-/
import Mcp.Model.Escape
namespace Mcp.Props.C02
open Mcp.Str Mcp.Json Mcp.Escape

/-! ## escaping -/

private theorem hexVal_hexDigit : ∀ n, n < 16 → hexVal (hexDigit n) = n := by decide

private theorem hexVal4_hex4 (c : Nat) (h : c < 65536) :
    hexVal4 (hexDigit (c / 4096 % 16)) (hexDigit (c / 256 % 16)) (hexDigit (c / 16 % 16)) (hexDigit (c % 16)) = c := by
  simp only [hexVal4]
  rw [hexVal_hexDigit _ (Nat.mod_lt _ (by decide)), hexVal_hexDigit _ (Nat.mod_lt _ (by decide)),
    hexVal_hexDigit _ (Nat.mod_lt _ (by decide)), hexVal_hexDigit _ (Nat.mod_lt _ (by decide))]
  omega

private theorem unescUnits_escChar (c : Nat) (t : Text) : unescUnits (escChar c ++ t) = c :: unescUnits t := by
  unfold escChar
  split
  · next h => subst h; simp [unescUnits, unescSimple]
  split
  · next h => subst h; simp [unescUnits, unescSimple]
  split
  · next h => subst h; simp [unescUnits, unescSimple]
  split
  · next h => subst h; simp [unescUnits, unescSimple]
  split
  · next h => subst h; simp [unescUnits, unescSimple]
  split
  · next h => subst h; simp [unescUnits, unescSimple]
  split
  · next h => subst h; simp [unescUnits, unescSimple]
  split
  · next h =>
    have hc : c < 65536 := by omega
    simp [unescUnits, hex4, hexVal4_hex4 c hc]
  · next h1 h2 _ _ _ _ _ _ =>
    show unescUnits (c :: t) = c :: unescUnits t
    rw [unescUnits.eq_def]
    simp [h2]

private theorem unescUnits_escape (s : Text) : unescUnits (escape s) = s := by
  induction s with
  | nil => rfl
  | cons c s ih => simp [escape, unescUnits_escChar, ih]

/-- a Unicode scalar value: a code point that is not a surrogate -/
def validScalar (c : Nat) : Prop := c < 55296 ∨ (57344 ≤ c ∧ c < 1114112)

private theorem combine_valid (s : Text) (h : ∀ c ∈ s, validScalar c) : combine s = s := by
  induction s with
  | nil => rfl
  | cons c s ih =>
    have hc : isHigh c = false ∧ isLow c = false := by
      have := h c (by simp)
      unfold validScalar at this
      simp only [isHigh, isLow, Bool.and_eq_false_iff, decide_eq_false_iff_not]
      omega
    have ih := ih (fun c' hc' => h c' (by simp [hc']))
    cases s with
    | nil => simp [combine, fixLone, hc.1, hc.2]
    | cons d s => simp [combine, fixLone, hc.1, hc.2, ih]

/-- **string fidelity**: every string of Unicode scalar values — empty, CR/LF, U+2028/2029, controls, quotes, `<>&`,
    non-BMP, of any length — is what a JSON decoder reads back from what `json.Marshal` wrote -/
theorem C02_string_fidelity (s : Text) (h : ∀ c ∈ s, validScalar c) : unescape (escape s) = s := by
  simp [unescape, unescUnits_escape, combine_valid s h]

private theorem hexDigit_range (n : Nat) (h : n < 16) : 48 ≤ hexDigit n ∧ hexDigit n ≤ 102 := by
  unfold hexDigit; split <;> omega

private theorem escChar_no_newline (c x : Nat) (hx : x ∈ escChar c) : x ≠ 10 ∧ x ≠ 13 := by
  unfold escChar at hx
  repeat' split at hx
  all_goals try (simp at hx; omega)
  · simp only [hex4, List.mem_cons, List.not_mem_nil, or_false] at hx
    have h1 := hexDigit_range (c / 4096 % 16) (Nat.mod_lt _ (by decide))
    have h2 := hexDigit_range (c / 256 % 16) (Nat.mod_lt _ (by decide))
    have h3 := hexDigit_range (c / 16 % 16) (Nat.mod_lt _ (by decide))
    have h4 := hexDigit_range (c % 16) (Nat.mod_lt _ (by decide))
    omega

/-- **no raw line break**: an escaped string contains neither LF nor CR, whatever the string -/
theorem C02_no_raw_newline (s : Text) : 10 ∉ escape s ∧ 13 ∉ escape s := by
  induction s with
  | nil => simp [escape]
  | cons c s ih =>
    simp only [escape, List.mem_append, not_or]
    exact ⟨⟨fun h => (escChar_no_newline c 10 h).1 rfl, ih.1⟩, ⟨fun h => (escChar_no_newline c 13 h).2 rfl, ih.2⟩⟩

example : escape t!"a\n\r\"\\<\u2028" = t!"a\\n\\r\\\"\\\\\\u003c\\u2028" := by decide
example : unescape t!"\\ud83d\\ude00\\u00e9" = [128512, 233] := by decide

/-! ## a whole message is one line -/

/-- neither LF nor CR -/
def Safe (t : Text) : Prop := ∀ x ∈ t, x ≠ 10 ∧ x ≠ 13

private theorem Safe_append {a b : Text} (ha : Safe a) (hb : Safe b) : Safe (a ++ b) := by
  intro x hx
  rcases List.mem_append.mp hx with h | h
  · exact ha x h
  · exact hb x h

private theorem Safe_cons {c : Nat} {t : Text} (hc : c ≠ 10 ∧ c ≠ 13) (ht : Safe t) : Safe (c :: t) := by
  intro x hx
  rcases List.mem_cons.mp hx with h | h
  · subst h; exact hc
  · exact ht x h

private theorem Safe_escape (s : Text) : Safe (escape s) := by
  intro x hx
  have := C02_no_raw_newline s
  constructor <;> intro h <;> subst h
  · exact this.1 hx
  · exact this.2 hx

private def Digits (t : Text) : Prop := ∀ x ∈ t, 48 ≤ x ∧ x ≤ 57

private theorem digitsAux_digits (f n : Nat) (acc : Text) (h : Digits acc) : Digits (digitsAux f n acc) := by
  induction f generalizing n acc with
  | zero => simpa [digitsAux] using h
  | succ f ih =>
    simp only [digitsAux]
    split
    · intro x hx
      rcases List.mem_cons.mp hx with e | e
      · subst e; omega
      · exact h x e
    · apply ih
      intro x hx
      rcases List.mem_cons.mp hx with e | e
      · subst e; omega
      · exact h x e

private theorem Safe_of_Digits {t : Text} (h : Digits t) : Safe t := by
  intro x hx
  have := h x hx
  omega

private theorem natDigits_safe (n : Nat) : Safe (natDigits n) :=
  Safe_of_Digits (digitsAux_digits _ _ _ (by intro x hx; simp at hx))

private theorem intText_safe (i : Int) : Safe (intText i) := by
  cases i with
  | ofNat n => exact natDigits_safe n
  | negSucc n => exact Safe_cons (by decide) (natDigits_safe _)

private theorem padDigits_safe (n : Nat) (t : Text) (h : Safe t) : Safe (padDigits n t) := by
  induction n generalizing t with
  | zero => simpa [padDigits] using h
  | succ n ih =>
    simp only [padDigits]
    split
    · exact ih _ (Safe_cons (by decide) h)
    · exact h

private theorem decText_safe (m : Int) (e : Nat) : Safe (decText m e) := by
  unfold decText
  refine Safe_append (Safe_append (Safe_append ?_ (natDigits_safe _)) ?_) (padDigits_safe _ _ (natDigits_safe _))
  · split
    · exact Safe_cons (by decide) (by intro x hx; simp at hx)
    · intro x hx; simp at hx
  · exact Safe_cons (by decide) (by intro x hx; simp at hx)

private theorem Safe_lit (t : Text) (h : t.all (fun x => x != 10 && x != 13) = true) : Safe t := by
  intro x hx
  have := List.all_eq_true.mp h x hx
  simp only [Bool.and_eq_true, bne_iff_ne, ne_eq] at this
  exact this

private theorem sep_safe (rest : List α) : Safe (if rest.isEmpty then [] else [44]) := by
  split
  · intro x hx; simp at hx
  · exact Safe_lit _ (by decide)

mutual
private theorem render_safe : ∀ j : Json, Safe (render j)
  | .null => by simp only [render]; exact Safe_lit _ (by decide)
  | .bool true => by simp only [render]; exact Safe_lit _ (by decide)
  | .bool false => by simp only [render]; exact Safe_lit _ (by decide)
  | .int i => by simp only [render]; exact intText_safe i
  | .dec m e => by simp only [render]; exact decText_safe m e
  | .str s => by
    simp only [render]
    exact Safe_cons (by decide) (Safe_append (Safe_escape s) (Safe_lit _ (by decide)))
  | .arr xs => by
    simp only [render]
    exact Safe_cons (by decide) (Safe_append (renderList_safe xs) (Safe_lit _ (by decide)))
  | .obj kvs => by
    simp only [render]
    exact Safe_cons (by decide) (Safe_append (renderFields_safe kvs) (Safe_lit _ (by decide)))
private theorem renderList_safe : ∀ xs : List Json, Safe (renderList xs)
  | [] => by simp only [renderList]; intro x hx; simp at hx
  | x :: rest => by
    simp only [renderList]
    exact Safe_append (Safe_append (render_safe x) (sep_safe rest)) (renderList_safe rest)
private theorem renderFields_safe : ∀ kvs : List (Text × Json), Safe (renderFields kvs)
  | [] => by simp only [renderFields]; intro x hx; simp at hx
  | (k, v) :: rest => by
    simp only [renderFields]
    exact Safe_cons (by decide) (Safe_append (Safe_append (Safe_append (Safe_append (Safe_escape k) (Safe_lit _ (by decide)))
      (render_safe v)) (sep_safe rest)) (renderFields_safe rest))
end

/-- **a JSON message is one line**: the compact text `json.Marshal` prints for any value — any nesting, any strings —
    contains no raw LF or CR, so it is one stdio line and one SSE `data:` line -/
theorem C02_message_is_one_line (j : Json) : 10 ∉ render j ∧ 13 ∉ render j :=
  ⟨fun h => (render_safe j 10 h).1 rfl, fun h => (render_safe j 13 h).2 rfl⟩

/-! ## SSE framing -/

/-- no line terminator inside -/
def NoNL (l : Text) : Prop := 10 ∉ l ∧ 13 ∉ l

private theorem cut_line (l s : Text) (hl : NoNL l) :
    cutLines (l ++ 10 :: s) = (l :: (cutLines s).1, (cutLines s).2) := by
  induction l with
  | nil => simp [cutLines]
  | cons c l ih =>
    have hc : c ≠ 10 ∧ c ≠ 13 := by
      constructor <;> intro h <;> subst h <;> simp [NoNL] at hl
    have hl' : NoNL l := by
      simp only [NoNL, List.mem_cons, not_or] at hl ⊢
      exact ⟨hl.1.2, hl.2.2⟩
    simp [cutLines, hc.1, hc.2, ih hl']

private theorem NoNL_append {a b : Text} (ha : NoNL a) (hb : NoNL b) : NoNL (a ++ b) := by
  simp only [NoNL, List.mem_append, not_or] at *
  exact ⟨⟨ha.1, hb.1⟩, ⟨ha.2, hb.2⟩⟩

private theorem cut_dataLines (pre : Text) (hpre : NoNL pre) (ls : List Text) (h : ∀ l ∈ ls, NoNL l) (rest : Text) :
    cutLines (dataLines pre ls ++ rest) = (ls.map (pre ++ ·) ++ (cutLines rest).1, (cutLines rest).2) := by
  induction ls with
  | nil => simp [dataLines]
  | cons l ls ih =>
    have hl := h l (by simp)
    have ih := ih (fun l' hl' => h l' (by simp [hl']))
    have : dataLines pre (l :: ls) ++ rest = (pre ++ l) ++ 10 :: (dataLines pre ls ++ rest) := by
      simp [dataLines, List.append_assoc]
    rw [this, cut_line _ _ (NoNL_append hpre hl), ih]
    simp

private theorem splitOn_ne_nil (s : Text) : splitOn 10 s ≠ [] := by
  cases s with
  | nil => simp [splitOn]
  | cons c s =>
    simp only [splitOn]
    split
    · simp
    · split <;> simp

private theorem splitOn_pieces (s : Text) (hcr : 13 ∉ s) : ∀ l ∈ splitOn 10 s, NoNL l := by
  induction s with
  | nil => simp [splitOn, NoNL]
  | cons c s ih =>
    have hcr' : 13 ∉ s := fun h => hcr (by simp [h])
    have hc13 : c ≠ 13 := fun h => hcr (by simp [h])
    have ih := ih hcr'
    simp only [splitOn]
    split
    · intro l hl
      simp only [List.mem_cons] at hl
      rcases hl with hl | hl
      · subst hl; simp [NoNL]
      · exact ih l hl
    · next hc10 =>
      split
      · next heq => exact absurd heq (splitOn_ne_nil s)
      · next l0 ls heq =>
        intro l hl
        simp only [List.mem_cons] at hl
        rcases hl with hl | hl
        · subst hl
          have := ih l0 (by simp [heq])
          simp only [NoNL, List.mem_cons, not_or] at this ⊢
          exact ⟨⟨fun h => hc10 h.symm, this.1⟩, ⟨fun h => hc13 h.symm, this.2⟩⟩
        · exact ih l (by simp [heq, hl])

private theorem joinLF_cons_head (c : Nat) (l : Text) (ls : List Text) : joinLF ((c :: l) :: ls) = c :: joinLF (l :: ls) := by
  cases ls <;> simp [joinLF]

private theorem joinLF_splitOn (s : Text) : joinLF (splitOn 10 s) = s := by
  induction s with
  | nil => simp [splitOn, joinLF]
  | cons c s ih =>
    simp only [splitOn]
    split
    · next h =>
      subst h
      cases hs : splitOn 10 s with
      | nil => exact absurd hs (splitOn_ne_nil s)
      | cons m ls => simp [joinLF, ← hs, ih]
    · split
      · next heq => exact absurd heq (splitOn_ne_nil s)
      · next l0 ls heq => rw [joinLF_cons_head, ← heq, ih]

private theorem trimSuffixLF_noCR (s : Text) (h : 13 ∉ s) : 13 ∉ trimSuffixLF s := by
  induction s with
  | nil => simp [trimSuffixLF]
  | cons c s ih =>
    cases s with
    | nil =>
      simp only [trimSuffixLF]
      split <;> simp_all
    | cons d s =>
      simp only [trimSuffixLF, List.mem_cons, not_or] at *
      exact ⟨h.1, ih h.2⟩

private theorem step_data (st : PS) (l : Text) :
    stepLine st (t!"data: " ++ l) = { st with data := l :: st.data } := by
  simp [stepLine, field, List.takeWhile, List.dropWhile]

private theorem step_id (st : PS) (id : Text) (h0 : 0 ∉ id) :
    stepLine st (t!"id: " ++ id) = { st with lastId := id } := by
  simp [stepLine, field, List.takeWhile, List.dropWhile, h0]

private theorem step_event (st : PS) (ev : Text) :
    stepLine st (t!"event: " ++ ev) = st := by
  simp [stepLine, field, List.takeWhile, List.dropWhile]

private theorem fold_data (ls : List Text) (st : PS) :
    (ls.map (t!"data: " ++ ·)).foldl stepLine st = { st with data := ls.reverse ++ st.data } := by
  induction ls generalizing st with
  | nil => simp
  | cons l ls ih => simp only [List.map_cons, List.foldl_cons, step_data, ih]; simp

private theorem dispatch_after_data (ls : List Text) (hne : ls ≠ []) (st : PS) (hd : st.data = []) :
    ((ls.map (t!"data: " ++ ·) ++ [[]]).foldl stepLine st).events = (st.lastId, joinLF ls) :: st.events := by
  rw [List.foldl_append, fold_data]
  simp [stepLine, hd, hne]

/-- **SSE transparency of `WriteEvent`**: for an event id without NUL / line breaks and non-empty data without CR, a
    reader that follows the WHATWG rules dispatches exactly one event, with that id, whose data is the data handed to
    `WriteEvent` minus one trailing LF — however many LFs the data contains. -/
theorem C02_sse_transparent (id data : Text) (hid : NoNL id) (h0 : 0 ∉ id) (hne : data ≠ []) (hcr : 13 ∉ data) :
    parseSSE (writeEvent id data) = [(id, trimSuffixLF data)] := by
  have hpieces := splitOn_pieces (trimSuffixLF data) (trimSuffixLF_noCR data hcr)
  have hpre : NoNL t!"data: " := by simp [NoNL]
  have hidl : NoNL (t!"id: " ++ id) := NoNL_append (by simp [NoNL]) hid
  have hw : writeEvent id data = (t!"id: " ++ id) ++ 10 :: (dataLines t!"data: " (splitOn 10 (trimSuffixLF data)) ++ [10]) := by
    simp [writeEvent, hne, List.append_assoc]
  have hlines : (cutLines (writeEvent id data)).1 =
      (t!"id: " ++ id) :: ((splitOn 10 (trimSuffixLF data)).map (t!"data: " ++ ·) ++ [[]]) := by
    rw [hw, cut_line _ _ hidl, cut_dataLines _ hpre _ hpieces]
    simp [cutLines]
  simp only [parseSSE, hlines, List.foldl_cons, step_id _ id h0]
  rw [dispatch_after_data _ (splitOn_ne_nil _) _ rfl, joinLF_splitOn]
  simp

/-! ### a whole stream of events (any number, one after the other on the same connection) -/

private theorem fold_event_lines (ls : List Text) (hne : ls ≠ []) (st : PS) (hd : st.data = []) :
    (ls.map (t!"data: " ++ ·) ++ [[]]).foldl stepLine st =
      { st with data := [], events := (st.lastId, joinLF ls) :: st.events } := by
  rw [List.foldl_append, fold_data]
  simp [stepLine, hd, hne]

/-- what one well-formed event followed by anything does to the reader's state -/
private theorem run_writeEvent (id data rest : Text) (hid : NoNL id) (h0 : 0 ∉ id) (hne : data ≠ []) (hcr : 13 ∉ data)
    (st : PS) (hd : st.data = []) :
    (cutLines (writeEvent id data ++ rest)).1.foldl stepLine st =
      (cutLines rest).1.foldl stepLine
        { st with lastId := id, data := [], events := (id, trimSuffixLF data) :: st.events } := by
  have hpieces := splitOn_pieces (trimSuffixLF data) (trimSuffixLF_noCR data hcr)
  have hpre : NoNL t!"data: " := by simp [NoNL]
  have hidl : NoNL (t!"id: " ++ id) := NoNL_append (by simp [NoNL]) hid
  have hw : writeEvent id data ++ rest =
      (t!"id: " ++ id) ++ 10 :: (dataLines t!"data: " (splitOn 10 (trimSuffixLF data)) ++ (10 :: rest)) := by
    simp [writeEvent, hne, List.append_assoc]
  have hlines : (cutLines (writeEvent id data ++ rest)).1 =
      (t!"id: " ++ id) :: (((splitOn 10 (trimSuffixLF data)).map (t!"data: " ++ ·) ++ [[]]) ++ (cutLines rest).1) := by
    rw [hw, cut_line _ _ hidl, cut_dataLines _ hpre _ hpieces]
    simp [cutLines]
  rw [hlines, List.foldl_cons, step_id _ id h0, List.foldl_append,
    fold_event_lines _ (splitOn_ne_nil _) _ (by simpa using hd), joinLF_splitOn]

/-- a well-formed event: id without NUL / line breaks, non-empty data without CR -/
def GoodEvent (e : Text × Text) : Prop := NoNL e.1 ∧ 0 ∉ e.1 ∧ e.2 ≠ [] ∧ 13 ∉ e.2

private theorem run_stream (es : List (Text × Text)) (h : ∀ e ∈ es, GoodEvent e) :
    ∀ st : PS, st.data = [] →
      ((cutLines ((es.map (fun e => writeEvent e.1 e.2)).flatten)).1.foldl stepLine st).events =
        (es.map (fun e => (e.1, trimSuffixLF e.2))).reverse ++ st.events := by
  induction es with
  | nil => intro st _; simp [cutLines]
  | cons e es ih =>
    intro st hd
    obtain ⟨g1, g2, g3, g4⟩ := h e (by simp)
    simp only [List.map_cons, List.flatten_cons]
    rw [run_writeEvent e.1 e.2 _ g1 g2 g3 g4 st hd, ih (fun x hx => h x (by simp [hx])) _ rfl]
    simp

/-- **A stream of events is read back event by event**: whatever number of events `WriteEvent` puts on one connection,
    one after the other, a reader that follows the WHATWG rules dispatches exactly those events, in that order, each with
    its own id and its own data (minus one trailing LF) — no event swallows, splits or borrows from its neighbours. -/
theorem C02_sse_stream_transparent (es : List (Text × Text)) (h : ∀ e ∈ es, GoodEvent e) :
    parseSSE ((es.map (fun e => writeEvent e.1 e.2)).flatten) = es.map (fun e => (e.1, trimSuffixLF e.2)) := by
  simp only [parseSSE]
  rw [run_stream es h _ rfl]
  simp

-- non-vacuity: two events, the second with a line break inside its data
example : parseSSE ((([(t!"1", t!"{}"), (t!"2", t!"a\nb")] : List (Text × Text)).map
    (fun e => writeEvent e.1 e.2)).flatten) = [(t!"1", t!"{}"), (t!"2", t!"a\nb")] := by decide

private theorem trimSuffixLF_of_noLF (data : Text) (hlf : 10 ∉ data) : trimSuffixLF data = data := by
  induction data with
  | nil => rfl
  | cons c s ih =>
    cases s with
    | nil =>
      have : c ≠ 10 := fun h => hlf (by simp [h])
      simp [trimSuffixLF, this]
    | cons d s =>
      simp only [trimSuffixLF, List.cons.injEq, true_and]
      exact ih (fun h => hlf (by simp only [List.mem_cons] at h ⊢; exact Or.inr h))

private theorem splitOn_of_noLF (s : Text) (h : 10 ∉ s) : splitOn 10 s = [s] := by
  induction s with
  | nil => rfl
  | cons c s ih =>
    have hc : c ≠ 10 := fun e => h (by simp [e])
    have hs : 10 ∉ s := fun e => h (by simp [e])
    simp [splitOn, hc, ih hs]

/-- with no line break in the data (every `json.Marshal` output, by `C02_message_is_one_line`) the event is one `data:` line -/
theorem C02_sse_single_line (id data : Text) (hne : data ≠ []) (hlf : 10 ∉ data) :
    writeEvent id data = t!"id: " ++ id ++ [10] ++ t!"data: " ++ data ++ [10, 10] := by
  simp [writeEvent, hne, trimSuffixLF_of_noLF data hlf, splitOn_of_noLF data hlf, dataLines, List.append_assoc]

private theorem render_ne_nil (j : Json) : render j ≠ [] := by
  cases j with
  | bool b => cases b <;> simp [render]
  | int i =>
    cases i with
    | ofNat n =>
      simp only [render, intText, natDigits, digitsAux]
      split
      · simp
      · intro h
        have : ∀ f n acc, acc ≠ [] → digitsAux f n acc ≠ [] := by
          intro f
          induction f with
          | zero => intro n acc h; simpa [digitsAux] using h
          | succ f ih =>
            intro n acc h
            simp only [digitsAux]
            split
            · simp
            · exact ih _ _ (by simp)
        exact this _ _ _ (by simp) h
    | negSucc n => simp [render, intText]
  | dec m e =>
    simp only [render, decText]
    intro h
    have := congrArg List.length h
    simp at this
  | _ => simp [render]

/-- **a message over SSE**: the JSON text of any value, written by `WriteEvent`, is dispatched by a conforming reader as
    one event carrying exactly that text -/
theorem C02_message_over_sse (id : Text) (j : Json) (hid : NoNL id) (h0 : 0 ∉ id) :
    parseSSE (writeEvent id (render j)) = [(id, render j)] := by
  have h := C02_message_is_one_line j
  rw [C02_sse_transparent id (render j) hid h0 (render_ne_nil j) h.2, trimSuffixLF_of_noLF _ h.1]

/-- Any number of JSON messages written as SSE events on one stream: a WHATWG-conforming reader dispatches exactly those
    messages, in order, each with its id and with the rendering of the message, byte for byte, as its data. -/
theorem C02_messages_over_sse_stream (ms : List (Text × Json)) (hid : ∀ m ∈ ms, NoNL m.1 ∧ 0 ∉ m.1) :
    parseSSE ((ms.map (fun m => writeEvent m.1 (render m.2))).flatten) = ms.map (fun m => (m.1, render m.2)) := by
  have hgood : ∀ e ∈ ms.map (fun m => (m.1, render m.2)), GoodEvent e := by
    intro e he
    obtain ⟨m, hm, rfl⟩ := List.mem_map.1 he
    obtain ⟨a, b⟩ := hid m hm
    exact ⟨a, b, render_ne_nil m.2, (C02_message_is_one_line m.2).2⟩
  have h := C02_sse_stream_transparent _ hgood
  simp only [List.map_map, Function.comp_def] at h
  rw [h]
  apply List.map_congr_left
  intro m _
  simp [trimSuffixLF_of_noLF _ (C02_message_is_one_line m.2).1]

private theorem format_as_dataLines (d : Text) :
    t!"data: " ++ replaceLF d ++ [10] = dataLines t!"data: " (splitOn 10 d) := by
  induction d with
  | nil => simp [replaceLF, splitOn, dataLines]
  | cons c s ih =>
    simp only [replaceLF, splitOn]
    split
    · next h =>
      subst h
      simp only [dataLines, List.append_nil]
      rw [← ih]
      simp
    · split
      · next heq => exact absurd heq (splitOn_ne_nil s)
      · next l0 ls heq =>
        rw [heq] at ih
        simp only [dataLines] at ih ⊢
        have : t!"data: " ++ c :: replaceLF s ++ [10] = t!"data: " ++ c :: (replaceLF s ++ [10]) := by simp
        rw [this]
        have ih' : replaceLF s ++ [10] = l0 ++ [10] ++ dataLines t!"data: " ls := by
          have := ih
          simp only [List.append_assoc, List.cons_append, List.nil_append] at this
          simpa [List.append_assoc] using this
        rw [ih']
        simp [List.append_assoc]

/-- **SSE transparency of the legacy server's `formatSSEEvent`**: the data comes back unchanged (no CR in it) -/
theorem C02_sse_format_transparent (ev data : Text) (hev : NoNL ev) (hevne : ev ≠ []) (hne : data ≠ []) (hcr : 13 ∉ data) :
    parseSSE (formatSSEEvent ev data) = [([], data)] := by
  have hpieces := splitOn_pieces data hcr
  have hpre : NoNL t!"data: " := by simp [NoNL]
  have hevl : NoNL (t!"event: " ++ ev) := NoNL_append (by simp [NoNL]) hev
  have hw : formatSSEEvent ev data = (t!"event: " ++ ev) ++ 10 :: (dataLines t!"data: " (splitOn 10 data) ++ [10]) := by
    simp only [formatSSEEvent, hevne, hne, if_false]
    rw [← format_as_dataLines]
    simp [List.append_assoc]
  have hlines : (cutLines (formatSSEEvent ev data)).1 =
      (t!"event: " ++ ev) :: ((splitOn 10 data).map (t!"data: " ++ ·) ++ [[]]) := by
    rw [hw, cut_line _ _ hevl, cut_dataLines _ hpre _ hpieces]
    simp [cutLines]
  simp only [parseSSE, hlines, List.foldl_cons, step_event]
  rw [dispatch_after_data _ (splitOn_ne_nil _) _ rfl, joinLF_splitOn]
  simp

/-! ## the library's own POST-SSE reader -/

/-! ### the legacy server's stream: events and keep-alive comments in any order -/

/-- what the legacy SSE server writes on a connection: an event (`formatSSEEvent`) or the keep-alive comment of the
    ticker (`fmt.Fprint(w, ": keepalive\n\n")`) -/
inductive LegacyItem where
  | event (ev data : Text)
  | keepalive

def LegacyItem.bytes : LegacyItem → Text
  | .event ev data => formatSSEEvent ev data
  | .keepalive => t!": keepalive\n\n"

def LegacyItem.good : LegacyItem → Prop
  | .event ev data => NoNL ev ∧ ev ≠ [] ∧ data ≠ [] ∧ 13 ∉ data
  | .keepalive => True

def LegacyItem.payload : LegacyItem → List (Text × Text)
  | .event _ data => [([], data)]
  | .keepalive => []

private theorem run_formatEvent (ev data rest : Text) (hev : NoNL ev) (hevne : ev ≠ []) (hne : data ≠ []) (hcr : 13 ∉ data)
    (st : PS) (hd : st.data = []) :
    (cutLines (formatSSEEvent ev data ++ rest)).1.foldl stepLine st =
      (cutLines rest).1.foldl stepLine { st with data := [], events := (st.lastId, data) :: st.events } := by
  have hpieces := splitOn_pieces data hcr
  have hpre : NoNL t!"data: " := by simp [NoNL]
  have hevl : NoNL (t!"event: " ++ ev) := NoNL_append (by simp [NoNL]) hev
  have hw : formatSSEEvent ev data ++ rest =
      (t!"event: " ++ ev) ++ 10 :: (dataLines t!"data: " (splitOn 10 data) ++ (10 :: rest)) := by
    simp only [formatSSEEvent, hevne, hne, if_false]
    rw [← format_as_dataLines]
    simp [List.append_assoc]
  have hlines : (cutLines (formatSSEEvent ev data ++ rest)).1 =
      (t!"event: " ++ ev) :: (((splitOn 10 data).map (t!"data: " ++ ·) ++ [[]]) ++ (cutLines rest).1) := by
    rw [hw, cut_line _ _ hevl, cut_dataLines _ hpre _ hpieces]
    simp [cutLines]
  rw [hlines, List.foldl_cons, step_event, List.foldl_append,
    fold_event_lines _ (splitOn_ne_nil _) _ hd, joinLF_splitOn]

private theorem run_keepalive (rest : Text) (st : PS) (hd : st.data = []) :
    (cutLines (t!": keepalive\n\n" ++ rest)).1.foldl stepLine st = (cutLines rest).1.foldl stepLine st := by
  have h1 : t!": keepalive\n\n" ++ rest = t!": keepalive" ++ 10 :: ([] ++ 10 :: rest) := by simp
  rw [h1, cut_line _ _ (by simp [NoNL]), cut_line _ _ (by simp [NoNL])]
  simp [stepLine, hd]

private theorem run_legacy (items : List LegacyItem) (h : ∀ i ∈ items, i.good) :
    ∀ st : PS, st.data = [] → st.lastId = [] →
      ((cutLines ((items.map LegacyItem.bytes).flatten)).1.foldl stepLine st).events =
        ((items.map LegacyItem.payload).flatten).reverse ++ st.events := by
  induction items with
  | nil => intro st _ _; simp [cutLines]
  | cons i items ih =>
    intro st hd hl
    have hi := h i (by simp)
    have ih := ih (fun x hx => h x (by simp [hx]))
    simp only [List.map_cons, List.flatten_cons]
    cases i with
    | event ev data =>
      obtain ⟨g1, g2, g3, g4⟩ := hi
      simp only [LegacyItem.bytes, LegacyItem.payload]
      rw [run_formatEvent ev data _ g1 g2 g3 g4 st hd,
        ih { st with data := [], events := (st.lastId, data) :: st.events } rfl hl]
      simp [hl]
    | keepalive =>
      simp only [LegacyItem.bytes, LegacyItem.payload]
      rw [run_keepalive _ st hd, ih st hd hl]
      simp

/-- **The legacy stream is read back event by event, keep-alives and all**: whatever sequence of events and keep-alive
    comments the legacy SSE server writes on one connection, a WHATWG reader dispatches exactly the events' data, in order;
    a keep-alive comment between, before or after events yields nothing and disturbs no neighbour. -/
theorem C02_legacy_stream_transparent (items : List LegacyItem) (h : ∀ i ∈ items, i.good) :
    parseSSE ((items.map LegacyItem.bytes).flatten) = (items.map LegacyItem.payload).flatten := by
  simp only [parseSSE]
  rw [run_legacy items h _ rfl rfl]
  simp

-- non-vacuity: keep-alive, event, keep-alive, keep-alive, event with a line break in its data
example : parseSSE (([LegacyItem.keepalive, .event t!"message" t!"{}", .keepalive, .keepalive,
      .event t!"message" t!"a\nb"].map LegacyItem.bytes).flatten) = [([], t!"{}"), ([], t!"a\nb")] := by decide

private theorem trimLeft_nonspace (c : Nat) (s : Text) (h : isSpace c = false) : trimLeft (c :: s) = c :: s := by
  simp [trimLeft, h]

private theorem trimLeft_append (a : Text) (c : Nat) (b : Text) (h : isSpace c = false) :
    trimLeft (a ++ c :: b) = trimLeft a ++ c :: b := by
  induction a with
  | nil => simp [trimLeft, h]
  | cons x a ih =>
    simp only [List.cons_append, trimLeft]
    split
    · exact ih
    · rfl

/-- `TrimRight`-part of `strings.TrimSpace` -/
private def trimRight (s : Text) : Text := (trimLeft s.reverse).reverse

private theorem trimSpace_eq (s : Text) : trimSpace s = trimRight (trimLeft s) := rfl

private theorem trimRight_append (q : Text) (c : Nat) (s : Text) (h : isSpace c = false) :
    trimRight ((q ++ [c]) ++ s) = (q ++ [c]) ++ trimRight s := by
  simp only [trimRight, List.reverse_append, List.reverse_cons, List.reverse_nil, List.nil_append, List.singleton_append]
  rw [show s.reverse ++ c :: q.reverse = s.reverse ++ c :: q.reverse from rfl, trimLeft_append _ _ _ h]
  simp

private theorem trimRight_id (q : Text) (c : Nat) (h : isSpace c = false) : trimRight (q ++ [c]) = q ++ [c] := by
  have := trimRight_append q c [] h
  simpa [trimRight, trimLeft] using this

private theorem splitOn_append (l s : Text) (h : 10 ∉ l) : splitOn 10 (l ++ 10 :: s) = l :: splitOn 10 s := by
  induction l with
  | nil => simp [splitOn]
  | cons c l ih =>
    have hc : c ≠ 10 := fun e => h (by simp [e])
    have hl : 10 ∉ l := fun e => h (by simp [e])
    simp [splitOn, hc, ih hl]

/-- **the client reads back what the server wrote**: for data that is one line and starts and ends with a non-space
    character (any JSON object text), the per-line reader of `handleSSEResponse` hands exactly that text — once — to the
    JSON decoder -/
theorem C02_client_reads_back (id data : Text) (hid : 10 ∉ id) (hlf : 10 ∉ data)
    (a : Nat) (r : Text) (hfirst : data = a :: r) (ha : isSpace a = false)
    (q : Text) (b : Nat) (hlast : data = q ++ [b]) (hb : isSpace b = false) :
    clientDataLines (writeEvent id data) = [data] := by
  have hne : data ≠ [] := by rw [hfirst]; simp
  rw [C02_sse_single_line id data hne hlf]
  have hs : splitOn 10 (t!"id: " ++ id ++ [10] ++ t!"data: " ++ data ++ [10, 10])
      = [t!"id: " ++ id, t!"data: " ++ data, [], []] := by
    have e : t!"id: " ++ id ++ [10] ++ t!"data: " ++ data ++ [10, 10]
        = (t!"id: " ++ id) ++ 10 :: ((t!"data: " ++ data) ++ 10 :: ([] ++ 10 :: [])) := by simp [List.append_assoc]
    rw [e, splitOn_append _ _ (by simp [hid]), splitOn_append _ _ (by simp [hlf]), splitOn_append _ _ (by simp)]
    rfl
  have h1 : trimSpace (t!"id: " ++ id) = t!"id:" ++ trimRight (32 :: id) := by
    rw [trimSpace_eq]
    have : trimLeft (t!"id: " ++ id) = ([105, 100] ++ [58]) ++ (32 :: id) := by simp [trimLeft, isSpace]
    rw [this, trimRight_append _ _ _ (by decide)]
    rfl
  have h2 : trimSpace (t!"data: " ++ data) = t!"data: " ++ data := by
    rw [trimSpace_eq]
    have : trimLeft (t!"data: " ++ data) = (t!"data: " ++ q) ++ [b] := by simp [trimLeft, isSpace, hlast]
    rw [this, trimRight_id _ _ hb, hlast]
    simp
  have h3 : trimSpace (32 :: data) = data := by
    rw [trimSpace_eq]
    have : trimLeft (32 :: data) = data := by
      rw [hfirst]
      show trimLeft (32 :: a :: r) = a :: r
      rw [trimLeft]
      simp only [show isSpace 32 = true from rfl, if_true]
      exact trimLeft_nonspace a r ha
    rw [this, hlast, trimRight_id _ _ hb]
  simp only [clientDataLines, hs, List.dropLast, List.map, h1, h2, trimSpace_eq, trimLeft, trimRight, List.reverse_nil]
  simp [List.filterMap, hasPrefix]
  exact h3

/-- … in particular every JSON object (every JSON-RPC message) written by `WriteEvent` -/
theorem C02_client_reads_message (id : Text) (kvs : Obj) (hid : 10 ∉ id) :
    clientDataLines (writeEvent id (render (.obj kvs))) = [render (.obj kvs)] := by
  have h := C02_message_is_one_line (.obj kvs)
  refine C02_client_reads_back id _ hid h.1 123 (renderFields kvs ++ [125]) (by simp [render]) (by decide)
    (123 :: renderFields kvs) 125 (by simp [render]) (by decide)

example : parseSSE (writeEvent t!"evt-1-1" t!"{\"a\":\"x\"}\n") = [(t!"evt-1-1", t!"{\"a\":\"x\"}")] := by decide
example : parseSSE (writeEvent t!"e" t!"a\n\nb") = [(t!"e", t!"a\n\nb")] := by decide

end Mcp.Props.C02
