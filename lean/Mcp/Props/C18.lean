/-
  C18 — Generated schemas describe what encoding/json really produces and accepts.

  The full statement (`Mcp.Schema.SoundFor`, one instance per generation style) is FALSE of the code as it is:
  `C18_sound_refuted_*` below, with one kernel-checked `…_counterexample` per construct the generators get wrong
  ([]byte, time.Time, embedded structs, `,string`, interface fields, unescaped `$ref` path segments, `json:"-,"`,
  the depth limit of the inline mode, nil pointers of recursive types). Proved: soundness, field names and — for the
  `$defs` style — reference resolution on the fragment without these constructs, for every type and every fully
  populated value (`C18_sound_partial`, `C18_field_names`, `C18_refs_resolve`), and the argument-binding round trip.
  `jsonschema` tags (`Mcp.Model.SchemaTags`: the tag parser that exists, both formats, with its oddities): whatever the
  tags say, no field disappears (`C18_field_names_any_jsonschema_tag`); the directive splitter never yields an empty
  directive (`C18_directives_nonempty`); the parser is a family over the regenerated facts "tag numbers go through a
  finiteness check": where they do — today's source, `C18_tag_numbers_finite_checked` — every tag yields keywords
  encoding/json can print (`C18_tags_serialisable`); where they do not (the code before 068180d) `minimum=NaN` /
  `maximum=Inf` make the schema unserialisable (`C18_tag_nonfinite_witness`).
  Registration histories (`Mcp.Model.SchemaRegistry`): the registry holds, for every name, the descriptor registered last,
  whole (`C18_registry_holds_last_registered`; a merging registry does not: `C18_registry_merge_witness`).
  Termination of the three generators is Lean's own termination check of their transcriptions in `Mcp.Model.Schema`
  (structural recursion on the type, fuel only for unfolding a named type; no `partial`).
-/
import Mcp.Model.Schema
import Mcp.Model.SchemaTags
import Mcp.Model.SchemaRegistry
namespace Mcp.Props.C18
open Mcp.Str Mcp.Schema


private theorem nodup_cons (x : Text) (xs : List Text) : nodup (x :: xs) = true ↔ x ∉ xs ∧ nodup xs = true := by
  simp [nodup]

private theorem hasKey_iff (k : Text) (kvs : List (Text × Json)) : hasKey k kvs = true ↔ k ∈ kvs.map (·.1) := by
  induction kvs with
  | nil => simp [hasKey]
  | cons kv r ih =>
    obtain ⟨k', j⟩ := kv
    simp only [hasKey, Bool.or_eq_true, ih, List.map_cons, List.mem_cons, beq_iff_eq]
    constructor
    · rintro (h | h)
      · exact Or.inl h.symm
      · exact Or.inr h
    · rintro (h | h)
      · exact Or.inl h.symm
      · exact Or.inr h

private theorem vProp_of_mem (onRef : Text → Json → Bool) (props : List (Text × Sch)) (k : Text) (s : Sch) (j : Json)
    (hn : nodup (props.map (·.1)) = true) (hm : (k, s) ∈ props) :
    vProp onRef props k j = some (vGo onRef s j) := by
  induction props with
  | nil => cases hm
  | cons p ps ih =>
    obtain ⟨n, s'⟩ := p
    simp only [List.map_cons, nodup_cons] at hn
    rcases List.mem_cons.mp hm with h | h
    · cases h; simp [vProp]
    · have hne : n ≠ k := by
        intro e; subst e
        exact hn.1 (List.mem_map.mpr ⟨(n, s), h, rfl⟩)
      simp [vProp, hne, ih hn.2 h]


private theorem tagName_nil : tagName [] = [] := by rfl
private theorem tagName_dash : tagName t!"-" = t!"-" := by rfl

private theorem legacyName_eq (m : FieldMeta) : legacyName m = jsonName m := by
  unfold legacyName jsonName
  by_cases h : m.jsonTag = []
  · simp [h, tagName_nil]
  · simp [h]

private theorem legacySkip_eq (m : FieldMeta) (h : metaOk m = true) : legacySkip m = jsonSkip m := by
  simp only [metaOk, Bool.and_eq_true, Bool.not_eq_true', bne_iff_ne, ne_eq, Bool.or_eq_true, beq_iff_eq] at h
  obtain ⟨⟨⟨⟨_, _⟩, hg⟩, hd⟩, ht⟩ := h
  unfold legacySkip
  rw [legacyName_eq]
  unfold jsonName jsonSkip
  by_cases hn : tagName m.jsonTag = []
  · have : m.jsonTag ≠ t!"-" := by
      intro e; rw [e, tagName_dash] at hn; cases hn
    simp only [hn, bne_self_eq_false, Bool.false_eq_true, ite_false]
    rw [Bool.eq_iff_iff]; simp [List.isEmpty_iff, hg, hd, this]
  · simp only [hn, bne_iff_ne, ne_eq, not_false_eq_true, ite_true]
    rcases ht with ht | ht
    · have : m.jsonTag ≠ t!"-" := by
        intro e; rw [e, tagName_dash] at ht; exact ht rfl
      rw [Bool.eq_iff_iff]; simp [List.isEmpty_iff, hn, ht, this]
    · simp [ht, tagName_dash]


private theorem promotes_false (m : FieldMeta) (h : metaOk m = true) : promotes m = false := by
  simp only [metaOk, Bool.and_eq_true, Bool.not_eq_true'] at h
  simp [promotes, h.1.1.1.1]

private theorem quoted_false (m : FieldMeta) (t : GoType) (h : metaOk m = true) : quotedFor m t = false := by
  simp only [metaOk, Bool.and_eq_true, Bool.not_eq_true'] at h
  simp [quotedFor, h.1.1.1.2]

private theorem fragFields_cons (m : FieldMeta) (t : GoType) (fs : Fields) :
    fragFields ((m, t) :: fs) = true ↔ metaOk m = true ∧ frag t = true ∧ fragFields fs = true := by
  simp [fragFields, and_assoc]

/-- names of the generated properties = encoding/json's names -/
private theorem inlineProps_names (fs : Fields) (h : fragFields fs = true) :
    (inlineProps fs).map (·.1) = jsonFieldNames fs := by
  induction fs with
  | nil => simp [inlineProps, jsonFieldNames]
  | cons f fs ih =>
    obtain ⟨m, t⟩ := f
    obtain ⟨hm, _, hfs⟩ := (fragFields_cons m t fs).mp h
    simp only [inlineProps, jsonFieldNames, legacySkip_eq m hm, promotes_false m hm, legacyName_eq]
    by_cases hs : jsonSkip m = true
    · simp [hs, ih hfs]
    · simp [hs, ih hfs]

private theorem inlineReq_sub (fs : Fields) (h : fragFields fs = true) :
    ∀ r ∈ inlineReq fs, r ∈ jsonFieldNames fs := by
  induction fs with
  | nil => simp [inlineReq]
  | cons f fs ih =>
    obtain ⟨m, t⟩ := f
    obtain ⟨hm, _, hfs⟩ := (fragFields_cons m t fs).mp h
    intro r hr
    simp only [inlineReq, jsonFieldNames, legacySkip_eq m hm, promotes_false m hm, legacyName_eq] at hr ⊢
    by_cases hs : jsonSkip m = true
    · simp only [hs, ite_true] at hr ⊢; exact ih hfs r hr
    · simp only [hs, Bool.false_eq_true, ite_false] at hr ⊢
      by_cases hq : isRequired m (isPtr t) = true
      · simp only [hq, ite_true, List.mem_cons] at hr
        rcases hr with hr | hr
        · exact List.mem_cons.mpr (Or.inl hr)
        · exact List.mem_cons.mpr (Or.inr (ih hfs r hr))
      · simp only [hq, Bool.false_eq_true, ite_false] at hr
        exact List.mem_cons.mpr (Or.inr (ih hfs r hr))

private theorem populated_nonempty (env : Env) (v : GoVal) (T : GoType) (h : populated env v T = true) : isEmptyVal v = false := by
  cases v <;> cases T <;> simp_all [populated, isEmptyVal]

private theorem encFields_keys (env : Env) (fs : Fields) : ∀ (vs : List GoVal), fragFields fs = true → populatedFields env vs fs = true →
    (encFields env vs fs).map (·.1) = jsonFieldNames fs := by
  induction fs with
  | nil => intro vs _ hp; cases vs <;> simp_all [encFields, jsonFieldNames, populatedFields]
  | cons f fs ih =>
    obtain ⟨m, t⟩ := f
    intro vs h hp
    obtain ⟨hm, _, hfs⟩ := (fragFields_cons m t fs).mp h
    cases vs with
    | nil => simp [populatedFields] at hp
    | cons v vs =>
      simp only [populatedFields, Bool.and_eq_true] at hp
      simp only [encFields, jsonFieldNames, promotes_false m hm, populated_nonempty env v t hp.1, Bool.and_false]
      by_cases hs : jsonSkip m = true
      · simp [hs, ih vs hfs hp.2]
      · simp [hs, ih vs hfs hp.2]


mutual
private theorem sound (env : Env) (onRef : Text → Json → Bool) : (v : GoVal) → (T : GoType) → frag T = true → populated env v T = true →
    vGo onRef (genInline T) (enc env v T false) = true
  | .str s, T, hf, hp => by cases T <;> simp_all [populated, frag, genInline, enc, vGo, tyOk]
  | .int i, T, hf, hp => by cases T <;> simp_all [populated, frag, genInline, enc, vGo, tyOk]
  | .float m e, T, hf, hp => by cases T <;> simp_all [populated, frag, genInline, enc, vGo, tyOk]
  | .bool b, T, hf, hp => by cases T <;> simp_all [populated, frag, genInline, enc, vGo, tyOk]
  | .bytes _, T, hf, hp => by cases T <;> simp_all [populated, frag]
  | .time _, T, hf, hp => by cases T <;> simp_all [populated, frag]
  | .iface _, T, hf, hp => by cases T <;> simp_all [populated, frag]
  | .nil, T, hf, hp => by cases T <;> simp_all [populated]
  | .ptr v, T, hf, hp => by
    cases T with
    | ptr e =>
      simp only [frag] at hf; simp only [populated] at hp
      simp only [genInline, enc]; exact sound env onRef v e hf hp
    | _ => simp [populated] at hp
  | .list vs, T, hf, hp => by
    cases T with
    | slice e =>
      simp only [frag] at hf; simp only [populated, Bool.and_eq_true] at hp
      simp only [genInline, enc, vGo]; exact soundList env onRef vs e hf hp.2
    | array n e =>
      simp only [frag] at hf; simp only [populated, Bool.and_eq_true] at hp
      simp only [genInline, enc, vGo]; exact soundList env onRef vs e hf hp.2
    | _ => simp [populated] at hp
  | .map kvs, T, hf, hp => by
    cases T with
    | map e =>
      simp only [frag] at hf; simp only [populated, Bool.and_eq_true] at hp
      simp only [genInline, enc, vGo]; exact soundMap env onRef kvs e hf hp.2
    | _ => simp [populated] at hp
  | .struct vs, T, hf, hp => by
    cases T with
    | struct fs =>
      simp only [frag, Bool.and_eq_true] at hf; simp only [populated] at hp
      obtain ⟨hff, hnd⟩ := hf
      simp only [genInline, enc, vGo, Bool.and_eq_true, List.all_eq_true]
      have hkeys := encFields_keys env fs vs hff hp
      constructor
      · intro r hr
        rw [hasKey_iff, hkeys]
        exact inlineReq_sub fs hff r hr
      · intro kv hkv
        obtain ⟨s, hs, hv⟩ := soundFields env onRef vs fs hff hp kv hkv
        have hnd' : nodup ((inlineProps fs).map (·.1)) = true := by rw [inlineProps_names fs hff]; exact hnd
        rw [vProp_of_mem onRef (inlineProps fs) kv.1 s kv.2 hnd' hs]
        exact hv
    | named n => simp [frag] at hf
    | _ => simp [populated] at hp
private theorem soundList (env : Env) (onRef : Text → Json → Bool) : (vs : List GoVal) → (e : GoType) → frag e = true → populatedList env vs e = true →
    (encList env vs e).all (fun x => vGo onRef (genInline e) x) = true
  | [], e, _, _ => by simp [encList]
  | v :: vs, e, hf, hp => by
    simp only [populatedList, Bool.and_eq_true] at hp
    simp only [encList, List.all_cons, Bool.and_eq_true]
    exact ⟨sound env onRef v e hf hp.1, soundList env onRef vs e hf hp.2⟩
private theorem soundMap (env : Env) (onRef : Text → Json → Bool) : (kvs : List (Text × GoVal)) → (e : GoType) → frag e = true → populatedMap env kvs e = true →
    (encMap env kvs e).all (fun kv => vGo onRef (genInline e) kv.2) = true
  | [], e, _, _ => by simp [encMap]
  | (k, v) :: kvs, e, hf, hp => by
    simp only [populatedMap, Bool.and_eq_true] at hp
    simp only [encMap, List.all_cons, Bool.and_eq_true]
    exact ⟨sound env onRef v e hf hp.1, soundMap env onRef kvs e hf hp.2⟩
private theorem soundFields (env : Env) (onRef : Text → Json → Bool) : (vs : List GoVal) → (fs : Fields) → fragFields fs = true → populatedFields env vs fs = true →
    ∀ kv ∈ encFields env vs fs, ∃ s, (kv.1, s) ∈ inlineProps fs ∧ vGo onRef s kv.2 = true
  | [], fs, _, _ => by cases fs <;> simp [encFields]
  | v :: vs, [], _, hp => by simp [populatedFields] at hp
  | v :: vs, (m, t) :: fs, hf, hp => by
    obtain ⟨hm, hft, hfs⟩ := (fragFields_cons m t fs).mp hf
    simp only [populatedFields, Bool.and_eq_true] at hp
    intro kv hkv
    simp only [encFields, promotes_false m hm, populated_nonempty env v t hp.1, Bool.and_false, quoted_false m t hm] at hkv
    simp only [inlineProps, legacySkip_eq m hm, legacyName_eq]
    by_cases hs : jsonSkip m = true
    · simp only [hs, ite_true] at hkv ⊢
      exact soundFields env onRef vs fs hfs hp.2 kv hkv
    · simp only [hs, Bool.false_eq_true, ite_false, List.mem_cons] at hkv ⊢
      rcases hkv with hkv | hkv
      · refine ⟨genInline t, Or.inl ?_, ?_⟩
        · rw [hkv]
        · rw [hkv]; exact sound env onRef v t hft hp.1
      · obtain ⟨s, hs', hv⟩ := soundFields env onRef vs fs hfs hp.2 kv hkv
        exact ⟨s, Or.inr hs', hv⟩
end



/-! ### $defs style: every reference resolves -/

private theorem lookupVisited_mem (vis : List (GoType × Text)) (t : GoType) (n : Text) (h : lookupVisited vis t = some n) :
    n ∈ vis.map (·.2) := by
  induction vis with
  | nil => simp [lookupVisited] at h
  | cons p r ih =>
    obtain ⟨k, m⟩ := p
    simp only [lookupVisited] at h
    split at h
    · cases h; simp
    · exact List.mem_cons.mpr (Or.inr (ih h))

private theorem keys_setDef (n : Text) (s : Sch) (defs : List (Text × Sch)) (k : Text) :
    k ∈ (setDef n s defs).map (·.1) ↔ k = n ∨ k ∈ defs.map (·.1) := by
  induction defs with
  | nil => simp [setDef]
  | cons p r ih =>
    obtain ⟨k', v⟩ := p
    simp only [setDef]
    split
    · rename_i h
      have : k' = n := by simpa using h
      subst this
      simp
    · simp only [List.map_cons, List.mem_cons, ih]
      constructor
      · rintro (h | h | h)
        · exact Or.inr (Or.inl h)
        · exact Or.inl h
        · exact Or.inr (Or.inr h)
      · rintro (h | h | h)
        · exact Or.inr (Or.inl h)
        · exact Or.inl h
        · exact Or.inr (Or.inr h)

private theorem refs_setDef (n : Text) (s : Sch) (defs : List (Text × Sch)) (t : Text)
    (h : t ∈ refsOfProps (setDef n s defs)) : t ∈ refsOf s ∨ t ∈ refsOfProps defs := by
  induction defs with
  | nil => simpa [setDef, refsOfProps] using h
  | cons p r ih =>
    obtain ⟨k', v⟩ := p
    simp only [setDef] at h
    split at h
    · simp only [refsOfProps, List.mem_append] at h ⊢
      rcases h with h | h
      · exact Or.inl h
      · exact Or.inr (Or.inr h)
    · simp only [refsOfProps, List.mem_append] at h ⊢
      rcases h with h | h
      · exact Or.inr (Or.inl h)
      · rcases ih h with h | h
        · exact Or.inl h
        · exact Or.inr (Or.inr h)

/-- the invariant of the generator state: visited names are clean, have a `$defs` entry, and every reference inside
    `$defs` names a visited type -/
private def Inv (st : DState) : Prop :=
  (∀ n ∈ st.visited.map (·.2), cleanName n = true ∧ n ∈ st.defs.map (·.1)) ∧
  (∀ t ∈ refsOfProps st.defs, ∃ n ∈ st.visited.map (·.2), t = t!"#/$defs/" ++ n)

private def Post (st : DState) (refs : List Text) (st' : DState) : Prop :=
  Inv st' ∧ (∀ n ∈ st.visited.map (·.2), n ∈ st'.visited.map (·.2)) ∧
  (∀ t ∈ refs, ∃ n ∈ st'.visited.map (·.2), t = t!"#/$defs/" ++ n)

private def ExpOk (exp : Text → DState → Sch × DState) : Prop :=
  ∀ n st, Inv st → Post st (refsOf (exp n st).1) (exp n st).2

private theorem post_refl (st : DState) (h : Inv st) : Post st [] st :=
  ⟨h, fun _ hn => hn, by simp⟩

/-- visiting a fresh type: mark, placeholder -/
private theorem inv_visit (st : DState) (k : GoType) (n : Text) (hc : cleanName n = true) (h : Inv st) :
    Inv ⟨(k, n) :: st.visited, setDef n (.obj [] [] false) st.defs⟩ := by
  obtain ⟨h1, h2⟩ := h
  constructor
  · intro m hm
    simp only [List.map_cons, List.mem_cons] at hm
    rcases hm with hm | hm
    · subst hm; exact ⟨hc, (keys_setDef _ _ _ _).mpr (Or.inl rfl)⟩
    · exact ⟨(h1 m hm).1, (keys_setDef _ _ _ _).mpr (Or.inr (h1 m hm).2)⟩
  · intro t ht
    rcases refs_setDef _ _ _ _ ht with ht | ht
    · simp [refsOf, refsOfProps] at ht
    · obtain ⟨m, hm, e⟩ := h2 t ht
      exact ⟨m, List.mem_cons.mpr (Or.inr hm), e⟩

/-- replacing the placeholder by the generated struct schema -/
private theorem inv_finish (st : DState) (n : Text) (props : List (Text × Sch)) (req : List Text)
    (h : Inv st) (hr : ∀ t ∈ refsOfProps props, ∃ m ∈ st.visited.map (·.2), t = t!"#/$defs/" ++ m) :
    Inv ⟨st.visited, setDef n (.obj props req false) st.defs⟩ := by
  obtain ⟨h1, h2⟩ := h
  constructor
  · intro m hm
    exact ⟨(h1 m hm).1, (keys_setDef _ _ _ _).mpr (Or.inr (h1 m hm).2)⟩
  · intro t ht
    rcases refs_setDef _ _ _ _ ht with ht | ht
    · exact hr t (by simpa [refsOf] using ht)
    · exact h2 t ht


private theorem post_trans (st st1 st2 : DState) (r1 r2 : List Text)
    (a : Post st r1 st1) (b : Post st1 r2 st2) : Post st (r1 ++ r2) st2 := by
  obtain ⟨_, a2, a3⟩ := a
  obtain ⟨b1, b2, b3⟩ := b
  refine ⟨b1, fun n hn => b2 n (a2 n hn), ?_⟩
  intro t ht
  rcases List.mem_append.mp ht with ht | ht
  · obtain ⟨n, hn, e⟩ := a3 t ht
    exact ⟨n, b2 n hn, e⟩
  · exact b3 t ht

private theorem clean_time : cleanName t!"time.Time" = true := by decide
private theorem digitsAux_digits : ∀ (f n : Nat) (acc : Text), (∀ c ∈ acc, 48 ≤ c ∧ c ≤ 57) →
    ∀ c ∈ digitsAux f n acc, 48 ≤ c ∧ c ≤ 57 := by
  intro f
  induction f with
  | zero => intro n acc h; simpa [digitsAux] using h
  | succ f ih =>
    intro n acc h
    simp only [digitsAux]
    split
    · intro c hc
      rcases List.mem_cons.mp hc with e | e
      · subst e; omega
      · exact h c e
    · apply ih
      intro c hc
      rcases List.mem_cons.mp hc with e | e
      · subst e; omega
      · exact h c e

private theorem clean_anon (k : Nat) : cleanName (anonName k) = true := by
  have hd : ∀ c ∈ natDigits k, 48 ≤ c ∧ c ≤ 57 := digitsAux_digits _ _ [] (by simp)
  have : ∀ c ∈ anonName k, c ≠ 47 ∧ c ≠ 126 ∧ c ≠ 37 := by
    intro c hc
    simp only [anonName, List.mem_append] at hc
    rcases hc with hc | hc
    · simp only [List.mem_cons, List.not_mem_nil, or_false] at hc
      rcases hc with e | e | e | e | e | e <;> (subst e; decide)
    · have := hd c hc; omega
  have nc : ∀ c, c ∉ anonName k → (anonName k).contains c = false := by
    intro c h
    cases hb : (anonName k).contains c with
    | false => rfl
    | true => exact absurd (List.contains_iff_mem.mp hb) h
  simp only [cleanName, Bool.and_eq_true, Bool.not_eq_true']
  exact ⟨⟨nc 47 (fun h => (this 47 h).1 rfl), nc 126 (fun h => (this 126 h).2.1 rfl)⟩, nc 37 (fun h => (this 37 h).2.2 rfl)⟩

/-- a struct-kind type that is visited for the first time: the common part of `time`, anonymous and named structs -/
private theorem post_struct (st : DState) (k : GoType) (n : Text)
    (r : (List (Text × Sch) × List Text) × DState)
    (hr : Post ⟨(k, n) :: st.visited, setDef n (.obj [] [] false) st.defs⟩ (refsOfProps r.1.1) r.2) :
    Post st (refsOf (defsRef n)) ⟨r.2.visited, setDef n (.obj r.1.1 r.1.2 false) r.2.defs⟩ := by
  obtain ⟨i1, i2, i3⟩ := hr
  refine ⟨inv_finish r.2 n r.1.1 r.1.2 i1 i3, ?_, ?_⟩
  · intro m hm
    exact i2 m (List.mem_cons.mpr (Or.inr hm))
  · intro t ht
    simp only [defsRef, refsOf, List.mem_singleton] at ht
    exact ⟨n, i2 n (List.mem_cons.mpr (Or.inl rfl)), ht⟩

mutual
private theorem genD_post (exp : Text → DState → Sch × DState) (hexp : ExpOk exp) :
    (T : GoType) → (st : DState) → Inv st → Post st (refsOf (genD exp T st).1) (genD exp T st).2
  | .ptr e, st, h => by simp only [genD]; exact genD_post exp hexp e st h
  | .named n, st, h => by simp only [genD]; exact hexp n st h
  | .time, st, h => by
    simp only [genD]
    split
    · rename_i n hl
      refine ⟨h, fun _ hn => hn, ?_⟩
      intro t ht
      simp only [defsRef, refsOf, List.mem_singleton] at ht
      exact ⟨n, lookupVisited_mem _ _ _ hl, ht⟩
    · refine ⟨inv_visit st .time _ clean_time h, fun m hm => List.mem_cons.mpr (Or.inr hm), ?_⟩
      intro t ht
      simp only [defsRef, refsOf, List.mem_singleton] at ht
      exact ⟨t!"time.Time", List.mem_cons.mpr (Or.inl rfl), ht⟩
  | .struct fs, st, h => by
    simp only [genD]
    split
    · rename_i n hl
      refine ⟨h, fun _ hn => hn, ?_⟩
      intro t ht
      simp only [defsRef, refsOf, List.mem_singleton] at ht
      exact ⟨n, lookupVisited_mem _ _ _ hl, ht⟩
    · exact post_struct st (.struct fs) (anonName st.visited.length) _
        (genDFields_post exp hexp fs _ (inv_visit st (.struct fs) (anonName st.visited.length) (clean_anon _) h))
  | .slice e, st, h => by simp only [genD, refsOf]; exact genD_post exp hexp e st h
  | .array _ e, st, h => by simp only [genD, refsOf]; exact genD_post exp hexp e st h
  | .map e, st, h => by simp only [genD, refsOf]; exact genD_post exp hexp e st h
  | .bytes, st, h => by simp only [genD, refsOf]; exact post_refl st h
  | .str, st, h => by simp only [genD, refsOf]; exact post_refl st h
  | .int _, st, h => by simp only [genD, refsOf]; exact post_refl st h
  | .float _, st, h => by simp only [genD, refsOf]; exact post_refl st h
  | .bool, st, h => by simp only [genD, refsOf]; exact post_refl st h
  | .iface, st, h => by simp only [genD, refsOf]; exact post_refl st h
private theorem genDFields_post (exp : Text → DState → Sch × DState) (hexp : ExpOk exp) :
    (fs : Fields) → (st : DState) → Inv st → Post st (refsOfProps (genDFields exp fs st).1.1) (genDFields exp fs st).2
  | [], st, h => by simp only [genDFields, refsOfProps]; exact post_refl st h
  | (m, t) :: fs, st, h => by
    simp only [genDFields]
    split
    · exact genDFields_post exp hexp fs st h
    · simp only [refsOfProps]
      have a := genD_post exp hexp t st h
      exact post_trans _ _ _ _ _ a (genDFields_post exp hexp fs _ a.1)
end


private theorem clean_of_lookup (env : Env) (n : Text) (fs : Fields) (hc : cleanEnv env = true) (h : lookupEnv env n = some fs) :
    cleanName n = true := by
  induction env with
  | nil => simp [lookupEnv, List.lookup] at h
  | cons e r ih =>
    obtain ⟨k, v⟩ := e
    simp only [cleanEnv, List.all_cons, Bool.and_eq_true] at hc
    simp only [lookupEnv, List.lookup] at h
    split at h
    · rename_i hk
      have : n = k := by simpa using hk
      subst this; exact hc.1
    · exact ih hc.2 h

private theorem genDefsNamed_ok (env : Env) (hc : cleanEnv env = true) : ∀ f, ExpOk (genDefsNamed env f) := by
  intro f
  induction f with
  | zero => intro n st h; simp only [genDefsNamed, refsOf]; exact post_refl st h
  | succ f ih =>
    intro n st h
    simp only [genDefsNamed]
    split
    · rename_i nm hl
      refine ⟨h, fun _ hn => hn, ?_⟩
      intro t ht
      simp only [defsRef, refsOf, List.mem_singleton] at ht
      exact ⟨nm, lookupVisited_mem _ _ _ hl, ht⟩
    · split
      · simp only [refsOf]; exact post_refl st h
      · rename_i fs he
        exact post_struct st (.named n) n _
          (genDFields_post _ ih fs _ (inv_visit st (.named n) n (clean_of_lookup env n fs hc he) h))

private theorem splitOn_clean (sep : Nat) (s : Text) (h : sep ∉ s) : splitOn sep s = [s] := by
  induction s with
  | nil => rfl
  | cons c r ih =>
    have hc : c ≠ sep := fun e => h (e ▸ List.mem_cons_self)
    have hr : sep ∉ r := fun m => h (List.mem_cons_of_mem _ m)
    simp [splitOn, hc, ih hr]

private theorem pctDecode_clean (s : Text) (h : 37 ∉ s) : pctDecode s = s := by
  induction s with
  | nil => rfl
  | cons c r ih =>
    have hc : c ≠ 37 := fun e => h (e ▸ List.mem_cons_self)
    have hr : 37 ∉ r := fun m => h (List.mem_cons_of_mem _ m)
    unfold pctDecode
    split
    · rename_i heq; cases heq; exact absurd rfl hc
    · rename_i heq; cases heq; rw [ih hr]
    · rename_i heq; cases heq


private theorem unescape_clean (s : Text) (h : 126 ∉ s) : unescape s = s := by
  induction s with
  | nil => rfl
  | cons c r ih =>
    have hc : c ≠ 126 := fun e => h (e ▸ List.mem_cons_self)
    have hr : 126 ∉ r := fun m => h (List.mem_cons_of_mem _ m)
    unfold unescape
    split
    · rename_i heq; cases heq; exact absurd rfl hc
    · rename_i heq; cases heq; exact absurd rfl hc
    · rename_i heq; cases heq; rw [ih hr]
    · rename_i heq; cases heq

private theorem lookup_of_mem_keys (defs : List (Text × Sch)) (n : Text) (h : n ∈ defs.map (·.1)) :
    ∃ s, defs.lookup n = some s := by
  induction defs with
  | nil => cases h
  | cons p r ih =>
    obtain ⟨k, v⟩ := p
    simp only [List.lookup]
    by_cases hk : n = k
    · subst hk; exact ⟨v, by simp⟩
    · have : (n == k) = false := by simpa using hk
      simp only [this]
      simp only [List.map_cons, List.mem_cons] at h
      rcases h with h | h
      · exact absurd h hk
      · exact ih h

private theorem resolve_defs (root : Sch) (defs : List (Text × Sch)) (n : Text) (hc : cleanName n = true)
    (hk : n ∈ defs.map (·.1)) : (resolve ⟨root, defs⟩ (t!"#/$defs/" ++ n)).isSome = true := by
  simp only [cleanName, Bool.and_eq_true, Bool.not_eq_true', List.contains_eq_mem, decide_eq_false_iff_not] at hc
  obtain ⟨⟨h47, h126⟩, h37⟩ := hc
  obtain ⟨s, hs⟩ := lookup_of_mem_keys defs n hk
  have hp : pctDecode (35 :: 47 :: 36 :: 100 :: 101 :: 102 :: 115 :: 47 :: n) = 35 :: 47 :: 36 :: 100 :: 101 :: 102 :: 115 :: 47 :: n := by
    apply pctDecode_clean
    simp only [List.mem_cons]
    rintro (h | h | h | h | h | h | h | h | h)
    all_goals first | exact h37 h | cases h
  have hsplit : splitOn 47 (35 :: 47 :: 36 :: 100 :: 101 :: 102 :: 115 :: 47 :: n) = [[35], [36, 100, 101, 102, 115], n] := by
    simp [splitOn, splitOn_clean 47 n h47]
  show (resolve ⟨root, defs⟩ (35 :: 47 :: 36 :: 100 :: 101 :: 102 :: 115 :: 47 :: n)).isSome = true
  unfold resolve
  rw [hp, hsplit]
  simp [unescape, unescape_clean n h126, hs, walk]




private theorem lookup_of_mem (kvs : List (Text × Json)) (k : Text) (j : Json)
    (hn : nodup (kvs.map (·.1)) = true) (hm : (k, j) ∈ kvs) : kvs.lookup k = some j := by
  induction kvs with
  | nil => cases hm
  | cons p ps ih =>
    obtain ⟨n, j'⟩ := p
    simp only [List.map_cons, nodup_cons] at hn
    rcases List.mem_cons.mp hm with h | h
    · cases h; simp [List.lookup]
    · have hne : k ≠ n := by
        intro e; subst e
        exact hn.1 (List.mem_map.mpr ⟨(k, j), h, rfl⟩)
      have : (k == n) = false := by simpa using hne
      simp only [List.lookup, this]
      exact ih hn.2 h

private theorem f64Int_small (i : Int) (h : i.natAbs ≤ 9007199254740992) : f64Int i = i := by
  simp [f64Int, h]

private theorem bindFragFields_cons (m : FieldMeta) (t : GoType) (fs : Fields) :
    bindFragFields ((m, t) :: fs) = true ↔ metaOk m = true ∧ jsonSkip m = false ∧ bindFrag t = true ∧ bindFragFields fs = true := by
  simp [bindFragFields, and_assoc]


private theorem enc_ne_null (env : Env) : (v : GoVal) → (T : GoType) → bindFrag T = true → populated env v T = true →
    enc env v T false ≠ .null
  | .ptr v, T, hf, hp => by
    cases T with
    | ptr e =>
      simp only [bindFrag] at hf; simp only [populated] at hp
      simp only [enc]; exact enc_ne_null env v e hf hp
    | _ => simp [populated] at hp
  | .str _, T, hf, hp => by cases T <;> simp_all [populated, bindFrag, enc]
  | .int _, T, hf, hp => by cases T <;> simp_all [populated, bindFrag, enc]
  | .float _ _, T, hf, hp => by cases T <;> simp_all [populated, bindFrag, enc]
  | .bool _, T, hf, hp => by cases T <;> simp_all [populated, bindFrag, enc]
  | .bytes _, T, hf, hp => by cases T <;> simp_all [populated, bindFrag]
  | .time _, T, hf, hp => by cases T <;> simp_all [populated, bindFrag]
  | .iface _, T, hf, hp => by cases T <;> simp_all [populated, bindFrag]
  | .nil, T, hf, hp => by cases T <;> simp_all [populated]
  | .list _, T, hf, hp => by cases T <;> simp_all [populated, bindFrag, enc]
  | .map _, T, hf, hp => by cases T <;> simp_all [populated, bindFrag, enc]
  | .struct _, T, hf, hp => by cases T <;> simp_all [populated, bindFrag, enc]

mutual
private theorem bindFrag_frag : (T : GoType) → bindFrag T = true → frag T = true
  | .str, _ => rfl
  | .int _, _ => rfl
  | .float _, _ => rfl
  | .bool, _ => rfl
  | .ptr e, h => by simp only [bindFrag] at h; simp only [frag]; exact bindFrag_frag e h
  | .slice e, h => by simp only [bindFrag] at h; simp only [frag]; exact bindFrag_frag e h
  | .map e, h => by simp only [bindFrag] at h; simp only [frag]; exact bindFrag_frag e h
  | .struct fs, h => by
    simp only [bindFrag, Bool.and_eq_true] at h; simp only [frag, Bool.and_eq_true]
    exact ⟨bindFragFields_frag fs h.1, h.2⟩
  | .bytes, h => by simp [bindFrag] at h
  | .time, h => by simp [bindFrag] at h
  | .iface, h => by simp [bindFrag] at h
  | .array _ _, h => by simp [bindFrag] at h
  | .named _, h => by simp [bindFrag] at h
private theorem bindFragFields_frag : (fs : Fields) → bindFragFields fs = true → fragFields fs = true
  | [], _ => rfl
  | (m, t) :: fs, h => by
    obtain ⟨h1, _, h3, h4⟩ := (bindFragFields_cons m t fs).mp h
    simp only [fragFields, Bool.and_eq_true]
    exact ⟨⟨h1, bindFrag_frag t h3⟩, bindFragFields_frag fs h4⟩
end


mutual
private theorem rt : (v : GoVal) → (T : GoType) → bindFrag T = true → populated [] v T = true → smallInts v = true →
    dec f64Int T (enc [] v T false) = some v
  | .str s, T, hf, hp, hs => by cases T <;> simp_all [populated, bindFrag, enc, dec]
  | .int i, T, hf, hp, hs => by
    cases T with
    | int k => simp only [smallInts, decide_eq_true_eq] at hs; simp [enc, dec, f64Int_small i hs]
    | _ => simp [populated] at hp
  | .float m e, T, hf, hp, hs => by cases T <;> simp_all [populated, bindFrag, enc, dec]
  | .bool b, T, hf, hp, hs => by cases T <;> simp_all [populated, bindFrag, enc, dec]
  | .bytes _, T, hf, hp, hs => by cases T <;> simp_all [populated, bindFrag]
  | .time _, T, hf, hp, hs => by cases T <;> simp_all [populated, bindFrag]
  | .iface _, T, hf, hp, hs => by cases T <;> simp_all [populated, bindFrag]
  | .nil, T, hf, hp, hs => by cases T <;> simp_all [populated]
  | .ptr v, T, hf, hp, hs => by
    cases T with
    | ptr e =>
      simp only [bindFrag] at hf; simp only [populated] at hp; simp only [smallInts] at hs
      have ih := rt v e hf hp hs
      have hne := enc_ne_null [] v e hf hp
      simp only [enc]
      cases hj : enc [] v e false with
      | null => exact absurd hj hne
      | _ => rw [hj] at ih; simp [dec, ih]
    | _ => simp [populated] at hp
  | .list vs, T, hf, hp, hs => by
    cases T with
    | slice e =>
      simp only [bindFrag] at hf; simp only [populated, Bool.and_eq_true] at hp; simp only [smallInts] at hs
      simp [enc, dec, rtList vs e hf hp.2 hs]
    | array n e => simp [bindFrag] at hf
    | _ => simp [populated] at hp
  | .map kvs, T, hf, hp, hs => by
    cases T with
    | map e =>
      simp only [bindFrag] at hf; simp only [populated, Bool.and_eq_true] at hp; simp only [smallInts] at hs
      simp [enc, dec, rtMap kvs e hf hp.2 hs]
    | _ => simp [populated] at hp
  | .struct vs, T, hf, hp, hs => by
    cases T with
    | struct fs =>
      simp only [bindFrag, Bool.and_eq_true] at hf; simp only [populated] at hp; simp only [smallInts] at hs
      have hkeys := encFields_keys [] fs vs (bindFragFields_frag fs hf.1) hp
      have hnd : nodup ((encFields [] vs fs).map (·.1)) = true := by rw [hkeys]; exact hf.2
      simp [enc, dec, rtFields vs fs (encFields [] vs fs) hf.1 hp hs hnd (fun _ h => h)]
    | named n => simp [bindFrag] at hf
    | _ => simp [populated] at hp
private theorem rtList : (vs : List GoVal) → (e : GoType) → bindFrag e = true → populatedList [] vs e = true → smallIntsList vs = true →
    collect ((encList [] vs e).map (fun x => dec f64Int e x)) = some vs
  | [], e, _, _, _ => by simp [encList, collect]
  | v :: vs, e, hf, hp, hs => by
    simp only [populatedList, Bool.and_eq_true] at hp; simp only [smallIntsList, Bool.and_eq_true] at hs
    simp [encList, collect, rt v e hf hp.1 hs.1, rtList vs e hf hp.2 hs.2]
private theorem rtMap : (kvs : List (Text × GoVal)) → (e : GoType) → bindFrag e = true → populatedMap [] kvs e = true → smallIntsMap kvs = true →
    collect ((encMap [] kvs e).map (fun kv => (dec f64Int e kv.2).map (fun v => (kv.1, v)))) = some kvs
  | [], e, _, _, _ => by simp [encMap, collect]
  | (k, v) :: kvs, e, hf, hp, hs => by
    simp only [populatedMap, Bool.and_eq_true] at hp; simp only [smallIntsMap, Bool.and_eq_true] at hs
    simp [encMap, collect, rt v e hf hp.1 hs.1, rtMap kvs e hf hp.2 hs.2]
private theorem rtFields : (vs : List GoVal) → (fs : Fields) → (kvs : List (Text × Json)) → bindFragFields fs = true →
    populatedFields [] vs fs = true → smallIntsList vs = true → nodup (kvs.map (·.1)) = true →
    (∀ kv ∈ encFields [] vs fs, kv ∈ kvs) → decFields f64Int fs kvs = some vs
  | [], fs, kvs, _, hp, _, _, _ => by cases fs <;> simp_all [populatedFields, decFields]
  | v :: vs, [], kvs, _, hp, _, _, _ => by simp [populatedFields] at hp
  | v :: vs, (m, t) :: fs, kvs, hf, hp, hs, hnd, hsub => by
    obtain ⟨hm, hskip, hft, hfs⟩ := (bindFragFields_cons m t fs).mp hf
    simp only [populatedFields, Bool.and_eq_true] at hp; simp only [smallIntsList, Bool.and_eq_true] at hs
    simp only [encFields, hskip, promotes_false m hm, populated_nonempty [] v t hp.1, Bool.and_false, quoted_false m t hm,
      Bool.false_eq_true, ite_false, List.mem_cons] at hsub
    have hmem : (jsonName m, enc [] v t false) ∈ kvs := hsub _ (Or.inl rfl)
    have hrest := rtFields vs fs kvs hfs hp.2 hs.2 hnd (fun kv h => hsub kv (Or.inr h))
    simp [decFields, hskip, lookup_of_mem kvs _ _ hnd hmem, rt v t hft hp.1 hs.1, hrest]
end

/-! ## the theorems -/

/-- **Soundness on the fragment** (inline generator): for every type without `[]byte`, `time.Time`, interface, embedded
    fields, `,string` and named (recursive) struct types, with distinct JSON names, and every fully populated value of it,
    the generated schema accepts `json.Marshal` of the value — in any document, with any fuel (it contains no `$ref`). -/
theorem C18_sound_partial (env : Env) (doc : Doc) (fuel : Nat) (T : GoType) (v : GoVal)
    (hf : frag T = true) (hp : populated env v T = true) :
    validates doc fuel (genInline T) (encodeFull env T v) = true := by
  cases fuel with
  | zero => simp only [validates, encodeFull]; exact sound env _ v T hf hp
  | succ f => simp only [validates, encodeFull]; exact sound env _ v T hf hp

/-- … as a statement about the generated document and `validatesDoc`. -/
theorem C18_sound_partial_doc (env : Env) (T : GoType) (v : GoVal) (hf : frag T = true) (hp : populated env v T = true) :
    validatesDoc (genInlineDoc T) (encodeFull env T v) = true :=
  C18_sound_partial env _ _ T v hf hp

/-- **Field names**: on the fragment the schema's property names are exactly encoding/json's member names, in field order. -/
theorem C18_field_names (fs : Fields) (hf : frag (.struct fs) = true) :
    propertyNames (genInline (.struct fs)) = jsonFieldNames fs := by
  simp only [frag, Bool.and_eq_true] at hf
  simp only [genInline, propertyNames]
  exact inlineProps_names fs hf.1

/-- … and the encoding of a fully populated value has exactly these members. -/
theorem C18_encoding_members (env : Env) (fs : Fields) (vs : List GoVal) (hf : frag (.struct fs) = true)
    (hp : populated env (.struct vs) (.struct fs) = true) :
    (encFields env vs fs).map (·.1) = jsonFieldNames fs := by
  simp only [frag, Bool.and_eq_true] at hf
  simp only [populated] at hp
  exact encFields_keys env fs vs hf.1 hp

/-- **References resolve** ($defs style): for every environment of named struct types whose names need no JSON-pointer
    escaping and every type — recursive ones included — each `$ref` of the generated document resolves inside it. -/
theorem C18_refs_resolve (env : Env) (T : GoType) (hc : cleanEnv env = true) : refsResolve (genDefsDoc env T) = true := by
  have hpost := genD_post _ (genDefsNamed_ok env hc (env.length + 1)) T ⟨[], []⟩ ⟨by simp, by simp [refsOfProps]⟩
  obtain ⟨⟨i1, i2⟩, _, i3⟩ := hpost
  simp only [refsResolve, Doc.refs, genDefsDoc, List.all_eq_true, List.mem_append]
  intro t ht
  have : ∃ n ∈ (genD (genDefsNamed env (env.length + 1)) T ⟨[], []⟩).2.visited.map (·.2), t = t!"#/$defs/" ++ n := by
    rcases ht with ht | ht
    · exact i3 t ht
    · exact i2 t ht
  obtain ⟨n, hn, e⟩ := this
  rw [e]
  exact resolve_defs _ _ n (i1 n hn).1 (i1 n hn).2

/-- **Argument binding**: for every type of the binding fragment (scalars, pointers, slices, maps, nested structs with
    distinct names, no `-` fields) and every fully populated value whose integers lie within ±2^53, binding the JSON
    encoding the caller sent — numbers passing through float64 — yields exactly that value. -/
theorem C18_bind (T : GoType) (v : GoVal) (hf : bindFrag T = true) (hp : populated [] v T = true) (hs : smallInts v = true) :
    bindArguments T (encodeFull [] T v) = some v := rt v T hf hp hs

/-- the bound is sharp: 2^53 + 1 does not survive the float64 step (it arrives as 2^53) -/
theorem C18_bind_witness :
    bindArguments (.struct [(Ex.fm t!"N" t!"n", .int 4)]) (encodeFull [] (.struct [(Ex.fm t!"N" t!"n", .int 4)]) (.struct [.int 9007199254740993]))
      = some (.struct [.int 9007199254740992]) ∧
    f64Int 9007199254740993 = 9007199254740992 ∧ f64Int (-9007199254740995) = -9007199254740996 :=
  ⟨rfl, by decide, by decide⟩

/-! ## the full statement is false of the code: one counterexample per construct (all kernel-evaluated) -/

/-- `[]byte`: every style describes an array of integers, encoding/json prints a base64 string. -/
theorem C18_bytes_counterexample :
    populated [] Ex.vBytes Ex.tBytes = true ∧
    validatesDoc (genInlineEnvDoc [] Ex.tBytes) (encodeFull [] Ex.tBytes Ex.vBytes) = false ∧
    validatesDoc (genNestedDoc [] Ex.tBytes) (encodeFull [] Ex.tBytes Ex.vBytes) = false ∧
    validatesDoc (genDefsDoc [] Ex.tBytes) (encodeFull [] Ex.tBytes Ex.vBytes) = false := by decide

/-- `time.Time`: described as an object (closed, in the default style), encoded as an RFC 3339 string. -/
theorem C18_time_counterexample :
    populated [] Ex.vTime Ex.tTime = true ∧
    validatesDoc (genInlineEnvDoc [] Ex.tTime) (encodeFull [] Ex.tTime Ex.vTime) = false ∧
    validatesDoc (genNestedDoc [] Ex.tTime) (encodeFull [] Ex.tTime Ex.vTime) = false ∧
    validatesDoc (genDefsDoc [] Ex.tTime) (encodeFull [] Ex.tTime Ex.vTime) = false := by decide

/-- embedded struct: one property named after the type, while encoding/json promotes the fields — wrong names, and the
    encoding is rejected (required `Base` missing; in the default style also `additionalProperties: false`). -/
theorem C18_embedded_counterexample :
    populated [] Ex.vEmb Ex.tEmb = true ∧
    jsonFieldNames Ex.fsEmb = [t!"id", t!"rank", t!"extra"] ∧
    (genInlineEnvDoc [] Ex.tEmb).propertyNames = [t!"Base", t!"extra"] ∧
    (genNestedDoc [] Ex.tEmb).propertyNames = [t!"Base", t!"extra"] ∧
    (genDefsDoc [] Ex.tEmb).propertyNames = [t!"Base", t!"extra"] ∧
    validatesDoc (genInlineEnvDoc [] Ex.tEmb) (encodeFull [] Ex.tEmb Ex.vEmb) = false ∧
    validatesDoc (genNestedDoc [] Ex.tEmb) (encodeFull [] Ex.tEmb Ex.vEmb) = false ∧
    validatesDoc (genDefsDoc [] Ex.tEmb) (encodeFull [] Ex.tEmb Ex.vEmb) = false := by decide

/-- `,string`: described as integer, encoded as a string. -/
theorem C18_string_option_counterexample :
    populated [] Ex.vStrOpt Ex.tStrOpt = true ∧
    encodeFull [] Ex.tStrOpt Ex.vStrOpt = .obj [(t!"n", .str t!"5")] ∧
    validatesDoc (genInlineEnvDoc [] Ex.tStrOpt) (encodeFull [] Ex.tStrOpt Ex.vStrOpt) = false ∧
    validatesDoc (genNestedDoc [] Ex.tStrOpt) (encodeFull [] Ex.tStrOpt Ex.vStrOpt) = false ∧
    validatesDoc (genDefsDoc [] Ex.tStrOpt) (encodeFull [] Ex.tStrOpt Ex.vStrOpt) = false :=
  ⟨by decide, rfl, by decide, by decide, by decide⟩

/-- interface field: typed `object` by the inline and $defs styles (the default style leaves it open and accepts). -/
theorem C18_interface_counterexample :
    populated [] Ex.vIface Ex.tIface = true ∧
    validatesDoc (genInlineEnvDoc [] Ex.tIface) (encodeFull [] Ex.tIface Ex.vIface) = false ∧
    validatesDoc (genDefsDoc [] Ex.tIface) (encodeFull [] Ex.tIface Ex.vIface) = false ∧
    validatesDoc (genNestedDoc [] Ex.tIface) (encodeFull [] Ex.tIface Ex.vIface) = true := by decide

/-- default style: the `$ref` to a first occurrence below a property called `a/b` is `#/properties/a/b` (not `a~1b`):
    it does not resolve, and the encoding is rejected. -/
theorem C18_ref_escape_counterexample :
    populated [] Ex.vEsc Ex.tEsc = true ∧
    (genNestedDoc [] Ex.tEsc).refs = [t!"#/properties/a/b"] ∧
    refsResolve (genNestedDoc [] Ex.tEsc) = false ∧
    validatesDoc (genNestedDoc [] Ex.tEsc) (encodeFull [] Ex.tEsc Ex.vEsc) = false := by decide

/-- $defs style: a type name containing `/` (generic instantiation with a type from another package) is used unescaped
    in `#/$defs/<name>`: the reference does not resolve (so `cleanEnv` in `C18_refs_resolve` is necessary). -/
theorem C18_defs_name_counterexample :
    cleanEnv Ex.envGeneric = false ∧
    refsResolve (genDefsDoc Ex.envGeneric (.named t!"main.H")) = false := by decide

/-- `json:"-,"`: encoding/json names the field "-", the inline and $defs generators drop it. -/
theorem C18_dash_comma_counterexample :
    jsonFieldNames Ex.fsDash = [t!"-", t!"e"] ∧
    propertyNames (genInline (.struct Ex.fsDash)) = [t!"e"] ∧
    (genDefsDoc [] (.struct Ex.fsDash)).propertyNames = [t!"e"] ∧
    (genNestedDoc [] (.struct Ex.fsDash)).propertyNames = [t!"-", t!"e"] := by decide

/-- inline style on a recursive type: below the depth limit every field is described as `object`, whatever its type —
    a list of 9 nodes is rejected (its 8th `val` is a string), one of 3 nodes is accepted; the reference styles accept both. -/
theorem C18_depth_limit_counterexample :
    validatesDoc (genInlineEnvDoc Ex.envList Ex.tList) (encodeFull Ex.envList Ex.tList (Ex.listOf 2)) = true ∧
    validatesDoc (genInlineEnvDoc Ex.envList Ex.tList) (encodeFull Ex.envList Ex.tList (Ex.listOf 8)) = false ∧
    validatesDoc (genNestedDoc Ex.envList Ex.tList) (encodeFull Ex.envList Ex.tList (Ex.listOf 8)) = true ∧
    validatesDoc (genDefsDoc Ex.envList Ex.tList) (encodeFull Ex.envList Ex.tList (Ex.listOf 8)) = true := by decide

/-- a recursive pointer without `omitempty`: every finite value ends in `"next": null`, which no style accepts. -/
theorem C18_nil_pointer_witness :
    validatesDoc (genInlineEnvDoc Ex.envChain Ex.tChain) (encodeFull Ex.envChain Ex.tChain Ex.vChain) = false ∧
    validatesDoc (genNestedDoc Ex.envChain Ex.tChain) (encodeFull Ex.envChain Ex.tChain Ex.vChain) = false ∧
    validatesDoc (genDefsDoc Ex.envChain Ex.tChain) (encodeFull Ex.envChain Ex.tChain Ex.vChain) = false := by decide

/-- **C18 as stated** (`SoundFor`: every struct type, every fully populated value — accepted, references resolve, names
    agree) does not hold for any of the three styles. -/
theorem C18_sound_refuted_inline : ¬ SoundFor genInlineEnvDoc := by
  intro h
  have := (h [] _ Ex.vBytes C18_bytes_counterexample.1).1
  rw [show (GoType.struct _) = Ex.tBytes from rfl, C18_bytes_counterexample.2.1] at this
  cases this

theorem C18_sound_refuted_nested : ¬ SoundFor genNestedDoc := by
  intro h
  have := (h [] _ Ex.vBytes C18_bytes_counterexample.1).1
  rw [show (GoType.struct _) = Ex.tBytes from rfl, C18_bytes_counterexample.2.2.1] at this
  cases this

theorem C18_sound_refuted_defs : ¬ SoundFor genDefsDoc := by
  intro h
  have := (h [] _ Ex.vBytes C18_bytes_counterexample.1).1
  rw [show (GoType.struct _) = Ex.tBytes from rfl, C18_bytes_counterexample.2.2.2] at this
  cases this

/-! ## `jsonschema` tags: whatever a tag says, no field disappears -/

private theorem retag_fragFields (f : FieldMeta → Text) (fs : Fields) : fragFields (retag f fs) = fragFields fs := by
  induction fs with
  | nil => rfl
  | cons x fs ih =>
    obtain ⟨m, t⟩ := x
    simp only [retag, fragFields, ih]
    rfl

private theorem retag_jsonFieldNames (f : FieldMeta → Text) (fs : Fields) : jsonFieldNames (retag f fs) = jsonFieldNames fs := by
  induction fs with
  | nil => rfl
  | cons x fs ih =>
    obtain ⟨m, t⟩ := x
    simp only [retag, jsonFieldNames, ih]
    rfl

/-- **Tags never remove a field**: replace the `jsonschema` tags of a fragment struct by ANY texts (patterns no regular
    expression engine accepts, commas, semicolons, unknown keywords, …): the schema's property names are still exactly
    encoding/json's member names of the type. (The tag parser `tagKeywords` is total — it has no failure path — and the
    struct generators consult the tag for `required` only.) -/
theorem C18_field_names_any_jsonschema_tag (fs : Fields) (f : FieldMeta → Text) (hf : frag (.struct fs) = true) :
    propertyNames (genInline (.struct (retag f fs))) = jsonFieldNames fs := by
  have hf' : frag (.struct (retag f fs)) = true := by
    simp only [frag, retag_fragFields, retag_jsonFieldNames] at hf ⊢
    exact hf
  rw [C18_field_names _ hf', retag_jsonFieldNames]

/-- every directive `parseDirectives` hands to the keyword switch is non-empty, in both tag formats -/
private theorem legacyStep_inv (st : DirState) (part : Text)
    (h1 : ∀ d ∈ st.out, d ≠ []) (h2 : st.inDesc = true → st.cur ≠ []) :
    (∀ d ∈ (legacyStep st part).out, d ≠ []) ∧ ((legacyStep st part).inDesc = true → (legacyStep st part).cur ≠ []) := by
  have hflush : ∀ d ∈ flush st, d ≠ [] := by
    intro d hd
    unfold flush at hd
    by_cases hc : st.cur = []
    · simp [hc] at hd; exact h1 d hd
    · simp [hc] at hd
      rcases hd with hd | hd
      · rw [hd]; exact hc
      · exact h1 d hd
  unfold legacyStep
  by_cases hp : hasPrefix part t!"description=" = true
  · simp only [hp, ite_true]
    refine ⟨hflush, fun _ => ?_⟩
    intro e; rw [e] at hp; simp [hasPrefix] at hp
  · simp only [hp, Bool.false_eq_true, ite_false]
    by_cases hd : st.inDesc = true
    · simp only [hd, ite_true]
      by_cases he : endsDescription part = true
      · simp only [he, ite_true]
        refine ⟨?_, fun h => by cases h⟩
        intro d hd'
        rcases List.mem_cons.mp hd' with e | e
        · rw [e]; exact h2 hd
        · exact h1 d e
      · simp only [he, Bool.false_eq_true, ite_false]
        refine ⟨h1, fun _ => ?_⟩
        intro e
        have := congrArg List.length e
        simp at this
    · simp only [hd, Bool.false_eq_true, ite_false]
      exact ⟨hflush, fun h => by cases h⟩

private theorem legacyFold_inv (parts : List Text) : ∀ (st : DirState),
    (∀ d ∈ st.out, d ≠ []) → (st.inDesc = true → st.cur ≠ []) →
    ∀ d ∈ flush (parts.foldl legacyStep st), d ≠ [] := by
  induction parts with
  | nil =>
    intro st h1 _ d hd
    simp only [List.foldl_nil] at hd
    unfold flush at hd
    by_cases hc : st.cur = []
    · simp [hc] at hd; exact h1 d hd
    · simp [hc] at hd
      rcases hd with hd | hd
      · rw [hd]; exact hc
      · exact h1 d hd
  | cons p ps ih =>
    intro st h1 h2
    simp only [List.foldl_cons]
    exact ih _ (legacyStep_inv st p h1 h2).1 (legacyStep_inv st p h1 h2).2

/-- **The directive splitter never yields an empty directive**, for every tag text in either format (semicolon, or the
    legacy comma format with its description continuation). -/
theorem C18_directives_nonempty (tag : Text) : ∀ d ∈ parseDirectives tag, d ≠ [] := by
  intro d hd
  unfold parseDirectives at hd
  by_cases hs : tag.contains 59 = true
  · simp only [hs, ite_true, List.mem_filter] at hd
    simpa using hd.2
  · simp only [hs, Bool.false_eq_true, ite_false, List.mem_reverse] at hd
    exact legacyFold_inv _ ⟨[], [], false⟩ (by simp) (by simp) d hd

/-- the oddities of the parser that exists (kernel-evaluated; the differential run ties them to the code): the legacy
    splitter cuts a pattern at a comma, a legacy description swallows `pattern=` (not one of its eleven stop words) and
    `required`, one `;` switches the whole tag to the semicolon format, `enum` accumulates, numbers that do not parse
    are dropped, and a blank around `required` hides it from `isRequiredField` although the parser sees the directive -/
theorem C18_tag_parser_witness :
    parseDirectives t!"pattern=^(a,b)$,required" = [t!"pattern=^(a", t!"b)$", t!"required"] ∧
    (tagKeywords .checked .str t!"pattern=^(a,b)$,required").pattern = t!"^(a" ∧
    (tagKeywords .checked .str t!"pattern=^(?!tmp)[a-z]+$").pattern = t!"^(?!tmp)[a-z]+$" ∧
    parseDirectives t!"description=d,pattern=x,required,title=t" = [t!"description=d, pattern=x, required", t!"title=t"] ∧
    parseDirectives t!"description=a;b,pattern=x" = [t!"description=a", t!"b,pattern=x"] ∧
    (tagKeywords .checked .str t!"enum=a,enum=b,c").enums = [t!"a", t!"b"] ∧
    (tagKeywords .checked .float t!"minimum=abc;maximum= 007.50 ;minLength=-1;maxLength=18446744073709551616") =
      { maximum := some (750, 2) } ∧
    parseDirectives t!" required ;title=x" = [t!"required", t!"title=x"] ∧
    isRequired ⟨t!"F", t!"f", t!" required ;title=x", false⟩ false = false := by decide

private theorem keywordTable_floatArg : ∀ p ∈ keywordTable, ∀ v : Text,
    (p.2 v).floatArg = none ∨ (p.2 v).floatArg = some v := by
  intro p hp v
  simp only [keywordTable, List.mem_cons, List.not_mem_nil, or_false] at hp
  rcases hp with h | h | h | h | h | h | h | h | h | h | h | h | h <;> (subst h; simp [Directive.floatArg])

private theorem classify_floatArg' (d : Text) :
    (classify d).floatArg = none ∨ (classify d).floatArg = some (directiveValue d) := by
  unfold classify
  by_cases h1 : (trimSpace d == t!"required") = true
  · rw [if_pos h1]; exact Or.inl rfl
  · rw [if_neg h1]
    by_cases h2 : (trimSpace d).contains 61 = true
    · rw [if_pos h2]
      cases hf : keywordTable.find? (fun p => p.1 == directiveKey d) with
      | none => exact Or.inl rfl
      | some p => exact keywordTable_floatArg p (List.mem_of_find?_eq_some hf) _
    · rw [if_neg h2]
      by_cases h3 : (trimSpace d == t!"uniqueItems") = true
      · rw [if_pos h3]; exact Or.inl rfl
      · rw [if_neg h3]; exact Or.inl rfl

private theorem classify_floatArg (d v : Text) (h : (classify d).floatArg = some v) : v = directiveValue d := by
  rcases classify_floatArg' d with h' | h'
  · rw [h'] at h; cases h
  · rw [h'] at h; exact (Option.some.inj h).symm

/-- one round of the directive loop leaves `nonfinite` alone if the parsers are finite-checked (`F.Good`) or if the
    directive's value is no spelling of NaN / ±Inf -/
private theorem applyDirective_finite (F : TagFacts) (k : TagKind) (kw : TagKw) (d : Text)
    (h : F.Good ∨ parseFloatLit (directiveValue d) ≠ .nonfinite) : (applyDirective F k kw d).nonfinite = kw.nonfinite := by
  unfold applyDirective
  have hv : ∀ v, (classify d).floatArg = some v → F.Good ∨ parseFloatLit v ≠ .nonfinite := by
    intro v hv; rw [classify_floatArg d v hv]; exact h
  generalize classify d = dir at hv
  cases dir <;> simp only [applyClassified, Directive.floatArg] at hv ⊢
  case minimum v =>
    rcases hv v rfl with hg | hn
    · split <;> first | rfl | (simp only [hg.1, ite_true])
    · split <;> first | rfl | (rename_i heq; exact absurd heq hn)
  case maximum v =>
    rcases hv v rfl with hg | hn
    · split <;> first | rfl | (simp only [hg.2.1, ite_true])
    · split <;> first | rfl | (rename_i heq; exact absurd heq hn)
  case dflt v =>
    unfold defaultOf
    split
    · rfl
    · rcases hv v rfl with hg | hn
      · split <;> first | rfl | (simp only [hg.2.2, ite_true])
      · split <;> first | rfl | (rename_i heq; exact absurd heq hn)
    · rfl
    · rfl
  all_goals first | rfl | (split <;> rfl)

private theorem foldl_finite (F : TagFacts) (k : TagKind) : ∀ (ds : List Text) (kw : TagKw),
    (∀ d ∈ ds, F.Good ∨ parseFloatLit (directiveValue d) ≠ .nonfinite) →
    (ds.foldl (applyDirective F k) kw).nonfinite = kw.nonfinite := by
  intro ds
  induction ds with
  | nil => intro kw _; rfl
  | cons d ds ih =>
    intro kw hd
    simp only [List.foldl_cons]
    rw [ih _ (fun x hx => hd x (List.mem_cons_of_mem _ hx)), applyDirective_finite F k kw d (hd d (List.mem_cons_self ..))]

/-- **Serialisable**: where every tag number goes through the finiteness check (`F.Good`: `minimum`, `maximum` and a
    number-typed `default` are parsed by `parseFiniteFloat`, which rejects NaN and ±Inf), the keywords the parser sets
    are printable by encoding/json for EVERY tag text — no tag can make the tool's schema (and with it tools/list of
    the whole server) unserialisable. -/
theorem C18_tags_serialisable (F : TagFacts) (hF : F.Good) (k : TagKind) (js : Text) :
    (tagKeywords F k js).nonfinite = false := by
  unfold tagKeywords
  by_cases he : js = []
  · simp [he]
  · simp only [beq_iff_eq, he, ite_false]
    exact foldl_finite F k _ _ (fun _ _ => Or.inl hF)

/-- instance obligation: today's source is in that region (regenerated facts `Mcp.Gen.tagNumberParsers`,
    `Mcp.Gen.tagFiniteCheck`: the three parsers are `parseFiniteFloat`, whose body rejects `math.IsNaN || math.IsInf`) -/
theorem C18_tag_numbers_finite_checked : codeTagFacts.Good := by decide

/-- … hence for the code as it is -/
theorem C18_tags_serialisable_today (k : TagKind) (js : Text) : (tagKeywords codeTagFacts k js).nonfinite = false :=
  C18_tags_serialisable _ C18_tag_numbers_finite_checked k js

/-- **Serialisable, in any region** (also without the finiteness check): if no directive of the tag carries a value
    that `strconv.ParseFloat` reads as NaN or ±Inf, the keywords are printable. Outside `F.Good` the hypothesis cannot
    be dropped: `C18_tag_nonfinite_witness`. -/
theorem C18_tags_serialisable_partial (F : TagFacts) (k : TagKind) (js : Text)
    (h : ∀ d ∈ parseDirectives js, parseFloatLit (directiveValue d) ≠ .nonfinite) :
    (tagKeywords F k js).nonfinite = false := by
  unfold tagKeywords
  by_cases he : js = []
  · simp [he]
  · simp only [beq_iff_eq, he, ite_false]
    exact foldl_finite F k _ _ (fun d hd => Or.inr (h d hd))

/-- the region the code was in before 068180d (`TagFacts.unchecked`: plain `strconv.ParseFloat`): `minimum=NaN`,
    `maximum=Inf`, `default=-inf` on a number set a bound encoding/json refuses to print — the generated schema is no
    JSON document (and tools/list fails for every tool of the server). `+nan` and `infin` do not parse and are
    harmless; on an integer `default=inf` stays a string. With the check (`TagFacts.checked`) the same tags are ignored
    like any unparsable number, a number default falls back to the string. -/
theorem C18_tag_nonfinite_witness :
    (tagKeywords .unchecked .float t!"minimum=NaN").nonfinite = true ∧
    (tagKeywords .unchecked .int t!"required,maximum=Inf").nonfinite = true ∧
    (tagKeywords .unchecked .float t!"default=-inf").nonfinite = true ∧
    (tagKeywords ⟨true, false, true⟩ .float t!"minimum=NaN;maximum=Inf").nonfinite = true ∧
    (tagKeywords .unchecked .float t!"minimum=+nan;maximum=infin").nonfinite = false ∧
    (tagKeywords .unchecked .int t!"default=inf") = { dflt := some (.str t!"inf") } ∧
    (tagKeywords .checked .float t!"minimum=NaN;maximum=Inf") = {} ∧
    (tagKeywords .checked .float t!"default=-inf") = { dflt := some (.str t!"-inf") } := by decide

/-! ## registration histories: the registry holds the descriptor registered last, whole -/

private theorem lookup_regSet {α : Type} (name n : Text) (d : α) (reg : List (Text × α)) :
    (regSet name d reg).lookup n = if n == name then some d else reg.lookup n := by
  induction reg with
  | nil =>
    simp only [regSet, List.lookup]
    by_cases h : n = name
    · simp [h]
    · have : (n == name) = false := by simpa using h
      simp [this]
  | cons kv r ih =>
    obtain ⟨k, v⟩ := kv
    simp only [regSet]
    by_cases hk : k = name
    · subst hk
      simp only [beq_self_eq_true, ite_true, List.lookup]
      by_cases h : n = k
      · simp [h]
      · have : (n == k) = false := by simpa using h
        simp [this]
    · have hk' : (k == name) = false := by simpa using hk
      simp only [hk', Bool.false_eq_true, ite_false, List.lookup]
      by_cases h : n = k
      · subst h
        have : (n == name) = false := by simpa using hk
        simp [this]
      · have h' : (n == k) = false := by simpa using h
        simp only [h']
        exact ih

private theorem lookup_regErase {α : Type} (name n : Text) (reg : List (Text × α)) :
    (regErase name reg).lookup n = if n == name then none else reg.lookup n := by
  induction reg with
  | nil => simp [regErase, List.lookup]
  | cons kv r ih =>
    obtain ⟨k, v⟩ := kv
    simp only [regErase]
    by_cases hk : k = name
    · subst hk
      simp only [beq_self_eq_true, ite_true]
      rw [ih]
      by_cases h : n = k
      · simp [h]
      · have : (n == k) = false := by simpa using h
        simp [this, List.lookup]
    · have hk' : (k == name) = false := by simpa using hk
      simp only [hk', Bool.false_eq_true, ite_false, List.lookup]
      by_cases h : n = k
      · subst h
        have : (n == name) = false := by simpa using hk
        simp [this]
      · have h' : (n == k) = false := by simpa using h
        simp only [h']
        exact ih

private theorem lookup_regStep {α : Type} (reg : List (Text × α)) (op : RegOp α) (n : Text) :
    (regStep reg op).lookup n = lastOp n (reg.lookup n) op := by
  cases op with
  | register name d =>
    simp only [regStep, lastOp]
    by_cases he : name = []
    · subst he; simp
    · have he' : (name == []) = false := by simpa using he
      simp only [he', Bool.false_eq_true, ite_false, lookup_regSet]
      by_cases h : n = name
      · subst h; simp [he]
      · have h1 : (n == name) = false := by simpa using h
        have h2 : (name == n) = false := by simpa using (fun e : name = n => h e.symm)
        simp [h1, h2]
  | unregister name =>
    simp only [regStep, lastOp, lookup_regErase]
    by_cases h : n = name
    · subst h; simp
    · have h1 : (n == name) = false := by simpa using h
      have h2 : (name == n) = false := by simpa using (fun e : name = n => h e.symm)
      simp [h1, h2]

/-- **The registry holds the last registered descriptor, whole**: after ANY history of registrations and
    unregistrations, what the registry (hence getTools / tools/list) shows for a name is exactly the descriptor of the
    most recent registration under that name — every part of it, nothing of an earlier registration — and nothing
    if the name was unregistered afterwards. Generic in the descriptor type. -/
theorem C18_registry_holds_last_registered {α : Type} (h : List (RegOp α)) (n : Text) :
    (regRun h).lookup n = lastRegistered h n := by
  have : ∀ (h : List (RegOp α)) (reg : List (Text × α)),
      (h.foldl regStep reg).lookup n = h.foldl (lastOp n) (reg.lookup n) := by
    intro h
    induction h with
    | nil => intro reg; rfl
    | cons op h ih => intro reg; simp only [List.foldl_cons]; rw [ih, lookup_regStep]
  exact this h []

/-- a registry that MERGES a re-registration with the previous descriptor (the new one wins where it says something,
    the parts it leaves unset are inherited) does not have this property: register with an output schema and
    annotations, register the same name again without — the old output schema, annotations and description are still
    advertised -/
theorem C18_registry_merge_witness :
    let rich : Parts := ⟨t!"first", 1, some 7, some 9⟩
    let bare : Parts := ⟨[], 2, none, none⟩
    let h : List (RegOp Parts) := [.register t!"x" rich, .register t!"x" bare]
    (h.foldl regStepMerge []).lookup t!"x" = some ⟨t!"first", 2, some 7, some 9⟩ ∧
    lastRegistered h t!"x" = some bare ∧ (regRun h).lookup t!"x" = some bare := by decide

/-! ## non-vacuity -/

/-- the fragment contains a type with tags, omitempty, `-`, jsonschema `required`, pointers, slices, arrays, maps and
    nested structs; the value is fully populated; the pure generator is the stateful one on it -/
example : frag Ex.tFrag = true ∧ populated [] Ex.vFrag Ex.tFrag = true ∧ hasNamed Ex.tFrag = false := by decide

example : propertyNames (genInline Ex.tFrag) = [t!"name", t!"count", t!"Ratio", t!"opt", t!"tags", t!"grid", t!"index"] := by decide

/-- `C18_field_names_any_jsonschema_tag` on a concrete type: every field tagged with a pattern Go's RE2 rejects -/
example : frag Ex.tFrag = true ∧
    (match Ex.tFrag with
     | .struct fs => propertyNames (genInline (.struct (retag (fun _ => t!"required,pattern=^(?!tmp)[a-z]+$") fs)))
     | _ => []) = [t!"name", t!"count", t!"Ratio", t!"opt", t!"tags", t!"grid", t!"index"] := by decide

/-- the good region of the tag facts is inhabited and excludes the facts of the code before 068180d (and every
    partially checked variant) -/
example : TagFacts.checked.Good ∧ ¬ TagFacts.unchecked.Good ∧ ¬ (TagFacts.mk true false true).Good := by decide

/-- `C18_tags_serialisable_partial` applies to tags with bounds, patterns and unparsable numbers -/
example : ∀ d ∈ parseDirectives t!"minimum=-0,maximum=abc,pattern=^(?!x)", parseFloatLit (directiveValue d) ≠ .nonfinite := by decide

/-- the validator is not trivially true: dropping the required `name`, or a string for `count`, is rejected -/
example : validatesDoc (genInlineDoc Ex.tFrag) (.obj [(t!"Ratio", .num 15 1), (t!"tags", .arr []), (t!"grid", .arr []), (t!"index", .obj [])]) = false ∧
    validatesDoc (genInlineDoc Ex.tFrag) (.obj [(t!"name", .str t!"n"), (t!"count", .str t!"7"), (t!"Ratio", .num 15 1), (t!"tags", .arr []), (t!"grid", .arr []), (t!"index", .obj [])]) = false ∧
    validatesDoc (genInlineDoc Ex.tFrag) (encodeFull [] Ex.tFrag Ex.vFrag) = true := by decide

/-- $defs style, anonymous struct types: one `$defs` entry per TYPE — different types under equally named fields get
    different entries, the same type met again re-uses its entry — and the document accepts the encoded value
    (a generator keying the entry by the field name instead would hand `backup.limits` the schema of `primary.limits`) -/
example : ((genDefsDoc [] Ex.tTwins).defs.map (·.1)) = [t!"Type0x0", t!"Type0x1", t!"Type0x2", t!"Type0x3", t!"Type0x4"] ∧
    (genDefsDoc [] Ex.tTwins).refs.length = 6 ∧ refsResolve (genDefsDoc [] Ex.tTwins) = true ∧
    ((genDefsDoc [] Ex.tTwins).defs.lookup t!"Type0x2").map propertyNames = some [t!"max"] ∧
    ((genDefsDoc [] Ex.tTwins).defs.lookup t!"Type0x4").map propertyNames = some [t!"codes"] ∧
    validatesDoc (genDefsDoc [] Ex.tTwins) (encodeFull [] Ex.tTwins Ex.vTwins) = true := by decide

/-- a registration history with a re-registration that has fewer parts, an unregistration and a late registration -/
example : regRun [RegOp.register t!"x" (⟨t!"d", 1, some 7, some 9⟩ : Parts), .register t!"y" ⟨[], 3, none, none⟩, .register t!"x" ⟨[], 2, none, none⟩,
      .unregister t!"y", .register t!"z" ⟨t!"e", 4, some 8, none⟩, .register [] ⟨[], 0, none, none⟩] =
    [(t!"x", ⟨[], 2, none, none⟩), (t!"z", ⟨t!"e", 4, some 8, none⟩)] := by decide

/-- `C18_refs_resolve` applies to recursive environments, and the recursive documents do contain references -/
example : cleanEnv Ex.envList = true ∧ (genDefsDoc Ex.envList Ex.tList).refs = [t!"#/$defs/main.List", t!"#/$defs/main.List"] ∧
    (genNestedDoc Ex.envList Ex.tList).refs = [t!"#"] ∧ refsResolve (genNestedDoc Ex.envList Ex.tList) = true := by decide

end Mcp.Props.C18
