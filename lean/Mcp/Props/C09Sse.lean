/-
  C09, SSE side of "a conforming reader recovers exactly the messages written": the events that `WriteEvent` puts on one
  connection one after the other (which the locked-writer invariant of `Mcp.Props.C09` guarantees: whole frames, in the
  order they started) are read back one by one, whatever their number.
-/
import Mcp.Props.C02Wire
import Mcp.Gen.Writers
import Mcp.Model.Frames
import Mcp.Props.C09
namespace Mcp.Props.C09
open Mcp.Str Mcp.Json Mcp.Escape Mcp.Props.C02

/-- Any number of JSON messages written as SSE events on one stream: a WHATWG-conforming reader dispatches exactly those
    messages, in order, each parseable on its own (its data is the rendering of the message, byte for byte). -/
theorem C09_sse_stream_reader (ms : List (Text × Json)) (hid : ∀ m ∈ ms, NoNL m.1 ∧ 0 ∉ m.1) :
    parseSSE ((ms.map (fun m => writeEvent m.1 (render m.2))).flatten) = ms.map (fun m => (m.1, render m.2)) :=
  C02_messages_over_sse_stream ms hid

/-- The same for raw event data (any non-empty payload without CR, line feeds allowed): events never merge or split. -/
theorem C09_sse_events_never_merge (es : List (Text × Text)) (h : ∀ e ∈ es, GoodEvent e) :
    (parseSSE ((es.map (fun e => writeEvent e.1 e.2)).flatten)).length = es.length := by
  rw [C02_sse_stream_transparent es h]; simp

/-- Legacy SSE stream with keep-alive comments: whatever sequence of events and keep-alive comments the legacy server
    writes on one connection (each as a whole frame — `C09_all_writers_framed` has `handleKeepAlive`, `handleNotifications`
    and `handleEventQueue` under `session.writeMu`), a WHATWG reader dispatches exactly the events' data, in order. -/
theorem C09_legacy_stream_with_keepalives (items : List LegacyItem) (h : ∀ i ∈ items, i.good) :
    parseSSE ((items.map LegacyItem.bytes).flatten) = (items.map LegacyItem.payload).flatten :=
  C02_legacy_stream_transparent items h

/-- T-gen: the keep-alive frame of the model is, byte for byte, the one string literal `handleKeepAlive` writes (a comment
    line and the blank line that ends it). A keep-alive without its blank line, or one that is not a comment, changes
    this regenerated fact. -/
theorem C09_keepalive_frame_is_the_sources :
    Mcp.Gen.keepAliveFrames = [LegacyItem.keepalive.bytes] := by decide

/-! ### the chunk model of `WriteEvent` (tied chunk by chunk to the real writer) and the text model used above agree -/

private theorem esc_trim_snoc (s : Text) (c : Nat) :
    Mcp.Escape.trimSuffixLF (s ++ [c]) = if c = 10 then s else s ++ [c] := by
  induction s with
  | nil => simp [Mcp.Escape.trimSuffixLF]
  | cons x xs ih =>
    cases xs with
    | nil => simp [Mcp.Escape.trimSuffixLF]; split <;> simp_all
    | cons y ys =>
      simp only [List.cons_append, Mcp.Escape.trimSuffixLF] at ih ⊢
      rw [ih]; split <;> simp

private theorem trim_agree (s : Text) : Mcp.Frames.trimSuffixLF s = Mcp.Escape.trimSuffixLF s := by
  rcases List.eq_nil_or_concat s with h | ⟨t, c, h⟩
  · subst h; simp [Mcp.Frames.trimSuffixLF, Mcp.Escape.trimSuffixLF]
  · subst h
    rw [List.concat_eq_append, esc_trim_snoc]
    simp only [Mcp.Frames.trimSuffixLF, List.reverse_append, List.reverse_cons, List.reverse_nil, List.nil_append,
      List.singleton_append]
    by_cases hc : c = 10
    · subst hc; simp
    · simp [hc]

private theorem esc_splitOn_ne_nil (s : Text) : Mcp.Escape.splitOn 10 s ≠ [] := by
  cases s with
  | nil => simp [Mcp.Escape.splitOn]
  | cons c cs =>
    simp only [Mcp.Escape.splitOn]
    split
    · simp
    · split <;> simp

private theorem split_agree (s : Text) : ∀ acc : Text,
    Mcp.Frames.splitOnLF acc s = match Mcp.Escape.splitOn 10 s with
      | [] => [acc]
      | l :: ls => (acc ++ l) :: ls := by
  induction s with
  | nil => intro acc; simp [Mcp.Frames.splitOnLF, Mcp.Escape.splitOn]
  | cons c cs ih =>
    intro acc
    by_cases hc : c = 10
    · subst hc
      have h0 := ih []
      simp only [Mcp.Frames.splitOnLF, Mcp.Escape.splitOn, if_true, List.append_nil]
      rw [h0]
      cases hsp : Mcp.Escape.splitOn 10 cs with
      | nil => exact absurd hsp (esc_splitOn_ne_nil cs)
      | cons l ls => simp
    · simp only [Mcp.Frames.splitOnLF, Mcp.Escape.splitOn, hc, if_false]
      rw [ih (acc ++ [c])]
      cases Mcp.Escape.splitOn 10 cs with
      | nil => simp
      | cons l ls => simp

private theorem splitLines_agree (s : Text) : Mcp.Frames.splitLinesLF s = Mcp.Escape.splitOn 10 s := by
  unfold Mcp.Frames.splitLinesLF
  rw [split_agree s []]
  cases h : Mcp.Escape.splitOn 10 s with
  | nil => exact absurd h (esc_splitOn_ne_nil s)
  | cons l ls => simp

private theorem flatten_dataLines (pre : Text) (ls : List Text) :
    (ls.map (fun l => pre ++ l ++ [10])).flatten = dataLines pre ls := by
  induction ls with
  | nil => simp [dataLines]
  | cons l ls ih => simp only [List.map_cons, List.flatten_cons, ih, dataLines]

/-- The two models of `sseutil.Writer.WriteEvent` agree: the chunk-by-chunk model of `Mcp.Model.Frames` (the one the
    harness compares chunk for chunk with the real writer's `Write` calls, and whose chunks the locked-writer invariant
    keeps together) concatenates to exactly the text model of `Mcp.Model.Escape` that the stream theorems above are about —
    for every id and every payload. -/
theorem C09_chunk_model_is_text_model (id data : Text) :
    (Mcp.Frames.sseEventChunks id data).flatten = writeEvent id data := by
  unfold Mcp.Frames.sseEventChunks writeEvent
  cases data with
  | nil => simp
  | cons c cs =>
    simp only [List.isEmpty_cons, Bool.false_eq_true, if_false, List.flatten_append, reduceCtorEq]
    rw [trim_agree, splitLines_agree, flatten_dataLines]
    simp

/-- stdio side, with the payloads that really travel: any number of JSON messages, each rendered by the encoder and
    terminated by LF, are recovered one per line by a line reader — the no-raw-newline hypothesis of
    `C09_lines_roundtrip` is discharged by the encoder theorem `C02_message_is_one_line`, for every JSON value. -/
theorem C09_json_lines_roundtrip (js : List Json) :
    Mcp.Frames.lines ((js.map (fun j => render j ++ [10])).flatten) = (js.map render, []) := by
  have h := C09_lines_roundtrip (js.map render) (by
    intro m hm
    obtain ⟨j, _, rfl⟩ := List.mem_map.1 hm
    exact (C02_message_is_one_line j).1)
  simpa [List.map_map, Function.comp_def] using h

end Mcp.Props.C09
