/-
  C09, SSE side of "a conforming reader recovers exactly the messages written": the events that `WriteEvent` puts on one
  connection one after the other (which the locked-writer invariant of `Mcp.Props.C09` guarantees: whole frames, in the
  order they started) are read back one by one, whatever their number.
-/
import Mcp.Props.C02Wire
import Mcp.Gen.Writers
namespace Mcp.Props.C09
open Mcp.Str Mcp.Json Mcp.Escape Mcp.Props.C02

/-- Any number of JSON messages written as SSE events on one stream: a WHATWG-conforming reader dispatches exactly those
    messages, in order, each parseable on its own (its data is the rendering of the message, byte for byte). -/
theorem C09_sse_stream_reader (ms : List (Text × Json)) (hid : ∀ m ∈ ms, NoNL m.1 ∧ 0 ∉ m.1) :
    parseSSE ((ms.map (fun m => writeEvent m.1 (render m.2))).flatten) = ms.map (fun m => (m.1, render m.2)) :=
  C02_messages_over_sse_stream ms hid

/-- The same for raw event data (any non-empty payload without CR, line feeds allowed): events never merge or split. -/
theorem C09_sse_events_never_merge (es : List (Text × Text)) (h : ∀ e ∈ es, GoodEvent e) :
    (parseSSE ((es.map (fun e => writeEvent e.1 e.2)).flatten)).length = es.length := by
  rw [C02_sse_stream_transparent es h]; simp

/-- Legacy SSE stream with keep-alive comments: whatever sequence of events and keep-alive comments the legacy server
    writes on one connection (each as a whole frame — `C09_all_writers_framed` has `handleKeepAlive`, `handleNotifications`
    and `handleEventQueue` under `session.writeMu`), a WHATWG reader dispatches exactly the events' data, in order. -/
theorem C09_legacy_stream_with_keepalives (items : List LegacyItem) (h : ∀ i ∈ items, i.good) :
    parseSSE ((items.map LegacyItem.bytes).flatten) = (items.map LegacyItem.payload).flatten :=
  C02_legacy_stream_transparent items h

/-- T-gen: the keep-alive frame of the model is, byte for byte, the one string literal `handleKeepAlive` writes (a comment
    line and the blank line that ends it). A keep-alive without its blank line, or one that is not a comment, changes
    this regenerated fact. -/
theorem C09_keepalive_frame_is_the_sources :
    Mcp.Gen.keepAliveFrames = [LegacyItem.keepalive.bytes] := by decide

end Mcp.Props.C09
