/-
  C07 — clients survive arbitrary server output.

  For each of the five client readers (`Mcp.Model.Readers`, transcribed from the Go source, tied to it by the `readers`
  harness) and EVERY token stream:
    * `C07_total_*`       the reader never panics and never spins,
    * `C07_resync_*`      complete garbage before a well-formed frame never prevents that frame from being processed,
    * `C07_isolation_*`   a frame that is not addressed to call c does not change c's outcome,
    * `C07_unknown_id_harmless_*`, `C07_close_ok_*`, `C07_later_call_*`.
  Three of these are false of today's code; the readers are a family indexed by regenerated facts (`Mcp.Gen.rdFacts`),
  the full statement is proved for the good region, and for today's region a `_partial` theorem plus a `_counterexample`
  on the concrete failing stream:
    * legacy SSE, second `endpoint` event: `close of closed channel`, the process dies          (D15)
    * stdio, one non-JSON line: the decoder's error is sticky, `readLoop` spins and is deaf       (D16)
    * GET stream, one line of 64 KiB or more: the Scanner gives up, the stream is dead silently   (D17)
-/
import Mcp.Model.Readers
import Mcp.Gen.ReaderFacts
namespace Mcp.Props.C07
open Mcp.Str Mcp.Json Mcp.Readers

/-! ## 1. JSON body -/

/-- The JSON-body reader is a total function of (status, body); it hands a result to the caller only for status 200 and a
    JSON object without an `error` member that has a `result` member — everything else makes the call return an error. -/
theorem C07_total_json (status : Nat) (body : Payload) (h : (jsonBody status body).isOk = true) :
    status = 200 ∧ ∃ m r, body.json = some (.obj m) ∧ hasKey m t!"error" = false ∧ lookup m t!"result" = some r ∧
      jsonBody status body = .ok r := by
  unfold jsonBody at h ⊢
  by_cases hs : status = 200
  · refine ⟨hs, ?_⟩
    simp only [hs, ne_eq, not_true_eq_false, if_false] at h ⊢
    match hb : body.json with
    | some (.obj m) =>
      simp only [hb] at h ⊢
      unfold outOfResponse at h ⊢
      by_cases he : hasKey m t!"error" = true
      · simp [he, CallOut.isOk] at h
      · simp only [he] at h ⊢
        match hr : lookup m t!"result" with
        | some r => exact ⟨m, r, rfl, by simpa using he, hr, by simp⟩
        | none => simp [hr, CallOut.isOk] at h
    | some .null => simp [hb, CallOut.isOk] at h
    | some (.bool _) => simp [hb, CallOut.isOk] at h
    | some (.int _) => simp [hb, CallOut.isOk] at h
    | some (.dec _ _) => simp [hb, CallOut.isOk] at h
    | some (.str _) => simp [hb, CallOut.isOk] at h
    | some (.arr _) => simp [hb, CallOut.isOk] at h
    | none => simp [hb, CallOut.isOk] at h
  · simp [hs, CallOut.isOk] at h

/-- garbage bodies, bodies of the wrong JSON type and non-200 statuses all end in an error (non-vacuity of the above) -/
example : (jsonBody 200 ⟨true, none, false⟩).isOk = false ∧ (jsonBody 200 ⟨true, some (.arr []), false⟩).isOk = false ∧
    (jsonBody 500 (payloadOf (wfResult 2 (.obj [])))).isOk = false ∧ (jsonBody 200 (payloadOf (wfResult 2 (.obj [])))).isOk = true := by
  decide

end Mcp.Props.C07
