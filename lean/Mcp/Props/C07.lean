/-
  C07 — clients survive arbitrary server output.

  For each of the five client readers (`Mcp.Model.Readers`, transcribed from the Go source, tied to it by the `readers`
  harness) and EVERY token stream:
    * `C07_total_*`       the reader never panics, never spins, never stops,
    * `C07_resync_*`      complete garbage before a well-formed frame never prevents that frame from being processed,
    * `C07_isolation_*`   a frame that is not addressed to call c does not change c's outcome,
    * `C07_unknown_id_harmless_*`, `C07_close_ok_*`, `C07_later_call_*`.
  The readers are a family indexed by facts regenerated from the source (`Mcp.Gen.rdFacts`).  The full statements are
  proved for the good region, the regenerated facts are shown to lie in it (`C07_facts_good`, by `decide`), and the
  statements are instantiated for the tree as it is (`C07_*_here`).  The bad regions of the family — the code before the
  three repairs — keep their witness theorems, each on the concrete failing stream:
    * legacy SSE, unguarded latch, second `endpoint` event: `close of closed channel`, the process dies      (D15)
    * stdio, decoder loop, one non-JSON line: the decoder's error is sticky, `readLoop` spins and is deaf     (D16)
    * GET stream, Scanner, one line of 64 KiB or more: the Scanner gives up, the stream is dead silently      (D17)
-/
import Mcp.Model.Readers
import Mcp.Gen.ReaderFacts
namespace Mcp.Props.C07
open Mcp.Str Mcp.Json Mcp.Readers

private theorem C07_fact_id_key_aux : idKeyToday = true := by decide

/-! ## 1. JSON body -/

/-- The JSON-body reader is a total function of (status, body); it hands a result to the caller only for status 200 and a
    JSON object without an `error` member that has a `result` member — everything else makes the call return an error. -/
theorem C07_total_json (status : Nat) (body : Payload) (h : (jsonBody status body).isOk = true) :
    status = 200 ∧ ∃ m r, body.json = some (.obj m) ∧ hasKey m t!"error" = false ∧ lookup m t!"result" = some r ∧
      jsonBody status body = .ok r := by
  unfold jsonBody at h ⊢
  by_cases hs : status = 200
  · refine ⟨hs, ?_⟩
    simp only [hs, ne_eq, not_true_eq_false, if_false] at h ⊢
    match hb : body.json with
    | some (.obj m) =>
      simp only [hb] at h ⊢
      unfold outOfResponse at h ⊢
      by_cases he : hasKey m t!"error" = true
      · simp [he, CallOut.isOk] at h
      · simp only [he] at h ⊢
        match hr : lookup m t!"result" with
        | some r => exact ⟨m, r, rfl, by simpa using he, hr, by simp⟩
        | none => simp [hr, CallOut.isOk] at h
    | some .null => simp [hb, CallOut.isOk] at h
    | some (.bool _) => simp [hb, CallOut.isOk] at h
    | some (.int _) => simp [hb, CallOut.isOk] at h
    | some (.dec _ _) => simp [hb, CallOut.isOk] at h
    | some (.str _) => simp [hb, CallOut.isOk] at h
    | some (.arr _) => simp [hb, CallOut.isOk] at h
    | none => simp [hb, CallOut.isOk] at h
  · simp [hs, CallOut.isOk] at h

/-- garbage bodies, bodies of the wrong JSON type and non-200 statuses all end in an error (non-vacuity of the above) -/
example : (jsonBody 200 ⟨true, none, false⟩).isOk = false ∧ (jsonBody 200 ⟨true, some (.arr []), false⟩).isOk = false ∧
    (jsonBody 500 (payloadOf (wfResult 2 (.obj [])))).isOk = false ∧ (jsonBody 200 (payloadOf (wfResult 2 (.obj [])))).isOk = true := by
  decide

/-- the readers hand a well-formed answer's `result` over UNOPENED, whatever it holds (a tools array whose schema documents
    refer to themselves, nest 1000 levels deep or carry wrongly typed keywords, …): the JSON-body reader, the POST-SSE reader
    (no handler registered: the call returns at once) and, on the two shared streams, the delivery to the pending call.  What
    the list decoder then does with such a result is tied by the differential run only (tool-schema cases: the call returns
    the answer's cursor, the process survives, the next call completes). -/
theorem C07_result_opaque (req : Nat) (r : Json) (F : Facts) (hF : F.stdioOnError = .resync) :
    jsonBody 200 (payloadOf (wfResult req r)) = .ok r ∧
    (postCall req [] [dataLine (wfResult req r) 0, blankLine] .eof).isOk = true ∧
    ((legRun F { tbl := Table.init [req], latch := true } (legEvent (wfResult req r) 0)).tbl.got req).isSome = true ∧
    ((stdioRun F [] { tbl := Table.init [req] } [.value (wfResult req r)]).tbl.got req).isSome = true := by
  have hid : idMatches req (.int (req : Int)) = true := by
    have := C07_fact_id_key_aux
    simp [idMatches, idMatchesK, this]
  refine ⟨?_, ?_, ?_, ?_⟩
  · simp [jsonBody, payloadOf, wfResult, outOfResponse, hasKey, lookup]
  · simp [postCall, postRun, postStep, postData, postAddressed, postReceived, postFinish, dataLine, blankLine, payloadOf, wfResult,
      hasKey, lookup, hid, CallOut.isOk]
  · simp [legRun, legStep, legEvent, eventLine, dataLine, blankLine, payloadOf, legDispatch, legMessage, wfResult, hasKey, lookup,
      idOf, hid, Table.deliver, Table.init, outOfResponse]
  · simp [stdioRun, stdioStep, hF, stdioLineStep, stdioValue, msgType, wfResult, lookupStr?, hasKey, lookup, idOf, keyIs, idInt64,
      Table.deliver, Table.init]

/-! ## 2. POST-SSE (one call's own stream) -/

private theorem postStep_inert (req : Nat) (H : List Text) (st : PostSt) (l : Line)
    (hl : postInert req l = true) (hd : st.done = none) :
    (postStep req H st l).done = none ∧ (postStep req H st l).result = st.result := by
  unfold postStep
  simp only [hd, Option.isSome_none, Bool.false_eq_true, if_false]
  unfold postInert at hl
  cases hk : l.kind with
  | data p =>
    simp only [hk] at hl ⊢
    unfold postData
    have hnil : notifDecodes [] = true := by decide
    cases hj : p.json with
    | none => simp [hj] at hl
    | some v =>
      cases v <;> simp only [hj] at hl ⊢ <;> try (simp at hl)
      · unfold postNotif
        simp only [hnil, if_true]
        split <;> simp [hd]
      · rename_i m
        simp only [hl.1, Bool.false_eq_true, if_false]
        unfold postNotif
        simp only [hl.2, if_true]
        split <;> simp [hd]
  | _ => exact ⟨hd, rfl⟩

private theorem postRun_inert (req : Nat) (H : List Text) (g : List Line) :
    ∀ st : PostSt, (∀ l ∈ g, postInert req l = true) → st.done = none →
      (postRun req H st g).done = none ∧ (postRun req H st g).result = st.result := by
  induction g with
  | nil => intro st _ hd; exact ⟨hd, rfl⟩
  | cons l g ih =>
    intro st hg hd
    have h1 := postStep_inert req H st l (hg l (by simp)) hd
    have h2 := ih (postStep req H st l) (fun x hx => hg x (by simp [hx])) h1.1
    simp only [postRun, List.foldl_cons] at h2 ⊢
    exact ⟨h2.1, h2.2.trans h1.2⟩

private theorem postRun_append (req : Nat) (H : List Text) (st : PostSt) (a b : List Line) :
    postRun req H st (a ++ b) = postRun req H (postRun req H st a) b := by
  simp [postRun, List.foldl_append]

/-- regenerated fact, decided: today's matcher and legacy table compare `requestIDKey` renderings (D01 repaired) -/
theorem C07_fact_id_key : idKeyToday = true := by decide

private theorem idMatches_self (req : Nat) : idMatches req (.int (req : Int)) = true := by
  simp [idMatches, idMatchesK, C07_fact_id_key]

/-- resync, POST-SSE: whatever inert lines (comments, blank lines, unknown fields, other peoples' frames, notifications,
    70 KiB or 1 MiB of them) precede the answer on the call's stream, the call returns that answer's result. -/
theorem C07_resync_post (req : Nat) (H : List Text) (g : List Line)
    (hg : ∀ l ∈ g, postInert req l = true) (r : Json) (n : Nat) :
    postCall req H (g ++ [dataLine (wfResult req r) n]) .eof = .ok r := by
  have hi := postRun_inert req H g {} hg rfl
  unfold postCall
  rw [postRun_append]
  generalize postRun req H {} g = st at hi
  have hm : idMatches req (.int (req : Int)) = true := idMatches_self req
  have step : postRun req H st [dataLine (wfResult req r) n] = postReceived H st (.ok r) := by
    simp [postRun, postStep, hi.1, dataLine, payloadOf, postData, wfResult, postAddressed, lookup, hasKey, hm]
  rw [step]
  unfold postReceived postFinish
  by_cases hH : H = []
  · simp [hH]
  · simp [hH, hi.1]

/-- the call always returns: at the end of the stream, or (silent stream) at the caller's deadline — `postCall` is a total
    function; and once it has returned, nothing that follows on the stream is read any more. -/
theorem C07_total_post (req : Nat) (H : List Text) (st : PostSt) (ls : List Line) (o : CallOut) (h : st.done = some o) :
    (postRun req H st ls).done = some o := by
  induction ls generalizing st with
  | nil => exact h
  | cons l ls ih =>
    simp only [postRun, List.foldl_cons]
    have : postStep req H st l = st := by simp [postStep, h]
    rw [this]
    exact ih st h

/-- a bad frame inside the call's own stream (a `data:` line that is not JSON) makes THAT call return an error — the allowed
    outcome — it neither hangs nor panics. -/
theorem C07_post_bad_data_is_call_error (req : Nat) (H : List Text) (g : List Line)
    (hg : ∀ l ∈ g, postInert req l = true) (p : Payload) (hp : p.json = none) (ind : Bool) (n : Nat) (rest : List Line) (e : End) :
    postCall req H (g ++ ⟨.data p, ind, n⟩ :: rest) e = .failed .parse := by
  have hi := postRun_inert req H g {} hg rfl
  unfold postCall
  rw [postRun_append]
  generalize postRun req H {} g = st at hi
  have step : postStep req H st ⟨.data p, ind, n⟩ = { st with done := some (.failed .parse) } := by
    simp [postStep, hi.1, postData, hp]
  have := C07_total_post req H _ rest (.failed .parse) (show ({ st with done := some (.failed .parse) } : PostSt).done = _ from rfl)
  simp only [postRun, List.foldl_cons] at this ⊢
  rw [step]
  cases e <;> simp [postFinish, this]

/-- unknown ids, ids of the wrong type: a well-shaped JSON-RPC object whose id is not (`%v`-equal to) the request's changes
    neither the outcome nor what was received so far. -/
theorem C07_unknown_id_harmless_post (req : Nat) (H : List Text) (st : PostSt) (m : Obj) (hd : st.done = none)
    (hid : postAddressed req m = false) (hn : notifDecodes m = true) (ind : Bool) (n : Nat) :
    (postStep req H st ⟨.data ⟨true, some (.obj m), false⟩, ind, n⟩).done = none ∧
    (postStep req H st ⟨.data ⟨true, some (.obj m), false⟩, ind, n⟩).result = st.result :=
  postStep_inert req H st _ (by simp [postInert, hid, hn]) hd

/-- ids of the wrong JSON type never match — not even a string that spells the same digits; the counter value matches
    whatever its size. Before the D01 repair (`%v` on both sides) the string "2" matched call 2 and the answer to call
    10^6 did not match. -/
example : idMatches 2 .null = false ∧ idMatches 2 (.bool true) = false ∧ idMatches 2 (.arr [.int 2]) = false ∧
    idMatches 2 (.dec 25 1) = false ∧ idMatches 2 (.str t!"abc") = false ∧ idMatches 2 (.str t!"2") = false ∧
    idMatches 1000000 (.int 1000000) = true ∧
    idMatchesK false 2 (.str t!"2") = true ∧ idMatchesK false 1000000 (.int 1000000) = false := by decide

example : postCall 2 [t!"verif/n"]
    [⟨.comment, false, 71680⟩, ⟨.data (payloadOf (wfNote t!"verif/n" [(t!"k", .int 1)])), false, 60⟩, ⟨.blank, false, 0⟩,
     ⟨.data (payloadOf (wfResult 9 (.obj []))), false, 50⟩, dataLine (wfResult 2 (.obj [])) 50] .eof = .ok (.obj []) :=
  C07_resync_post 2 [t!"verif/n"]
    [⟨.comment, false, 71680⟩, ⟨.data (payloadOf (wfNote t!"verif/n" [(t!"k", .int 1)])), false, 60⟩, ⟨.blank, false, 0⟩,
     ⟨.data (payloadOf (wfResult 9 (.obj []))), false, 50⟩] (by decide) (.obj []) 50

/-! ## 3. GET stream -/

private theorem getDispatch_halt (H : List Text) (st : GetSt) (p : Payload) : (getDispatch H st p).halt = st.halt := by
  unfold getDispatch
  split
  · rfl
  · split
    · split <;> rfl
    · split <;> rfl
    · rfl

private theorem getStep_alive (F : Facts) (H : List Text) (st : GetSt) (l : Line) (hs : st.halt = none)
    (hl : tooLong F.getLimit l.size = false) : (getStep F H st l).halt = none := by
  unfold getStep
  simp only [hs, Option.isSome_none, Bool.false_eq_true, if_false, hl]
  split
  · split
    · rw [getDispatch_halt]
    · exact hs
  · rfl
  · exact hs

private theorem getStep_halted (F : Facts) (H : List Text) (st : GetSt) (l : Line) (h : Halt) (hs : st.halt = some h) :
    getStep F H st l = st := by
  simp [getStep, hs]

private theorem getRun_append (F : Facts) (H : List Text) (st : GetSt) (a b : List Line) :
    getRun F H st (a ++ b) = getRun F H (getRun F H st a) b := by
  simp [getRun, List.foldl_append]

/-- the GET-stream reader never panics and never spins, whatever the stream and whatever the facts: the only way it stops
    is `dead` (the Scanner's error ends the loop). -/
theorem C07_total_get (F : Facts) (H : List Text) (ls : List Line) (st : GetSt)
    (hs : st.halt = none ∨ st.halt = some .dead) :
    (getRun F H st ls).halt = none ∨ (getRun F H st ls).halt = some .dead := by
  induction ls generalizing st with
  | nil => exact hs
  | cons l ls ih =>
    simp only [getRun, List.foldl_cons]
    apply ih
    rcases hs with hs | hs
    · unfold getStep
      simp only [hs, Option.isSome_none, Bool.false_eq_true, if_false]
      split
      · right; rfl
      · left
        split
        · split
          · rw [getDispatch_halt]
          · exact hs
        · rfl
        · exact hs
    · right; rw [getStep_halted F H st l _ hs]; exact hs

/-- in every region: a stream all of whose lines are below the limit never stops the reader. -/
private theorem get_alive_below_limit (F : Facts) (H : List Text) (ls : List Line) (st : GetSt) (hs : st.halt = none)
    (hl : ∀ l ∈ ls, tooLong F.getLimit l.size = false) : (getRun F H st ls).halt = none := by
  induction ls generalizing st with
  | nil => exact hs
  | cons l ls ih =>
    simp only [getRun, List.foldl_cons]
    exact ih _ (getStep_alive F H st l hs (hl l (by simp))) (fun x hx => hl x (by simp [hx]))

/-- full statement, good region (a reader without a line limit — today): NO stream stops the reader. -/
theorem C07_alive_get (F : Facts) (hF : F.getLimit = none) (H : List Text) (ls : List Line) (st : GetSt) (hs : st.halt = none) :
    (getRun F H st ls).halt = none :=
  get_alive_below_limit F H ls st hs (fun _ _ => by simp [hF, tooLong])

private theorem getEvent_delivers (F : Facts) (H : List Text) (st : GetSt) (hs : st.halt = none) (method : Text) (params : Obj)
    (hm : method ∈ H) (n : Nat) (hn : tooLong F.getLimit n = false) :
    (getRun F H st (getEvent (wfNote method params) n)).notes = st.notes ++ [(method, .obj params)] ∧
    (getRun F H st (getEvent (wfNote method params) n)).halt = none := by
  have h0 : tooLong F.getLimit 0 = false := by
    cases hF : F.getLimit with
    | none => rfl
    | some lim =>
      simp only [hF, tooLong, decide_eq_false_iff_not, Nat.not_le] at hn ⊢
      omega
  simp [getRun, getEvent, getStep, hs, dataLine, blankLine, payloadOf, hn, h0, getDispatch, wfNote, msgType, lookupStr?, lookup, hasKey,
    notifDecodes, strOrNull, objOrNull, methodOf, paramsOf, extractString, hm]

/-- in every region: garbage lines below the line limit before a well-formed event never prevent its delivery. -/
private theorem get_resync_below_limit (F : Facts) (H : List Text) (st : GetSt) (hs : st.halt = none) (g : List Line)
    (hg : ∀ l ∈ g, tooLong F.getLimit l.size = false) (method : Text) (params : Obj) (hm : method ∈ H) (n : Nat)
    (hn : tooLong F.getLimit n = false) :
    (getRun F H st (g ++ getEvent (wfNote method params) n)).notes = (getRun F H st g).notes ++ [(method, .obj params)] ∧
    (getRun F H st (g ++ getEvent (wfNote method params) n)).halt = none := by
  rw [getRun_append]
  exact getEvent_delivers F H _ (get_alive_below_limit F H g st hs hg) method params hm n hn

/-- resync, full statement, good region: ANY lines before a well-formed event, of any length. -/
theorem C07_resync_get (F : Facts) (hF : F.getLimit = none) (H : List Text) (st : GetSt) (hs : st.halt = none) (g : List Line)
    (method : Text) (params : Obj) (hm : method ∈ H) (n : Nat) :
    (getRun F H st (g ++ getEvent (wfNote method params) n)).notes = (getRun F H st g).notes ++ [(method, .obj params)] :=
  (get_resync_below_limit F H st hs g (fun _ _ => by simp [hF, tooLong]) method params hm n (by simp [hF, tooLong])).1

/-- witness for the bad region (a Scanner with its default limit, D17): one comment line of 65536 bytes, then a well-formed notification — the reader is
    dead and the notification is never delivered. -/
theorem C07_resync_get_counterexample (g : Bool) (e : OnErr) :
    (getRun ⟨some 65536, g, e⟩ [t!"verif/n"] {} (⟨.comment, false, 65536⟩ :: getEvent (wfNote t!"verif/n" []) 60)).notes = [] ∧
    (getRun ⟨some 65536, g, e⟩ [t!"verif/n"] {} (⟨.comment, false, 65536⟩ :: getEvent (wfNote t!"verif/n" []) 60)).halt = some .dead := by
  simp [getRun, getStep, tooLong, getEvent]

example : (getRun ⟨none, true, .resync⟩ [t!"verif/n"] {}
    ([⟨.data ⟨true, none, false⟩, false, 11⟩, ⟨.blank, false, 0⟩, ⟨.spaces, false, 2⟩, ⟨.comment, false, 1048576⟩] ++
      getEvent (wfNote t!"verif/n" [(t!"k", .int 7)]) 71680)).notes = [(t!"verif/n", .obj [(t!"k", .int 7)])] :=
  C07_resync_get ⟨none, true, .resync⟩ rfl [t!"verif/n"] {} rfl _ t!"verif/n" _ (by decide) 71680

/-- the GET-stream reader keeps no event type: an `event:` field — whatever it names, indented or not, followed by data or
    not — changes nothing, so a typed event without data (a keep-alive `event: ping` + blank line) cannot leak into the
    next frame -/
theorem C07_get_event_field_inert (F : Facts) (hF : F.getLimit = none) (H : List Text) (st : GetSt) (name : Text) (ind : Bool)
    (n : Nat) : getStep F H st ⟨.event name, ind, n⟩ = st := by
  simp [getStep, hF, tooLong]

/-- keep-alive events without data, `id:` / `retry:` fields alone, an event of another type WITH data, runs of blank lines:
    the notification behind them is delivered (instance of `C07_resync_get`; the event of type `ping` that carries a
    notification is delivered as well — the reader does not look at the type) -/
example : (getRun ⟨none, true, .resync⟩ [t!"verif/n"] {}
    ([eventLine t!"ping", blankLine, ⟨.id, false, 6⟩, ⟨.other, false, 11⟩, blankLine, blankLine,
      eventLine t!"ping", dataLine (wfNote t!"verif/n" [(t!"k", .int 1)]) 60, blankLine, eventLine t!"heartbeat", blankLine] ++
      getEvent (wfNote t!"verif/n" [(t!"k", .int 2)]) 60)).notes =
    [(t!"verif/n", .obj [(t!"k", .int 1)]), (t!"verif/n", .obj [(t!"k", .int 2)])] := by
  rw [C07_resync_get ⟨none, true, .resync⟩ rfl [t!"verif/n"] {} rfl _ t!"verif/n" _ (by decide) 60]
  simp [getRun, getStep, tooLong, eventLine, blankLine, dataLine, payloadOf, getDispatch, wfNote, msgType, lookupStr?, lookup, hasKey,
    notifDecodes, strOrNull, objOrNull, methodOf, paramsOf, extractString]

/-! ## later calls of the Streamable client (`Last-Event-ID`) -/

private theorem postIdRun_append (req : Nat) (H : List Text) (p : PostSt × IdSt) (a b : List Line) :
    postIdRun req H p (a ++ b) = postIdRun req H (postIdRun req H p a) b := by
  simp [postIdRun, List.foldl_append]

/-- the id tracking rides on the POST-SSE reader: its first component IS the reader of the other theorems -/
theorem C07_post_id_run_fst (req : Nat) (H : List Text) (ls : List Line) (p : PostSt × IdSt) :
    (postIdRun req H p ls).1 = postRun req H p.1 ls := by
  induction ls generalizing p with
  | nil => rfl
  | cons l ls ih => simp only [postIdRun, postRun, List.foldl_cons] at ih ⊢; rw [ih]; rfl

theorem C07_get_id_run_fst (F : Facts) (H : List Text) (ls : List Line) (p : GetSt × IdSt) :
    (getIdRun F H p ls).1 = getRun F H p.1 ls := by
  induction ls generalizing p with
  | nil => rfl
  | cons l ls ih => simp only [getIdRun, getRun, List.foldl_cons] at ih ⊢; rw [ih]; rfl

/-- full statement, good region (the code stores / sends only ids that are valid header field values — regenerated fact
    `Mcp.Gen.rdIdChecked`; FALSE today, finding D33): whatever the server wrote on the call's stream or on the GET stream, a
    later request of the client can be sent. -/
theorem C07_later_call_streamable (req : Nat) (F : Facts) (H : List Text) (ls : List Line) (p : PostSt × IdSt) (q : GetSt × IdSt) :
    laterCallOk true (postIdRun req H p ls).2 = true ∧ laterCallOk true (getIdRun F H q ls).2 = true := by
  simp [laterCallOk]

private theorem postIdStep_safe (req : Nat) (H : List Text) (p : PostSt × IdSt) (l : Line) (hl : idSafeLine l = true)
    (h : p.2.last = true) : (postIdStep req H p l).2.last = true := by
  unfold postIdStep
  simp only
  split
  · exact h
  · cases hk : l.kind <;> simp [idOfKind, h, idSafeLine, hk] at hl ⊢

private theorem getIdStep_safe (F : Facts) (H : List Text) (p : GetSt × IdSt) (l : Line) (hl : idSafeLine l = true)
    (h : p.2.ev = true ∧ p.2.last = true) : (getIdStep F H p l).2.ev = true ∧ (getIdStep F H p l).2.last = true := by
  unfold getIdStep
  simp only
  split
  · exact h
  · cases hk : l.kind <;> cases hi : l.indent <;> simp [h, idSafeLine, hk] at hl ⊢ <;> (try split) <;> simp [h]

/-- partial statement, EVERY region (the code as it is today included): as long as no `id:` line carries a value that is
    not a valid header field value, later requests of the client can be sent — whatever else the streams contain. -/
theorem C07_later_call_streamable_partial (chk : Bool) (req : Nat) (F : Facts) (H : List Text) (ls : List Line)
    (hls : ∀ l ∈ ls, idSafeLine l = true) (p : PostSt × IdSt) (hp : p.2.last = true)
    (q : GetSt × IdSt) (hq : q.2.ev = true ∧ q.2.last = true) :
    laterCallOk chk (postIdRun req H p ls).2 = true ∧ laterCallOk chk (getIdRun F H q ls).2 = true := by
  constructor
  · have : (postIdRun req H p ls).2.last = true := by
      induction ls generalizing p with
      | nil => exact hp
      | cons l ls ih =>
        simp only [postIdRun, List.foldl_cons]
        exact ih (fun x hx => hls x (by simp [hx])) _ (postIdStep_safe req H p l (hls l (by simp)) hp)
    simp [laterCallOk, this]
  · have : (getIdRun F H q ls).2.ev = true ∧ (getIdRun F H q ls).2.last = true := by
      induction ls generalizing q with
      | nil => exact hq
      | cons l ls ih =>
        simp only [getIdRun, List.foldl_cons]
        exact ih (fun x hx => hls x (by simp [hx])) _ (getIdStep_safe F H q l (hls l (by simp)) hq)
    simp [laterCallOk, this.2]

/-- witness for the bad region (ids stored unchecked — today, D33): ONE `id:` line with a control character in front of the
    well-formed answer (POST-SSE), or on the last event of the GET stream — the call itself is answered, the notification is
    delivered, and the next request of the client cannot be sent. -/
theorem C07_later_call_streamable_counterexample (req : Nat) (r : Json) (F : Facts) (hF : F.getLimit = none) :
    (postFinish (postIdRun req [] ({}, {}) [⟨.idUnsafe, false, 8⟩, dataLine (wfResult req r) 0, blankLine]).1 .eof).isOk = true ∧
    laterCallOk false (postIdRun req [] ({}, {}) [⟨.idUnsafe, false, 8⟩, dataLine (wfResult req r) 0, blankLine]).2 = false ∧
    (getIdRun F [t!"verif/n"] ({}, {}) (⟨.idUnsafe, false, 8⟩ :: getEvent (wfNote t!"verif/n" []) 60)).1.notes = [(t!"verif/n", .obj [])] ∧
    laterCallOk false (getIdRun F [t!"verif/n"] ({}, {}) (⟨.idUnsafe, false, 8⟩ :: getEvent (wfNote t!"verif/n" []) 60)).2 = false := by
  have hid : idMatches req (.int (req : Int)) = true := by
    have := C07_fact_id_key_aux
    simp [idMatches, idMatchesK, this]
  refine ⟨?_, ?_, ?_, ?_⟩
  · simp [postIdRun, postIdStep, postStep, postData, postAddressed, postReceived, postFinish, dataLine, blankLine, payloadOf, wfResult,
      hasKey, lookup, hid, CallOut.isOk]
  · simp [postIdRun, postIdStep, postStep, postData, postAddressed, postReceived, dataLine, blankLine, payloadOf, wfResult,
      hasKey, lookup, hid, idOfKind, laterCallOk]
  · simp [getIdRun, getIdStep, getStep, getEvent, dataLine, blankLine, payloadOf, hF, tooLong, getDispatch, wfNote, msgType, lookupStr?,
      lookup, hasKey, notifDecodes, strOrNull, objOrNull, methodOf, paramsOf, extractString]
  · simp [getIdRun, getIdStep, getStep, getEvent, dataLine, blankLine, payloadOf, hF, tooLong, laterCallOk]

/-- on the GET stream the damage ends with the next event that carries another (or no) id: dispatching an event stores ITS id -/
example : laterCallOk false (getIdRun ⟨none, true, .resync⟩ [t!"verif/n"] ({}, {})
    ([⟨.idUnsafe, false, 8⟩] ++ getEvent (wfNote t!"verif/n" []) 60 ++ getEvent (wfNote t!"verif/n" []) 60)).2 = true := by
  simp [getIdRun, getIdStep, getStep, getEvent, dataLine, blankLine, payloadOf, tooLong, laterCallOk, getDispatch, wfNote, msgType,
    lookupStr?, lookup, hasKey, notifDecodes, strOrNull, objOrNull, methodOf, paramsOf, extractString]

/-! ## pending tables -/

private theorem deliver_not_sel (t : Table) (sel : Nat → Bool) (o : CallOut) (c : Nat) (h : sel c = false) :
    (t.deliver sel o).got c = t.got c := by
  simp [Table.deliver, h]

private theorem deliver_sel (t : Table) (sel : Nat → Bool) (o : CallOut) (c : Nat) (hp : c ∈ t.pending) (h : sel c = true)
    (hg : t.got c = none) : (t.deliver sel o).got c = some o := by
  simp [Table.deliver, h, hp, hg]

private theorem deliver_congr (t1 t2 : Table) (sel : Nat → Bool) (o : CallOut) (c : Nat) (hp : t1.pending = t2.pending)
    (hg : t1.got c = t2.got c) : (t1.deliver sel o).got c = (t2.deliver sel o).got c := by
  simp [Table.deliver, hp, hg]

/-! ## 4. legacy SSE -/

private theorem legMessage_frame (st : LegSt) (p : Payload) :
    (legMessage st p).halt = st.halt ∧ (legMessage st p).etype = st.etype ∧ (legMessage st p).data = st.data ∧
      (legMessage st p).latch = st.latch ∧ (legMessage st p).tbl.pending = st.tbl.pending := by
  unfold legMessage
  split
  · split
    · split <;> exact ⟨rfl, rfl, rfl, rfl, rfl⟩
    · split <;> exact ⟨rfl, rfl, rfl, rfl, rfl⟩
  · exact ⟨rfl, rfl, rfl, rfl, rfl⟩

private theorem legMessage_other (st : LegSt) (p : Payload) (c : Nat) (h : legAddressed c p = false) :
    (legMessage st p).tbl.got c = st.tbl.got c := by
  unfold legMessage
  split
  · rename_i m hm
    split
    · split <;> rfl
    · split
      · rename_i hid
        apply deliver_not_sel
        simpa [legAddressed, hm, hid] using h
      · rfl
  · rfl

private theorem legEndpoint_frame (F : Facts) (st : LegSt) (p : Payload) :
    (legEndpoint F st p).etype = st.etype ∧ (legEndpoint F st p).data = st.data ∧ (legEndpoint F st p).tbl = st.tbl := by
  unfold legEndpoint
  split
  · split
    · split <;> exact ⟨rfl, rfl, rfl⟩
    · exact ⟨rfl, rfl, rfl⟩
  · exact ⟨rfl, rfl, rfl⟩

private theorem legEndpoint_guarded (F : Facts) (hF : F.latchGuarded = true) (st : LegSt) (p : Payload) :
    (legEndpoint F st p).halt = st.halt := by
  unfold legEndpoint
  simp only [hF, if_true]
  split
  · split <;> rfl
  · rfl

/-- one step keeps a live reader alive, provided the latch is guarded or the step cannot dispatch an endpoint event -/
private theorem legStep_alive (F : Facts) (st : LegSt) (l : Line) (hs : st.halt = none)
    (h : F.latchGuarded = true ∨ st.etype ≠ t!"endpoint") : (legStep F st l).halt = none := by
  unfold legStep
  simp only [hs, Option.isSome_none, Bool.false_eq_true, if_false]
  split
  · split
    · exact hs
    · split
      · unfold legDispatch
        split
        · rename_i he
          rcases h with h | h
          · rw [legEndpoint_guarded F h]
          · exact absurd he h
        · split
          · rw [(legMessage_frame _ _).1]
          · rfl
      · exact hs
  · rfl
  · rfl
  · exact hs

private theorem legRun_append (F : Facts) (st : LegSt) (a b : List Line) :
    legRun F st (a ++ b) = legRun F (legRun F st a) b := by
  simp [legRun, List.foldl_append]

/-- full statement, good region (the latch is closed under a guard): NO stream — repeated, missing, malformed endpoint events
    included — makes the legacy SSE reader panic; it has no way to spin or stop either. -/
theorem C07_total_legacy (F : Facts) (hF : F.latchGuarded = true) (ls : List Line) (st : LegSt) (hs : st.halt = none) :
    (legRun F st ls).halt = none := by
  induction ls generalizing st with
  | nil => exact hs
  | cons l ls ih =>
    simp only [legRun, List.foldl_cons]
    exact ih _ (legStep_alive F st l hs (Or.inl hF))

/-- what a step does to the pending event type: only an `event:` line (not indented) names a type -/
private theorem legStep_etype (F : Facts) (st : LegSt) (l : Line) (hn : l.namesEndpoint = false)
    (he : st.etype ≠ t!"endpoint") : (legStep F st l).etype ≠ t!"endpoint" := by
  unfold legStep
  split
  · exact he
  · split
    · split
      · exact he
      · split
        · unfold legDispatch
          split
          · rw [(legEndpoint_frame F _ _).1]; simp
          · split
            · rw [(legMessage_frame _ _).2.1]; simp
            · simp
        · exact he
    · rename_i name _ hk _
      simp only [Line.namesEndpoint, hk, decide_eq_false_iff_not] at hn
      exact hn
    · exact he
    · exact he

/-- witness for the bad region (an unguarded latch, D15): two endpoint events — `close` of the closed `endpointChan` panics in the
    reader goroutine, nothing recovers it, the process dies. -/
theorem C07_total_legacy_counterexample (F : Facts) (hF : F.latchGuarded = false) (ids : List Nat) :
    (legRun F { tbl := Table.init ids }
      ([eventLine t!"endpoint", ⟨.data ⟨true, none, true⟩, false, 14⟩, blankLine] ++
       [eventLine t!"endpoint", ⟨.data ⟨true, none, true⟩, false, 14⟩, blankLine])).halt = some .panic := by
  simp [legRun, legStep, eventLine, blankLine, legDispatch, legEndpoint, hF]

/-- a server request that arrives while no endpoint is known (before the endpoint event, or on a stream that never announces
    a usable one) is dropped: nothing is sent, nothing panics, the state is unchanged (`sendResponseMessage`'s
    `t.endpoint == nil` guard) -/
theorem C07_request_before_endpoint (st : LegSt) (p : Payload) (m : Obj) (hp : p.json = some (.obj m))
    (hid : hasKey m t!"id" = true) (hm : hasKey m t!"method" = true) (hl : st.latch = false) : legMessage st p = st := by
  simp [legMessage, hp, hid, hm, hl]

/-- a `roots/list` request, then the endpoint event, then the same request again: the reader lives, the latch closes, only
    the second request is answered -/
example : let req := Json.obj [(t!"jsonrpc", .str t!"2.0"), (t!"id", .int 501), (t!"method", .str t!"roots/list")]
    let st := legRun ⟨none, true, .resync⟩ { tbl := Table.init [1] }
      (legEvent req 50 ++ [eventLine t!"endpoint", ⟨.data ⟨true, none, true⟩, false, 14⟩, blankLine] ++ legEvent req 50)
    st.halt = none ∧ st.latch = true ∧ st.answers = [(.int 501, true)] := by
  simp [legRun, legStep, legEvent, eventLine, blankLine, dataLine, payloadOf, legDispatch, legEndpoint, legMessage, hasKey, lookup,
    reqDecodes, strOrNull, idOf, isRoots, methodOf, extractString]

/-- a missing endpoint event is not a crash either: the latch simply stays open (the handshake then ends with the caller's
    deadline) -/
theorem C07_missing_endpoint_no_latch (F : Facts) (ls : List Line) (hls : ∀ l ∈ ls, l.namesEndpoint = false) (st : LegSt)
    (hl : st.latch = false) (he : st.etype ≠ t!"endpoint") : (legRun F st ls).latch = false := by
  induction ls generalizing st with
  | nil => exact hl
  | cons l ls ih =>
    simp only [legRun, List.foldl_cons]
    refine ih (fun x hx => hls x (by simp [hx])) _ ?_ (legStep_etype F st l (hls l (by simp)) he)
    unfold legStep
    split
    · exact hl
    · split
      · split
        · exact hl
        · split
          · unfold legDispatch
            split
            · rename_i h; exact absurd h he
            · split
              · rw [(legMessage_frame _ _).2.2.2.1]; exact hl
              · exact hl
          · exact hl
      · exact hl
      · exact hl
      · exact hl

private theorem leg_inv (F : Facts) (c : Nat) (g : List Line)
    (hg : ∀ l ∈ g, legLineAddressed c l = false ∧ (F.latchGuarded = true ∨ l.namesEndpoint = false)) :
    ∀ st : LegSt, st.halt = none → c ∈ st.tbl.pending → st.tbl.got c = none → legDataNotFor c st.data = true →
      (F.latchGuarded = true ∨ st.etype ≠ t!"endpoint") →
      (legRun F st g).halt = none ∧ c ∈ (legRun F st g).tbl.pending ∧ (legRun F st g).tbl.got c = none := by
  induction g with
  | nil => intro st h1 h2 h3 _ _; exact ⟨h1, h2, h3⟩
  | cons l g ih =>
    intro st h1 h2 h3 h4 h5
    simp only [legRun, List.foldl_cons]
    have hl := hg l (by simp)
    have h5' : F.latchGuarded = true ∨ (legStep F st l).etype ≠ t!"endpoint" := by
      rcases h5 with h5 | h5
      · exact Or.inl h5
      · rcases hl.2 with hg' | hn
        · exact Or.inl hg'
        · exact Or.inr (legStep_etype F st l hn h5)
    apply ih (fun x hx => hg x (by simp [hx])) _ (legStep_alive F st l h1 h5) ?_ ?_ ?_ h5'
    all_goals
      unfold legStep
      simp only [h1, Option.isSome_none, Bool.false_eq_true, if_false]
    · -- pending
      split
      · split
        · exact h2
        · split
          · unfold legDispatch
            split
            · rw [(legEndpoint_frame F _ _).2.2]; exact h2
            · split
              · rw [(legMessage_frame _ _).2.2.2.2]; exact h2
              · exact h2
          · exact h2
      · exact h2
      · exact h2
      · exact h2
    · -- got c
      split
      · split
        · exact h3
        · split
          · rename_i p hd
            unfold legDispatch
            split
            · rw [(legEndpoint_frame F _ _).2.2]; exact h3
            · split
              · rw [legMessage_other _ p c (by simpa [legDataNotFor, hd] using h4)]; exact h3
              · exact h3
          · exact h3
      · exact h3
      · exact h3
      · exact h3
    · -- what waits in eventData is still not for c
      split
      · split
        · exact h4
        · split
          · unfold legDispatch
            split
            · rw [(legEndpoint_frame F _ _).2.1]; rfl
            · split
              · rw [(legMessage_frame _ _).2.2.1]; rfl
              · rfl
          · exact h4
      · exact h4
      · rename_i p hk _
        have := hl.1
        simp only [legLineAddressed, hk] at this
        split
        · simp [legDataNotFor, this]
        · rfl
      · exact h4

private theorem leg_answer (F : Facts) (st : LegSt) (c : Nat) (r : Json) (n : Nat) (h1 : st.halt = none)
    (h2 : c ∈ st.tbl.pending) (h3 : st.tbl.got c = none) :
    (legRun F st (legEvent (wfResult c r) n)).tbl.got c = some (.ok r) ∧ (legRun F st (legEvent (wfResult c r) n)).halt = none := by
  have hm := idMatches_self c
  have hne : (t!"message" : Text) ≠ t!"endpoint" := by decide
  have : legRun F st (legEvent (wfResult c r) n) =
      { st with etype := [], data := none, tbl := st.tbl.deliver (fun k => idMatches k (.int (c : Int))) (.ok r) } := by
    simp [legRun, legEvent, legStep, h1, eventLine, dataLine, blankLine, payloadOf, legDispatch, legMessage, wfResult, hasKey, lookup,
      idOf, outOfResponse]
  rw [this]
  exact ⟨deliver_sel _ _ _ c h2 hm h3, h1⟩

/-- every region: garbage that is not addressed to `c` and (unless the latch is guarded) does not name the `endpoint` event -/
private theorem leg_resync_general (F : Facts) (st : LegSt) (c : Nat) (h1 : st.halt = none)
    (h2 : c ∈ st.tbl.pending) (h3 : st.tbl.got c = none) (h4 : legDataNotFor c st.data = true)
    (h5 : F.latchGuarded = true ∨ st.etype ≠ t!"endpoint") (g : List Line)
    (hg : ∀ l ∈ g, legLineAddressed c l = false ∧ (F.latchGuarded = true ∨ l.namesEndpoint = false)) (r : Json) (n : Nat) :
    (legRun F st (g ++ legEvent (wfResult c r) n)).tbl.got c = some (.ok r) := by
  rw [legRun_append]
  obtain ⟨i1, i2, i3⟩ := leg_inv F c g hg st h1 h2 h3 h4 h5
  exact (leg_answer F _ c r n i1 i2 i3).1

/-- resync, legacy SSE, full statement, good region (today): complete garbage lines — comments, unknown fields, half events,
    events of unknown types, repeated / malformed endpoint events, frames for other calls, unknown and wrongly typed ids,
    1 MiB lines — before the well-formed answer to the pending call `c` never prevent `c` from completing with that answer. -/
theorem C07_resync_legacy (F : Facts) (hF : F.latchGuarded = true) (st : LegSt) (c : Nat) (h1 : st.halt = none)
    (h2 : c ∈ st.tbl.pending) (h3 : st.tbl.got c = none) (h4 : legDataNotFor c st.data = true) (g : List Line)
    (hg : ∀ l ∈ g, legLineAddressed c l = false) (r : Json) (n : Nat) :
    (legRun F st (g ++ legEvent (wfResult c r) n)).tbl.got c = some (.ok r) :=
  leg_resync_general F st c h1 h2 h3 h4 (Or.inl hF) g (fun l hl => ⟨hg l hl, Or.inl hF⟩) r n

/-- a later call on the same client completes whenever the reader is still alive (whatever half event it is holding) -/
theorem C07_later_call_legacy (F : Facts) (st : LegSt) (h : st.halt = none) (n : Nat) (r : Json) (size : Nat) :
    (legRun F { st with tbl := Table.init [n] } (legEvent (wfResult n r) size)).tbl.got n = some (.ok r) :=
  (leg_answer F { st with tbl := Table.init [n] } n r size h (by simp [Table.init]) rfl).1

/-- handshake histories, legacy SSE (good region — today): whatever content the `message` events answering the first
    initialize requests have (a result of the wrong shape, a JSON-RPC error, an `error` member of the wrong type, no result:
    the model's reader does not look at it, the client's Initialize then fails and — today — only resets the client state),
    the reader is alive afterwards and the properly answered retry (request id `n`) gets its answer. -/
theorem C07_handshake_retry_legacy (F : Facts) (hF : F.latchGuarded = true) (st : LegSt) (h : st.halt = none)
    (bad : List Line) (n : Nat) (r : Json) (size : Nat) :
    (legRun F { legRun F st bad with tbl := Table.init [n] } (legEvent (wfResult n r) size)).tbl.got n = some (.ok r) :=
  C07_later_call_legacy F _ (C07_total_legacy F hF bad st h) n r size

private theorem legStep_sim (F : Facts) (c : Nat) (s1 s2 : LegSt) (l : Line) (h : LegSim c s1 s2) :
    LegSim c (legStep F s1 l) (legStep F s2 l) := by
  obtain ⟨halt1, et1, d1, la1, ⟨pend1, got1⟩, an1⟩ := s1
  obtain ⟨halt2, et2, d2, la2, ⟨pend2, got2⟩, an2⟩ := s2
  obtain ⟨h1, h2, h3, h4, h5, h6⟩ := h
  simp only at h1 h2 h3 h4 h5 h6
  subst h1 h2 h3 h4 h5
  simp only [legStep, legDispatch, legEndpoint, legMessage]
  repeat' split
  all_goals first
    | exact ⟨rfl, rfl, rfl, rfl, rfl, h6⟩
    | exact ⟨rfl, rfl, rfl, rfl, rfl, deliver_congr _ _ _ _ c rfl h6⟩

private theorem legRun_sim (F : Facts) (c : Nat) (ls : List Line) :
    ∀ s1 s2 : LegSt, LegSim c s1 s2 → LegSim c (legRun F s1 ls) (legRun F s2 ls) := by
  induction ls with
  | nil => intro s1 s2 h; exact h
  | cons l ls ih =>
    intro s1 s2 h
    simp only [legRun, List.foldl_cons]
    exact ih _ _ (legStep_sim F c s1 s2 l h)

/-- isolation, legacy SSE (every region): ANY `message` event — a malformed answer to another call, an error, a request, a
    frame for an unknown id — that is not addressed to call `c`, inserted at an event boundary anywhere in the stream, does not
    change `c`'s outcome. -/
theorem C07_isolation_legacy (F : Facts) (st : LegSt) (c : Nat) (p : Payload) (hp : p.nonEmpty = true)
    (hc : legAddressed c p = false) (pre post : List Line) (size : Nat)
    (hb : (legRun F st pre).etype = [] ∧ (legRun F st pre).data = none) :
    (legRun F st (pre ++ legEventP p size ++ post)).tbl.got c = (legRun F st (pre ++ post)).tbl.got c := by
  rw [List.append_assoc, legRun_append, legRun_append F st pre post, legRun_append]
  generalize legRun F st pre = s at hb
  have hs : LegSim c (legRun F s (legEventP p size)) s := by
    by_cases hh : s.halt.isSome = true
    · have : legRun F s (legEventP p size) = s := by simp [legRun, legEventP, legStep, hh]
      rw [this]; exact ⟨rfl, rfl, rfl, rfl, rfl, rfl⟩
    · have hne : (t!"message" : Text) ≠ t!"endpoint" := by decide
      have : legRun F s (legEventP p size) = legMessage { s with etype := [], data := none } p := by
        simp [legRun, legEventP, legStep, hh, eventLine, blankLine, hp, legDispatch]
      rw [this]
      have fr := legMessage_frame { s with etype := [], data := none } p
      exact ⟨fr.1, by rw [fr.2.1]; exact hb.1.symm, by rw [fr.2.2.1]; exact hb.2.symm, fr.2.2.2.1, fr.2.2.2.2,
        legMessage_other _ p c hc⟩
  exact (legRun_sim F c post _ _ hs).2.2.2.2.2

/-- unknown ids, ids of the wrong type, legacy SSE: a `message` payload that selects no registered call changes no call's
    outcome (and cannot stop the reader). -/
theorem C07_unknown_id_harmless_legacy (st : LegSt) (p : Payload)
    (hp : ∀ k ∈ st.tbl.pending, legAddressed k p = false) (k : Nat) :
    (legMessage st p).tbl.got k = st.tbl.got k ∧ (legMessage st p).halt = st.halt := by
  refine ⟨?_, (legMessage_frame st p).1⟩
  by_cases hk : k ∈ st.tbl.pending
  · exact legMessage_other st p k (hp k hk)
  · unfold legMessage
    split
    · split
      · split <;> rfl
      · split
        · simp [Table.deliver, hk]
        · rfl
    · rfl

example : (legRun ⟨none, true, .resync⟩ { tbl := Table.init [2, 3], latch := true }
    ([⟨.comment, false, 1048576⟩, eventLine t!"endpoint", ⟨.data ⟨true, none, true⟩, false, 14⟩, blankLine,
      eventLine t!"message", ⟨.data ⟨true, none, false⟩, false, 11⟩, blankLine,
      eventLine t!"ping", dataLine (wfResult 9001 (.obj [])) 50, blankLine, dataLine (wfResult 9000 (.obj [])) 50, blankLine,
      eventLine t!"message", dataLine (wfResult 3 (.obj [])) 50, blankLine, eventLine t!"message"] ++
      legEvent (wfResult 2 (.obj [(t!"nextCursor", .str t!"a")])) 70)).tbl.got 2 = some (.ok (.obj [(t!"nextCursor", .str t!"a")])) :=
  C07_resync_legacy _ rfl _ 2 rfl (by simp [Table.init]) rfl rfl _ (by decide) _ _

/-! ## 5. stdio -/

private theorem stdioValue_frame (H : List Text) (st : StdioSt) (v : Json) :
    (stdioValue H st v).halt = st.halt ∧ (stdioValue H st v).closed = st.closed ∧
      (stdioValue H st v).tbl.pending = st.tbl.pending := by
  unfold stdioValue
  split
  · exact ⟨rfl, rfl, rfl⟩
  · exact ⟨rfl, rfl, rfl⟩
  · split <;> exact ⟨rfl, rfl, rfl⟩
  · split <;> exact ⟨rfl, rfl, rfl⟩
  · split <;> exact ⟨rfl, rfl, rfl⟩

private theorem stdioValues_frame (H : List Text) (vs : List Json) (st : StdioSt) :
    (vs.foldl (stdioValue H) st).halt = st.halt ∧ (vs.foldl (stdioValue H) st).closed = st.closed ∧
      (vs.foldl (stdioValue H) st).tbl.pending = st.tbl.pending := by
  induction vs generalizing st with
  | nil => exact ⟨rfl, rfl, rfl⟩
  | cons v vs ih =>
    have h1 := stdioValue_frame H st v
    have h2 := ih (stdioValue H st v)
    simp only [List.foldl_cons]
    exact ⟨h2.1.trans h1.1, h2.2.1.trans h1.2.1, h2.2.2.trans h1.2.2⟩

private theorem stdioRun_append (F : Facts) (H : List Text) (st : StdioSt) (a b : List Frame) :
    stdioRun F H st (a ++ b) = stdioRun F H (stdioRun F H st a) b := by
  simp [stdioRun, List.foldl_append]

private theorem msgType_obj (v : Json) (ty : MsgType) (m : Obj) (hm : msgType v = some (ty, m)) : v = .obj m := by
  unfold msgType at hm
  split at hm
  · split at hm
    · split at hm
      · split at hm <;> try split at hm
        all_goals simp at hm
        all_goals simp [hm]
      · split at hm <;> simp at hm
        simp [hm]
    · simp at hm
  · simp at hm

/-- a value that is not addressed to call `c` leaves `c`'s slot alone -/
private theorem stdioValue_other (H : List Text) (st : StdioSt) (v : Json) (c : Nat)
    (h : valueAddressed c v = false) : (stdioValue H st v).tbl.got c = st.tbl.got c := by
  unfold stdioValue
  split
  · rfl
  · rename_i m hm
    have hv := msgType_obj v _ m hm
    subst hv
    exact deliver_not_sel _ _ _ c (by simpa [valueAddressed] using h)
  · rename_i m hm
    have hv := msgType_obj v _ m hm
    subst hv
    split
    · exact deliver_not_sel _ _ _ c (by simpa [valueAddressed] using h)
    · rfl
  · split <;> rfl
  · split <;> rfl

private theorem stdioValue_sim (H : List Text) (c : Nat) (s1 s2 : StdioSt) (v : Json) (h : StdioSim c s1 s2) :
    StdioSim c (stdioValue H s1 v) (stdioValue H s2 v) := by
  obtain ⟨h1, h2, h3, h4⟩ := h
  unfold stdioValue
  split
  · exact ⟨h1, h2, h3, h4⟩
  · exact ⟨h1, h2, h3, deliver_congr _ _ _ _ c h3 h4⟩
  · split
    · exact ⟨h1, h2, h3, deliver_congr _ _ _ _ c h3 h4⟩
    · exact ⟨h1, h2, h3, h4⟩
  · split <;> exact ⟨h1, h2, h3, h4⟩
  · split <;> exact ⟨h1, h2, h3, h4⟩

private theorem stdioValues_sim (H : List Text) (c : Nat) (vs : List Json) :
    ∀ s1 s2 : StdioSt, StdioSim c s1 s2 → StdioSim c (vs.foldl (stdioValue H) s1) (vs.foldl (stdioValue H) s2) := by
  induction vs with
  | nil => intro s1 s2 h; exact h
  | cons v vs ih => intro s1 s2 h; exact ih _ _ (stdioValue_sim H c s1 s2 v h)

private theorem stdioLineStep_sim (H : List Text) (c : Nat) (s1 s2 : StdioSt) (f : Frame) (h : StdioSim c s1 s2) :
    StdioSim c (stdioLineStep H s1 f) (stdioLineStep H s2 f) := by
  cases f <;> first | exact h | exact stdioValue_sim H c s1 s2 _ h

private theorem stdioDecoderStep_sim (e : OnErr) (H : List Text) (c : Nat) (s1 s2 : StdioSt) (f : Frame) (h : StdioSim c s1 s2) :
    StdioSim c (stdioDecoderStep e H s1 f) (stdioDecoderStep e H s2 f) := by
  cases f with
  | ws => exact h
  | value v => exact stdioValue_sim H c s1 s2 v h
  | spread v => exact stdioValue_sim H c s1 s2 v h
  | packed vs => exact stdioValues_sim H c vs s1 s2 h
  | garbage => exact ⟨rfl, h.2.1, h.2.2.1, h.2.2.2⟩
  | truncated => exact ⟨rfl, h.2.1, h.2.2.1, h.2.2.2⟩

private theorem stdioStep_sim (F : Facts) (H : List Text) (c : Nat) (s1 s2 : StdioSt) (f : Frame) (h : StdioSim c s1 s2) :
    StdioSim c (stdioStep F H s1 f) (stdioStep F H s2 f) := by
  unfold stdioStep
  rw [h.1]
  split
  · exact h
  · split
    · exact stdioLineStep_sim H c s1 s2 f h
    · exact stdioDecoderStep_sim .spin H c s1 s2 f h
    · exact stdioDecoderStep_sim .stop H c s1 s2 f h

private theorem stdioRun_sim (F : Facts) (H : List Text) (c : Nat) (fs : List Frame) :
    ∀ s1 s2 : StdioSt, StdioSim c s1 s2 → StdioSim c (stdioRun F H s1 fs) (stdioRun F H s2 fs) := by
  induction fs with
  | nil => intro s1 s2 h; exact h
  | cons f fs ih =>
    intro s1 s2 h
    simp only [stdioRun, List.foldl_cons]
    exact ih _ _ (stdioStep_sim F H c s1 s2 f h)

/-- what one step of the line reader does: a `value` line is handed on, every other line changes nothing -/
private theorem stdioStep_line (F : Facts) (hF : F.stdioOnError = .resync) (H : List Text) (st : StdioSt) (f : Frame)
    (hs : st.halt = none) : stdioStep F H st f = stdioLineStep H st f := by
  simp [stdioStep, hs, hF]

/-- full statement, good region (the line reader — today): NO stdout content — non-JSON lines, output that ends inside a
    value, values spread over several lines or sharing a line, values of any JSON type — makes the stdio reader panic, spin
    or stop. -/
theorem C07_total_stdio (F : Facts) (hF : F.stdioOnError = .resync) (H : List Text) (fs : List Frame) (st : StdioSt)
    (hs : st.halt = none) : (stdioRun F H st fs).halt = none := by
  induction fs generalizing st with
  | nil => exact hs
  | cons f fs ih =>
    simp only [stdioRun, List.foldl_cons]
    apply ih
    rw [stdioStep_line F hF H st f hs]
    cases f <;> first | exact hs | (simp only [stdioLineStep]; rw [(stdioValue_frame H st _).1]; exact hs)

/-- witness for the bad region `spin` (the decoder loop that `continue`s, D16): one non-JSON line, then the well-formed answer
    to the pending call 2 — the read loop spins (until Close), the answer is never delivered. -/
theorem C07_total_stdio_counterexample (F : Facts) (hF : F.stdioOnError = .spin) (H : List Text) (r : Json) :
    (stdioRun F H { tbl := Table.init [2] } [.garbage, .value (wfResult 2 r)]).halt = some .spin ∧
    (stdioRun F H { tbl := Table.init [2] } [.garbage, .value (wfResult 2 r)]).spinning = true ∧
    (stdioRun F H { tbl := Table.init [2] } [.garbage, .value (wfResult 2 r)]).tbl.got 2 = none := by
  simp [stdioRun, stdioStep, stdioDecoderStep, hF, StdioSt.spinning, Table.init]

/-- witness for the bad region `stop`: a decoder loop that merely leaves on the first error does not spin but is just as deaf -/
theorem C07_resync_stdio_stop_counterexample (F : Facts) (hF : F.stdioOnError = .stop) (H : List Text) (r : Json) :
    (stdioRun F H { tbl := Table.init [2] } [.garbage, .value (wfResult 2 r)]).halt = some .dead ∧
    (stdioRun F H { tbl := Table.init [2] } [.garbage, .value (wfResult 2 r)]).tbl.got 2 = none := by
  simp [stdioRun, stdioStep, stdioDecoderStep, hF, Table.init]

/-- the line reader reads ONE value per line: a value printed over several lines, or sharing its line with another value, is
    skipped like any other line that is not a JSON value (the price of the repair; MCP's stdio framing asks for exactly one
    message per line) -/
theorem C07_stdio_one_value_per_line (F : Facts) (hF : F.stdioOnError = .resync) (H : List Text) (st : StdioSt) (v : Json)
    (vs : List Json) : stdioStep F H st (.spread v) = st ∧ stdioStep F H st (.packed vs) = st := by
  unfold stdioStep
  constructor <;> (split <;> simp [hF, stdioLineStep])

private theorem stdio_inv (F : Facts) (hF : F.stdioOnError = .resync) (H : List Text) (c : Nat) (g : List Frame)
    (hg : ∀ f ∈ g, stdioAddressed c f = false) :
    ∀ st : StdioSt, st.halt = none → c ∈ st.tbl.pending → st.tbl.got c = none →
      (stdioRun F H st g).halt = none ∧ c ∈ (stdioRun F H st g).tbl.pending ∧ (stdioRun F H st g).tbl.got c = none := by
  induction g with
  | nil => intro st h1 h2 h3; exact ⟨h1, h2, h3⟩
  | cons f g ih =>
    intro st h1 h2 h3
    simp only [stdioRun, List.foldl_cons]
    rw [stdioStep_line F hF H st f h1]
    have hf := hg f (by simp)
    apply ih (fun x hx => hg x (by simp [hx]))
    · cases f <;> first | exact h1 | (simp only [stdioLineStep]; rw [(stdioValue_frame H st _).1]; exact h1)
    · cases f <;> first | exact h2 | (simp only [stdioLineStep]; rw [(stdioValue_frame H st _).2.2]; exact h2)
    · cases f with
      | value v => simp only [stdioLineStep]; rw [stdioValue_other H st v c (by simpa [stdioAddressed] using hf)]; exact h3
      | _ => exact h3

private theorem keyIs_self (c : Nat) : keyIs c (.int (c : Int)) = true := by simp [keyIs, idInt64]

private theorem stdio_answer (F : Facts) (H : List Text) (st : StdioSt) (c : Nat) (o : Obj) (h1 : st.halt = none)
    (h2 : c ∈ st.tbl.pending) (h3 : st.tbl.got c = none) :
    (stdioRun F H st [.value (wfResult c (.obj o))]).tbl.got c = some (.ok (.obj o)) := by
  have hk := keyIs_self c
  have hv : stdioValue H st (wfResult c (.obj o)) =
      { st with tbl := st.tbl.deliver (fun k => keyIs k (.int (c : Int))) (.ok (.obj o)) } := by
    simp [stdioValue, wfResult, msgType, lookupStr?, lookup, hasKey, idOf]
  have : stdioRun F H st [.value (wfResult c (.obj o))] = stdioValue H st (wfResult c (.obj o)) := by
    simp only [stdioRun, List.foldl_cons, List.foldl_nil, stdioStep, h1, Option.isSome_none, Bool.false_eq_true, if_false]
    cases F.stdioOnError <;> rfl
  rw [this, hv]
  exact deliver_sel _ _ _ c h2 hk h3

/-- resync, stdio, full statement, good region (today): ANY lines — non-JSON lines, blank lines, truncated output, values
    spread over lines or packed on one line, frames of the wrong kind, unknown ids, ids of the wrong type, scalars, 1 MiB
    values, answers for other calls — before the well-formed answer to the pending call `c` never prevent `c` from completing
    with that answer. -/
theorem C07_resync_stdio (F : Facts) (hF : F.stdioOnError = .resync) (H : List Text) (st : StdioSt) (c : Nat)
    (h1 : st.halt = none) (h2 : c ∈ st.tbl.pending) (h3 : st.tbl.got c = none) (g : List Frame)
    (hg : ∀ f ∈ g, stdioAddressed c f = false) (o : Obj) :
    (stdioRun F H st (g ++ [.value (wfResult c (.obj o))])).tbl.got c = some (.ok (.obj o)) := by
  rw [stdioRun_append]
  obtain ⟨i1, i2, i3⟩ := stdio_inv F hF H c g hg st h1 h2 h3
  exact stdio_answer F H _ c o i1 i2 i3

/-- isolation, stdio, full statement, good region (today): ANY frame that is not addressed to call `c` — a non-JSON line, a
    malformed answer to another call, an error of the wrong shape, a frame of the wrong kind — placed anywhere in the stream
    does not change `c`'s outcome. -/
theorem C07_isolation_stdio (F : Facts) (hF : F.stdioOnError = .resync) (H : List Text) (st : StdioSt) (c : Nat) (f : Frame)
    (hf : stdioAddressed c f = false) (pre post : List Frame) :
    (stdioRun F H st (pre ++ f :: post)).tbl.got c = (stdioRun F H st (pre ++ post)).tbl.got c := by
  rw [stdioRun_append, stdioRun_append]
  generalize stdioRun F H st pre = s
  simp only [stdioRun, List.foldl_cons]
  have hs : StdioSim c (stdioStep F H s f) s := by
    by_cases hh : s.halt = none
    · rw [stdioStep_line F hF H s f hh]
      cases f with
      | value v =>
        have := stdioValue_frame H s v
        exact ⟨this.1, this.2.1, this.2.2, stdioValue_other H s v c (by simpa [stdioAddressed] using hf)⟩
      | _ => exact ⟨rfl, rfl, rfl, rfl⟩
    · have : stdioStep F H s f = s := by
        unfold stdioStep
        cases hs : s.halt with
        | none => exact absurd hs hh
        | some h => simp
      rw [this]; exact ⟨rfl, rfl, rfl, rfl⟩
  exact (stdioRun_sim F H c post _ _ hs).2.2.2

/-- isolation, every region of the family: a JSON value on its own line that is not addressed to call `c` does not change
    `c`'s outcome (the decoder loops had this part of the property too). -/
theorem C07_isolation_stdio_value (F : Facts) (H : List Text) (st : StdioSt) (c : Nat) (v : Json)
    (hv : valueAddressed c v = false) (pre post : List Frame) :
    (stdioRun F H st (pre ++ .value v :: post)).tbl.got c = (stdioRun F H st (pre ++ post)).tbl.got c := by
  rw [stdioRun_append, stdioRun_append]
  generalize stdioRun F H st pre = s
  simp only [stdioRun, List.foldl_cons]
  have hs : StdioSim c (stdioStep F H s (.value v)) s := by
    have fr := stdioValue_frame H s v
    have ot := stdioValue_other H s v c hv
    unfold stdioStep
    split
    · exact ⟨rfl, rfl, rfl, rfl⟩
    · split <;> exact ⟨fr.1, fr.2.1, fr.2.2, ot⟩
  exact (stdioRun_sim F H c post _ _ hs).2.2.2

/-- unknown ids, ids of the wrong type (every region): a JSON value whose id selects no registered call changes no call's
    outcome. -/
theorem C07_unknown_id_harmless_stdio (F : Facts) (H : List Text) (st : StdioSt) (v : Json)
    (hv : ∀ k ∈ st.tbl.pending, valueAddressed k v = false) (k : Nat) :
    (stdioStep F H st (.value v)).tbl.got k = st.tbl.got k := by
  have key : (stdioValue H st v).tbl.got k = st.tbl.got k := by
    by_cases hk : k ∈ st.tbl.pending
    · exact stdioValue_other H st v k (hv k hk)
    · unfold stdioValue
      split
      · rfl
      · simp [Table.deliver, hk]
      · split
        · simp [Table.deliver, hk]
        · rfl
      · split <;> rfl
      · split <;> rfl
  unfold stdioStep
  split
  · rfl
  · split <;> exact key

/-- ids that are strings, null, booleans, arrays or objects select nobody; a fractional number is truncated (2.5 selects 2) -/
example : keyIs 2 (.str t!"2") = false ∧ keyIs 2 .null = false ∧ keyIs 2 (.bool true) = false ∧ keyIs 2 (.arr [.int 2]) = false ∧
    keyIs 2 (.obj []) = false ∧ keyIs 2 (.dec 25 1) = true ∧ keyIs 2 (.int (-2)) = false := by decide

/-- a later call on the same client completes whenever the reader is still alive (every region) -/
theorem C07_later_call_stdio (F : Facts) (H : List Text) (st : StdioSt) (h : st.halt = none) (n : Nat) (o : Obj) :
    (stdioRun F H { st with tbl := Table.init [n] } [.value (wfResult n (.obj o))]).tbl.got n = some (.ok (.obj o)) :=
  stdio_answer F H _ n o h (by simp [Table.init]) rfl

/-- handshake histories, stdio (good region — today): whatever frames answered the first initialize requests, the properly
    answered retry gets its answer. -/
theorem C07_handshake_retry_stdio (F : Facts) (hF : F.stdioOnError = .resync) (H : List Text) (st : StdioSt) (h : st.halt = none)
    (bad : List Frame) (n : Nat) (o : Obj) :
    (stdioRun F H { stdioRun F H st bad with tbl := Table.init [n] } [.value (wfResult n (.obj o))]).tbl.got n = some (.ok (.obj o)) :=
  C07_later_call_stdio F H _ (C07_total_stdio F hF H bad st h) n o

private theorem stdioStep_note (F : Facts) (hF : F.stdioOnError = .resync) (H : List Text) (m : Text) (hm : m ∈ H) (p : Obj)
    (st : StdioSt) (h : st.halt = none) :
    stdioStep F H st (.value (wfNote m p)) = { st with notes := st.notes ++ [(m, .obj p)] } := by
  simp [stdioStep, h, hF, stdioLineStep, stdioValue, msgType, wfNote, lookupStr?, lookup, hasKey, notifDecodes, strOrNull, objOrNull,
    methodOf, paramsOf, extractString, hm]

/-- notification BURSTS, stdio (good region — today): any number of well-formed notifications of a method with a registered
    handler, back to back — every one is handed to its handler, in order, the reader stays alive and the pending table is
    untouched; so (`C07_later_call_stdio`) a call made afterwards on the same client — by the caller or by one of the
    handlers — is answered.  (What a handler does while it runs is outside the model: today every handler has its own
    goroutine; the differential run exercises handlers that call back into the client.) -/
theorem C07_burst_stdio (F : Facts) (hF : F.stdioOnError = .resync) (H : List Text) (m : Text) (hm : m ∈ H) (ps : List Obj)
    (st : StdioSt) (h : st.halt = none) :
    (stdioRun F H st (ps.map (fun p => Frame.value (wfNote m p)))).halt = none ∧
    (stdioRun F H st (ps.map (fun p => Frame.value (wfNote m p)))).notes = st.notes ++ ps.map (fun p => (m, Json.obj p)) ∧
    (stdioRun F H st (ps.map (fun p => Frame.value (wfNote m p)))).tbl.pending = st.tbl.pending := by
  induction ps generalizing st with
  | nil => simp [stdioRun, h]
  | cons p ps ih =>
    simp only [List.map_cons, stdioRun, List.foldl_cons] at ih ⊢
    rw [stdioStep_note F hF H m hm p st h]
    have := ih { st with notes := st.notes ++ [(m, .obj p)] } h
    simpa [List.append_assoc] using this

/-- a burst of any length, then a call: answered -/
theorem C07_call_after_burst_stdio (F : Facts) (hF : F.stdioOnError = .resync) (H : List Text) (m : Text) (hm : m ∈ H) (ps : List Obj)
    (st : StdioSt) (h : st.halt = none) (n : Nat) (o : Obj) :
    (stdioRun F H { stdioRun F H st (ps.map (fun p => Frame.value (wfNote m p))) with tbl := Table.init [n] }
      [.value (wfResult n (.obj o))]).tbl.got n = some (.ok (.obj o)) :=
  C07_later_call_stdio F H _ (C07_burst_stdio F hF H m hm ps st h).1 n o

/-- padding a frame with JSON white space (space, tab, CR, LF — in front, behind, any mixture, any length) does not change
    anything: the line is lexed to the very frame (`json.Unmarshal` skips exactly that white space), so in EVERY region of the
    family the reader does with it what it does with the bare frame -/
theorem C07_stdio_padding_irrelevant (F : Facts) (H : List Text) (st : StdioSt) (lead trail : Text) (v : Json)
    (hl : lead.all jsonWs = true) (ht : trail.all jsonWs = true) :
    stdioStep F H st (lexLine ⟨lead, v, trail⟩) = stdioStep F H st (.value v) := by
  simp [lexLine, hl, ht]

/-- … in particular (good region — today): garbage of any kind, then the well-formed answer to call `c` with white space
    around it — `c` gets its result -/
theorem C07_padded_answer_delivered (F : Facts) (hF : F.stdioOnError = .resync) (H : List Text) (st : StdioSt) (c : Nat)
    (h1 : st.halt = none) (h2 : c ∈ st.tbl.pending) (h3 : st.tbl.got c = none) (g : List Frame)
    (hg : ∀ f ∈ g, stdioAddressed c f = false) (o : Obj) (lead trail : Text)
    (hl : lead.all jsonWs = true) (ht : trail.all jsonWs = true) :
    (stdioRun F H st (g ++ [lexLine ⟨lead, wfResult c (.obj o), trail⟩])).tbl.got c = some (.ok (.obj o)) := by
  have : lexLine ⟨lead, wfResult c (.obj o), trail⟩ = .value (wfResult c (.obj o)) := by simp [lexLine, hl, ht]
  rw [this]
  exact C07_resync_stdio F hF H st c h1 h2 h3 g hg o

/-- a byte around the value that is not JSON white space (a vertical tab: white space for `bytes.TrimSpace` only) makes the
    line a non-JSON line: skipped by the line reader, the end of a decoder loop -/
example : lexLine ⟨[11], wfResult 2 (.obj []), []⟩ = .garbage ∧ lexLine ⟨[], wfResult 2 (.obj []), [32, 0xC2, 0x85]⟩ = .garbage ∧
    lexLine ⟨[32, 9, 13], wfResult 2 (.obj []), [13]⟩ = .value (wfResult 2 (.obj [])) := by
  simp [lexLine, jsonWs]

/-- Close ends the read loop whatever it is doing (the loop condition reads `closed`) -/
theorem C07_close_ok_stdio (st : StdioSt) : (stdioClose st).spinning = false := by
  simp [stdioClose, StdioSt.spinning]

example : (stdioRun ⟨none, true, .resync⟩ [] { tbl := Table.init [2, 3] }
    ([.garbage, .value (.int 42), .ws, .spread (wfResult 2 (.obj [])), .value (wfResult 9000 (.obj [])),
      .packed [wfResult 2 (.obj []), wfResult 3 (.obj [])],
      .value (.obj [(t!"jsonrpc", .str t!"2.0"), (t!"id", .str t!"2"), (t!"result", .null)]), .truncated,
      .value (wfResult 3 (.obj []))] ++ [.value (wfResult 2 (.obj [(t!"nextCursor", .str t!"a")]))])).tbl.got 2
      = some (.ok (.obj [(t!"nextCursor", .str t!"a")])) :=
  C07_resync_stdio _ rfl [] _ 2 rfl (by simp [Table.init]) rfl _ (by decide) _

/-! ## the tree as it is -/

/-- In the good region of the family (no line limit, guarded latch, line-reading stdio loop) no reader ever stops:
    `C07_total` in full, for every stream of every background reader. -/
theorem C07_total (F : Facts) (hF : F.good = true) (H : List Text) :
    (∀ ls, (getRun F H {} ls).halt = none) ∧
    (∀ ids ls, (legRun F { tbl := Table.init ids } ls).halt = none) ∧
    (∀ ids fs, (stdioRun F H { tbl := Table.init ids } fs).halt = none) := by
  simp only [Facts.good, Bool.and_eq_true, Option.isNone_iff_eq_none, beq_iff_eq] at hF
  exact ⟨fun ls => C07_alive_get F hF.1.1 H ls {} rfl,
    fun ids ls => C07_total_legacy F hF.1.2 ls _ rfl,
    fun ids fs => C07_total_stdio F hF.2 H fs _ rfl⟩

/-- the facts regenerated from the source on this run lie in the good region: the GET reader has no line limit, the
    endpoint latch is closed under a guard, the stdio loop is a line reader -/
theorem C07_facts_good : Mcp.Gen.rdFacts.good = true := by decide

private theorem facts_here : Mcp.Gen.rdFacts.getLimit = none ∧ Mcp.Gen.rdFacts.latchGuarded = true ∧
    Mcp.Gen.rdFacts.stdioOnError = .resync := by
  have h := C07_facts_good
  simp only [Facts.good, Bool.and_eq_true, Option.isNone_iff_eq_none, beq_iff_eq] at h
  exact ⟨h.1.1, h.1.2, h.2⟩

/-- the tree as it is: no stream stops, crashes or wedges any of the three background readers -/
theorem C07_total_here (H : List Text) :
    (∀ ls, (getRun Mcp.Gen.rdFacts H {} ls).halt = none) ∧
    (∀ ids ls, (legRun Mcp.Gen.rdFacts { tbl := Table.init ids } ls).halt = none) ∧
    (∀ ids fs, (stdioRun Mcp.Gen.rdFacts H { tbl := Table.init ids } fs).halt = none) :=
  C07_total _ C07_facts_good H

/-- the tree as it is: garbage of any kind before a well-formed frame never prevents its delivery, on any of the three
    shared streams -/
theorem C07_resync_here (H : List Text) :
    (∀ (g : List Line) method params, method ∈ H → ∀ n,
      (getRun Mcp.Gen.rdFacts H {} (g ++ getEvent (wfNote method params) n)).notes =
        (getRun Mcp.Gen.rdFacts H {} g).notes ++ [(method, .obj params)]) ∧
    (∀ (ids : List Nat) (c : Nat), c ∈ ids → ∀ (g : List Line), (∀ l ∈ g, legLineAddressed c l = false) → ∀ r n,
      (legRun Mcp.Gen.rdFacts { tbl := Table.init ids } (g ++ legEvent (wfResult c r) n)).tbl.got c = some (.ok r)) ∧
    (∀ (ids : List Nat) (c : Nat), c ∈ ids → ∀ (g : List Frame), (∀ f ∈ g, stdioAddressed c f = false) → ∀ o,
      (stdioRun Mcp.Gen.rdFacts H { tbl := Table.init ids } (g ++ [.value (wfResult c (.obj o))])).tbl.got c =
        some (.ok (.obj o))) := by
  obtain ⟨h1, h2, h3⟩ := facts_here
  exact ⟨fun g method params hm n => C07_resync_get _ h1 H {} rfl g method params hm n,
    fun ids c hc g hg r n => C07_resync_legacy _ h2 _ c rfl (by simpa [Table.init] using hc) rfl rfl g hg r n,
    fun ids c hc g hg o => C07_resync_stdio _ h3 H _ c rfl (by simpa [Table.init] using hc) rfl g hg o⟩

/-- regenerated fact, decided: every assignment of the remembered event id / every `Last-Event-ID` header write sits
    behind a header-safety check (D33 repaired in /repo f1950f8) — the good region of `C07_later_call_streamable`. -/
theorem C07_fact_id_checked : Mcp.Gen.rdIdChecked = true := by decide

end Mcp.Props.C07
