/-
  C13 — request-scoped context never bleeds between concurrent requests (PARTIAL: the library's own data flow;
  aliasing through user code and `reflect` is outside, see `Mcp.Model.Ctx`).
-/
import Mcp.Model.Ctx
namespace Mcp.Props.C13
open Mcp.Str Mcp.Ctx

private theorem iter_succ' {α : Type} (f : α → α) (n : Nat) (x : α) : iter f (n + 1) x = f (iter f n x) := by
  induction n generalizing x with
  | zero => rfl
  | succ n ih => simp only [iter] at ih ⊢; exact ih (f x)

private theorem execInstr_shared {F : Facts} (hg : Good F) (cfg : Cfg) (req : Req) (i : Instr) (s : Shared × Loc) :
    (execInstr F cfg req i s).1 = s.1 := by
  obtain ⟨h1, h2, h3⟩ := hg
  cases i <;> simp [execInstr, h1, h3]
  simp only [dispatch, h2]
  split <;> simp

private theorem step_shared {F : Facts} (hg : Good F) (cfg : Cfg) (req : Req) (s : Shared × Thr) :
    (step F cfg req s).1 = s.1 := by
  unfold step
  split
  · rfl
  · simp [execInstr_shared hg]

private theorem alone_shared {F : Facts} (hg : Good F) (cfg : Cfg) (reg : Registry) (req : Req) (n : Nat) :
    (alone F cfg reg req n).1 = sh0 reg := by
  induction n with
  | zero => rfl
  | succ n ih =>
    unfold alone at ih ⊢
    rw [iter_succ', step_shared hg, ih]

private theorem alone_succ (F : Facts) (cfg : Cfg) (reg : Registry) (req : Req) (n : Nat) :
    alone F cfg reg req (n + 1) = step F cfg req (alone F cfg reg req n) := by
  unfold alone; exact iter_succ' _ _ _

private theorem run_inv {F : Facts} (hg : Good F) (cfg : Cfg) (reg : Registry) (reqs : Nat → Req) :
    ∀ (sched : List Nat) (st : State) (k : Nat → Nat), st.sh = sh0 reg →
      (∀ i, st.ts i = (alone F cfg reg (reqs i) (k i)).2) →
      (run F cfg reqs sched st).sh = sh0 reg ∧
        ∀ i, (run F cfg reqs sched st).ts i = (alone F cfg reg (reqs i) (k i + sched.count i)).2 := by
  intro sched
  induction sched with
  | nil => intro st k h1 h2; exact ⟨h1, by simpa [run] using h2⟩
  | cons j s ih =>
    intro st k h1 h2
    have hpair : (st.sh, st.ts j) = alone F cfg reg (reqs j) (k j) := by
      rw [h1, h2 j, ← alone_shared hg cfg reg (reqs j) (k j)]
    have h1' : (stepAt F cfg reqs j st).sh = sh0 reg := by
      simp only [stepAt]; rw [step_shared hg, h1]
    have h2' : ∀ i, (stepAt F cfg reqs j st).ts i =
        (alone F cfg reg (reqs i) ((fun i => if i = j then k i + 1 else k i) i)).2 := by
      intro i
      simp only [stepAt]
      by_cases hij : i = j
      · subst hij; simp only [if_true]; rw [hpair, alone_succ]
      · simp only [hij, if_false]; exact h2 i
    obtain ⟨r1, r2⟩ := ih (stepAt F cfg reqs j st) _ h1' h2'
    refine ⟨by simpa [run] using r1, ?_⟩
    intro i
    have := r2 i
    simp only [run]
    rw [this]
    congr 2
    by_cases hij : i = j
    · subst hij; simp; omega
    · have : (j == i) = false := by simp [Ne.symm hij]
      simp [List.count_cons, hij, this]

/-- **Non-interference.** Whatever the number of concurrent requests and however their atomic steps interleave,
    the local state of request `i` (its context, what its middlewares / filters / handlers observed so far, its
    list answer) after a schedule is exactly its state when it runs ALONE for as many steps as the schedule gave
    it — and the shared state is untouched. -/
theorem C13_noninterference {F : Facts} (hg : Good F) (cfg : Cfg) (reg : Registry) (reqs : Nat → Req)
    (sched : List Nat) (i : Nat) :
    (run F cfg reqs sched (initState F cfg reg reqs)).ts i = (alone F cfg reg (reqs i) (sched.count i)).2 ∧
      (run F cfg reqs sched (initState F cfg reg reqs)).sh = sh0 reg := by
  have := run_inv hg cfg reg reqs sched (initState F cfg reg reqs) (fun _ => 0) rfl (fun _ => rfl)
  exact ⟨by simpa using this.2 i, this.1⟩

private theorem step_nil (F : Facts) (cfg : Cfg) (req : Req) (sh : Shared) (loc : Loc) :
    step F cfg req (sh, ⟨[], loc⟩) = (sh, ⟨[], loc⟩) := rfl

private theorem iter_steps (F : Facts) (cfg : Cfg) (req : Req) :
    ∀ (n : Nat) (todo : List Instr) (sh : Shared) (loc : Loc),
      iter (step F cfg req) n (sh, ⟨todo, loc⟩) =
        ((exec F cfg req (todo.take n) (sh, loc)).1, ⟨todo.drop n, (exec F cfg req (todo.take n) (sh, loc)).2⟩) := by
  intro n
  induction n with
  | zero => intro todo sh loc; simp [iter, exec]
  | succ n ih =>
    intro todo sh loc
    cases todo with
    | nil => simp only [iter, step_nil]; rw [ih]; simp
    | cons i rest =>
      simp only [iter, step]
      rw [ih]
      simp [exec]

/-- **Non-interference, finished requests.** In every schedule in which request `i` has run to its end, what its
    middlewares, filters and handlers observed and the list it answered are those of the request processed alone. -/
theorem C13_noninterference_done {F : Facts} (hg : Good F) (cfg : Cfg) (reg : Registry) (reqs : Nat → Req)
    (sched : List Nat) (i : Nat)
    (hdone : ((run F cfg reqs sched (initState F cfg reg reqs)).ts i).todo = []) :
    ((run F cfg reqs sched (initState F cfg reg reqs)).ts i).loc = runAlone F cfg reg (reqs i) := by
  have h := (C13_noninterference hg cfg reg reqs sched i).1
  rw [h] at hdone ⊢
  unfold alone thr0 at hdone ⊢
  rw [iter_steps] at hdone ⊢
  simp only at hdone ⊢
  have hl : (prog F cfg (reqs i)).length ≤ sched.count i := List.drop_eq_nil_iff.mp hdone
  rw [List.take_of_length_le hl]
  rfl

/-- A schedule that gives request `i` at least as many steps as its program has finishes it (so the hypothesis of
    `C13_noninterference_done` is met by every fair schedule). -/
theorem C13_finishes {F : Facts} (hg : Good F) (cfg : Cfg) (reg : Registry) (reqs : Nat → Req)
    (sched : List Nat) (i : Nat) (h : (prog F cfg (reqs i)).length ≤ sched.count i) :
    ((run F cfg reqs sched (initState F cfg reg reqs)).ts i).todo = [] := by
  rw [(C13_noninterference hg cfg reg reqs sched i).1]
  unfold alone thr0
  rw [iter_steps]
  exact List.drop_eq_nil_iff.mpr h

/-! ### The request alone, in closed form -/

private theorem exec_append (F : Facts) (cfg : Cfg) (req : Req) (a b : List Instr) (s : Shared × Loc) :
    exec F cfg req (a ++ b) s = exec F cfg req b (exec F cfg req a s) := by
  simp [exec, List.foldl_append]

private theorem exec_fns (F : Facts) (cfg : Cfg) (req : Req) (fns : List CtxFn) (sh : Shared) (loc : Loc) :
    exec F cfg req (fns.map .fn) (sh, loc) = (sh, { loc with ctx := foldFns fns req.hdrs loc.ctx }) := by
  induction fns generalizing loc with
  | nil => rfl
  | cons f fs ih =>
    simp only [List.map_cons, exec, List.foldl_cons, execInstr] at ih ⊢
    rw [ih]
    simp [foldFns]

private theorem exec_mws (F : Facts) (cfg : Cfg) (req : Req) (ids : List Nat) (sh : Shared) (loc : Loc) :
    exec F cfg req (ids.map .mw) (sh, loc) = (sh, { loc with obs := loc.obs ++ ids.map (fun id => ⟨.mw id, loc.ctx⟩) }) := by
  induction ids generalizing loc with
  | nil => simp [exec]
  | cons f fs ih =>
    simp only [List.map_cons, exec, List.foldl_cons, execInstr] at ih ⊢
    rw [ih]
    simp

private theorem runAlone_eq {F : Facts} (hg : Good F) (cfg : Cfg) (reg : Registry) (req : Req) :
    runAlone F cfg reg req =
      match listOf reg req.method with
      | some es => { ctx := reqCtx F cfg req, obs := mwObs F cfg req ++ [⟨.filter, reqCtx F cfg req⟩],
                     resp := some (filterNames cfg (reqCtx F cfg req) es) }
      | none => { ctx := reqCtx F cfg req, obs := mwObs F cfg req ++ handlerObs cfg.mode req (reqCtx F cfg req),
                  resp := none } := by
  obtain ⟨h1, h2, h3⟩ := hg
  unfold runAlone prog
  rw [exec_append, exec_append, exec_append, exec_fns]
  have hmid : ∀ (sh : Shared) (loc : Loc),
      exec F cfg req [.lookId, .lookSess, .publish, .park, .unpark, .inject] (sh, loc) =
        (sh, { loc with ctx := inject cfg.mode (effReq req loc) loc.ctx }) := by
    intro sh loc; simp [exec, execInstr, h1, h3]
  rw [hmid]
  by_cases hn : req.method = .notify
  · simp only [hn, if_true, mwObs, reqCtx]
    simp [exec, execInstr, dispatch, sh0, listOf, handlerObs, hn, effReq]
  · simp only [hn, if_false, mwObs]
    rw [exec_mws]
    simp only [exec, List.foldl_cons, List.foldl_nil, execInstr, dispatch, h2, sh0, reqCtx]
    cases hl : listOf reg req.method <;> simp [effReq]

/-! ### Context functions: registration order -/

private theorem get_apply_ne (f : CtxFn) (h : Headers) (c : Ctx) (k : Nat) (hk : f.key ≠ k) :
    (f.apply h c).get k = c.get k := by
  have : (k == f.key) = false := by simp [Ne.symm hk]
  simp [CtxFn.apply, Ctx.get, List.lookup_cons, this]

private theorem get_apply_eq (f : CtxFn) (h : Headers) (c : Ctx) :
    (f.apply h c).get f.key = derive f.id (hget h f.hdr) (c.get f.sees) := by
  simp [CtxFn.apply, Ctx.get]

private theorem get_fold_ne (post : List CtxFn) (h : Headers) (c : Ctx) (k : Nat) (hk : ∀ f ∈ post, f.key ≠ k) :
    (foldFns post h c).get k = c.get k := by
  induction post generalizing c with
  | nil => rfl
  | cons f fs ih =>
    simp only [foldFns, List.foldl_cons] at ih ⊢
    rw [ih _ (fun g hgm => hk g (List.mem_cons_of_mem _ hgm))]
    exact get_apply_ne f h c k (hk f List.mem_cons_self)

/-- **Registration order of the context functions.** If `g` is registered after the functions `pre` and before the
    functions `post`, then `g` is applied to the context the EARLIER ones produced (it sees their values, in
    particular one it overrides) — and unless a LATER one binds the same key, the value `g` derived is what every
    later reader finds under that key, whatever the earlier ones had put there. -/
theorem C13_ctxfunc_order (pre post : List CtxFn) (g : CtxFn) (h : Headers) (c : Ctx)
    (hlast : ∀ f ∈ post, f.key ≠ g.key) :
    foldFns (pre ++ g :: post) h c = foldFns post h (g.apply h (foldFns pre h c)) ∧
      (foldFns (pre ++ g :: post) h c).get g.key = derive g.id (hget h g.hdr) ((foldFns pre h c).get g.sees) := by
  have h1 : foldFns (pre ++ g :: post) h c = foldFns post h (g.apply h (foldFns pre h c)) := by
    simp [foldFns, List.foldl_append]
  refine ⟨h1, ?_⟩
  rw [h1, get_fold_ne post h _ g.key hlast, get_apply_eq]

/-- … and that is what every middleware, filter and handler of the request finds (Streamable, any schedule, any
    number of concurrent requests): the values under the context functions' keys are those of the fold over the
    request's own headers in registration order. -/
theorem C13_ctxfunc_order_observed {F : Facts} (hg : Good F) (hasc : F.foldAscending = true) (cfg : Cfg)
    (hmode : cfg.mode ≠ .sse) (reg : Registry) (reqs : Nat → Req) (sched : List Nat) (i : Nat)
    (hdone : ((run F cfg reqs sched (initState F cfg reg reqs)).ts i).todo = [])
    (o : Obs) (ho : o ∈ ((run F cfg reqs sched (initState F cfg reg reqs)).ts i).loc.obs) :
    o.ctx.vals = (foldFns cfg.fns (reqs i).hdrs {}).vals := by
  rw [C13_noninterference_done hg cfg reg reqs sched i hdone, runAlone_eq hg] at ho
  have hvals : (reqCtx F cfg (reqs i)).vals = (foldFns cfg.fns (reqs i).hdrs {}).vals := by
    have he : effFns F cfg = cfg.fns := by
      unfold effFns; cases hm : cfg.mode <;> simp_all
    unfold reqCtx inject
    rw [he]
    cases cfg.mode <;> simp <;> split <;> rfl
  have htool : (toolCtx cfg.mode (reqs i) (reqCtx F cfg (reqs i))).vals = (reqCtx F cfg (reqs i)).vals := by
    unfold toolCtx; cases cfg.mode <;> rfl
  have hmw : ∀ o ∈ mwObs F cfg (reqs i), o.ctx.vals = (foldFns cfg.fns (reqs i).hdrs {}).vals := by
    intro o hom
    unfold mwObs at hom
    split at hom
    · simp at hom
    · simp only [List.mem_map] at hom
      obtain ⟨_, _, rfl⟩ := hom
      exact hvals
  cases hl : listOf reg (reqs i).method with
  | some es =>
    rw [hl] at ho
    simp only [List.mem_append, List.mem_singleton] at ho
    rcases ho with ho | rfl
    · exact hmw o ho
    · exact hvals
  | none =>
    rw [hl] at ho
    simp only [List.mem_append] at ho
    rcases ho with ho | ho
    · exact hmw o ho
    · unfold handlerObs at ho
      split at ho <;> simp at ho <;> subst ho <;> first | exact hvals | (simp only []; rw [htool]; exact hvals)

/-! ### List filters are evaluated per request -/

/-- **The filter hides per caller.** In every schedule, a finished list request of caller `i` answers exactly the
    entries its filter admits for the role derived from `i`'s own headers: an entry hidden from `i`'s role never
    appears in `i`'s answer, while it does appear in the answer of a concurrently served caller `j` whose role the
    filter admits. (Registry names are unique: `hname`.) -/
theorem C13_filter_hides {F : Facts} (hg : Good F) (cfg : Cfg) (reg : Registry) (reqs : Nat → Req)
    (sched : List Nat) (i j : Nat) (es : List Entry) (e : Entry)
    (hmi : listOf reg (reqs i).method = some es) (hmj : listOf reg (reqs j).method = some es)
    (he : e ∈ es) (hname : ∀ e' ∈ es, e'.name = e.name → e' = e)
    (hdi : ((run F cfg reqs sched (initState F cfg reg reqs)).ts i).todo = [])
    (hdj : ((run F cfg reqs sched (initState F cfg reg reqs)).ts j).todo = [])
    (hhid : visible cfg.roleKey (reqCtx F cfg (reqs i)) e = false)
    (hadm : visible cfg.roleKey (reqCtx F cfg (reqs j)) e = true) :
    (∃ ri, ((run F cfg reqs sched (initState F cfg reg reqs)).ts i).loc.resp = some ri ∧ e.name ∉ ri) ∧
      (∃ rj, ((run F cfg reqs sched (initState F cfg reg reqs)).ts j).loc.resp = some rj ∧ e.name ∈ rj) := by
  rw [C13_noninterference_done hg cfg reg reqs sched i hdi, C13_noninterference_done hg cfg reg reqs sched j hdj,
    runAlone_eq hg, runAlone_eq hg, hmi, hmj]
  refine ⟨⟨_, rfl, ?_⟩, ⟨_, rfl, ?_⟩⟩
  · intro hin
    simp only [filterNames, List.mem_map, List.mem_filter] at hin
    obtain ⟨e', ⟨he', hv⟩, hn⟩ := hin
    rw [hname e' he' hn, hhid] at hv
    exact Bool.false_ne_true hv
  · simp only [filterNames, List.mem_map, List.mem_filter]
    exact ⟨e, ⟨he, hadm⟩, rfl⟩

/-- The role the filter reads is a function of the caller's own headers and the configuration only. -/
theorem C13_filter_role_own (F : Facts) (cfg : Cfg) (r r' : Req) (hh : r.hdrs = r'.hdrs) :
    (reqCtx F cfg r).vals = (reqCtx F cfg r').vals := by
  unfold reqCtx inject
  rw [hh]
  cases cfg.mode <;> simp <;> split <;> split <;> rfl

private theorem fold_other (fns : List CtxFn) (h : Headers) (c : Ctx) :
    (foldFns fns h c).session = c.session ∧ (foldFns fns h c).client = c.client ∧
      (foldFns fns h c).server = c.server ∧ (foldFns fns h c).sender = c.sender := by
  induction fns generalizing c with
  | nil => exact ⟨rfl, rfl, rfl, rfl⟩
  | cons f fs ih =>
    simp only [foldFns, List.foldl_cons] at ih ⊢
    obtain ⟨a, b, c', d⟩ := ih (f.apply h c)
    exact ⟨a, b, c', d⟩

/-! ### Own session, own sender, own server -/

/-- **Own session.** Every session id that any middleware, filter or handler of request `i` can find in its
    context — through `GetSessionFromContext`, `ClientSessionFromContext` or the session the notification sender is
    bound to — is the session of request `i` (with sessions off: the empty id of the sender), in every schedule.
    With sessions on, `GetSessionFromContext` does find it. -/
theorem C13_own_session {F : Facts} (hg : Good F) (cfg : Cfg) (reg : Registry) (reqs : Nat → Req)
    (sched : List Nat) (i : Nat)
    (hdone : ((run F cfg reqs sched (initState F cfg reg reqs)).ts i).todo = [])
    (o : Obs) (ho : o ∈ ((run F cfg reqs sched (initState F cfg reg reqs)).ts i).loc.obs) :
    (∀ s ∈ sessionsOf o.ctx, s = (reqs i).sid ∨ (cfg.mode = .sessionsOff ∧ s = [])) ∧
      (cfg.mode ≠ .sessionsOff → o.ctx.session = some (reqs i).sid) := by
  rw [C13_noninterference_done hg cfg reg reqs sched i hdone, runAlone_eq hg] at ho
  have key : ∀ c : Ctx, (c = reqCtx F cfg (reqs i) ∨ c = toolCtx cfg.mode (reqs i) (reqCtx F cfg (reqs i))) →
      (∀ s ∈ sessionsOf c, s = (reqs i).sid ∨ (cfg.mode = .sessionsOff ∧ s = [])) ∧
        (cfg.mode ≠ .sessionsOff → c.session = some (reqs i).sid) := by
    intro c hc
    obtain ⟨f1, f2, f3, f4⟩ := fold_other (effFns F cfg) (reqs i).hdrs {}
    rcases hc with rfl | rfl <;>
      (simp only [reqCtx, inject, toolCtx, sessionsOf, senderOf]
       cases cfg.mode <;> simp <;> (try split) <;> (try split) <;> simp_all <;>
         (try (intro s hs; rcases hs with hs | hs <;> simp [hs])))
  have hmw : ∀ o ∈ mwObs F cfg (reqs i), o.ctx = reqCtx F cfg (reqs i) := by
    intro o hom
    unfold mwObs at hom
    split at hom
    · simp at hom
    · simp only [List.mem_map] at hom
      obtain ⟨_, _, rfl⟩ := hom
      rfl
  have hctx : o.ctx = reqCtx F cfg (reqs i) ∨ o.ctx = toolCtx cfg.mode (reqs i) (reqCtx F cfg (reqs i)) := by
    cases hl : listOf reg (reqs i).method with
    | some es =>
      rw [hl] at ho
      simp only [List.mem_append, List.mem_singleton] at ho
      rcases ho with ho | rfl
      · exact .inl (hmw o ho)
      · exact .inl rfl
    | none =>
      rw [hl] at ho
      simp only [List.mem_append] at ho
      rcases ho with ho | ho
      · exact .inl (hmw o ho)
      · unfold handlerObs at ho
        split at ho <;> simp at ho <;> subst ho <;> simp
  exact key o.ctx hctx

/-- The server handle a stage finds is this server's (never a handle that depends on another request). -/
theorem C13_own_server {F : Facts} (hg : Good F) (cfg : Cfg) (reg : Registry) (reqs : Nat → Req)
    (sched : List Nat) (i : Nat)
    (hdone : ((run F cfg reqs sched (initState F cfg reg reqs)).ts i).todo = [])
    (o : Obs) (ho : o ∈ ((run F cfg reqs sched (initState F cfg reg reqs)).ts i).loc.obs) :
    o.ctx.server = none ∨ o.ctx.server = some (if cfg.mode = .sse then Srv.sse else Srv.streamable) := by
  rw [C13_noninterference_done hg cfg reg reqs sched i hdone, runAlone_eq hg] at ho
  have key : ∀ c : Ctx, (c = reqCtx F cfg (reqs i) ∨ c = toolCtx cfg.mode (reqs i) (reqCtx F cfg (reqs i))) →
      (c.server = none ∨ c.server = some (if cfg.mode = .sse then Srv.sse else Srv.streamable)) := by
    intro c hc
    obtain ⟨f1, f2, f3, f4⟩ := fold_other (effFns F cfg) (reqs i).hdrs {}
    rcases hc with rfl | rfl <;>
      (simp only [reqCtx, inject, toolCtx]
       cases cfg.mode <;> simp <;> (try split) <;> simp_all)
  have hmw : ∀ o ∈ mwObs F cfg (reqs i), o.ctx = reqCtx F cfg (reqs i) := by
    intro o hom
    unfold mwObs at hom
    split at hom
    · simp at hom
    · simp only [List.mem_map] at hom
      obtain ⟨_, _, rfl⟩ := hom
      rfl
  apply key
  cases hl : listOf reg (reqs i).method with
  | some es =>
    rw [hl] at ho
    simp only [List.mem_append, List.mem_singleton] at ho
    rcases ho with ho | rfl
    · exact .inl (hmw o ho)
    · exact .inl rfl
  | none =>
    rw [hl] at ho
    simp only [List.mem_append] at ho
    rcases ho with ho | ho
    · exact .inl (hmw o ho)
    · unfold handlerObs at ho
      split at ho <;> simp at ho <;> subst ho <;> simp

/-! ### Today's source is in the good region (regenerated facts) -/

/-- Every store of a `context.Context`, a `Session` or a notification sender into a struct field or package-level
    variable of package mcp hits a per-connection / per-session object of the allow-list. -/
theorem C13_no_shared_ctx : ∀ a ∈ Mcp.Gen.cfStores, storeAllowed a = true := by decide

/-- Completeness of the allow-list's domain: every field / package variable whose type can hold such a value has
    been classified (a new one breaks this until it is looked at). -/
theorem C13_carriers_classified : ∀ f ∈ Mcp.Gen.cfCarrierFields, carrierKnown f = true := by decide

/-- No function of package mcp appends to a shared slice (struct field / package-level variable) without assigning the
    result back to that slice: no per-request element is ever written into the spare capacity of a server-level
    backing array (where concurrent requests would overwrite each other's — e.g. the innermost layer of a middleware
    chain built as `append(h.middlewares, layerOfThisRequest)`). -/
theorem C13_no_shared_slice_aliasing : Mcp.Gen.cfFieldAppends.all appendOk = true := by decide

/-- … and the predicate does reject that shape. -/
example : appendOk (t!"mcpHandler.handleRequest", t!"mcpHandler.middlewares", t!"aliased") = false ∧
    appendOk (t!"mcpHandler.use", t!"mcpHandler.middlewares", t!"assign-back") = true := by decide

/-- Every context passed on by a call in the server-side files is the function's own parameter, derived from it
    through calls that take it, or the request's own `r.Context()` — never a stored one, never `Background()`. -/
theorem C13_ctx_args_request_derived : Mcp.Gen.cfCtxArgs.all argOk = true := by decide

/-- The three list filters are each called once, with the handler's own context parameter. -/
theorem C13_filters_called_with_request_ctx :
    Mcp.Gen.cfFilterCalls.all filterCallOk = true ∧
      Mcp.Gen.cfFilterCalls.map (fun a => (a.1, a.2.1)) =
        [(t!"promptManager.handleListPrompts", t!"promptListFilter"),
         (t!"resourceManager.handleListResources", t!"resourceListFilter"),
         (t!"toolManager.handleListTools", t!"toolListFilter")] := by decide

/-- The list handlers write no server-level state (nowhere to cache a filtered list). -/
theorem C13_list_handlers_stateless : Mcp.Gen.cfListFieldWrites = [] := by decide

/-- The slice a list filter receives is made for that call by the getter (which keeps no reference to it: a filter
    that compacts or sorts its input in place cannot touch another request's view), the slices of the list results
    are made inside the handler call, and no `sync.Pool` is involved (no memory that is still referenced by an
    unsent answer is handed to another request). -/
theorem C13_list_memory_per_request :
    Mcp.Gen.cfListSnapshots =
        [(t!"promptManager.handleListPrompts", t!"promptManager.getPrompts", t!"fresh"),
         (t!"resourceManager.handleListResources", t!"resourceManager.getResources", t!"fresh"),
         (t!"toolManager.handleListTools", t!"toolManager.getTools", t!"fresh")] ∧
      Mcp.Gen.cfListResults.all listFactFresh = true ∧ Mcp.Gen.cfListResults.length = 3 ∧
      Mcp.Gen.cfListPoolUses = [] := by decide

/-- `handlePost` folds the context functions first-registered-first over the request and hands the result (and
    nothing else) to the request / notification / response branches; `WithHTTPContextFunc` appends. -/
theorem C13_fold_in_registration_order :
    Mcp.Gen.cfPostFoldAscending = true ∧ Mcp.Gen.cfPostPassesEnriched = true ∧
      Mcp.Gen.cfCtxFuncsRegisteredInOrder = true := by decide

/-- Legacy SSE: a single context function (the last option wins), applied in `handleMessage` to the POST being
    served; `createSessionContext` injects session, server and client session. -/
theorem C13_sse_shape :
    Mcp.Gen.cfSSESingleCtxFunc = true ∧ Mcp.Gen.cfSSEAppliesToPost = true ∧ Mcp.Gen.cfSSEInjects = true := by decide

/-- The session a request is processed with is found by a single keyed read of the session registry — the adapter
    keeps no state of its own and returns the manager's answer, the manager reads its id-keyed map once under its
    lock and returns what it read, `handlePost` looks up under the request's own `Mcp-Session-Id` header and hands on
    exactly that session, legacy SSE does one `sync.Map` Load under the POST's own `sessionId` parameter: there is no
    remembered lookup outside the registry. -/
theorem C13_session_lookup_direct : Mcp.Gen.cfSessionLookups = expectedLookups := by decide

theorem C13_code_facts :
    codeFacts = { foldAscending := true, sharedSlot := false, listCache := false, lookupCache := false } := by decide

theorem C13_code_good : Good codeFacts := by rw [C13_code_facts]; exact ⟨rfl, rfl, rfl⟩

/-- Non-interference instantiated at the facts regenerated from today's source. -/
theorem C13_code_noninterference (cfg : Cfg) (reg : Registry) (reqs : Nat → Req) (sched : List Nat) (i : Nat)
    (hdone : ((run codeFacts cfg reqs sched (initState codeFacts cfg reg reqs)).ts i).todo = []) :
    ((run codeFacts cfg reqs sched (initState codeFacts cfg reg reqs)).ts i).loc = runAlone codeFacts cfg reg (reqs i) :=
  C13_noninterference_done C13_code_good cfg reg reqs sched i hdone

/-! ### Outside the good region the property fails (why the facts matter) -/

/-- If the enriched context is parked in a server-level slot, there is a schedule of two requests in which a
    middleware of request 0 sees request 1's values. -/
theorem C13_shared_slot_bleeds :
    let F : Facts := { foldAscending := true, sharedSlot := true, listCache := false, lookupCache := false }
    let sched := [0, 0, 0, 0, 0, 0, 0, 1, 1, 1, 1, 1, 1, 1, 0, 0, 0, 0, 1, 1, 1, 1]
    ((run F wCfg wReqs sched (initState F wCfg wReg wReqs)).ts 0).todo = [] ∧
      ((run F wCfg wReqs sched (initState F wCfg wReg wReqs)).ts 0).loc ≠ runAlone F wCfg wReg (wReqs 0) := by
  decide

/-- If a list handler caches the filtered list, the second caller gets the first caller's view. -/
theorem C13_list_cache_bleeds :
    let F : Facts := { foldAscending := true, sharedSlot := false, listCache := true, lookupCache := false }
    let sched := [0, 0, 0, 0, 0, 0, 0, 0, 0, 0, 0, 1, 1, 1, 1, 1, 1, 1, 1, 1, 1, 1]
    ((run F wCfg wReqs sched (initState F wCfg wReg wReqs)).ts 1).todo = [] ∧
      ((run F wCfg wReqs sched (initState F wCfg wReg wReqs)).ts 1).loc.resp ≠
        (runAlone F wCfg wReg (wReqs 1)).resp := by
  decide

/-- A descending fold is observable: the third function no longer sees the first one's value. -/
theorem C13_reverse_fold_differs :
    (runAlone { foldAscending := false, sharedSlot := false, listCache := false, lookupCache := false } wCfg wReg (wReqs 0)).ctx.get 12 ≠
      (runAlone { foldAscending := true, sharedSlot := false, listCache := false, lookupCache := false } wCfg wReg (wReqs 0)).ctx.get 12 := by
  decide

/-- If the session lookup goes through a lock-free one-entry "last lookup" cache whose id and session are published
    as two separate words, there is a schedule of three requests on two sessions in which a request sent on session
    `s0` is processed with session `s1`: request 0 (session `s0`) runs alone and leaves `lastId = s0`; request 1
    (session `s1`) misses and stores `lastSess := s1` but has not yet stored the id; request 2 (session `s0` again)
    compares ids, hits, and reads `lastSess = s1` — all its stages see `s1`, alone it sees `s0`. -/
theorem C13_lookup_cache_bleeds :
    let F : Facts := { foldAscending := true, sharedSlot := false, listCache := false, lookupCache := true }
    let reqs : Nat → Req := fun i => if i = 1 then wReqs 1 else wReqs 0
    let sched := [0, 0, 0, 0, 0, 0, 0, 0, 0, 0, 0, 1, 1, 1, 1, 1, 2, 2, 2, 2, 2, 2, 2, 2, 2, 2, 2]
    ((run F wCfg reqs sched (initState F wCfg wReg reqs)).ts 2).todo = [] ∧
      (reqs 2).sid = t!"s0" ∧
      (((run F wCfg reqs sched (initState F wCfg wReg reqs)).ts 2).loc.obs.map (·.ctx.session)) =
        [some t!"s1", some t!"s1"] ∧
      ((runAlone F wCfg wReg (reqs 2)).obs.map (·.ctx.session)) = [some t!"s0", some t!"s0"] := by
  decide

/-! ### Non-vacuity -/

/-- two concurrent list requests under an interleaved schedule: both finish, the admin-only tool is hidden from the
    user and shown to the admin. -/
example :
    let F := codeFacts
    let sched := [0, 1, 0, 1, 1, 0, 0, 1, 0, 1, 1, 0, 0, 1, 1, 0, 1, 0, 0, 1, 0, 1]
    ((run F wCfg wReqs sched (initState F wCfg wReg wReqs)).ts 0).loc.resp = some [t!"admin-tool", t!"open-tool"] ∧
      ((run F wCfg wReqs sched (initState F wCfg wReg wReqs)).ts 1).loc.resp = some [t!"open-tool"] := by
  decide

/-- the hypotheses of `C13_filter_hides` are satisfiable: hidden for request 1, admitted for request 0. -/
example :
    visible wCfg.roleKey (reqCtx codeFacts wCfg (wReqs 1)) ⟨t!"admin-tool", [t!"#user#"]⟩ = false ∧
      visible wCfg.roleKey (reqCtx codeFacts wCfg (wReqs 0)) ⟨t!"admin-tool", [t!"#user#"]⟩ = true := by
  decide

/-- registration order, concretely: function 2 sees what function 1 bound under key 10; a third function that
    re-binds key 10 overrides it for every later reader while function 2 still saw the earlier value. -/
example :
    (foldFns [⟨1, 0, 10, 10⟩, ⟨2, 1, 11, 10⟩, ⟨3, 0, 10, 11⟩] [(0, t!"a"), (1, t!"r")] {}).get 11 = t!"2:r(1:a())" ∧
      (foldFns [⟨1, 0, 10, 10⟩, ⟨2, 1, 11, 10⟩, ⟨3, 0, 10, 11⟩] [(0, t!"a"), (1, t!"r")] {}).get 10 = t!"3:a(2:r(1:a()))" := by
  decide

/-- a tool call on legacy SSE: the middleware and the handler see the POST's value, the session of the request, the
    SSE server and no sender. -/
example :
    (runAlone codeFacts { mode := .sse, fns := wFns, mws := [7], roleKey := 11 } wReg
      { hdrs := [(0, t!"a"), (1, t!"q")], sid := t!"sse-1", method := .callTool }).obs =
      [⟨.mw 7, { vals := [(12, t!"3:a()")], session := some t!"sse-1", client := some t!"sse-1", server := some .sse }⟩,
       ⟨.handler, { vals := [(12, t!"3:a()")], session := some t!"sse-1", client := some t!"sse-1", server := some .sse }⟩] := by
  decide

end Mcp.Props.C13
