/-
  C12 — Registries stay consistent while tools, prompts and resources change under load.

  * Part A: every operation is one atomic step (Part C justifies that); for ALL histories — hence for all
    interleavings of any number of goroutines' programs — the order slice and the map agree, a list result is
    exactly the set of bindings the history defines at that instant (no torn / duplicate / phantom entry;
    resources in registration order), re-registration replaces the handler in place, call/get/read finds an
    entry iff it is registered, unregister removes exactly the named entries.
  * Part B: lockset soundness for `sync.RWMutex` traces of any length and any number of threads.
  * Part C: the regenerated access table (`Mcp.Gen.registryAccesses`): every access is guarded; the pre-repair
    records of finding D25 (a literal table) are rejected, with the two unguarded sites named exactly; the
    regenerated table of calls through function values (`Mcp.Gen.registryCallbackCalls`): no user callback is
    invoked while a registry lock is (possibly) held.
-/
import Mcp.Model.Registry
import Mcp.Gen.RegistryLocks
namespace Mcp.Props.C12
open Mcp.Registry Mcp.Str

/-! ## association-list lemmas -/

private theorem lookup_isSome_iff (m : List (Key × Nat)) (k : Key) : (lookup m k).isSome = true ↔ k ∈ keys m := by
  induction m with
  | nil => simp [lookup, keys]
  | cons p t ih =>
    obtain ⟨k', v'⟩ := p
    by_cases h : k' = k
    · simp [lookup, keys, h]
    · have h' : ¬ k = k' := fun e => h e.symm
      simp only [lookup, h, ite_false, keys, List.map_cons, List.mem_cons, h', false_or]
      exact ih

private theorem lookup_none_iff (m : List (Key × Nat)) (k : Key) : lookup m k = none ↔ k ∉ keys m := by
  rw [← lookup_isSome_iff]; cases lookup m k <;> simp

private theorem keys_upsert (m : List (Key × Nat)) (k : Key) (v : Nat) :
    keys (upsert m k v) = if k ∈ keys m then keys m else keys m ++ [k] := by
  induction m with
  | nil => simp [upsert, keys]
  | cons p t ih =>
    obtain ⟨k', v'⟩ := p
    by_cases h : k' = k
    · simp [upsert, keys, h]
    · have h' : ¬ k = k' := fun e => h e.symm
      simp only [keys] at ih
      simp only [upsert, h, ite_false, keys, List.map_cons, List.mem_cons, h', false_or, ih]
      split <;> simp [*]

private theorem lookup_upsert_same (m : List (Key × Nat)) (k : Key) (v : Nat) : lookup (upsert m k v) k = some v := by
  induction m with
  | nil => simp [upsert, lookup]
  | cons p t ih =>
    obtain ⟨k', v'⟩ := p
    by_cases h : k' = k <;> simp [upsert, lookup, h, ih]

private theorem lookup_upsert_other (m : List (Key × Nat)) (k k' : Key) (v : Nat) (hne : k' ≠ k) :
    lookup (upsert m k v) k' = lookup m k' := by
  induction m with
  | nil => simp [upsert, lookup, Ne.symm hne]
  | cons p t ih =>
    obtain ⟨k₀, v₀⟩ := p
    by_cases h : k₀ = k
    · subst h; simp [upsert, lookup, Ne.symm hne]
    · by_cases h2 : k₀ = k'
      · subst h2; simp [upsert, lookup, h]
      · simp [upsert, lookup, h, h2, ih]

private theorem keys_remove (m : List (Key × Nat)) (k : Key) : keys (remove m k) = (keys m).erase k := by
  induction m with
  | nil => simp [remove, keys]
  | cons p t ih =>
    obtain ⟨k', v'⟩ := p
    simp only [keys] at ih
    by_cases h : k' = k
    · simp [remove, keys, h]
    · simp [remove, keys, h, ih]

private theorem lookup_remove_other (m : List (Key × Nat)) (k k' : Key) (hne : k' ≠ k) :
    lookup (remove m k) k' = lookup m k' := by
  induction m with
  | nil => simp [remove, lookup]
  | cons p t ih =>
    obtain ⟨k₀, v₀⟩ := p
    by_cases h : k₀ = k
    · subst h; simp [remove, lookup, Ne.symm hne]
    · by_cases h2 : k₀ = k'
      · subst h2; simp [remove, lookup, h]
      · simp [remove, lookup, h, h2, ih]

private theorem lookup_remove_same (m : List (Key × Nat)) (k : Key) (hnd : (keys m).Nodup) : lookup (remove m k) k = none := by
  rw [lookup_none_iff, keys_remove, hnd.mem_erase_iff]; simp

private theorem mem_iff_lookup (m : List (Key × Nat)) (hnd : (keys m).Nodup) (k : Key) (v : Nat) :
    (k, v) ∈ m ↔ lookup m k = some v := by
  induction m with
  | nil => simp [lookup]
  | cons p t ih =>
    obtain ⟨k', v'⟩ := p
    simp only [keys, List.map_cons, List.nodup_cons] at hnd
    have ih := ih hnd.2
    by_cases h : k' = k
    · subst h
      simp only [lookup, ite_true, List.mem_cons, Prod.mk.injEq, true_and, Option.some.injEq]
      constructor
      · rintro (e | hm)
        · exact e.symm
        · exact absurd (List.mem_map_of_mem (f := Prod.fst) hm) hnd.1
      · intro e; exact Or.inl e.symm
    · have h' : ¬ k = k' := fun e => h e.symm
      simp [lookup, h, h', ih]

/-! ## the invariant is kept by every registry operation -/

private theorem inv_upsert_core (r : Reg) (k : Key) (v : Nat) (h : RegInv r) :
    RegInv { map := upsert r.map k v, order := if (lookup r.map k).isSome then r.order else r.order ++ [k] } := by
  obtain ⟨h1, h2⟩ := h
  by_cases hm : k ∈ r.order
  · have hs : (lookup r.map k).isSome = true := (lookup_isSome_iff _ _).2 (h1 ▸ hm)
    simp [RegInv, keys_upsert, h1, hm, hs, h2]
  · have hs : (lookup r.map k).isSome = false := by
      cases hl : (lookup r.map k).isSome
      · rfl
      · exact absurd (h1 ▸ (lookup_isSome_iff _ _).1 hl) hm
    simp only [RegInv, keys_upsert, h1, hm, hs, if_false, Bool.false_eq_true, true_and]
    rw [List.nodup_append]
    refine ⟨h2, by simp, ?_⟩
    intro a ha b hb
    simp at hb; subst hb
    intro e; subst e; exact hm ha

private theorem inv_register (r : Reg) (k : Key) (v : Nat) (h : RegInv r) : RegInv (r.register k v) := by
  unfold Reg.register
  by_cases hk : k = []
  · simp [hk, h]
  · simp only [hk, if_false]; exact inv_upsert_core r k v h

private theorem inv_store (r : Reg) (k : Key) (v : Nat) (h : RegInv r) : RegInv (r.store k v) :=
  inv_upsert_core r k v h

private theorem inv_registerNew (r : Reg) (k : Key) (v : Nat) (h : RegInv r) : RegInv (r.registerNew k v) := by
  unfold Reg.registerNew
  by_cases hk : k = []
  · simp [hk, h]
  · by_cases hs : (lookup r.map k).isSome = true
    · simp [hk, hs, h]
    · have e : r.registerNew k v = r.register k v := by
        simp [Reg.registerNew, Reg.register, hk, hs]
      have := inv_register r k v h
      simpa [Reg.registerNew, Reg.register, hk, hs] using this

private theorem inv_delete (r : Reg) (k : Key) (h : RegInv r) : RegInv (r.delete k) := by
  obtain ⟨h1, h2⟩ := h
  simp [Reg.delete, RegInv, keys_remove, h1, h2.erase]

private theorem inv_unregister1 (r : Reg) (k : Key) (h : RegInv r) : RegInv (r.unregister1 k).1 := by
  unfold Reg.unregister1
  by_cases hk : k = []
  · simp [hk, h]
  · cases hl : lookup r.map k with
    | none => simp [hk, h]
    | some v => simpa [hk, Reg.delete] using inv_delete r k h

private theorem inv_unregister (r : Reg) (ks : List Key) (h : RegInv r) : RegInv (r.unregister ks).1 := by
  induction ks generalizing r with
  | nil => simpa [Reg.unregister] using h
  | cons k ks ih => simpa [Reg.unregister] using ih _ (inv_unregister1 r k h)

private theorem inv_foldl_delete (ns : List Key) (r : Reg) (h : RegInv r) : RegInv (ns.foldl Reg.delete r) := by
  induction ns generalizing r with
  | nil => simpa using h
  | cons k ks ih => simpa using ih _ (inv_delete r k h)

private theorem inv_regOf (k : Kind) (r : Reg) (n : Key) (v : Nat) (h : RegInv r) : RegInv (regOf k r n v) := by
  cases k <;> simp only [regOf]
  · exact inv_register r n v h
  · exact inv_register r n v h
  · exact inv_register r n v h
  · exact inv_registerNew r n v h
  · exact inv_store r n v h

private theorem inv_unregOf (k : Kind) (r : Reg) (ns : List Key) (h : RegInv r) : RegInv (unregOf k r ns).1 := by
  cases k <;> simp only [unregOf]
  · exact inv_unregister r ns h
  · exact inv_unregister r ns h
  · exact inv_unregister r ns h
  · exact inv_unregister r ns h
  · exact inv_foldl_delete ns r h

/-- All five registries of a server state satisfy the invariant. -/
private def InvSt (s : St) : Prop := ∀ k, RegInv (s.proj k)

private theorem proj_set_same (s : St) (k : Kind) (r : Reg) : (s.set k r).proj k = r := by
  cases k <;> rfl

private theorem proj_set_other (s : St) (k k' : Kind) (r : Reg) (h : k' ≠ k) : (s.set k r).proj k' = s.proj k' := by
  cases k <;> cases k' <;> first | rfl | exact absurd rfl h

private theorem invSt_set (s : St) (k : Kind) (r : Reg) (hs : InvSt s) (hr : RegInv r) : InvSt (s.set k r) := by
  intro k'
  by_cases h : k' = k
  · subst h; rw [proj_set_same]; exact hr
  · rw [proj_set_other _ _ _ _ h]; exact hs k'

private theorem invSt_init : InvSt {} := by
  intro k; cases k <;> simp [St.proj, RegInv, keys]

private theorem invSt_step (s : St) (o : Op) (h : InvSt s) : InvSt (step s o).1 := by
  cases o with
  | reg k n v => exact invSt_set _ _ _ h (inv_regOf k _ n v (h k))
  | unreg k ns => exact invSt_set _ _ _ h (inv_unregOf k _ ns (h k))
  | list k => exact h
  | call k n => exact h
  | get n => exact h
  | gets => exact h

private theorem invSt_run (s : St) (ops : List Op) (h : InvSt s) : InvSt (run s ops) := by
  induction ops generalizing s with
  | nil => exact h
  | cons o os ih => exact ih _ (invSt_step s o h)

/-- **Order slice and map agree, always.** After any history (any interleaving of register / unregister /
    list / call / get / read on any registry) the order slice lists exactly the keys of the map, each once. -/
theorem C12_order_inv (ops : List Op) (k : Kind) :
    keys ((run {} ops).proj k).map = ((run {} ops).proj k).order ∧
    ((run {} ops).proj k).order.Nodup ∧
    (∀ n, n ∈ ((run {} ops).proj k).order ↔ (lookup ((run {} ops).proj k).map n).isSome = true) := by
  have h := invSt_run {} ops invSt_init k
  refine ⟨h.1, h.2, fun n => ?_⟩
  rw [lookup_isSome_iff, h.1]

/-! ## refinement: the association list + order slice implement the history-defined finite map -/

private theorem lookup_register (r : Reg) (n' n : Key) (v : Nat) :
    lookup (r.register n' v).map n = if n' = n ∧ n ≠ [] then some v else lookup r.map n := by
  unfold Reg.register
  by_cases hk : n' = []
  · subst hk; by_cases h : [] = n
    · subst h; simp
    · simp [h]
  · by_cases h : n' = n
    · subst h; simp [hk, lookup_upsert_same]
    · simp [hk, h, lookup_upsert_other _ _ _ _ (Ne.symm h)]

private theorem lookup_store (r : Reg) (n' n : Key) (v : Nat) :
    lookup (r.store n' v).map n = if n' = n then some v else lookup r.map n := by
  unfold Reg.store
  by_cases h : n' = n
  · subst h; simp [lookup_upsert_same]
  · simp [h, lookup_upsert_other _ _ _ _ (Ne.symm h)]

private theorem lookup_registerNew (r : Reg) (n' n : Key) (v : Nat) :
    lookup (r.registerNew n' v).map n =
      if n' = n ∧ n ≠ [] ∧ (lookup r.map n).isSome = false then some v else lookup r.map n := by
  unfold Reg.registerNew
  by_cases hk : n' = []
  · subst hk; by_cases h : [] = n
    · subst h; simp
    · simp [h]
  · by_cases h : n' = n
    · subst h
      cases hl : (lookup r.map n').isSome <;> simp [hk, lookup_upsert_same]
    · cases hl : (lookup r.map n').isSome <;> simp [hk, h, lookup_upsert_other _ _ _ _ (Ne.symm h)]

private theorem lookup_delete (r : Reg) (k n : Key) (h : RegInv r) :
    lookup (r.delete k).map n = if n = k then none else lookup r.map n := by
  by_cases e : n = k
  · subst e; simp [Reg.delete, lookup_remove_same _ _ (h.1 ▸ h.2)]
  · simp [Reg.delete, e, lookup_remove_other _ _ _ e]

private theorem lookup_unregister1 (r : Reg) (k n : Key) (h : RegInv r) :
    lookup (r.unregister1 k).1.map n = if n = k ∧ n ≠ [] then none else lookup r.map n := by
  unfold Reg.unregister1
  by_cases hk : k = []
  · subst hk; by_cases e : n = []
    · subst e; simp
    · simp [e]
  · cases hl : lookup r.map k with
    | none =>
      by_cases e : n = k
      · subst e; simp [hk, hl]
      · simp [hk, e]
    | some v =>
      have := lookup_delete r k n h
      by_cases e : n = k
      · subst e; simpa [hk, Reg.delete] using this
      · simpa [hk, e, Reg.delete] using this

private theorem lookup_unregister (r : Reg) (ks : List Key) (n : Key) (h : RegInv r) :
    lookup (r.unregister ks).1.map n = if n ∈ ks ∧ n ≠ [] then none else lookup r.map n := by
  induction ks generalizing r with
  | nil => simp [Reg.unregister]
  | cons k ks ih =>
    simp only [Reg.unregister]
    rw [ih _ (inv_unregister1 r k h), lookup_unregister1 r k n h]
    by_cases e : n = k
    · subst e; by_cases e0 : n = [] <;> simp [e0]
    · by_cases hm : n ∈ ks <;> simp [e, hm]

private theorem lookup_foldl_delete (ns : List Key) (r : Reg) (n : Key) (h : RegInv r) :
    lookup (ns.foldl Reg.delete r).map n = if n ∈ ns then none else lookup r.map n := by
  induction ns generalizing r with
  | nil => simp
  | cons k ks ih =>
    simp only [List.foldl_cons]
    rw [ih _ (inv_delete r k h), lookup_delete r k n h]
    by_cases e : n = k
    · subst e; simp
    · by_cases hm : n ∈ ks <;> simp [e, hm]

private theorem lookup_step (s : St) (o : Op) (k : Kind) (n : Key) (h : InvSt s) :
    lookup ((step s o).1.proj k).map n = specStep k n (lookup (s.proj k).map n) o := by
  cases o with
  | reg k' n' v =>
    simp only [step]
    by_cases hk : k = k'
    · subst hk
      rw [proj_set_same]
      cases k <;> simp only [regOf, specStep, true_and]
      · rw [lookup_register]; by_cases e : n' = n <;> by_cases e0 : n = [] <;> simp [e, e0]
      · rw [lookup_register]; by_cases e : n' = n <;> by_cases e0 : n = [] <;> simp [e, e0]
      · rw [lookup_register]; by_cases e : n' = n <;> by_cases e0 : n = [] <;> simp [e, e0]
      · rw [lookup_registerNew]
        by_cases e : n' = n <;> by_cases e0 : n = [] <;> cases hl : (lookup (s.proj Kind.template).map n).isSome <;>
          simp [e, e0]
      · rw [lookup_store]
    · rw [proj_set_other _ _ _ _ hk]
      simp [specStep, Ne.symm hk]
  | unreg k' ns =>
    simp only [step]
    by_cases hk : k = k'
    · subst hk
      rw [proj_set_same]
      cases k <;> simp only [unregOf, specStep, true_and]
      · rw [lookup_unregister _ _ _ (h _)]; by_cases hm : n ∈ ns <;> by_cases e0 : n = [] <;> simp [hm, e0]
      · rw [lookup_unregister _ _ _ (h _)]; by_cases hm : n ∈ ns <;> by_cases e0 : n = [] <;> simp [hm, e0]
      · rw [lookup_unregister _ _ _ (h _)]; by_cases hm : n ∈ ns <;> by_cases e0 : n = [] <;> simp [hm, e0]
      · rw [lookup_unregister _ _ _ (h _)]; by_cases hm : n ∈ ns <;> by_cases e0 : n = [] <;> simp [hm, e0]
      · rw [lookup_foldl_delete _ _ _ (h _)]
    · rw [proj_set_other _ _ _ _ hk]
      simp [specStep, Ne.symm hk]
  | list k' => simp [step, specStep]
  | call k' n' => simp [step, specStep]
  | get n' => simp [step, specStep]
  | gets => simp [step, specStep]

private theorem lookup_run (s : St) (ops : List Op) (k : Kind) (n : Key) (h : InvSt s) :
    lookup ((run s ops).proj k).map n = spec k n (lookup (s.proj k).map n) ops := by
  induction ops generalizing s with
  | nil => rfl
  | cons o os ih => simp only [run, spec]; rw [ih _ (invSt_step s o h), lookup_step s o k n h]

private theorem lookup_run_init (ops : List Op) (k : Kind) (n : Key) :
    lookup ((run {} ops).proj k).map n = spec k n none ops := by
  rw [lookup_run _ _ _ _ invSt_init]; cases k <;> rfl

private theorem outs_at (s : St) (pre : List Op) (o : Op) (post : List Op) :
    (outs s (pre ++ o :: post))[pre.length]? = some (step (run s pre) o).2 := by
  induction pre generalizing s with
  | nil => simp [outs, run]
  | cons p ps ih => simpa [outs, run] using ih (step s p).1

private theorem filterMap_congr' {α β} (f g : α → Option β) (l : List α) (h : ∀ a ∈ l, f a = g a) :
    l.filterMap f = l.filterMap g := by
  induction l with
  | nil => rfl
  | cons a t ih =>
    have ha := h a (by simp)
    have it := ih (fun b hb => h b (by simp [hb]))
    simp [List.filterMap_cons, ha, it]

private theorem listOrdered_eq_aux (m : List (Key × Nat)) (hnd : (keys m).Nodup) :
    (keys m).filterMap (fun k => (lookup m k).map fun v => (k, v)) = m := by
  induction m with
  | nil => rfl
  | cons p t ih =>
    obtain ⟨k', v'⟩ := p
    simp only [keys, List.map_cons, List.nodup_cons] at hnd
    simp only [keys, List.map_cons, List.filterMap_cons, lookup, if_true, Option.map_some]
    congr 1
    refine Eq.trans ?_ (ih hnd.2)
    simp only [keys]
    apply filterMap_congr'
    intro k hk
    have : k' ≠ k := fun e => hnd.1 (e ▸ hk)
    simp [this]

private theorem listOf_eq_map (k : Kind) (r : Reg) (h : RegInv r) : listOf k r = r.map := by
  have : r.listOrdered = r.map := by
    unfold Reg.listOrdered; rw [← h.1]; exact listOrdered_eq_aux r.map (h.1 ▸ h.2)
  cases k <;> simp [listOf, Reg.listMap, this]

/-- **A list result is the registry at the step's instant.** In every history, the answer to a list request
    (`tools/list`, `prompts/list`, `resources/list`, `resources/templates/list`, `GetTools`) issued after the
    prefix `pre` carries every name at most once (no duplicate), and contains the pair (name, version) exactly
    when the history up to that instant binds the name to that version — the *latest* registration not undone
    by an unregister (no phantom, no stale or torn entry, nothing missing); its names are the order slice, so
    resources come in registration order (`C12_resource_order`). -/
theorem C12_list_snapshot (pre post : List Op) (k : Kind) :
    ∃ l, (outs {} (pre ++ Op.list k :: post))[pre.length]? = some (Out.entries l) ∧
      (l.map Prod.fst).Nodup ∧
      (∀ n v, (n, v) ∈ l ↔ spec k n none pre = some v) ∧
      l.map Prod.fst = ((run {} pre).proj k).order := by
  have hi := invSt_run {} pre invSt_init k
  refine ⟨listOf k ((run {} pre).proj k), ?_, ?_, ?_, ?_⟩
  · rw [outs_at]; rfl
  · rw [listOf_eq_map k _ hi]
    have hk : (keys ((run {} pre).proj k).map).Nodup := hi.1 ▸ hi.2
    exact hk
  · intro n v
    rw [listOf_eq_map k _ hi, mem_iff_lookup _ (hi.1 ▸ hi.2), lookup_run_init]
  · rw [listOf_eq_map k _ hi]; exact hi.1

/-- `Server.GetTools` sees the same snapshot as `tools/list`. -/
theorem C12_gets_snapshot (pre post : List Op) :
    ∃ l, (outs {} (pre ++ Op.gets :: post))[pre.length]? = some (Out.entries l) ∧
      (l.map Prod.fst).Nodup ∧ (∀ n v, (n, v) ∈ l ↔ spec .tool n none pre = some v) := by
  have hi := invSt_run {} pre invSt_init .tool
  have hk : (keys ((run {} pre).proj .tool).map).Nodup := hi.1 ▸ hi.2
  refine ⟨((run {} pre).proj .tool).map, ?_, hk, ?_⟩
  · rw [outs_at]; rfl
  · intro n v; rw [mem_iff_lookup _ (hi.1 ▸ hi.2), lookup_run_init]

/-! ## registration order -/

private theorem order_regOf (k : Kind) (hk : k ≠ .notif) (r : Reg) (n : Key) (v : Nat) (h : RegInv r) :
    (regOf k r n v).order = if n = [] then r.order else if n ∈ r.order then r.order else r.order ++ [n] := by
  have hiff : (lookup r.map n).isSome = true ↔ n ∈ r.order := by rw [lookup_isSome_iff, h.1]
  by_cases e0 : n = []
  · cases k <;> simp [regOf, Reg.register, Reg.registerNew, e0] at hk ⊢
  · by_cases hm : n ∈ r.order
    · have := hiff.2 hm
      cases k <;> simp [regOf, Reg.register, Reg.registerNew, e0, hm, this] at hk ⊢
    · have : (lookup r.map n).isSome = false := by
        cases hl : (lookup r.map n).isSome
        · rfl
        · exact absurd (hiff.1 hl) hm
      cases k <;> simp [regOf, Reg.register, Reg.registerNew, e0, hm, this] at hk ⊢

private theorem order_run (s : St) (ops : List Op) (k : Kind) (hk : k ≠ .notif) (h : InvSt s) (hu : noUnreg k ops = true) :
    ((run s ops).proj k).order = firstOcc (s.proj k).order (regNames k ops) := by
  induction ops generalizing s with
  | nil => rfl
  | cons o os ih =>
    have hs := invSt_step s o h
    cases o with
    | reg k' n v =>
      simp only [noUnreg] at hu
      simp only [run]
      rw [ih _ hs hu]
      simp only [step, regNames]
      by_cases e : k' = k
      · subst e
        rw [proj_set_same, order_regOf k' hk _ n v (h k')]
        by_cases e0 : n = []
        · simp [e0]
        · simp [e0, firstOcc]
      · rw [proj_set_other _ _ _ _ (Ne.symm e)]; simp [e]
    | unreg k' ns =>
      simp only [noUnreg, Bool.and_eq_true, bne_iff_ne] at hu
      simp only [run]
      rw [ih _ hs hu.2]
      simp only [step, regNames]
      rw [proj_set_other _ _ _ _ (Ne.symm hu.1)]
    | list k' => simp only [noUnreg] at hu; simp only [run]; rw [ih _ hs hu]; rfl
    | call k' n => simp only [noUnreg] at hu; simp only [run]; rw [ih _ hs hu]; rfl
    | get n => simp only [noUnreg] at hu; simp only [run]; rw [ih _ hs hu]; rfl
    | gets => simp only [noUnreg] at hu; simp only [run]; rw [ih _ hs hu]; rfl

/-- **Resources are listed in registration order.** In a history without unregistration for that registry (there
    is no API to unregister a resource, a prompt or a template) the list names are the registered non-empty
    names in order of their *first* registration; re-registering never moves an entry. -/
theorem C12_resource_order (pre post : List Op) (k : Kind) (hk : k ≠ .notif) (hu : noUnreg k pre = true) :
    ∃ l, (outs {} (pre ++ Op.list k :: post))[pre.length]? = some (Out.entries l) ∧
      l.map Prod.fst = firstOcc [] (regNames k pre) := by
  obtain ⟨l, h1, _, _, h4⟩ := C12_list_snapshot pre post k
  refine ⟨l, h1, ?_⟩
  rw [h4, order_run {} pre k hk invSt_init hu]
  cases k <;> rfl

/-! ## replace, call, unregister -/

/-- **Re-registering replaces the handler atomically and in place.** One `Register…` step on a reachable state,
    for a non-empty name in the tool / prompt / resource registry: afterwards the name is bound to the new
    version (so is what a call runs), every other binding and every other registry is untouched, and the order
    slice is unchanged if the name was registered before (position kept), extended at the end otherwise. -/
theorem C12_replace_atomic (pre : List Op) (k : Kind) (hk : k = .tool ∨ k = .prompt ∨ k = .resource)
    (n : Key) (hn : n ≠ []) (v : Nat) :
    let s := run {} pre
    let s' := (step s (.reg k n v)).1
    lookup (s'.proj k).map n = some v ∧
    (step s' (.call k n)).2 = .found v ∧
    (∀ n', n' ≠ n → lookup (s'.proj k).map n' = lookup (s.proj k).map n') ∧
    (∀ k', k' ≠ k → s'.proj k' = s.proj k') ∧
    ((lookup (s.proj k).map n).isSome = true →
        (s'.proj k).order = (s.proj k).order ∧ (listOf k (s'.proj k)).length = (listOf k (s.proj k)).length) ∧
    ((lookup (s.proj k).map n).isSome = false → (s'.proj k).order = (s.proj k).order ++ [n]) := by
  intro s s'
  have hi : InvSt s := invSt_run {} pre invSt_init
  have hi' : InvSt s' := invSt_step s _ hi
  have hreg : s'.proj k = (s.proj k).register n v := by
    show ((s.set k (regOf k (s.proj k) n v)).proj k) = _
    rw [proj_set_same]; rcases hk with e | e | e <;> subst e <;> rfl
  have hl : lookup (s'.proj k).map n = some v := by rw [hreg, lookup_register]; simp [hn]
  refine ⟨hl, ?_, ?_, ?_, ?_, ?_⟩
  · show callOf k (s'.proj k) n = _
    simp [callOf, hn, hl]
  · intro n' hne; rw [hreg, lookup_register]; simp [Ne.symm hne]
  · intro k' hne; exact proj_set_other _ _ _ _ hne
  · intro hs
    have ho : (s'.proj k).order = (s.proj k).order := by rw [hreg]; simp [Reg.register, hn, hs]
    refine ⟨ho, ?_⟩
    rw [listOf_eq_map k _ (hi' k), listOf_eq_map k _ (hi k)]
    have := congrArg List.length ((hi' k).1.trans (ho.trans (hi k).1.symm))
    simpa [keys] using this
  · intro hs; rw [hreg]; simp [Reg.register, hn, hs]

/-- **A call finds an entry iff it is registered at that instant.** In every history, `tools/call`,
    `prompts/get`, `resources/read` (and the dispatch of a client notification) issued after the prefix `pre`
    runs the handler of the version the history binds the name to, and answers not-found exactly when the
    history binds nothing (`tools/call` refuses the empty name before looking). -/
theorem C12_call_found_iff_registered (pre post : List Op) (k : Kind) (n : Key) :
    (outs {} (pre ++ Op.call k n :: post))[pre.length]? = some
      (if k = .tool ∧ n = [] then Out.invalid else
       match spec k n none pre with
       | some v => Out.found v
       | none => Out.notFound) := by
  rw [outs_at]
  show some (callOf k ((run {} pre).proj k) n) = _
  rw [callOf, lookup_run_init]
  split
  · rfl
  · cases spec k n none pre <;> rfl

/-- `Server.GetTool` agrees with `tools/call` on what is registered. -/
theorem C12_get_found_iff_registered (pre post : List Op) (n : Key) :
    (outs {} (pre ++ Op.get n :: post))[pre.length]? = some
      (if n = [] then Out.invalid else
       match spec .tool n none pre with
       | some v => Out.found v
       | none => Out.notFound) := by
  rw [outs_at]
  show some (if n = [] then Out.invalid else match lookup ((run {} pre).proj .tool).map n with
    | some v => Out.found v | none => Out.notFound) = _
  rw [lookup_run_init]

private theorem specStep_untouched (k : Kind) (n : Key) (cur : Option Nat) (o : Op) (h : touches k n o = false) :
    specStep k n cur o = cur := by
  cases o with
  | reg k' n' v =>
    simp only [touches, Bool.and_eq_false_iff, beq_eq_false_iff_ne] at h
    have : ¬ (k' = k ∧ n' = n) := fun ⟨a, b⟩ => h.elim (fun x => x a) (fun x => x b)
    simp [specStep, this]
  | unreg k' ns =>
    simp only [touches, Bool.and_eq_false_iff, beq_eq_false_iff_ne] at h
    have : ¬ (k' = k ∧ n ∈ ns) := fun ⟨a, b⟩ => h.elim (fun x => x a) (fun x => by simp [b] at x)
    simp [specStep, this]
  | list _ => rfl
  | call _ _ => rfl
  | get _ => rfl
  | gets => rfl

private theorem spec_untouched (k : Kind) (n : Key) (cur : Option Nat) (ops : List Op)
    (h : ∀ o ∈ ops, touches k n o = false) : spec k n cur ops = cur := by
  induction ops generalizing cur with
  | nil => rfl
  | cons o os ih =>
    simp only [spec]
    rw [specStep_untouched k n cur o (h o (by simp))]
    exact ih cur (fun o' ho' => h o' (by simp [ho']))

private theorem spec_append (k : Kind) (n : Key) (cur : Option Nat) (a b : List Op) :
    spec k n cur (a ++ b) = spec k n (spec k n cur a) b := by
  induction a generalizing cur with
  | nil => rfl
  | cons o os ih => simp [spec, ih]

/-- **Never registered ⇒ not found.** No operation of the history mentions the name in that registry: the
    call fails with not-found, wherever it is interleaved. -/
theorem C12_never_registered_not_found (pre post : List Op) (k : Kind) (n : Key) (hn : n ≠ [])
    (h : ∀ o ∈ pre, touches k n o = false) :
    (outs {} (pre ++ Op.call k n :: post))[pre.length]? = some Out.notFound := by
  rw [C12_call_found_iff_registered, spec_untouched k n none pre h]; simp [hn]

/-- **Registered throughout ⇒ found.** The name was registered (version `v`) and nothing touched it since —
    whatever else happened to other names and other registries in between: the call runs handler `v`. -/
theorem C12_registered_throughout_found (a mid post : List Op) (k : Kind) (hk : k ≠ .template) (n : Key) (hn : n ≠ [])
    (v : Nat) (h : ∀ o ∈ mid, touches k n o = false) :
    (outs {} ((a ++ Op.reg k n v :: mid) ++ Op.call k n :: post))[(a ++ Op.reg k n v :: mid).length]? =
      some (Out.found v) := by
  rw [C12_call_found_iff_registered]
  have : spec k n none (a ++ Op.reg k n v :: mid) = some v := by
    rw [spec_append]
    simp only [spec]
    rw [spec_untouched k n _ mid h]
    cases k <;> simp [specStep, hn] at hk ⊢
  rw [this]; simp [hn]

/-- **Unregister removes exactly the named tools.** One `UnregisterTools(ns...)` step on a reachable state: every
    non-empty name of `ns` is gone from map and order slice, everything else keeps its binding and its relative
    position, other registries are untouched, and the returned count is the number of entries removed. -/
theorem C12_unregister (pre : List Op) (ns : List Key) :
    let s := run {} pre
    let s' := (step s (.unreg .tool ns)).1
    (∀ n, n ∈ ns → n ≠ [] → lookup s'.tools.map n = none ∧ n ∉ s'.tools.order) ∧
    (∀ n, n ∉ ns → lookup s'.tools.map n = lookup s.tools.map n) ∧
    s'.tools.order.Sublist s.tools.order ∧
    (step s (.unreg .tool ns)).2 = .count (s.tools.order.length - s'.tools.order.length) ∧
    (∀ k', k' ≠ .tool → s'.proj k' = s.proj k') := by
  intro s s'
  have hi : RegInv s.tools := invSt_run {} pre invSt_init .tool
  have hi' : RegInv s'.tools := invSt_step s (.unreg .tool ns) (invSt_run {} pre invSt_init) .tool
  have hs' : s'.tools = (s.tools.unregister ns).1 := rfl
  have hlook : ∀ n, lookup s'.tools.map n = if n ∈ ns ∧ n ≠ [] then none else lookup s.tools.map n := by
    intro n; rw [hs']; exact lookup_unregister _ _ _ hi
  -- sublist and count, by induction over the names
  have key : ∀ (ks : List Key) (r : Reg), RegInv r →
      (r.unregister ks).1.order.Sublist r.order ∧ (r.unregister ks).2 + (r.unregister ks).1.order.length = r.order.length := by
    intro ks
    induction ks with
    | nil => intro r _; simp [Reg.unregister]
    | cons k ks ih =>
      intro r hr
      have h1 := inv_unregister1 r k hr
      obtain ⟨a, b⟩ := ih _ h1
      simp only [Reg.unregister]
      have step1 : (r.unregister1 k).1.order.Sublist r.order ∧ (r.unregister1 k).2 + (r.unregister1 k).1.order.length = r.order.length := by
        unfold Reg.unregister1
        by_cases hk : k = []
        · simp [hk]
        · cases hl : lookup r.map k with
          | none => simp [hk]
          | some v =>
            have hm : k ∈ r.order := by
              rw [← hr.1, ← lookup_isSome_iff, hl]; rfl
            simp only [hk, if_false]
            refine ⟨List.erase_sublist, ?_⟩
            rw [List.length_erase_of_mem hm]
            have : 0 < r.order.length := List.length_pos_of_mem hm
            omega
      exact ⟨a.trans step1.1, by omega⟩
  obtain ⟨hsub, hcnt⟩ := key ns s.tools hi
  refine ⟨?_, ?_, ?_, ?_, ?_⟩
  · intro n hm hn
    have hl : lookup s'.tools.map n = none := by rw [hlook]; simp [hm, hn]
    refine ⟨hl, ?_⟩
    rw [← hi'.1, ← lookup_isSome_iff, hl]; simp
  · intro n hm; rw [hlook]; simp [hm]
  · rw [hs']; exact hsub
  · show Out.count (s.tools.unregister ns).2 = _
    rw [hs']; congr 1; omega
  · intro k' hne; exact proj_set_other _ _ _ _ hne

/-- **Every interleaving.** Whatever the goroutines' programs and however the scheduler merges them, the merged
    history is a history: the invariant holds after it (and so do all theorems above, which quantify over all
    histories). -/
theorem C12_any_interleaving (threads : List (List Op)) (h : List Op) (_ : Interleaving threads h) (k : Kind) :
    keys ((run {} h).proj k).map = ((run {} h).proj k).order ∧ ((run {} h).proj k).order.Nodup :=
  ⟨(C12_order_inv h k).1, (C12_order_inv h k).2.1⟩

/-! ## Part B — lockset soundness for reader/writer locks -/

section Lockset
open Mcp.Registry.Lock

private theorem stateAt_succ (l : Nat) (tr : List Ev) (i : Nat) :
    stateAt l tr (i + 1) = match tr[i]? with
      | some e => stepL l (stateAt l tr i) e
      | none => stateAt l tr i := by
  unfold stateAt
  rw [List.take_add_one]
  cases h : tr[i]? <;> simp [List.foldl_append]

/-- A writer excludes readers. -/
private def LInv (s : LS) : Prop := ∀ t, s.writer = some t → s.readers = []

private theorem linv_at (tr : List Ev) (hv : Valid tr) (l : Nat) : ∀ i, LInv (stateAt l tr i) := by
  intro i
  induction i with
  | zero => intro t h; simp [stateAt] at h
  | succ i ih =>
    rw [stateAt_succ]
    cases he : tr[i]? with
    | none => exact ih
    | some e =>
      have ok := hv l i e he
      cases e with
      | acqW t l' =>
        by_cases hl : l' = l
        · have := ok hl; intro t' _; simp [stepL, hl, this.2]
        · simpa [stepL, hl] using ih
      | relW t l' =>
        by_cases hl : l' = l
        · intro t' h; simp [stepL, hl] at h
        · simpa [stepL, hl] using ih
      | acqR t l' =>
        by_cases hl : l' = l
        · have := ok hl; intro t' h; simp [stepL, hl, this] at h
        · simpa [stepL, hl] using ih
      | relR t l' =>
        by_cases hl : l' = l
        · intro t' h
          have h' : (stateAt l tr i).writer = some t' := by simpa [stepL, hl] using h
          simp [stepL, hl, ih t' h']
        · simpa [stepL, hl] using ih
      | rd t y => simpa [stepL] using ih
      | wr t y => simpa [stepL] using ih

/-- If `t` was the writer and no longer is, `t` unlocked in between. -/
private theorem writer_leaves (tr : List Ev) (hv : Valid tr) (l t : Nat) : ∀ d i,
    (stateAt l tr i).writer = some t → (stateAt l tr (i + d)).writer ≠ some t →
    ∃ k, i ≤ k ∧ k < i + d ∧ tr[k]? = some (Ev.relW t l) := by
  intro d
  induction d with
  | zero => intro i h1 h2; exact absurd h1 h2
  | succ d ih =>
    intro i h1 h2
    by_cases hw : (stateAt l tr (i + d)).writer = some t
    · refine ⟨i + d, by omega, by omega, ?_⟩
      rw [show i + (d + 1) = (i + d) + 1 by omega, stateAt_succ] at h2
      cases he : tr[i + d]? with
      | none => rw [he] at h2; exact absurd hw h2
      | some e =>
        rw [he] at h2
        have ok := hv l (i + d) e he
        cases e with
        | acqW t' l' =>
          by_cases hl : l' = l
          · have := (ok hl).1; rw [this] at hw; cases hw
          · simp [stepL, hl] at h2; exact absurd hw h2
        | relW t' l' =>
          by_cases hl : l' = l
          · have := ok hl; rw [this] at hw; cases hw; subst hl; rfl
          · simp [stepL, hl] at h2; exact absurd hw h2
        | acqR t' l' => by_cases hl : l' = l <;> simp [stepL, hl] at h2 <;> exact absurd hw h2
        | relR t' l' => by_cases hl : l' = l <;> simp [stepL, hl] at h2 <;> exact absurd hw h2
        | rd t' y => simp [stepL] at h2; exact absurd hw h2
        | wr t' y => simp [stepL] at h2; exact absurd hw h2
    · obtain ⟨k, a, b, c⟩ := ih i h1 hw
      exact ⟨k, a, by omega, c⟩

/-- If `t` became the writer, `t` locked in between — at a moment without readers. -/
private theorem writer_arrives (tr : List Ev) (hv : Valid tr) (l t : Nat) : ∀ d i,
    (stateAt l tr i).writer ≠ some t → (stateAt l tr (i + d)).writer = some t →
    ∃ m, i ≤ m ∧ m < i + d ∧ tr[m]? = some (Ev.acqW t l) ∧ (stateAt l tr m).readers = [] := by
  intro d
  induction d with
  | zero => intro i h1 h2; exact absurd h2 h1
  | succ d ih =>
    intro i h1 h2
    by_cases hw : (stateAt l tr (i + d)).writer = some t
    · obtain ⟨m, a, b, c⟩ := ih i h1 hw
      exact ⟨m, a, by omega, c⟩
    · refine ⟨i + d, by omega, by omega, ?_⟩
      rw [show i + (d + 1) = (i + d) + 1 by omega, stateAt_succ] at h2
      cases he : tr[i + d]? with
      | none => rw [he] at h2; exact absurd h2 hw
      | some e =>
        rw [he] at h2
        have ok := hv l (i + d) e he
        cases e with
        | acqW t' l' =>
          by_cases hl : l' = l
          · simp [stepL, hl] at h2; subst h2; subst hl; exact ⟨rfl, (ok rfl).2⟩
          · simp [stepL, hl] at h2; exact absurd h2 hw
        | relW t' l' => by_cases hl : l' = l <;> simp [stepL, hl] at h2; exact absurd h2 hw
        | acqR t' l' => by_cases hl : l' = l <;> simp [stepL, hl] at h2 <;> exact absurd h2 hw
        | relR t' l' => by_cases hl : l' = l <;> simp [stepL, hl] at h2 <;> exact absurd h2 hw
        | rd t' y => simp [stepL] at h2; exact absurd h2 hw
        | wr t' y => simp [stepL] at h2; exact absurd h2 hw

/-- If `t` was a reader and no longer is, `t` r-unlocked in between. -/
private theorem reader_leaves (tr : List Ev) (l t : Nat) : ∀ d i,
    t ∈ (stateAt l tr i).readers → t ∉ (stateAt l tr (i + d)).readers →
    ∃ k, i ≤ k ∧ k < i + d ∧ tr[k]? = some (Ev.relR t l) := by
  intro d
  induction d with
  | zero => intro i h1 h2; exact absurd h1 h2
  | succ d ih =>
    intro i h1 h2
    by_cases hr : t ∈ (stateAt l tr (i + d)).readers
    · refine ⟨i + d, by omega, by omega, ?_⟩
      rw [show i + (d + 1) = (i + d) + 1 by omega, stateAt_succ] at h2
      cases he : tr[i + d]? with
      | none => rw [he] at h2; exact absurd hr h2
      | some e =>
        rw [he] at h2
        cases e with
        | acqW t' l' => by_cases hl : l' = l <;> simp [stepL, hl] at h2 <;> exact absurd hr h2
        | relW t' l' => by_cases hl : l' = l <;> simp [stepL, hl] at h2 <;> exact absurd hr h2
        | acqR t' l' =>
          by_cases hl : l' = l
          · simp [stepL, hl] at h2; exact absurd hr h2.2
          · simp [stepL, hl] at h2; exact absurd hr h2
        | relR t' l' =>
          by_cases hl : l' = l
          · by_cases ht : t = t'
            · subst ht; subst hl; rfl
            · simp only [stepL, hl, if_true] at h2
              exact absurd ((List.mem_erase_of_ne ht).2 hr) h2
          · simp [stepL, hl] at h2; exact absurd hr h2
        | rd t' y => simp [stepL] at h2; exact absurd hr h2
        | wr t' y => simp [stepL] at h2; exact absurd hr h2
    · obtain ⟨k, a, b, c⟩ := ih i h1 hr
      exact ⟨k, a, by omega, c⟩

/-- If `t` holds the lock (in either mode) and did not before, `t` acquired it in between. -/
private theorem holder_arrives (tr : List Ev) (l t : Nat) : ∀ d i,
    ¬ holdsAny (stateAt l tr i) t → holdsAny (stateAt l tr (i + d)) t →
    ∃ m, i ≤ m ∧ m < i + d ∧ (tr[m]? = some (Ev.acqW t l) ∨ tr[m]? = some (Ev.acqR t l)) := by
  intro d
  induction d with
  | zero => intro i h1 h2; exact absurd h2 h1
  | succ d ih =>
    intro i h1 h2
    by_cases hh : holdsAny (stateAt l tr (i + d)) t
    · obtain ⟨m, a, b, c⟩ := ih i h1 hh
      exact ⟨m, a, by omega, c⟩
    · refine ⟨i + d, by omega, by omega, ?_⟩
      rw [show i + (d + 1) = (i + d) + 1 by omega, stateAt_succ] at h2
      have hh' : ¬ ((stateAt l tr (i + d)).writer = some t) ∧ t ∉ (stateAt l tr (i + d)).readers := by
        simp only [holdsAny, not_or] at hh; exact hh
      cases he : tr[i + d]? with
      | none => rw [he] at h2; exact absurd h2 hh
      | some e =>
        rw [he] at h2
        cases e with
        | acqW t' l' =>
          by_cases hl : l' = l
          · simp only [stepL, hl, if_true, holdsAny] at h2
            rcases h2 with h2 | h2
            · cases h2; subst hl; exact Or.inl rfl
            · exact absurd h2 hh'.2
          · simp [stepL, hl] at h2; exact absurd h2 hh
        | relW t' l' =>
          by_cases hl : l' = l
          · simp only [stepL, hl, if_true, holdsAny] at h2
            rcases h2 with h2 | h2
            · cases h2
            · exact absurd h2 hh'.2
          · simp [stepL, hl] at h2; exact absurd h2 hh
        | acqR t' l' =>
          by_cases hl : l' = l
          · simp only [stepL, hl, if_true, holdsAny, List.mem_cons] at h2
            rcases h2 with h2 | h2 | h2
            · exact absurd h2 hh'.1
            · subst h2; subst hl; exact Or.inr rfl
            · exact absurd h2 hh'.2
          · simp [stepL, hl] at h2; exact absurd h2 hh
        | relR t' l' =>
          by_cases hl : l' = l
          · simp only [stepL, hl, if_true, holdsAny] at h2
            rcases h2 with h2 | h2
            · exact absurd h2 hh'.1
            · exact absurd (List.mem_of_mem_erase h2) hh'.2
          · simp [stepL, hl] at h2; exact absurd h2 hh
        | rd t' y => simp [stepL] at h2; exact absurd h2 hh
        | wr t' y => simp [stepL] at h2; exact absurd h2 hh

/-- **Lockset soundness (sync.RWMutex).** In every trace the mutexes allow — any length, any number of threads,
    any number of other locks and locations — if every write of `x` happens while its thread holds `l` in write
    mode and every read while it holds `l` in read or write mode, then no two conflicting accesses to `x` are
    unordered by happens-before: there is no data race on `x`. -/
theorem C12_lockset_sound (tr : List Ev) (x l : Nat) (hv : Valid tr) (hd : Disciplined tr x l) : ¬ Race tr x := by
  rintro ⟨i, j, a, b, hij, ha, hb, hax, hbx, hw, hne, hnhb⟩
  apply hnhb
  obtain ⟨hwa, haa⟩ := hd i a ha hax
  obtain ⟨hwb, hab⟩ := hd j b hb hbx
  have hj : j = i + (j - i) := by omega
  by_cases hWi : holdsW (stateAt l tr i) a.tid
  · -- the earlier access holds the write lock
    have hnw : (stateAt l tr j).writer ≠ some a.tid := by
      rcases hab with h | h
      · rw [h]; intro e; exact hne (Option.some.inj e).symm
      · intro e; have := linv_at tr hv l j _ e; rw [this] at h; cases h
    rw [hj] at hnw
    obtain ⟨k, hk1, hk2, hk⟩ := writer_leaves tr hv l a.tid (j - i) i hWi hnw
    have hki : k ≠ i := by
      intro e; subst e; have e2 := Option.some.inj (ha.symm.trans hk); rw [e2] at hax; simp [isAccess] at hax
    have okk := hv l k _ hk rfl
    have hrk : (stateAt l tr k).readers = [] := linv_at tr hv l k _ okk
    have hnone : ¬ holdsAny (stateAt l tr (k + 1)) b.tid := by
      rw [stateAt_succ, hk]; simp [stepL, holdsAny, hrk]
    have hj2 : j = (k + 1) + (j - (k + 1)) := by omega
    rw [hj2] at hab
    obtain ⟨m, hm1, hm2, hm⟩ := holder_arrives tr l b.tid (j - (k + 1)) (k + 1) hnone hab
    have h1 : HB tr i k := HB.po (by omega) ha hk rfl
    rcases hm with hm | hm
    · exact HB.trans h1 (HB.trans (HB.sync (by omega) hk hm rfl) (HB.po (by omega) hm hb rfl))
    · exact HB.trans h1 (HB.trans (HB.sync (by omega) hk hm rfl) (HB.po (by omega) hm hb rfl))
  · -- the earlier access is a read under the read lock, so the later one is a write under the write lock
    have hnotw : isWrite x a = false := by
      cases h : isWrite x a
      · rfl
      · exact absurd (hwa h) hWi
    have hwb' : holdsW (stateAt l tr j) b.tid := by
      rcases hw with h | h
      · rw [hnotw] at h; cases h
      · exact hwb h
    have hri : a.tid ∈ (stateAt l tr i).readers := by
      rcases haa with h | h
      · exact absurd h hWi
      · exact h
    have hnw : (stateAt l tr i).writer ≠ some b.tid := by
      intro e; have := linv_at tr hv l i _ e; rw [this] at hri; cases hri
    rw [holdsW, hj] at hwb'
    obtain ⟨m, hm1, hm2, hm, hrm⟩ := writer_arrives tr hv l b.tid (j - i) i hnw hwb'
    have hmi : m ≠ i := by
      intro e; subst e; rw [ha] at hm; cases hm; simp [isAccess] at hax
    have hnr : a.tid ∉ (stateAt l tr (i + (m - i))).readers := by
      rw [show i + (m - i) = m by omega, hrm]; simp
    obtain ⟨k, hk1, hk2, hk⟩ := reader_leaves tr l a.tid (m - i) i hri hnr
    have hki : k ≠ i := by
      intro e; subst e; have e2 := Option.some.inj (ha.symm.trans hk); rw [e2] at hax; simp [isAccess] at hax
    exact HB.trans (HB.po (by omega) ha hk rfl)
      (HB.trans (HB.sync (by omega) hk hm rfl) (HB.po (by omega) hm hb rfl))

end Lockset

/-! ## Part C — the regenerated access table -/

/-- **Every access to a registry field is locked.** Over the table regenerated from the current source: every
    access to a map or order slice of the three managers and to the notification-handler tables sits under its
    RWMutex in the right mode (write ⇒ `Lock`, read ⇒ `RLock` or `Lock`), is never aliased out of the critical
    section, or belongs to the constructor. -/
theorem C12_all_accesses_locked : AllAccessesLocked Mcp.Gen.registryAccesses := by
  have h : (Mcp.Gen.registryAccesses.all fun a => guarded a) = true := by decide +kernel
  exact fun a ha => List.all_eq_true.1 h a ha

/-- The table has no unguarded site at all (same fact, as the list the extractor's consumers read). -/
theorem C12_no_unguarded_site : unguardedSites Mcp.Gen.registryAccesses = [] := by decide +kernel

/-- The bad region (finding D25, repaired): on the access records of the tree before the repair the predicate
    fails, and the unguarded sites it names are exactly `handleGetPrompt` reading `prompts` and
    `handleReadResource` reading `resources` — the obligation above is not vacuous, it rejects that code. -/
theorem C12_unlocked_witness :
    unguardedSites d25Table = d25Sites ∧ ¬ AllAccessesLocked d25Table := by
  have h1 : unguardedSites d25Table = d25Sites := by decide +kernel
  have h2 : (d25Table.all fun a => guarded a) = false := by decide +kernel
  refine ⟨h1, fun hall => ?_⟩
  have : (d25Table.all fun a => guarded a) = true := List.all_eq_true.2 hall
  rw [h2] at this; cases this

/-- Every function touches a registry inside ONE critical section (or not under a lock at all, which the
    theorems above catch): the justification for modelling each operation as a single atomic step. -/
theorem C12_ops_atomic : ∀ a ∈ Mcp.Gen.registryAccesses, oneSection Mcp.Gen.registryAccesses a = true := by
  have h : (Mcp.Gen.registryAccesses.all fun a => oneSection Mcp.Gen.registryAccesses a) = true := by decide +kernel
  exact fun a ha => List.all_eq_true.1 h a ha

/-- **Check and insert are one critical section.** Over the regenerated per-function table: every function that
    writes a registry — directly or through the functions it calls — does everything it does under that mutex in
    ONE critical section (so a register function cannot test for existence through a locking getter and insert
    later), and every function of a manager type, readers included, has at most one section per mutex. -/
theorem C12_register_atomic : ∀ f ∈ Mcp.Gen.registryFunctions, atomicFn f = true := by
  have h : (Mcp.Gen.registryFunctions.all fun f => atomicFn f) = true := by decide +kernel
  exact fun f hf => List.all_eq_true.1 h f hf

/-- The per-function table is not vacuous: every register / unregister entry point (manager level and public
    `Server` API) is in it as a writer with exactly one critical section. -/
theorem C12_mutators_present :
    ∀ n ∈ expectedMutators, (Mcp.Gen.registryFunctions.any fun f => f.fn == n && f.writes && f.sections == 1) = true := by
  have h : (expectedMutators.all fun n => Mcp.Gen.registryFunctions.any fun f => f.fn == n && f.writes && f.sections == 1) = true := by
    decide +kernel
  exact fun n hn => List.all_eq_true.1 h n hn

/-- The shapes the obligation rejects: a register helper that calls `getResource` (its own read section) before
    taking the write lock — check-then-act, two sections — and a list function resolving every entry through a
    locking getter; a read-only dispatcher of another type is accepted. -/
theorem C12_check_then_act_rejected :
    atomicFn ⟨t!"resourceManager", t!"mu", t!"resourceManager.storeResource", 2, true⟩ = false ∧
    atomicFn ⟨t!"resourceManager", t!"mu", t!"Server.RegisterResource", 2, true⟩ = false ∧
    atomicFn ⟨t!"toolManager", t!"mu", t!"toolManager.getTools", 2, false⟩ = false ∧
    atomicFn ⟨t!"toolManager", t!"mu", t!"stdioServerInternal.HandleRequest", 2, false⟩ = true := by decide

/-- The table is about the right fields and is not vacuous: the container-typed fields of the three managers
    (and the three notification-handler tables) are exactly the expected ones, and each has a write under the
    write lock and a read under a lock in the table. -/
theorem C12_table_covers :
    Mcp.Gen.registryFields = expectedFields ∧ ∀ f ∈ expectedFields, covered Mcp.Gen.registryAccesses f = true := by
  have h1 : Mcp.Gen.registryFields = expectedFields := by decide +kernel
  have h2 : (expectedFields.all fun f => covered Mcp.Gen.registryAccesses f) = true := by decide +kernel
  exact ⟨h1, fun f hf => List.all_eq_true.1 h2 f hf⟩

/-- **No user callback is invoked while a registry lock is held.** Over the regenerated table of every call through
    a function value inside a function that takes a registry lock (may-analysis: a lock held on SOME path counts):
    notification, tool, prompt and resource handlers are called after the entry was copied out and the lock released.
    Hence a handler may itself register / unregister — the RWMutex is not reentrant, `Lock` under one's own `RLock`
    never returns and then blocks every later reader too — and a slow handler blocks nobody. -/
theorem C12_callbacks_outside_locks : ∀ c ∈ Mcp.Gen.registryCallbackCalls, cbOutsideLocks c = true := by
  have h : (Mcp.Gen.registryCallbackCalls.all fun c => cbOutsideLocks c) = true := by decide +kernel
  exact fun c hc => List.all_eq_true.1 h c hc

/-- The callback table is not vacuous: the three notification dispatchers and the tool / prompt / resource request
    paths are in it, each calling a value of the handler type. -/
theorem C12_callback_sites_present :
    ∀ s ∈ expectedCallbackSites, (Mcp.Gen.registryCallbackCalls.any fun c => c.fn == s.1 && c.calleeType == s.2) = true := by
  have h : (expectedCallbackSites.all fun s => Mcp.Gen.registryCallbackCalls.any fun c => c.fn == s.1 && c.calleeType == s.2) = true := by
    decide +kernel
  exact fun s hs => List.all_eq_true.1 h s hs

/-- The bad region: the records of a dispatcher that calls the handler under `RLock(); defer RUnlock()` are rejected,
    and so is a function whose control flow the extractor could not follow. -/
theorem C12_callback_under_lock_rejected :
    (c125Table.all fun c => cbOutsideLocks c) = false ∧
    cbOutsideLocks ⟨t!"Server.handleServerNotification", t!"handler", t!"ServerNotificationHandler", .w, true⟩ = false ∧
    cbOutsideLocks ⟨t!"Server.handleServerNotification", t!"handler", t!"ServerNotificationHandler", .none, false⟩ = false := by decide

/-- **No lock is left held.** Over the regenerated table of every way out of every function that takes a registry
    lock (may-analysis per path: taken on some path to the exit and not released on it, unless an unlock is deferred on
    every path): each `Lock` / `RLock` is matched by its unlock before every return. So no request — well-formed or
    malformed, answered with a result or with an error — can wedge a registry for the registrations that follow. -/
theorem C12_no_lock_leaked : ∀ e ∈ Mcp.Gen.registryLockExits, exitReleases e = true := by
  have h : (Mcp.Gen.registryLockExits.all fun e => exitReleases e) = true := by decide +kernel
  exact fun e he => List.all_eq_true.1 h e he

/-- The exit table is not vacuous: mutators, readers and the three request paths are in it, and the tool request path
    with its several early returns (missing / malformed parameters, unknown tool, bad arguments) has at least five. -/
theorem C12_lock_exits_present :
    (∀ n ∈ expectedLockers, (Mcp.Gen.registryLockExits.any fun e => e.fn == n) = true) ∧
    5 ≤ (Mcp.Gen.registryLockExits.filter fun e => e.fn == t!"toolManager.handleCallTool").length := by
  have h : (expectedLockers.all fun n => Mcp.Gen.registryLockExits.any fun e => e.fn == n) = true := by decide +kernel
  have h2 : (decide (5 ≤ (Mcp.Gen.registryLockExits.filter fun e => e.fn == t!"toolManager.handleCallTool").length)) = true := by
    decide +kernel
  exact ⟨fun n hn => List.all_eq_true.1 h n hn, of_decide_eq_true h2⟩

/-- The bad region: an early return that keeps the read lock (the records of seeded change C12-10) is rejected, and so
    are a kept write lock and a function the extractor could not follow. -/
theorem C12_leaked_lock_rejected :
    (c1210Table.all fun e => exitReleases e) = false ∧
    (c1210Table.filter fun e => !exitReleases e) = [⟨t!"toolManager.handleCallTool", 5, .r, true⟩] ∧
    exitReleases ⟨t!"toolManager.registerTool", 1, .w, true⟩ = false ∧
    exitReleases ⟨t!"toolManager.registerTool", 1, .none, false⟩ = false := by decide

/-- **A registration is whole or not at all.** Over the regenerated facts about the four register functions that keep
    an order slice: each writes the slice and stores into the map, with no `return` between the two — so a refused or
    degenerate registration (nil handler, nil descriptor, empty key) either does both or neither, which is what the
    model's single step `Reg.register` and the invariant `C12_order_inv` rest on. -/
theorem C12_registration_whole :
    Mcp.Gen.registryStorePairs.map (fun p => p.fn) = expectedStorePairs ∧
    ∀ p ∈ Mcp.Gen.registryStorePairs, storesBoth p = true := by
  have h1 : Mcp.Gen.registryStorePairs.map (fun p => p.fn) = expectedStorePairs := by decide +kernel
  have h2 : (Mcp.Gen.registryStorePairs.all fun p => storesBoth p) = true := by decide +kernel
  exact ⟨h1, fun p hp => List.all_eq_true.1 h2 p hp⟩

/-- The bad region: a `return` between the order append and the map store is rejected, and the half-step it allows breaks
    the invariant for good — after "order only" on a fresh key and a proper registration of the same key the order slice
    names the key twice (every list from then on shows it twice). -/
theorem C12_half_registration_witness :
    storesBoth ⟨t!"resourceManager.registerResource", 1, 1, 1, true⟩ = false ∧
    ((({} : Reg).registerOrderOnly t!"r").register t!"r" 1).order = [t!"r", t!"r"] ∧
    ¬ RegInv ((({} : Reg).registerOrderOnly t!"r").register t!"r" 1) := by
  refine ⟨by decide, by decide, ?_⟩
  intro h
  have : ((({} : Reg).registerOrderOnly t!"r").register t!"r" 1).order.Nodup := h.2
  revert this
  decide

/-- **Entries are immutable once published.** The regenerated table of assignments to fields of the four registry entry
    types (and to whole entries through a pointer, and of field addresses handed out) is empty, and all four types were
    found: an entry is built by a composite literal and never changed, a re-registration stores a NEW entry. -/
theorem C12_entries_immutable :
    entriesImmutable Mcp.Gen.registryEntryWrites Mcp.Gen.registryEntryTypesSeen = true := by decide +kernel

/-- Hence look-up-then-use is atomic: whatever other goroutines do to the registries between the instant a request path
    copied the entry out and the instant it calls the handler — unregister this very entry, re-register it, anything, in
    any number — the request answers with exactly what the look-up found (the linearisation point of a call is its
    look-up, which is how `callOf` models it). -/
theorem C12_lookup_then_use_atomic (k : Kind) (n : Key) (r : Reg) (ops : List Op) :
    useCopied true k n (lookup r.map n) ops =
      some (match lookup r.map n with | some v => .found v | none => .notFound) := by
  cases h : lookup r.map n <;> simp [useCopied]

theorem C12_lookup_then_use_atomic_real (k : Kind) (n : Key) (r : Reg) (ops : List Op) :
    useCopied (entriesImmutable Mcp.Gen.registryEntryWrites Mcp.Gen.registryEntryTypesSeen) k n (lookup r.map n) ops =
      some (match lookup r.map n with | some v => .found v | none => .notFound) := by
  rw [C12_entries_immutable]; exact C12_lookup_then_use_atomic k n r ops

/-- The bad region (seeded change C12-16): `unregisterTools` clears `Handler` and `Tool` of the removed entry in place.
    The table is rejected, and a call that resolved the tool just before `UnregisterTools` of it dies. -/
theorem C12_cleared_entry_witness :
    entriesImmutable [⟨t!"registeredTool", t!"Handler", t!"toolManager.unregisterTools"⟩,
                      ⟨t!"registeredTool", t!"Tool", t!"toolManager.unregisterTools"⟩] 4 = false ∧
    entriesImmutable [] 3 = false ∧
    useCopied false .tool t!"x" (some 2) [.unreg .tool [t!"x"]] = none ∧
    useCopied false .tool t!"x" (some 2) [.unreg .tool [t!"y"], .reg .tool t!"x" 3] = some (.found 2) := by decide

/-! ## non-vacuity -/

/-- register a, register b, re-register a (new version, same position), list, unregister a, call a, call b,
    list resources in registration order after a re-registration. -/
example :
    outs {} [.reg .tool t!"a" 1, .reg .tool t!"b" 2, .reg .tool t!"a" 3, .list .tool, .unreg .tool [t!"a", t!"zz"],
             .call .tool t!"a", .call .tool t!"b", .reg .resource t!"r2" 1, .reg .resource t!"r1" 2, .reg .resource t!"r2" 3,
             .list .resource, .call .tool [], .get t!"b"] =
      [.done, .done, .done, .entries [(t!"a", 3), (t!"b", 2)], .count 1, .notFound, .found 2, .done, .done, .done,
       .entries [(t!"r2", 3), (t!"r1", 2)], .invalid, .found 2] := by decide

example : spec .tool t!"a" none [.reg .tool t!"a" 1, .unreg .tool [t!"a"], .reg .tool t!"a" 5, .reg .prompt t!"a" 9] = some 5 := by
  decide

example : Interleaving [[.reg .tool t!"a" 1, .list .tool], [.unreg .tool [t!"a"]]]
    [.reg .tool t!"a" 1, .unreg .tool [t!"a"], .list .tool] :=
  .take [] [[.unreg .tool [t!"a"]]] _ _ _ (.take [[.list .tool]] [] _ _ _ (.take [] [[]] _ _ _ (.drop _ _ (.drop _ _ .done))))

section
open Mcp.Registry.Lock

/-- The hypotheses of `C12_lockset_sound` are satisfiable by a trace with real contention: a writer, then two
    overlapping readers, then the writer again. -/
example : Valid [.acqW 1 0, .wr 1 7, .relW 1 0, .acqR 2 0, .acqR 3 0, .rd 2 7, .rd 3 7, .relR 2 0, .relR 3 0, .acqW 1 0, .wr 1 7, .relW 1 0] ∧
    Disciplined [.acqW 1 0, .wr 1 7, .relW 1 0, .acqR 2 0, .acqR 3 0, .rd 2 7, .rd 3 7, .relR 2 0, .relR 3 0, .acqW 1 0, .wr 1 7, .relW 1 0] 7 0 := by
  constructor
  · intro l i e h
    have hi : i < 12 := by
      have := (List.getElem?_eq_some_iff.1 h).1; simpa using this
    by_cases hl : l = 0
    · subst hl
      match i, hi with
      | 0, _ | 1, _ | 2, _ | 3, _ | 4, _ | 5, _ | 6, _ | 7, _ | 8, _ | 9, _ | 10, _ | 11, _ =>
        simp at h; subst h; simp [okL, stateAt, stepL]
    · match i, hi with
      | 0, _ | 1, _ | 2, _ | 3, _ | 4, _ | 5, _ | 6, _ | 7, _ | 8, _ | 9, _ | 10, _ | 11, _ =>
        simp at h; subst h; simp [okL, Ne.symm hl]
  · intro i e h hx
    have hi : i < 12 := by
      have := (List.getElem?_eq_some_iff.1 h).1; simpa using this
    match i, hi with
    | 0, _ | 2, _ | 3, _ | 4, _ | 7, _ | 8, _ | 9, _ | 11, _ => simp at h; subst h; simp [isAccess] at hx
    | 1, _ | 5, _ | 6, _ | 10, _ => simp at h; subst h; simp [isWrite, holdsW, holdsAny, stateAt, stepL, Ev.tid]

/-- Without the discipline the conclusion fails — the shape of D25: thread 1 reads the map with no lock
    (`handleGetPrompt` before its repair) while thread 2 writes it under the write lock (`registerPrompt`): a valid trace with a race. -/
theorem C12_unlocked_read_races :
    Valid [.acqW 2 0, .rd 1 7, .wr 2 7, .relW 2 0] ∧ Race [.acqW 2 0, .rd 1 7, .wr 2 7, .relW 2 0] 7 := by
  constructor
  · intro l i e h
    have hi : i < 4 := by
      have := (List.getElem?_eq_some_iff.1 h).1; simpa using this
    by_cases hl : l = 0
    · subst hl
      match i, hi with
      | 0, _ | 1, _ | 2, _ | 3, _ => simp at h; subst h; simp [okL, stateAt, stepL]
    · match i, hi with
      | 0, _ | 1, _ | 2, _ | 3, _ => simp at h; subst h; simp [okL, Ne.symm hl]
  · refine ⟨1, 2, .rd 1 7, .wr 2 7, by omega, rfl, rfl, rfl, rfl, Or.inr rfl, by simp [Ev.tid], ?_⟩
    have key : ∀ i j, HB [Ev.acqW 2 0, .rd 1 7, .wr 2 7, .relW 2 0] i j → i ≠ 1 := by
      intro i j h
      induction h with
      | @po i j a b hlt ha hb ht =>
        intro e; subst e
        simp at ha; subst ha
        have hj : j < 4 := by
          have := (List.getElem?_eq_some_iff.1 hb).1; simpa using this
        match j, hj, hlt with
        | 2, _, _ | 3, _, _ => simp at hb; subst hb; simp [Ev.tid] at ht
      | @sync i j a b hlt ha hb hs =>
        intro e; subst e
        simp at ha; subst ha; simp [syncs] at hs
      | trans _ _ ih _ => exact ih
    exact fun h => key 1 2 h rfl

end

end Mcp.Props.C12
