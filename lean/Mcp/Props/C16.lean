/-
  C16 — Handshake: version negotiation, advertised capabilities, client state machine.
-/
import Mcp.Model.Lifecycle
import Mcp.Gen.LifecycleFacts
namespace Mcp.Props.C16
open Mcp.Str Mcp.Lifecycle

/-! ## server: version negotiation (every version string, every supported list) -/

/-- A supported request is answered with itself. -/
theorem C16_select_supported (sup : List Text) (d v : Text) (h : v ∈ sup) : select sup d v = v := by
  induction sup with
  | nil => cases h
  | cons s rest ih =>
    simp only [select]
    by_cases hs : s = v
    · simp [hs]
    · simp only [hs, if_false]
      rcases List.mem_cons.mp h with h | h
      · exact absurd h.symm hs
      · exact ih h

/-- Any other request is answered with the default. -/
theorem C16_select_unsupported (sup : List Text) (d v : Text) (h : v ∉ sup) : select sup d v = d := by
  induction sup with
  | nil => rfl
  | cons s rest ih =>
    simp only [select]
    have hs : ¬ s = v := fun e => h (by simp [e])
    simp only [hs, if_false]
    exact ih (fun hm => h (List.mem_cons_of_mem _ hm))

/-- Never a version outside the supported list, whatever the client asks for. -/
theorem C16_version (sup : List Text) (d v : Text) (hd : d ∈ sup) : select sup d v ∈ sup := by
  by_cases h : v ∈ sup
  · rw [C16_select_supported sup d v h]; exact h
  · rw [C16_select_unsupported sup d v h]; exact hd

/-- The regenerated lists: the default is supported, it is the latest (greatest date), the list the package exports
    names the same versions, and nothing replaces the lists after construction. -/
theorem C16_versions_fact :
    Mcp.Gen.defaultProtocolVersion ∈ Mcp.Gen.supportedVersions ∧
    (Mcp.Gen.supportedVersions.all (fun s => lexLe s Mcp.Gen.defaultProtocolVersion)) = true ∧
    (Mcp.Gen.supportedVersions.all (fun s => Mcp.Gen.publicSupportedVersions.contains s)) = true ∧
    (Mcp.Gen.publicSupportedVersions.all (fun s => Mcp.Gen.supportedVersions.contains s)) = true ∧
    Mcp.Gen.lifecycleOverridesUsed = false := by decide

/-- The statement's first sentence on today's lists: the requested version when supported, otherwise the latest,
    never an unsupported one. -/
theorem C16_negotiation (v : Text) :
    select Mcp.Gen.supportedVersions Mcp.Gen.defaultProtocolVersion v ∈ Mcp.Gen.supportedVersions ∧
    (v ∈ Mcp.Gen.supportedVersions → select Mcp.Gen.supportedVersions Mcp.Gen.defaultProtocolVersion v = v) ∧
    (v ∉ Mcp.Gen.supportedVersions →
      select Mcp.Gen.supportedVersions Mcp.Gen.defaultProtocolVersion v = Mcp.Gen.defaultProtocolVersion ∧
      ∀ s ∈ Mcp.Gen.supportedVersions, lexLe s (select Mcp.Gen.supportedVersions Mcp.Gen.defaultProtocolVersion v) = true) := by
  refine ⟨C16_version _ _ _ C16_versions_fact.1, C16_select_supported _ _ _, ?_⟩
  intro h
  rw [C16_select_unsupported _ _ _ h]
  exact ⟨rfl, fun s hs => List.all_eq_true.mp C16_versions_fact.2.1 s hs⟩

/-- non-vacuity: a near miss of a supported version gets the latest; the older supported version is kept. -/
example : select Mcp.Gen.supportedVersions Mcp.Gen.defaultProtocolVersion t!"2024-11-05 " = t!"2025-03-26" ∧
    select Mcp.Gen.supportedVersions Mcp.Gen.defaultProtocolVersion t!"2024-11-05" = t!"2024-11-05" ∧
    select Mcp.Gen.supportedVersions Mcp.Gen.defaultProtocolVersion [] = t!"2025-03-26" := by decide

/-! ## server: name, version, capabilities -/

/-- The answer carries the configured name and version and the negotiated protocol. -/
theorem C16_server_info (c : SrvCfg) (r : Registry) (v : Text) :
    (answerInit c r v).name = c.name ∧ (answerInit c r v).version = c.version ∧
    (answerInit c r v).protocol = select c.supported c.dflt v := ⟨rfl, rfl, rfl⟩

/-- Tools always; prompts / resources exactly when the table is non-empty. -/
theorem C16_caps (r : Registry) :
    (capabilities r).tools = true ∧
    ((capabilities r).prompts = true ↔ r.prompts ≠ []) ∧
    ((capabilities r).resources = true ↔ r.resources ≠ []) := by
  refine ⟨rfl, ?_, ?_⟩ <;> simp [capabilities, List.length_pos_iff]

private theorem insertKey_ne_nil (l : List Text) (k : Text) : insertKey l k ≠ [] ↔ (l ≠ [] ∨ k ≠ []) := by
  unfold insertKey
  by_cases hk : k = []
  · simp [hk]
  · by_cases hm : k ∈ l
    · have : l ≠ [] := fun e => by simp [e] at hm
      simp [hk, hm, this]
    · simp [hk, hm]

private def regsPrompt : SOp → Bool
  | .reg (.prompt n) => !n.isEmpty
  | _ => false

private def regsResource : SOp → Bool
  | .reg (.resource u) => !u.isEmpty
  | _ => false

private theorem registryAfter_prompts (r : Registry) (ops : List SOp) :
    (registryAfter r ops).prompts ≠ [] ↔ (r.prompts ≠ [] ∨ ops.any regsPrompt = true) := by
  induction ops generalizing r with
  | nil => simp [registryAfter]
  | cons op ops ih =>
    cases op with
    | init v => simp [registryAfter, ih, regsPrompt]
    | reg o =>
      cases o <;> simp only [registryAfter, ih, Registry.apply, List.any_cons, regsPrompt, Bool.false_or]
      case prompt n =>
        rw [insertKey_ne_nil]
        cases n <;> simp

private theorem registryAfter_resources (r : Registry) (ops : List SOp) :
    (registryAfter r ops).resources ≠ [] ↔ (r.resources ≠ [] ∨ ops.any regsResource = true) := by
  induction ops generalizing r with
  | nil => simp [registryAfter]
  | cons op ops ih =>
    cases op with
    | init v => simp [registryAfter, ih, regsResource]
    | reg o =>
      cases o <;> simp only [registryAfter, ih, Registry.apply, List.any_cons, regsResource, Bool.false_or]
      case resource n =>
        rw [insertKey_ne_nil]
        cases n <;> simp

/-- Every initialize answer of a history is computed from the registry *at that time*: the answer that follows the
    operations `pre` is the answer for the registry `pre` leaves behind. -/
theorem C16_answer_at_time (c : SrvCfg) (pre : List SOp) (v : Text) (post : List SOp) :
    (serverRun c {} (pre ++ .init v :: post))[(serverRun c {} pre).length]? =
      some (answerInit c (registryAfter {} pre) v) := by
  suffices ∀ r, (serverRun c r (pre ++ .init v :: post))[(serverRun c r pre).length]? =
      some (answerInit c (registryAfter r pre) v) from this {}
  induction pre with
  | nil => intro r; simp [serverRun, registryAfter]
  | cons op pre ih =>
    intro r
    cases op with
    | reg o => simpa [serverRun, registryAfter] using ih (r.apply o)
    | init w => simpa [serverRun, registryAfter] using ih r

/-- … so, from an empty server: prompts (resources) are advertised exactly when some earlier operation registered a
    prompt (resource) under a non-empty key; tools always — for every history of registrations and initializes. -/
theorem C16_caps_at_time (c : SrvCfg) (pre : List SOp) (v : Text) :
    let a := answerInit c (registryAfter {} pre) v
    a.caps.tools = true ∧
    (a.caps.prompts = true ↔ ∃ n, n ≠ [] ∧ SOp.reg (.prompt n) ∈ pre) ∧
    (a.caps.resources = true ↔ ∃ u, u ≠ [] ∧ SOp.reg (.resource u) ∈ pre) := by
  refine ⟨rfl, ?_, ?_⟩
  · show (capabilities _).prompts = true ↔ _
    rw [(C16_caps _).2.1, registryAfter_prompts]
    simp only [ne_eq, not_true_eq_false, false_or, List.any_eq_true]
    constructor
    · rintro ⟨op, hm, hp⟩
      cases op with
      | init w => simp [regsPrompt] at hp
      | reg o => cases o <;> simp [regsPrompt] at hp; exact ⟨_, hp, hm⟩
    · rintro ⟨n, hn, hm⟩; exact ⟨_, hm, by simp [regsPrompt, hn]⟩
  · show (capabilities _).resources = true ↔ _
    rw [(C16_caps _).2.2, registryAfter_resources]
    simp only [ne_eq, not_true_eq_false, false_or, List.any_eq_true]
    constructor
    · rintro ⟨op, hm, hp⟩
      cases op with
      | init w => simp [regsResource] at hp
      | reg o => cases o <;> simp [regsResource] at hp; exact ⟨_, hp, hm⟩
    · rintro ⟨n, hn, hm⟩; exact ⟨_, hm, by simp [regsResource, hn]⟩

/-- non-vacuity: registrations changing between two initializes change the second answer only. -/
example : (serverRun ⟨t!"s", t!"1", Mcp.Gen.supportedVersions, Mcp.Gen.defaultProtocolVersion⟩ {}
      [.init t!"x", .reg (.prompt t!"p"), .reg (.template t!"t"), .reg (.resource []), .init t!"2024-11-05"]).map
      (fun a => (a.protocol, a.caps)) =
    [(t!"2025-03-26", ⟨true, false, false⟩), (t!"2024-11-05", ⟨true, true, false⟩)] := by decide

/-! ## server: several initializes on one session -/

private theorem serverRun_append (c : SrvCfg) (r : Registry) (pre post : List SOp) :
    serverRun c r (pre ++ post) = serverRun c r pre ++ serverRun c (registryAfter r pre) post := by
  induction pre generalizing r with
  | nil => simp [serverRun, registryAfter]
  | cons op pre ih => cases op <;> simp [serverRun, registryAfter, ih]

private theorem registryAfter_eq_foldl (r : Registry) (ops : List SOp) :
    registryAfter r ops = (ops.filterMap regOf).foldl Registry.apply r := by
  induction ops generalizing r with
  | nil => rfl
  | cons op ops ih => cases op <;> simp [registryAfter, regOf, ih, List.filterMap_cons]

/-- An initialize that follows any history `pre` — earlier initializes with whatever versions included, on the same
    session or not: the model of the server has no per-session version — leaves the earlier answers alone and is answered
    from its own requested version and the registry of that moment only. -/
theorem C16_reinitialize (c : SrvCfg) (pre : List SOp) (v : Text) :
    serverRun c {} (pre ++ [.init v]) = serverRun c {} pre ++ [answerInit c (registryAfter {} pre) v] ∧
    (answerInit c (registryAfter {} pre) v).protocol = select c.supported c.dflt v := by
  refine ⟨?_, rfl⟩
  rw [serverRun_append]; rfl

/-- The answer does not depend on earlier initializes: two histories with the same registrations in the same order, and
    any initializes whatsoever in between, end with the same answer to a final `initialize v`. -/
theorem C16_answer_independent_of_earlier_initializes (c : SrvCfg) (pre pre' : List SOp) (v : Text)
    (h : pre.filterMap regOf = pre'.filterMap regOf) :
    (serverRun c {} (pre ++ [.init v])).getLast? = (serverRun c {} (pre' ++ [.init v])).getLast? ∧
    (serverRun c {} (pre ++ [.init v])).getLast? = some (answerInit c (registryAfter {} pre) v) := by
  rw [(C16_reinitialize c pre v).1, (C16_reinitialize c pre' v).1]
  simp [registryAfter_eq_foldl, h]

/-- On today's lists: whatever was negotiated before, a supported request is answered with itself and any other with
    the latest version. -/
theorem C16_reinitialize_version (name ver : Text) (pre : List SOp) (v : Text) :
    ∃ a, (serverRun ⟨name, ver, Mcp.Gen.supportedVersions, Mcp.Gen.defaultProtocolVersion⟩ {} (pre ++ [.init v])).getLast? = some a ∧
      (v ∈ Mcp.Gen.supportedVersions → a.protocol = v) ∧
      (v ∉ Mcp.Gen.supportedVersions → a.protocol = Mcp.Gen.defaultProtocolVersion) := by
  refine ⟨_, (C16_answer_independent_of_earlier_initializes _ pre pre v rfl).2, ?_, ?_⟩
  · exact (C16_negotiation v).2.1
  · exact fun h => ((C16_negotiation v).2.2 h).1

/-- The structure the absence of session state in the model rests on (regenerated): `handleInitialize` passes
    `selectSupportedVersion(requested)` unchanged to `buildInitializeResponse`, which stores it unchanged. -/
theorem C16_version_flow_fact : Mcp.Gen.initializeVersionDirect = true := by decide

/-- non-vacuity: newer then older, unsupported (falls back to the latest) then older, older then newer, and strings
    sorting below / above the supported ones in between — every answer follows its own request. -/
example : (serverRun ⟨t!"s", t!"1", Mcp.Gen.supportedVersions, Mcp.Gen.defaultProtocolVersion⟩ {}
      [.init t!"2025-03-26", .init t!"2024-11-05", .init t!"9999-12-31", .init t!"2024-11-05", .init t!"1999-01-01",
       .init t!"2025-03-26", .init [], .init t!"2024-11-05"]).map (fun a => a.protocol) =
    [t!"2025-03-26", t!"2024-11-05", t!"2025-03-26", t!"2024-11-05", t!"2025-03-26", t!"2025-03-26", t!"2025-03-26",
     t!"2024-11-05"] := by decide

/-! ## server: concurrent initializes -/

/-- With the good shape (one store of the finished map, in the only critical section; locked reader; nobody else) a
    handshake reads the finished map whatever the other handshakes of that server stored in between. -/
theorem C16_concurrent_caps (s : UpdShape) (hs : s.ok = true) (r : Registry) (others : List Caps)
    (h : ∀ x ∈ others, x ∈ storesOf s r) : readAfter (capabilities r) others = capabilities r := by
  unfold readAfter
  cases hl : others.getLast? with
  | none => rfl
  | some x =>
    have hx : x ∈ storesOf s r := h x (List.mem_of_getLast? hl)
    simpa [storesOf, hs] using hx

/-- Today's `updateCapabilities` / `buildInitializeResponse` have that shape (regenerated). -/
theorem C16_update_shape_fact : Mcp.Gen.updateCapabilitiesShape.ok = true := by decide

/-- … so every answer, also one computed while other clients shake hands, advertises tools, and prompts / resources
    exactly when the table is non-empty. -/
theorem C16_concurrent_caps_real (r : Registry) (others : List Caps)
    (h : ∀ x ∈ others, x ∈ storesOf Mcp.Gen.updateCapabilitiesShape r) :
    let a := readAfter (capabilities r) others
    a.tools = true ∧ (a.prompts = true ↔ r.prompts ≠ []) ∧ (a.resources = true ↔ r.resources ≠ []) := by
  simp only [C16_concurrent_caps _ C16_update_shape_fact r others h]
  exact C16_caps r

/-- The shape the fact rejects — "reset to the base map, unlock, ask the registries, lock, store the full map": another
    handshake's first store can be the last one before the read, and the answer lacks a registered kind. -/
theorem C16_split_update_witness :
    let s : UpdShape := ⟨2, 0, 0, 2, false, true, 0⟩
    let r : Registry := { prompts := [t!"p"], resources := [t!"u"] }
    s.ok = false ∧ ∃ others, (∀ x ∈ others, x ∈ storesOf s r) ∧
      (readAfter (capabilities r) others).prompts = false ∧ (readAfter (capabilities r) others).resources = false := by
  refine ⟨by decide, [baseCaps], ?_, by decide, by decide⟩
  intro x hx
  simp only [List.mem_singleton] at hx
  subst hx
  decide

/-! ## server: list filters -/

/-- With the good shape (`updateCapabilities` consults exactly the two unfiltered registry readers) the advertised
    capabilities do not depend on the caller or on any list filter: whatever `view` a caller's filters give it of the
    registry, the answer carries the capabilities of the registry itself. -/
theorem C16_caps_independent_of_filter (s : CapSources) (hs : s.ok = true) (view : Registry → Registry) (r : Registry) :
    capabilitiesSeen s view r = capabilities r := by
  simp [capabilitiesSeen, hs]

/-- Today's `updateCapabilities` calls `promptManager.getPrompts` and `resourceManager.getResources`, both plain
    registry readers (no parameter, no filter), nothing else, and takes nothing caller-dependent (regenerated). -/
theorem C16_capabilities_from_registries_fact : Mcp.Gen.capabilitySources.ok = true := by decide

/-- … so on any server, for any two callers (admin, guest, header-less: any views), after any history of registrations
    and initializes, the answer is the same and is the one of the filter-less model: prompts / resources exactly when a
    prompt / resource with a non-empty key has been registered. -/
theorem C16_caps_independent_of_filter_real (view view' : Registry → Registry) (pre : List SOp) :
    let r := registryAfter {} pre
    capabilitiesSeen Mcp.Gen.capabilitySources view r = capabilitiesSeen Mcp.Gen.capabilitySources view' r ∧
    capabilitiesSeen Mcp.Gen.capabilitySources view r = capabilities r ∧
    ((capabilitiesSeen Mcp.Gen.capabilitySources view r).prompts = true ↔ ∃ n, n ≠ [] ∧ SOp.reg (.prompt n) ∈ pre) ∧
    ((capabilitiesSeen Mcp.Gen.capabilitySources view r).resources = true ↔ ∃ u, u ≠ [] ∧ SOp.reg (.resource u) ∈ pre) := by
  have h := fun v => C16_caps_independent_of_filter _ C16_capabilities_from_registries_fact v (registryAfter {} pre)
  have hc := C16_caps_at_time ⟨[], [], [], []⟩ pre []
  refine ⟨by rw [h view, h view'], h view, ?_, ?_⟩
  · rw [h view]; exact hc.2.1
  · rw [h view]; exact hc.2.2

/-- The shape the fact rejects — the capabilities decided from `listPrompts(ctx)` / `listResources(ctx)`, the registry
    narrowed by the caller's list filter: a caller whose filter hides everything is told there are no prompts and no
    resources although both are registered, while another caller of the same server is told there are. -/
theorem C16_filtered_view_witness :
    let s : CapSources := ⟨[⟨t!"promptManager", t!"listPrompts", false⟩, ⟨t!"resourceManager", t!"listResources", false⟩], 0, 1, true⟩
    let r : Registry := { prompts := [t!"p"], resources := [t!"u"] }
    s.ok = false ∧
    capabilitiesSeen s (fun _ => {}) r = ⟨true, false, false⟩ ∧ capabilitiesSeen s id r = ⟨true, true, true⟩ ∧
    capabilities r = ⟨true, true, true⟩ := by decide

/-! ## client: single steps -/

/-- Before a successful handshake a guarded request operation fails with not-initialized, puts nothing on the wire and
    changes nothing (the wire counter included) — every kind, every state. -/
theorem C16_guard (G : Guards) (k : Kind) (sm : ClientSM) (o : OpK) (f : Bool)
    (hg : G.req o = true) (hi : sm.initialized = false) :
    step G k sm (.req o f) = (sm, .notInitialized, []) := by
  cases sm; simp_all [step, stepRaw, stepReq]

theorem C16_guard_roots (G : Guards) (k : Kind) (sm : ClientSM) (hg : G.roots = true) (hi : sm.initialized = false) :
    step G k sm .rootsChanged = (sm, .notInitialized, []) := by
  cases sm; simp_all [step, stepRaw, stepRoots]

/-- A second Initialize is refused, without traffic and without any change, whatever the environment would do. -/
theorem C16_second_init_refused (G : Guards) (k : Kind) (sm : ClientSM) (e : InitEnv) (hi : sm.initialized = true) :
    step G k sm (.init e) = (sm, .alreadyInitialized, []) := by
  cases sm; simp_all [step, stepRaw, stepInit]

/-- After Close — error-free, or with the transport's close() reporting an error (`f`) — the client is uninitialized and
    reports disconnected, nothing was put on the wire, and the result is the transport's (Close resets on every path:
    `G.closeResets`). -/
theorem C16_close_resets (G : Guards) (k : Kind) (sm : ClientSM) (f : Bool) (hc : G.closeResets = true) :
    (step G k sm (.close f)).1.initialized = false ∧ (step G k sm (.close f)).1.state = .disconnected ∧
    (step G k sm (.close f)).2 = (if f then .failed else .ok, []) := by
  cases k <;> cases f <;> simp [step, stepRaw, stepCloseOp, stepClose, hc]

/-- An error-free Close resets whatever the shape of Close is. -/
theorem C16_close_ok_resets (G : Guards) (k : Kind) (sm : ClientSM) :
    (step G k sm (.close false)).1.initialized = false ∧ (step G k sm (.close false)).1.state = .disconnected ∧
    (step G k sm (.close false)).2 = (.ok, []) := by
  cases k <;> simp [step, stepRaw, stepCloseOp, stepClose]

/-- "Uninitialized again after Close", whatever Close returned: the next request operation fails with not-initialized
    and touches nothing — every kind, every state before, both outcomes of the transport's close(). -/
theorem C16_after_close_refused (G : Guards) (k : Kind) (sm : ClientSM) (f : Bool) (o : OpK) (g : Bool)
    (hc : G.closeResets = true) (hg : G.req o = true) :
    step G k (step G k sm (.close f)).1 (.req o g) = ((step G k sm (.close f)).1, .notInitialized, []) :=
  C16_guard G k _ o g hg (C16_close_resets G k sm f hc).1

/-- The streamable transport reopens: after any Close a handshake in a benign environment succeeds again;
    the legacy SSE and the stdio transport close for good: it fails, without traffic, and the client stays uninitialized. -/
theorem C16_init_after_close (G : Guards) (k : Kind) (sm : ClientSM) (f : Bool) (hc : G.closeResets = true) :
    let o := step G k (step G k sm (.close f)).1 (.init .ok)
    (k = .streamable → o.2.1 = .ok ∧ o.1.initialized = true ∧ o.1.state = .initialized) ∧
    (k ≠ .streamable → o.2 = (.failed, []) ∧ o.1.initialized = false ∧ o.1.state = .disconnected) := by
  cases k <;> cases f <;>
    simp [step, stepRaw, stepCloseOp, stepClose, hc, stepInit, envValid, initStages, succeedInit, failInit]

private theorem initStages_cases (sm : ClientSM) (pre : List Msg) (e : InitEnv) (s : Bool) :
    ((initStages sm pre e s).2.1 = .ok ∧ e = .ok ∧ (initStages sm pre e s).1.initialized = true ∧
        (initStages sm pre e s).1.state = .initialized ∧ (initStages sm pre e s).2.2 = pre ++ [.initReq, .initNotif]) ∨
    ((initStages sm pre e s).2.1 = .failed ∧ e ≠ .ok ∧ (initStages sm pre e s).1.initialized = sm.initialized ∧
        (initStages sm pre e s).1.state = .disconnected) := by
  cases e <;> simp [initStages, failInit, succeedInit]

/-- An Initialize that is not refused either succeeds — only when every stage succeeded — and the client is
    initialized, or breaks at some stage and the client is uninitialized and reports disconnected. -/
theorem C16_init_outcome (G : Guards) (k : Kind) (sm : ClientSM) (e : InitEnv) (hi : sm.initialized = false)
    (hv : envValid k e = true) :
    let o := step G k sm (.init e)
    (o.2.1 = .ok ∧ e = .ok ∧ o.1.initialized = true ∧ o.1.state = .initialized) ∨
    (o.2.1 = .failed ∧ o.1.initialized = false ∧ o.1.state = .disconnected) := by
  simp only [step, stepRaw, stepInit, hi, hv]
  cases k with
  | streamable =>
    rcases initStages_cases sm [] e true with ⟨h1, h2, h3, h4, _⟩ | ⟨h1, _, h3, h4⟩
    · left; simp_all
    · right; simp_all
  | sse =>
    by_cases hc : sm.closed = true
    · right; simp [hc, failInit, hi]
    · by_cases hs : sm.started = true
      · rcases initStages_cases sm [] e false with ⟨h1, h2, h3, h4, _⟩ | ⟨h1, _, h3, h4⟩
        · left; simp_all
        · right; simp_all
      · by_cases he : e = .netErr
        · right; simp [hc, hs, he, failInit, hi]
        · rcases initStages_cases { sm with started := true } [.get] e false with ⟨h1, h2, h3, h4, _⟩ | ⟨h1, _, h3, h4⟩
          · left; simp_all
          · right; simp_all
  | stdio =>
    by_cases hc : sm.closed = true
    · right; simp [hc, failInit, hi]
    · rcases initStages_cases { sm with started := true } [] e false with ⟨h1, h2, h3, h4, _⟩ | ⟨h1, _, h3, h4⟩
      · left; simp_all
      · right; simp_all

/-- A failed handshake leaves the client uninitialized (stated on the result alone). -/
theorem C16_failed_init_resets (G : Guards) (k : Kind) (sm : ClientSM) (e : InitEnv)
    (h : (step G k sm (.init e)).2.1 = .failed) :
    (step G k sm (.init e)).1.initialized = false ∧ (step G k sm (.init e)).1.state = .disconnected := by
  by_cases hi : sm.initialized = true
  · rw [C16_second_init_refused G k sm e hi] at h; cases h
  · have hi' : sm.initialized = false := by simpa using hi
    by_cases hv : envValid k e = true
    · rcases C16_init_outcome G k sm e hi' hv with ⟨h1, _⟩ | ⟨_, h2, h3⟩
      · rw [h1] at h; cases h
      · exact ⟨h2, h3⟩
    · simp [step, stepRaw, stepInit, hi', hv] at h

/-- A handshake that breaks at the request or at its answer — network failure, HTTP 500, no usable answer, a refusal
    (also one that carries a `result` next to its `error`), an unparsable result — puts no `notifications/initialized`
    on the wire: on every kind, in every state. -/
theorem C16_no_initialized_notification_after_refusal (G : Guards) (k : Kind) (sm : ClientSM) (e : InitEnv)
    (h1 : e ≠ .ok) (h2 : e ≠ .dropNotif) : Msg.initNotif ∉ (step G k sm (.init e)).2.2 := by
  cases e <;> simp at h1 h2 <;> cases k <;>
    simp [step, stepRaw, stepInit, envValid, initStages, failInit] <;> (repeat' split) <;> simp

/-- non-vacuity: the answer never comes (stdio), a refusal, then a good handshake: the request is the only message of
    each broken handshake, operations in between are refused without traffic. -/
example : trace Guards.all .stdio {} [.init .noAnswer, .req .listTools false, .init .rpcErr, .rootsChanged, .init .ok, .req .listTools false] =
    [(.failed, .disconnected, [.initReq]), (.notInitialized, .disconnected, []), (.failed, .disconnected, [.initReq]),
     (.notInitialized, .disconnected, []), (.ok, .initialized, [.initReq, .initNotif]), (.ok, .initialized, [.req .listTools])] := by decide

/-- streamable: no answer teaches the client no session id (TerminateSession then has nothing to delete), a refusal does. -/
example : trace Guards.all .streamable {} [.init .noAnswer, .terminate false, .init .rpcErr, .terminate false] =
    [(.failed, .disconnected, [.initReq]), (.failed, .disconnected, []), (.failed, .disconnected, [.initReq]),
     (.ok, .disconnected, [.delete])] := by decide

/-! ## client: an answer that carries an `error` member is a refusal -/

/-- Whenever the chain starts with the `error` test, a message with an id and an `error` member is an error response,
    whatever else it carries (a `result`, null or not, in particular). -/
theorem C16_error_member_wins (chain : List (Text × Text)) (rest : List (Text × Text))
    (h : chain = (t!"error", t!"JSONRPCMessageTypeError") :: rest) (members : List Text) (he : t!"error" ∈ members) :
    classifyById chain members = t!"JSONRPCMessageTypeError" := by
  subst h; simp [classifyById, he]

/-- Today's `parseJSONRPCMessageType` tests `error` first, then `result` (regenerated). -/
theorem C16_message_type_chain_fact :
    Mcp.Gen.messageTypeChain =
      [(t!"error", t!"JSONRPCMessageTypeError"), (t!"result", t!"JSONRPCMessageTypeResponse")] := by decide

theorem C16_error_member_wins_real (members : List Text) (he : t!"error" ∈ members) :
    classifyById Mcp.Gen.messageTypeChain members = t!"JSONRPCMessageTypeError" :=
  C16_error_member_wins _ _ C16_message_type_chain_fact members he

/-- The order the fact rejects (`result` tested first): a refusal that also carries a `result` member is taken for a
    success response — the stdio transport then hands `Initialize` a result and the handshake "succeeds". -/
theorem C16_result_first_witness :
    classifyById [(t!"result", t!"JSONRPCMessageTypeResponse"), (t!"error", t!"JSONRPCMessageTypeError")]
      [t!"jsonrpc", t!"id", t!"result", t!"error"] = t!"JSONRPCMessageTypeResponse" := by decide

/-- Both `Initialize` functions test `isErrorResponse` (which looks at the `error` member only) in a top-level `if`
    whose every path returns an error, before they parse the result (regenerated). -/
theorem C16_refusal_checked_first_fact :
    Mcp.Gen.refusalCheckedFirst = [(t!"Client", true), (t!"StdioClient", true)] := by decide

/-! ## client: invariants over all histories -/

/-- Flag and reported state agree; `connected` is never reported between calls; an initialized client of a closing
    transport (sse, stdio) has a started, open transport. -/
def Inv (k : Kind) (sm : ClientSM) : Prop :=
  (sm.state = .initialized ↔ sm.initialized = true) ∧ sm.state ≠ .connected ∧
  (sm.initialized = true → k ≠ .streamable → sm.started = true ∧ sm.closed = false)

private theorem stepRaw_flags (G : Guards) (k : Kind) (sm : ClientSM) (op : Op) :
    (step G k sm op).1.initialized = (stepRaw G k sm op).1.initialized ∧
    (step G k sm op).1.state = (stepRaw G k sm op).1.state ∧
    (step G k sm op).1.started = (stepRaw G k sm op).1.started ∧
    (step G k sm op).1.closed = (stepRaw G k sm op).1.closed ∧
    (step G k sm op).2 = (stepRaw G k sm op).2 := by
  simp [step]

private theorem xmitRequest_keeps (k : Kind) (sm sm' : ClientSM) (m : Msg) (log : List Msg)
    (h : xmitRequest k sm m = some (sm', log)) :
    sm'.initialized = sm.initialized ∧ sm'.state = sm.state ∧ sm'.closed = sm.closed ∧
    (sm.started = true → sm'.started = true) ∧ sm'.session = sm.session ∧ sm'.sends = sm.sends := by
  cases k <;> simp only [xmitRequest] at h
  · cases h; simp
  · split at h
    · cases h
    · split at h <;> cases h <;> simp
  · split at h
    · cases h
    · cases h; simp

private theorem xmitNotification_keeps (k : Kind) (sm sm' : ClientSM) (m : Msg) (log : List Msg)
    (h : xmitNotification k sm m = some (sm', log)) :
    sm'.initialized = sm.initialized ∧ sm'.state = sm.state ∧ sm'.closed = sm.closed ∧
    (sm.started = true → sm'.started = true) ∧ sm'.session = sm.session ∧ sm'.sends = sm.sends ∧ log = [m] := by
  cases k <;> simp only [xmitNotification] at h
  · cases h; simp
  · split at h <;> cases h; simp
  · split at h
    · cases h
    · cases h; simp

private theorem stepNotify_keeps (k : Kind) (sm : ClientSM) (m : Msg) :
    (stepNotify k sm m).1.initialized = sm.initialized ∧ (stepNotify k sm m).1.state = sm.state ∧
    (stepNotify k sm m).1.closed = sm.closed ∧ (sm.started = true → (stepNotify k sm m).1.started = true) := by
  unfold stepNotify
  cases h : xmitNotification k sm m with
  | none => simp
  | some p =>
    obtain ⟨sm', log⟩ := p
    have := xmitNotification_keeps k sm sm' m log h
    exact ⟨this.1, this.2.1, this.2.2.1, this.2.2.2.1⟩

private theorem stepNotify_wire (k : Kind) (sm : ClientSM) (m : Msg) :
    (stepNotify k sm m).1.sends = sm.sends ∧ ((stepNotify k sm m).2.2 = [] ∨ (stepNotify k sm m).2.2 = [m]) := by
  unfold stepNotify
  cases h : xmitNotification k sm m with
  | none => simp
  | some p =>
    obtain ⟨sm', log⟩ := p
    have := xmitNotification_keeps k sm sm' m log h
    exact ⟨this.2.2.2.2.2.1, Or.inr this.2.2.2.2.2.2⟩

private theorem stepReq_keeps (G : Guards) (k : Kind) (sm : ClientSM) (o : OpK) (f : Bool) :
    (stepReq G k sm o f).1.initialized = sm.initialized ∧ (stepReq G k sm o f).1.state = sm.state ∧
    (stepReq G k sm o f).1.closed = sm.closed ∧ (sm.started = true → (stepReq G k sm o f).1.started = true) := by
  unfold stepReq
  split
  · simp
  · cases h : xmitRequest k sm (.req o) with
    | none => simp
    | some p =>
      obtain ⟨sm', log⟩ := p
      have := xmitRequest_keeps k sm sm' _ log h
      exact ⟨this.1, this.2.1, this.2.2.1, this.2.2.2.1⟩

private theorem stepReq_sends (G : Guards) (k : Kind) (sm : ClientSM) (o : OpK) (f : Bool) :
    (stepReq G k sm o f).1.sends = sm.sends := by
  unfold stepReq
  split
  · rfl
  · cases h : xmitRequest k sm (.req o) with
    | none => rfl
    | some p =>
      obtain ⟨sm', log⟩ := p
      exact (xmitRequest_keeps k sm sm' _ log h).2.2.2.2.2

private theorem inv_of_keeps (k : Kind) (sm sm' : ClientSM) (h : Inv k sm)
    (h1 : sm'.initialized = sm.initialized) (h2 : sm'.state = sm.state) (h3 : sm'.closed = sm.closed)
    (h4 : sm.started = true → sm'.started = true) : Inv k sm' := by
  obtain ⟨a, b, c⟩ := h
  refine ⟨by rw [h1, h2]; exact a, by rw [h2]; exact b, ?_⟩
  intro hi hk
  rw [h1] at hi
  have := c hi hk
  exact ⟨h4 this.1, by rw [h3]; exact this.2⟩

private theorem inv_initStages (k : Kind) (sm : ClientSM) (pre : List Msg) (e : InitEnv) (s : Bool)
    (hi : sm.initialized = false) (hs : k ≠ .streamable → sm.started = true ∧ sm.closed = false) :
    Inv k (initStages sm pre e s).1 := by
  cases e <;> simp [initStages, failInit, succeedInit, Inv, hi] <;> exact hs

theorem C16_inv_step (G : Guards) (k : Kind) (sm : ClientSM) (op : Op) (hc : G.closeResets = true) (h : Inv k sm) :
    Inv k (step G k sm op).1 := by
  have hf := stepRaw_flags G k sm op
  suffices hr : Inv k (stepRaw G k sm op).1 by
    obtain ⟨a, b, c⟩ := hr
    exact ⟨by rw [hf.1, hf.2.1]; exact a, by rw [hf.2.1]; exact b, by rw [hf.1, hf.2.2.1, hf.2.2.2.1]; exact c⟩
  cases op with
  | init e =>
    simp only [stepRaw, stepInit]
    by_cases hi : sm.initialized = true
    · simp [hi]; exact h
    · have hi' : sm.initialized = false := by simpa using hi
      simp only [hi', Bool.false_eq_true, if_false]
      by_cases hv : envValid k e = true
      · simp only [hv, Bool.not_true, Bool.false_eq_true, if_false]
        have hdisc : ∀ log, Inv k (failInit sm log).1 := by
          intro log; simp [failInit, Inv, hi']
        cases k with
        | streamable => exact inv_initStages _ sm [] e true hi' (fun hk => absurd rfl hk)
        | sse =>
          simp only
          by_cases hc : sm.closed = true
          · simp [hc]; exact hdisc []
          · have hc' : sm.closed = false := by simpa using hc
            by_cases hs : sm.started = true
            · simp only [hc', hs, Bool.false_eq_true, if_false, if_true]
              exact inv_initStages _ sm [] e false hi' (fun _ => ⟨hs, hc'⟩)
            · by_cases he : e = .netErr
              · simp [hc', hs, he]; exact hdisc _
              · simp only [hc', hs, he, Bool.false_eq_true, if_false]
                exact inv_initStages _ _ [.get] e false (by simp_all) (fun _ => ⟨rfl, by simp_all⟩)
        | stdio =>
          simp only
          by_cases hc : sm.closed = true
          · simp [hc]; exact hdisc []
          · have hc' : sm.closed = false := by simpa using hc
            simp only [hc', Bool.false_eq_true, if_false]
            exact inv_initStages _ _ [] e false (by simp_all) (fun _ => ⟨rfl, by simp_all⟩)
      · simp [hv]; exact h
  | req o f =>
    have := stepReq_keeps G k sm o f
    exact inv_of_keeps k sm _ h this.1 this.2.1 this.2.2.1 this.2.2.2
  | rootsChanged =>
    simp only [stepRaw, stepRoots]
    split
    · exact h
    · have := stepNotify_keeps k sm .rootsChanged
      exact inv_of_keeps k sm _ h this.1 this.2.1 this.2.2.1 this.2.2.2
  | sendInitialized =>
    cases k with
    | stdio => exact h
    | streamable =>
      have := stepNotify_keeps .streamable sm .initNotif
      exact inv_of_keeps _ sm _ h this.1 this.2.1 this.2.2.1 this.2.2.2
    | sse =>
      have := stepNotify_keeps .sse sm .initNotif
      exact inv_of_keeps _ sm _ h this.1 this.2.1 this.2.2.1 this.2.2.2
  | terminate tf =>
    cases k with
    | stdio => exact h
    | sse => exact h
    | streamable =>
      cases tf <;> simp only [stepRaw] <;> split <;>
        first | exact h | exact inv_of_keeps _ sm _ h rfl rfl rfl (fun x => x)
  | restart =>
    cases k <;> first | exact h | simp [stepRaw, stepClose, Inv]
  | close f =>
    cases k <;> cases f <;> simp [stepRaw, stepCloseOp, stepClose, Inv, hc]

theorem C16_inv_init (k : Kind) : Inv k {} := by simp [Inv]

private theorem final_cons (G : Guards) (k : Kind) (sm : ClientSM) (op : Op) (ops : List Op) :
    final G k sm (op :: ops) = final G k (step G k sm op).1 ops := by
  simp [final, run]

private theorem trace_cons (G : Guards) (k : Kind) (sm : ClientSM) (op : Op) (ops : List Op) :
    trace G k sm (op :: ops) =
      ((step G k sm op).2.1, (step G k sm op).1.state, (step G k sm op).2.2) :: trace G k (step G k sm op).1 ops := by
  simp [trace, run]

/-- Reported state and flag are consistent after every history on every kind of client: `initialized` is reported
    exactly when the flag is set, `connected` is never left behind. -/
theorem C16_state_consistent (G : Guards) (k : Kind) (ops : List Op) (hc : G.closeResets = true) :
    Inv k (final G k {} ops) := by
  suffices ∀ sm, Inv k sm → Inv k (final G k sm ops) from this {} (C16_inv_init k)
  induction ops with
  | nil => intro sm h; exact h
  | cons op ops ih => intro sm h; rw [final_cons]; exact ih _ (C16_inv_step G k sm op hc h)

/-- One step moves the reported state exactly as the specification of "what happened" says. -/
theorem C16_state_step (G : Guards) (k : Kind) (sm : ClientSM) (op : Op) (hc : G.closeResets = true) :
    (step G k sm op).1.state = specState sm.state op (step G k sm op).2.1 := by
  rw [(stepRaw_flags G k sm op).2.1, (stepRaw_flags G k sm op).2.2.2.2]
  cases op with
  | init e =>
    by_cases hi : sm.initialized = true
    · simp [stepRaw, stepInit, hi, specState]
    · have hi' : sm.initialized = false := by simpa using hi
      by_cases hv : envValid k e = true
      · have := C16_init_outcome G k sm e hi' hv
        simp only [step] at this
        rcases this with ⟨h1, _, _, h4⟩ | ⟨h1, _, h3⟩
        · simp only [h1, h4, specState]
        · simp only [h1, h3, specState]
      · simp [stepRaw, stepInit, hi', hv, specState]
  | req o f =>
    have := stepReq_keeps G k sm o f
    simp only [stepRaw, this.2.1, specState]
  | rootsChanged =>
    simp only [stepRaw, stepRoots]
    split
    · simp [specState]
    · simp only [(stepNotify_keeps k sm .rootsChanged).2.1, specState]
  | sendInitialized =>
    cases k <;> simp only [stepRaw, specState, (stepNotify_keeps _ sm .initNotif).2.1]
  | terminate tf =>
    cases k <;> cases tf <;> simp only [stepRaw, specState]
    all_goals (split <;> rfl)
  | restart =>
    cases k <;> simp [stepRaw, specState, stepClose]
  | close f =>
    cases k <;> cases f <;> simp [stepRaw, specState, stepCloseOp, stepClose, hc]

/-- The state reported after each call of a history is the specification folded over the results so far:
    initialized exactly while the most recent of {successful Initialize, broken Initialize, Close, RestartProcess} is a
    successful Initialize. -/
theorem C16_state_reflects_history (G : Guards) (k : Kind) (sm : ClientSM) (ops : List Op) (hc : G.closeResets = true) :
    states (trace G k sm ops) = specStates sm.state (ops.zip (results (trace G k sm ops))) := by
  induction ops generalizing sm with
  | nil => simp [trace, run, states, results, specStates]
  | cons op ops ih =>
    rw [trace_cons]
    simp only [states, results, List.map_cons, List.zip_cons_cons, specStates]
    rw [← C16_state_step G k sm op hc]
    have := ih (step G k sm op).1
    simp only [states, results] at this
    rw [this]

/-! ## client: no operation on the wire before a successful handshake -/

/-- A request message is put on the wire only by an initialized client (all guards in place). -/
theorem C16_request_needs_handshake (G : Guards) (k : Kind) (sm : ClientSM) (op : Op) (o : OpK)
    (hg : ∀ o, G.req o = true) (hm : Msg.req o ∈ (step G k sm op).2.2) : sm.initialized = true := by
  rw [(stepRaw_flags G k sm op).2.2.2.2] at hm
  cases hi : sm.initialized with
  | true => rfl
  | false =>
    exfalso
    cases op with
    | init e =>
      simp only [stepRaw, stepInit, hi] at hm
      by_cases hv : envValid k e = true
      · cases k <;> cases e <;> simp [hv, initStages, failInit, succeedInit] at hm <;>
          (repeat' split at hm) <;> simp at hm
      · simp [hv] at hm
    | req o' f => simp [stepRaw, stepReq, hg, hi] at hm
    | rootsChanged =>
      simp only [stepRaw, stepRoots] at hm
      split at hm
      · simp at hm
      · rcases (stepNotify_wire k sm .rootsChanged).2 with h | h <;> rw [h] at hm <;> simp at hm
    | sendInitialized =>
      cases k <;> simp only [stepRaw] at hm
      · rcases (stepNotify_wire .streamable sm .initNotif).2 with h | h <;> rw [h] at hm <;> simp at hm
      · rcases (stepNotify_wire .sse sm .initNotif).2 with h | h <;> rw [h] at hm <;> simp at hm
      · simp at hm
    | terminate tf =>
      cases k <;> simp only [stepRaw] at hm <;> (repeat' split at hm) <;> simp at hm
    | restart => cases k <;> simp [stepRaw] at hm
    | close f => simp only [stepRaw, stepCloseOp] at hm; split at hm <;> simp at hm

/-- Without a successful Initialize somewhere in the history, the flag never rises … -/
private theorem no_ok_stays_uninit (G : Guards) (k : Kind) (sm : ClientSM) (op : Op)
    (hi : sm.initialized = false) (hop : op ≠ .init .ok) : (step G k sm op).1.initialized = false := by
  rw [(stepRaw_flags G k sm op).1]
  cases op with
  | init e =>
    by_cases hv : envValid k e = true
    · rcases C16_init_outcome G k sm e hi hv with ⟨_, he, _⟩ | ⟨_, h2, _⟩
      · subst he; exact absurd rfl hop
      · rw [← (stepRaw_flags G k sm (.init e)).1]; exact h2
    · simp [stepRaw, stepInit, hi, hv]
  | req o f => rw [show (stepRaw G k sm (.req o f)) = stepReq G k sm o f from rfl, (stepReq_keeps G k sm o f).1]; exact hi
  | rootsChanged =>
    simp only [stepRaw, stepRoots]
    split
    · exact hi
    · rw [(stepNotify_keeps k sm .rootsChanged).1]; exact hi
  | sendInitialized =>
    cases k <;> simp only [stepRaw] <;> first | exact hi | (rw [(stepNotify_keeps _ sm .initNotif).1]; exact hi)
  | terminate tf =>
    cases k <;> cases tf <;> simp only [stepRaw] <;> (try split) <;> first | exact hi | (simp; exact hi)
  | restart => cases k <;> simp [stepRaw, stepClose, hi]
  | close f => simp only [stepRaw, stepCloseOp]; split <;> cases k <;> simp [stepClose, hi]

/-- … so a history without a successful handshake — failed ones, operations, notifications, Close in any order and
    number — puts no operation request on the wire, on any kind of client. -/
theorem C16_no_request_before_handshake (G : Guards) (k : Kind) (ops : List Op)
    (hg : ∀ o, G.req o = true) (hno : Op.init .ok ∉ ops) (o : OpK) : Msg.req o ∉ wire G k {} ops := by
  suffices ∀ sm, sm.initialized = false → Msg.req o ∉ wire G k sm ops from this {} rfl
  induction ops with
  | nil => intro sm _; simp [wire, trace, run]
  | cons op ops ih =>
    intro sm hi
    have hop : op ≠ .init .ok := fun e => hno (by simp [e])
    have hrest : Op.init .ok ∉ ops := fun h => hno (List.mem_cons_of_mem _ h)
    simp only [wire, trace_cons, List.flatMap_cons, List.mem_append, not_or]
    refine ⟨?_, ih hrest _ (no_ok_stays_uninit G k sm op hi hop)⟩
    intro hm
    have := C16_request_needs_handshake G k sm op o hg hm
    rw [hi] at this; cases this

/-- The wire counter counts exactly the messages of the log. -/
theorem C16_sends_counts_wire (G : Guards) (k : Kind) (sm : ClientSM) (ops : List Op) :
    (final G k sm ops).sends = sm.sends + (wire G k sm ops).length := by
  induction ops generalizing sm with
  | nil => simp [final, wire, trace, run]
  | cons op ops ih =>
    rw [final_cons, ih]
    simp only [wire, trace_cons, List.flatMap_cons, List.length_append]
    have : (step G k sm op).1.sends = sm.sends + (step G k sm op).2.2.length := by
      simp only [step]
      suffices (stepRaw G k sm op).1.sends = sm.sends by omega
      cases op with
      | init e =>
        simp only [stepRaw, stepInit]
        (repeat' split) <;> first | rfl | (cases e <;> simp [initStages, failInit, succeedInit]) | simp [failInit]
      | req o f => exact stepReq_sends G k sm o f
      | rootsChanged =>
        simp only [stepRaw, stepRoots]
        split
        · rfl
        · exact (stepNotify_wire k sm .rootsChanged).1
      | sendInitialized =>
        cases k <;> simp only [stepRaw] <;> first | rfl | exact (stepNotify_wire _ sm .initNotif).1
      | terminate tf => cases k <;> simp only [stepRaw] <;> (repeat' split) <;> rfl
      | restart => cases k <;> simp [stepRaw, stepClose]
      | close f => simp only [stepRaw, stepCloseOp]; split <;> cases k <;> simp [stepClose]
    omega

/-! ## the regenerated facts about the client sources -/

/-- The statement in full: every exported method of `Client` / `StdioClient` that puts a request or a notification on
    the wire is guarded.  False on the tree where `SendRootsListChangedNotification` has no guard (D26): see
    `C16_ops_guarded_partial` and `C16_unguarded_roots_witness`. -/
def AllOpsGuarded (facts : List OpFact) : Prop :=
  ∀ f ∈ facts, (f.cls = 2 ∨ f.cls = 3) → f.guarded = true

/-- What holds of today's source: every request operation is guarded, every method is recognised, and the only
    unguarded notification operations are the roots notification(s) (the finding). -/
theorem C16_ops_guarded_partial :
    (Mcp.Gen.clientOps.all (fun f =>
      (f.cls != 2 || f.guarded) && f.cls != 4 && f.cls ≤ 4 &&
      (f.cls != 3 || f.guarded || f.name == t!"SendRootsListChangedNotification"))) = true := by decide

/-- The six request operations of the model are guarded on both client types, as read from the source today. -/
theorem C16_request_ops_guarded (k : Kind) (o : OpK) : (guardsOf Mcp.Gen.clientOps Mcp.Gen.clientLifecycleFacts k).req o = true := by
  cases k <;> cases o <;> decide

/-- Initialize refuses a second call first, sets the flag once and only on the success path, every failure path
    reports disconnected, Close resets flag and state — on both client types. -/
theorem C16_lifecycle_facts :
    Mcp.Gen.clientLifecycleFacts.map (fun x => x.1) = [t!"Client", t!"StdioClient"] ∧
    (Mcp.Gen.clientLifecycleFacts.all (fun x => x.2.1 && x.2.2.1 && x.2.2.2.1 && x.2.2.2.2)) = true := by decide

/-- The guard theorems for the guards actually in the source: on all three kinds, a request operation on an
    uninitialized client returns not-initialized, sends nothing, changes nothing. -/
theorem C16_guard_real (k : Kind) (sm : ClientSM) (o : OpK) (f : Bool) (hi : sm.initialized = false) :
    step (guardsOf Mcp.Gen.clientOps Mcp.Gen.clientLifecycleFacts k) k sm (.req o f) = (sm, .notInitialized, []) :=
  C16_guard _ k sm o f (C16_request_ops_guarded k o) hi

theorem C16_no_request_before_handshake_real (k : Kind) (ops : List Op) (hno : Op.init .ok ∉ ops) (o : OpK) :
    Msg.req o ∉ wire (guardsOf Mcp.Gen.clientOps Mcp.Gen.clientLifecycleFacts k) k {} ops :=
  C16_no_request_before_handshake _ k ops (C16_request_ops_guarded k) hno o

/-- Witness for the missing guard: with `roots := false` a fresh streamable client that never shook hands puts the
    roots notification on the wire and reports success. -/
theorem C16_unguarded_roots_witness :
    step ⟨fun _ => true, false, true⟩ .streamable {} .rootsChanged =
      ({ sends := 1 }, .ok, [.rootsChanged]) := by decide

/-- Close as read from the source today resets flag and state on every path after the transport's close(), on both
    client types (so on all three kinds of client). -/
theorem C16_close_resets_fact (k : Kind) :
    (guardsOf Mcp.Gen.clientOps Mcp.Gen.clientLifecycleFacts k).closeResets = true := by
  cases k <;> decide

/-- Hence for the real clients: after Close, whether or not the transport's close() failed (child already dead and
    reaped, failed kill), the client is uninitialized and disconnected, every request operation is refused with
    not-initialized without traffic, the streamable client can shake hands again, the reported state follows the
    specification over every history with faulted Closes in it, and flag and state stay consistent. -/
theorem C16_close_real (k : Kind) (sm : ClientSM) (f : Bool) (o : OpK) (g : Bool) :
    let G := guardsOf Mcp.Gen.clientOps Mcp.Gen.clientLifecycleFacts k
    (step G k sm (.close f)).1.initialized = false ∧ (step G k sm (.close f)).1.state = .disconnected ∧
    (step G k sm (.close f)).2.2 = [] ∧
    step G k (step G k sm (.close f)).1 (.req o g) = ((step G k sm (.close f)).1, .notInitialized, []) ∧
    (k = .streamable → (step G k (step G k sm (.close f)).1 (.init .ok)).2.1 = .ok) := by
  intro G
  have hc := C16_close_resets_fact k
  have h := C16_close_resets G k sm f hc
  refine ⟨h.1, h.2.1, by rw [h.2.2], C16_after_close_refused G k sm f o g hc (C16_request_ops_guarded k o), ?_⟩
  intro hk
  exact ((C16_init_after_close G k sm f hc).1 hk).1

theorem C16_state_reflects_history_real (k : Kind) (ops : List Op) :
    let G := guardsOf Mcp.Gen.clientOps Mcp.Gen.clientLifecycleFacts k
    states (trace G k {} ops) = specStates .disconnected (ops.zip (results (trace G k {} ops))) ∧ Inv k (final G k {} ops) :=
  ⟨C16_state_reflects_history _ k {} ops (C16_close_resets_fact k), C16_state_consistent _ k ops (C16_close_resets_fact k)⟩

/-- The bad region (seeded change C16-7): a Close that returns the transport error before the reset. A stdio client whose
    child died is still `initialized` after Close, and the next operation is answered by the closed transport (`failed`)
    instead of not-initialized; the specification of the reported state is violated. -/
theorem C16_close_fault_witness :
    trace ⟨fun _ => true, true, false⟩ .stdio {} [.init .ok, .close true, .req .listTools false] =
      [(.ok, .initialized, [.initReq, .initNotif]), (.failed, .initialized, []), (.failed, .initialized, [])] ∧
    trace Guards.all .stdio {} [.init .ok, .close true, .req .listTools false] =
      [(.ok, .initialized, [.initReq, .initNotif]), (.failed, .disconnected, []), (.notInitialized, .disconnected, [])] ∧
    lookupCloseResets [(t!"Client", true, true, true, true), (t!"StdioClient", true, true, true, false)] t!"StdioClient" = false := by
  decide

/-- … and with the guard in place it does not, on any kind, in any uninitialized state. -/
theorem C16_guarded_roots (k : Kind) (sm : ClientSM) (hi : sm.initialized = false) :
    step Guards.all k sm .rootsChanged = (sm, .notInitialized, []) :=
  C16_guard_roots _ k sm rfl hi

/-! ## non-vacuity -/

/-- operation before handshake, failed handshake, operation again, handshake, second handshake, operation, Close,
    operation, handshake after Close (streamable: works again). -/
example : trace Guards.all .streamable {}
      [.req .listTools false, .init .rpcErr, .req .callTool false, .init .ok, .init .ok, .req .callTool true, .close false,
       .req .readResource false, .init .ok] =
    [(.notInitialized, .disconnected, []), (.failed, .disconnected, [.initReq]), (.notInitialized, .disconnected, []),
     (.ok, .initialized, [.initReq, .initNotif]), (.alreadyInitialized, .initialized, []),
     (.rpcError, .initialized, [.req .callTool]), (.ok, .disconnected, []), (.notInitialized, .disconnected, []),
     (.ok, .initialized, [.initReq, .initNotif])] := by decide

/-- legacy SSE: the stream opened by a failed handshake is reused; after Close the transport stays closed. -/
example : trace Guards.all .sse {} [.init .netErr, .init .http500, .init .ok, .req .getPrompt false, .close false, .init .ok] =
    [(.failed, .disconnected, [.get]), (.failed, .disconnected, [.get, .initReq]), (.ok, .initialized, [.initReq, .initNotif]),
     (.ok, .initialized, [.req .getPrompt]), (.ok, .disconnected, []), (.failed, .disconnected, [])] := by decide

/-- Close meeting a transport error on each kind (the streamable transport reopens, the others do not). -/
example : trace Guards.all .streamable {} [.init .ok, .close true, .req .getPrompt false, .init .ok, .close false, .close true] =
    [(.ok, .initialized, [.initReq, .initNotif]), (.failed, .disconnected, []), (.notInitialized, .disconnected, []),
     (.ok, .initialized, [.initReq, .initNotif]), (.ok, .disconnected, []), (.failed, .disconnected, [])] := by decide

/-- A DELETE that fails keeps the session (it can be terminated later); Close after it resets as always. -/
example : trace Guards.all .streamable {}
      [.init .ok, .terminate true, .terminate false, .terminate false, .close true, .req .listTools false] =
    [(.ok, .initialized, [.initReq, .initNotif]), (.failed, .initialized, [.delete]), (.ok, .initialized, [.delete]),
     (.failed, .initialized, []), (.failed, .disconnected, []), (.notInitialized, .disconnected, [])] := by decide

example : trace Guards.all .stdio {} [.req .listPrompts false, .init .badResult, .init .ok, .restart, .req .listTools false] =
    [(.notInitialized, .disconnected, []), (.failed, .disconnected, [.initReq]), (.ok, .initialized, [.initReq, .initNotif]),
     (.failed, .disconnected, []), (.notInitialized, .disconnected, [])] := by decide

end Mcp.Props.C16
