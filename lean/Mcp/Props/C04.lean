/-
  C04 — Streamable-HTTP session life-cycle follows the protocol state machine.
-/
import Mcp.Model.Session
import Mcp.Model.Ids
import Mcp.Gen.SessionFacts
namespace Mcp.Props.C04
open Mcp.Session

/-! ## one step: shape lemmas -/

local macro "tl" : tactic => `(tactic| first | exact Or.inl rfl | exact Or.inl trivial | (left; simp))


private theorem postBody_fst (c st k sess) : ∃ l, (postBody c st k sess).1 = { st with lstate := l } := by
  unfold postBody
  cases k <;> simp <;> (repeat' split) <;> first | exact ⟨_, rfl⟩ | simp

private theorem postBody_sid (c st k s) (hm : c.mode = .stateful) (hk : isInit k = true) :
    (postBody c st k (some s)).2.sid = some s := by
  cases k <;> simp_all [postBody, isInit]

/-- A POST either leaves the table alone (up to the initialisation flags) or — stateful, no id, initialize —
    issues the next id. -/
private theorem stepPost_cases (c st k r) :
    (∃ l, (stepPost c st k r).1 = { st with lstate := l }) ∨
    (c.mode = .stateful ∧ r = .none ∧ isInit k = true ∧ (stepPost c st k r).2.sid = some st.issued ∧
      ∃ l, (stepPost c st k r).1 = { st with issued := st.issued + 1, live := st.issued :: st.live, lstate := l }) := by
  cases hm : c.mode with
  | stateless => simp only [stepPost, hm]; exact Or.inl (postBody_fst ..)
  | sessionsOff => simp only [stepPost, hm]; exact Or.inl (postBody_fst ..)
  | stateful =>
    cases r with
    | none =>
      simp only [stepPost, hm]
      by_cases hk : isInit k = true
      · right
        simp only [hk, ite_true]
        refine ⟨trivial, trivial, trivial, postBody_sid _ _ _ _ hm hk, ?_⟩
        obtain ⟨l, hl⟩ := postBody_fst c { st with issued := st.issued + 1, live := st.issued :: st.live } k (some st.issued)
        exact ⟨l, hl⟩
      · left; simp only [hk]; exact ⟨st.lstate, rfl⟩
    | bogus => simp only [stepPost, hm]; exact Or.inl ⟨st.lstate, rfl⟩
    | sid s =>
      simp only [stepPost, hm]
      split
      · exact Or.inl (postBody_fst ..)
      · exact Or.inl ⟨st.lstate, rfl⟩

private theorem stepGet_cases (c st r) :
    (stepGet c st r).1 = st ∨
    (∃ s, r = .sid s ∧ s ∈ st.live ∧ (stepGet c st r).1 = { st with streams := s :: st.streams.filter (· ≠ s) }) := by
  by_cases hg : c.getEnabled = false
  · left; simp [stepGet, hg]
  · cases hm : c.mode with
    | stateless => left; simp [stepGet, hg, hm]
    | sessionsOff =>
      cases r with
      | none => left; simp [stepGet, hg, hm]
      | bogus => left; by_cases hx : c.getGuardsNoSessions = true <;> simp [stepGet, hg, hm, noSessGet, hx]
      | sid s => left; by_cases hx : c.getGuardsNoSessions = true <;> simp [stepGet, hg, hm, noSessGet, hx]
    | stateful =>
      cases r with
      | none => left; simp [stepGet, hg, hm]
      | bogus => left; simp [stepGet, hg, hm]
      | sid s =>
        by_cases hs : s ∈ st.live
        · right; exact ⟨s, rfl, hs, by simp [stepGet, hg, hm, hs]⟩
        · left; simp [stepGet, hg, hm, hs]

private theorem stepDelete_cases (c st r) :
    (stepDelete c st r).1 = st ∨
    (c.mode = .stateful ∧ ∃ s, r = .sid s ∧ s ∈ st.live ∧
      (stepDelete c st r).1 = { st with live := st.live.filter (· ≠ s), streams := st.streams.filter (· ≠ s) }) := by
  cases r with
  | none => tl
  | bogus => cases hm : c.mode <;> simp only [stepDelete, hm] <;> tl
  | sid s =>
    cases hm : c.mode with
    | stateless => simp only [stepDelete, hm]; tl
    | sessionsOff => simp only [stepDelete, hm]; tl
    | stateful =>
      simp only [stepDelete, hm]
      by_cases hs : s ∈ st.live
      · right; exact ⟨trivial, s, rfl, hs, by simp [hs]⟩
      · left; simp [hs]

/-- A session id is issued only by an initialize request that carried none, and only in stateful mode. -/
theorem C04_issue_only_on_init (c : Cfg) (st : St) (op : Op)
    (h : (step c st op).1.issued ≠ st.issued) :
    c.mode = .stateful ∧ ∃ k, isInit k = true ∧ op = .post k .none ∧
      (step c st op).1.issued = st.issued + 1 ∧ (step c st op).2.sid = some st.issued ∧
      st.issued ∈ (step c st op).1.live := by
  cases op with
  | post k r =>
    simp only [step] at h ⊢
    rcases stepPost_cases c st k r with ⟨l, hl⟩ | ⟨hm, hr, hk, hs, l, hl⟩
    · rw [hl] at h; exact absurd rfl h
    · subst hr; rw [hl]; exact ⟨hm, k, hk, rfl, rfl, hs, by simp⟩
  | get r =>
    simp only [step] at h
    rcases stepGet_cases c st r with hl | ⟨s, _, _, hl⟩ <;> rw [hl] at h <;> exact absurd rfl h
  | closeStream s => simp [step] at h
  | delete r =>
    simp only [step] at h
    rcases stepDelete_cases c st r with hl | ⟨_, s, _, _, hl⟩ <;> rw [hl] at h <;> exact absurd rfl h

/-- The invariant of the session table: every live id was issued, no id twice, streams only on live sessions. -/
def Inv (st : St) : Prop :=
  (∀ s ∈ st.live, s < st.issued) ∧ st.live.Nodup ∧ (∀ s ∈ st.streams, s ∈ st.live)

theorem inv_init : Inv {} := by simp [Inv]

theorem inv_step (c : Cfg) (st : St) (op : Op) (h : Inv st) : Inv (step c st op).1 := by
  have ⟨h1, h2, h3⟩ := h
  cases op with
  | post k r =>
    simp only [step]
    rcases stepPost_cases c st k r with ⟨l, hl⟩ | ⟨hm, hr, hk, hs, l, hl⟩ <;> rw [hl]
    · exact h
    · refine ⟨?_, ?_, ?_⟩
      · intro s hs; simp only [List.mem_cons] at hs; rcases hs with hs | hs
        · subst hs; exact Nat.lt_succ_self _
        · exact Nat.lt_succ_of_lt (h1 s hs)
      · simp only [List.nodup_cons]; exact ⟨fun hc => Nat.lt_irrefl _ (h1 _ hc), h2⟩
      · intro s hs; simp only [List.mem_cons]; right; exact h3 s hs
  | get r =>
    simp only [step]
    rcases stepGet_cases c st r with hl | ⟨s, _, hs, hl⟩ <;> rw [hl]
    · exact h
    · refine ⟨h1, h2, ?_⟩
      intro x hx; simp only [List.mem_cons, List.mem_filter] at hx; rcases hx with hx | hx
      · subst hx; exact hs
      · exact h3 x hx.1
  | closeStream s =>
    refine ⟨h1, h2, ?_⟩
    intro x hx; simp only [step, List.mem_filter] at hx; exact h3 x hx.1
  | delete r =>
    simp only [step]
    rcases stepDelete_cases c st r with hl | ⟨_, s, _, hs, hl⟩ <;> rw [hl]
    · exact h
    · refine ⟨?_, ?_, ?_⟩
      · intro x hx; simp only [List.mem_filter] at hx; exact h1 x hx.1
      · exact h2.sublist List.filter_sublist
      · intro x hx; simp only [List.mem_filter] at hx ⊢; exact ⟨h3 x hx.1, hx.2⟩

/-- …so the invariant holds after every history, and a freshly issued id was never issued before
    (it is `st.issued`, and every id ever live is `< st.issued`). -/
theorem C04_inv_all (c : Cfg) (ops : List Op) : Inv (final c {} ops) := by
  suffices ∀ st, Inv st → Inv (final c st ops) from this {} inv_init
  induction ops with
  | nil => intro st h; exact h
  | cons op ops ih => intro st h; exact ih _ (inv_step c st op h)

theorem C04_fresh (c : Cfg) (st : St) (op : Op) (hi : Inv st)
    (h : (step c st op).1.issued ≠ st.issued) :
    ∃ s, (step c st op).2.sid = some s ∧ s ∉ st.live ∧ ∀ t ∈ st.live, t ≠ s := by
  obtain ⟨_, k, _, _, _, hs, _⟩ := C04_issue_only_on_init c st op h
  refine ⟨st.issued, hs, ?_, ?_⟩
  · intro hc; exact Nat.lt_irrefl _ (hi.1 _ hc)
  · intro t ht he; subst he; exact Nat.lt_irrefl _ (hi.1 _ ht)

/-- From issue to deletion every request bearing a live id is served in that session and answered with the same id
    (requests 200, notifications and posted answers 202). The exceptions are not requests served in a session:
    a body that is neither request, notification nor answer (400: no id and no method, or an id with neither method nor
    result nor error) and a misplaced `notifications/initialized` (500). -/
theorem C04_bound (c : Cfg) (st : St) (s : Sid) (k : Kind) (hm : c.mode = .stateful) (hl : s ∈ st.live)
    (hk : k ≠ .invalid) (hk2 : k ≠ .notifInitialized) (hk3 : k ≠ .responseEmpty) :
    let o := (step c st (.post k (.sid s))).2
    (o.status = 200 ∨ o.status = 202) ∧ o.sid = some s ∧ (step c st (.post k (.sid s))).1.live = st.live := by
  cases k <;> simp_all [step, stepPost, postBody]

theorem C04_bound_initialized (c : Cfg) (st : St) (s : Sid) (hm : c.mode = .stateful) (hl : s ∈ st.live)
    (hs : lookupState st.lstate s = some false) :
    (step c st (.post .notifInitialized (.sid s))).2 = ⟨202, some s, []⟩ := by
  simp_all [step, stepPost, postBody]

/-- A listening stream on a live session is accepted and bound to it. -/
theorem C04_bound_get (c : Cfg) (st : St) (s : Sid) (hm : c.mode = .stateful) (hg : c.getEnabled = true) (hl : s ∈ st.live) :
    (step c st (.get (.sid s))).2.status = 200 ∧ (step c st (.get (.sid s))).2.sid = some s ∧
    s ∈ (step c st (.get (.sid s))).1.streams := by
  simp_all [step, stepGet]

/-- A non-initialize request without an id is refused with 400 and changes nothing. -/
theorem C04_missing_400 (c : Cfg) (st : St) (k : Kind) (hm : c.mode = .stateful) (hk : isInit k = false) :
    step c st (.post k .none) = (st, ⟨400, none, []⟩) := by
  simp [step, stepPost, hm, hk]

/-- A request, stream or DELETE bearing an unknown, foreign-made or already deleted id is refused with 404 and
    changes nothing. -/
theorem C04_unknown_404 (c : Cfg) (st : St) (r : Ref) (hm : c.mode = .stateful)
    (hr : r = .bogus ∨ ∃ s, r = .sid s ∧ s ∉ st.live) :
    (∀ k, step c st (.post k r) = (st, ⟨404, none, []⟩)) ∧
    (c.getEnabled = true → step c st (.get r) = (st, ⟨404, none, []⟩)) ∧
    step c st (.delete r) = (st, ⟨404, none, []⟩) := by
  rcases hr with hr | ⟨s, hr, hs⟩ <;> subst hr <;> simp_all [step, stepPost, stepGet, stepDelete]

/-- Every refusal (400, 404, 405, 500, 501, or an aborted connection) leaves the state exactly as it was. -/
theorem C04_refusal_is_noop (c : Cfg) (st : St) (op : Op)
    (h : (step c st op).2.status ∈ [400, 404, 405, 500, 501, 0]) : (step c st op).1 = st := by
  cases op with
  | post k r =>
    cases hm : c.mode <;> cases r <;> cases k <;>
      simp_all [step, stepPost, postBody, isInit] <;>
      (repeat' (split at h <;> simp_all)) <;> (repeat' (split <;> simp_all))
  | get r =>
    cases hm : c.mode <;> cases r <;> simp_all [step, stepGet, noSessGet] <;>
      (repeat' (split at h <;> simp_all)) <;> (repeat' (split <;> simp_all))
  | closeStream s => simp [step] at h
  | delete r =>
    cases hm : c.mode <;> cases r <;> simp_all [step, stepDelete] <;>
      (repeat' (split at h <;> simp_all)) <;> (repeat' (split <;> simp_all))

/-- DELETE on a live session ends it together with its open stream. -/
theorem C04_delete_ends_stream (c : Cfg) (st : St) (s : Sid) (hm : c.mode = .stateful) (hl : s ∈ st.live) :
    let r := step c st (.delete (.sid s))
    r.2.status = 200 ∧ s ∉ r.1.live ∧ s ∉ r.1.streams ∧ (s ∈ st.streams → s ∈ r.2.closed) ∧
    (∀ t, t ≠ s → (t ∈ r.1.live ↔ t ∈ st.live) ∧ (t ∈ r.1.streams ↔ t ∈ st.streams)) := by
  simp_all [step, stepDelete]

/-- …and from then on the id is refused with 404 (by `C04_unknown_404`, since it is no longer live). -/
theorem C04_deleted_is_unknown (c : Cfg) (st : St) (s : Sid) (hm : c.mode = .stateful) (hl : s ∈ st.live) (k : Kind) :
    let st' := (step c st (.delete (.sid s))).1
    step c st' (.post k (.sid s)) = (st', ⟨404, none, []⟩) := by
  have h := (C04_delete_ends_stream c st s hm hl).2.1
  exact (C04_unknown_404 c _ (.sid s) hm (Or.inr ⟨s, rfl, h⟩)).1 k

/-! ## all histories: the live set is what the history leaves alive -/

private def Rel (st : St) (sp : Spec) : Prop :=
  st.issued = sp.issued ∧ (∀ s, s ∈ st.live ↔ sp.alive s = true) ∧ (∀ s ∈ sp.deleted, s < sp.issued)

private theorem rel_step (c : Cfg) (st : St) (sp : Spec) (op : Op) (h : Rel st sp) :
    Rel (step c st op).1 (Spec.step c sp op) := by
  obtain ⟨hi, hl, hd⟩ := h
  cases op with
  | post k r =>
    simp only [step]
    rcases stepPost_cases c st k r with ⟨l, hl'⟩ | ⟨hm, hr, hk, hs, l, hl'⟩ <;> rw [hl']
    · have : Spec.step c sp (.post k r) = sp := by
        cases r <;> simp only [Spec.step]
        split
        · rename_i hc
          -- stateful, no id, initialize: stepPost would have issued an id — contradiction with hl'
          exfalso
          have := congrArg St.issued hl'
          simp only [stepPost, hc.1, hc.2, ite_true] at this
          obtain ⟨l2, hl2⟩ := postBody_fst c { st with issued := st.issued + 1, live := st.issued :: st.live } k (some st.issued)
          rw [hl2] at this; simp at this
        · rfl
      rw [this]; exact ⟨hi, hl, hd⟩
    · subst hr
      simp only [Spec.step, hm, hk, and_self, ite_true]
      refine ⟨by simp [hi], ?_, ?_⟩
      · intro (s : Nat)
        simp only [List.mem_cons, Spec.alive, hl s]
        cases hcn : sp.deleted.contains s
        · simp [hi]; omega
        · have : s < sp.issued := hd s (by simpa using hcn)
          simp; omega
      · intro (s : Nat) hs; have := hd s hs; simp; omega
  | get r =>
    simp only [step]
    have : Spec.step c sp (.get r) = sp := rfl
    rw [this]
    rcases stepGet_cases c st r with hl' | ⟨s, _, _, hl'⟩ <;> rw [hl'] <;> exact ⟨hi, hl, hd⟩
  | closeStream s => exact ⟨hi, hl, hd⟩
  | delete r =>
    simp only [step]
    rcases stepDelete_cases c st r with hl' | ⟨hm, s, hr, hs, hl'⟩ <;> rw [hl']
    · have : Spec.step c sp (.delete r) = sp := by
        cases r <;> simp only [Spec.step]
        rename_i s
        split
        · rename_i hc
          exfalso
          have hs : s ∈ st.live := (hl s).mpr hc.2
          have := congrArg St.live hl'
          simp only [stepDelete, hc.1, hs, ite_true] at this
          have hmem : s ∈ st.live.filter (· ≠ s) := by rw [this]; exact hs
          simp at hmem
        · rfl
      rw [this]; exact ⟨hi, hl, hd⟩
    · subst hr
      have ha : sp.alive s = true := (hl s).mp hs
      simp only [Spec.step, hm, ha, and_self, ite_true]
      refine ⟨hi, ?_, ?_⟩
      · intro t
        simp only [List.mem_filter, hl t, Spec.alive, List.contains_cons]
        by_cases hts : t = s
        · subst hts; simp
        · simp [hts]
      · intro t ht
        simp only [List.mem_cons] at ht
        rcases ht with ht | ht
        · subst ht; simp [Spec.alive] at ha; exact ha.1
        · exact hd t ht

/-- After any history the set of live sessions equals the set the history leaves alive:
    ids issued by accepted initialize-without-id requests minus ids deleted by accepted DELETEs. -/
theorem C04_live_refines (c : Cfg) (ops : List Op) (s : Sid) :
    s ∈ (final c {} ops).live ↔ (Spec.run c ops).alive s = true := by
  suffices ∀ st sp, Rel st sp → Rel (final c st ops) (ops.foldl (Spec.step c) sp) from
    (this {} {} ⟨rfl, by intro s; simp [Spec.alive], by simp⟩).2.1 s
  induction ops with
  | nil => intro st sp h; exact h
  | cons op ops ih => intro st sp h; exact ih _ _ (rel_step c st sp op h)

/-- What the server reports (`GetActiveSessions`) is that set in stateful mode. -/
theorem C04_reported (c : Cfg) (ops : List Op) (hm : c.mode = .stateful) :
    reported c (final c {} ops) = some (final c {} ops).live := by
  simp [reported, hm]

/-! ## stateless mode -/

/-- No session id is ever issued or shown, and none is required. -/
theorem C04_stateless_no_header (c : Cfg) (st : St) (op : Op) (hm : c.mode = .stateless) :
    (step c st op).2.sid = none ∧ (step c st op).1.issued = st.issued ∧ (step c st op).1.live = st.live := by
  cases op with
  | post k r => cases k <;> simp [step, stepPost, hm, postBody]
  | get r => simp only [step, stepGet, hm]; split <;> simp
  | closeStream s => simp [step]
  | delete r => cases r <;> simp [step, stepDelete, hm]

/-- Listening streams are refused with 405. -/
theorem C04_stateless_get_405 (c : Cfg) (st : St) (r : Ref) (hm : c.mode = .stateless) :
    step c st (.get r) = (st, ⟨405, none, []⟩) := by
  simp only [step, stepGet, hm]; split <;> rfl

/-- The answer to a request does not depend on any earlier request. -/
theorem C04_stateless_independent (c : Cfg) (ops : List Op) (op : Op) (hm : c.mode = .stateless) :
    (step c (final c {} ops) op).2 = (step c {} op).2 := by
  generalize final c {} ops = st
  cases op with
  | post k r => cases k <;> simp [step, stepPost, hm, postBody]
  | get r => simp only [step, stepGet, hm]; split <;> rfl
  | closeStream s => simp [step]
  | delete r => cases r <;> simp [step, stepDelete, hm]

/-! ## the id itself: 16 bytes from crypto/rand, hex encoded -/

/-- The regenerated facts about `generateSessionID`: ≥ 128 bits, from `crypto/rand`, rendered by `hex.EncodeToString`. -/
theorem C04_id_source : Mcp.Gen.sessionIdBytes ≥ 16 ∧ Mcp.Gen.sessionIdFromCryptoRand = true ∧
    Mcp.Gen.sessionIdHexEncoded = true := by decide

private theorem deletes_of_dead (c : Cfg) (hm : c.mode = .stateful) (s : Sid) (k : Nat) (st : St) (hs : s ∉ st.live) :
    run c st (List.replicate k (.delete (.sid s))) = (st, List.replicate k ⟨404, none, []⟩) := by
  induction k with
  | zero => rfl
  | succ k ih =>
    have h1 : step c st (.delete (.sid s)) = (st, ⟨404, none, []⟩) := by simp [step, stepDelete, hm, hs]
    simp [List.replicate_succ, run, h1, ih]

/-- Overlapping DELETEs of one live id (the table operation being atomic, any overlap is some order of the same
    operation): exactly one of them ends the session (200), every other one bears an already deleted id (404). -/
theorem C04_overlapping_deletes (c : Cfg) (hm : c.mode = .stateful) (st : St) (s : Sid) (hl : s ∈ st.live) (k : Nat) :
    (run c st (List.replicate (k + 1) (.delete (.sid s)))).2.map (·.status) = 200 :: List.replicate k 404 := by
  have h1 : step c st (.delete (.sid s)) =
      ({ st with live := st.live.filter (· ≠ s), streams := st.streams.filter (· ≠ s) },
       ⟨200, none, if s ∈ st.streams then [s] else []⟩) := by simp [step, stepDelete, hm, hl]
  have hd : s ∉ ({ st with live := st.live.filter (· ≠ s), streams := st.streams.filter (· ≠ s) } : St).live := by simp
  have h2 := deletes_of_dead c hm s k _ hd
  simp only [List.replicate_succ, run, h1, h2, List.map_cons, List.map_replicate]

/-- Every method that touches the session table does so in ONE critical section of the manager's mutex, writers holding
    it exclusively (regenerated): "is the id live?" and "delete it" / "insert it" are one atomic step, which is what lets
    the model treat POST / GET / DELETE as atomic steps over the live set even when requests of several clients overlap
    (two overlapping DELETEs of one id: exactly one finds it). -/
theorem C04_table_ops_atomic :
    Mcp.Gen.sessionTableOps ≠ [] ∧
    ∀ op ∈ Mcp.Gen.sessionTableOps, op.2.1 = 1 ∧ (op.2.2.1 = true → op.2.2.2 = true) := by
  decide

/-- The sweeper (`cleanupExpiredSessions`, run once per tick) as a function of the regenerated unit: a session idle for
    `idleNs` nanoseconds is removed iff `idleNs > expiryUnits * nsPerUnit`. -/
def sweepRemoves (nsPerUnit expiryUnits idleNs : Nat) : Bool := decide (idleNs > expiryUnits * nsPerUnit)

/-- The histories of the statement are clock-free: nothing but DELETE ends a session. That is the code's behaviour as
    long as the sweeper leaves sessions alone, i.e. for sessions idle at most the configured number of **seconds**
    (default 3600): with the unit the code uses today, no sweep — at whatever instant it runs — removes a session that was
    active within the last `expirySeconds` seconds, for every configured value and every idle time. -/
theorem C04_sweep_keeps_active (expirySeconds idleNs : Nat) (h : idleNs ≤ expirySeconds * 1000000000) :
    sweepRemoves Mcp.Gen.sessionExpiryNsPerUnit expirySeconds idleNs = false := by
  have hu : Mcp.Gen.sessionExpiryNsPerUnit = 1000000000 := by decide
  simp only [sweepRemoves, hu, decide_eq_false_iff_not]
  omega

/-- … and a session idle longer than that is removed by the next sweep (the expiry exists). -/
theorem C04_sweep_removes_expired (expirySeconds idleNs : Nat) (h : expirySeconds * 1000000000 < idleNs) :
    sweepRemoves Mcp.Gen.sessionExpiryNsPerUnit expirySeconds idleNs = true := by
  have hu : Mcp.Gen.sessionExpiryNsPerUnit = 1000000000 := by decide
  simp only [sweepRemoves, hu, decide_eq_true_eq]
  omega

/-- Bad region of the family: were the configured number taken as nanoseconds (unit 1), the first sweep would remove a
    session of the default configuration (3600) that was served one second ago — without any DELETE. -/
theorem C04_sweep_unit_witness : sweepRemoves 1 3600 1000000000 = true := by decide

/-- the sweeper's ticker period was understood (one minute today): the thorough tier's idle history waits past it. -/
theorem C04_sweep_tick_fact : 0 < Mcp.Gen.sessionSweepTickNs ∧ Mcp.Gen.sessionSweepTickNs ≤ 60000000000 := by decide

-- non-vacuity: the default configuration, a session idle for 59 minutes
example : sweepRemoves Mcp.Gen.sessionExpiryNsPerUnit 3600 (59 * 60 * 1000000000) = false := by decide

open Mcp.Ids in
/-- Hex rendering is injective (two different 128-bit draws give two different ids), has two characters per byte
    and uses only `0-9a-f` (visible ASCII). -/
theorem C04_hex (a b : List Nat) (ha : ∀ x ∈ a, x < 256) (hb : ∀ x ∈ b, x < 256) :
    (hexEncode a = hexEncode b → a = b) ∧ (hexEncode a).length = 2 * a.length ∧
    (∀ ch ∈ hexEncode a, (48 ≤ ch ∧ ch ≤ 57) ∨ (97 ≤ ch ∧ ch ≤ 102)) :=
  ⟨hexEncode_inj a b ha hb, hexEncode_length a, hexEncode_chars a ha⟩

-- non-vacuity: a concrete history — two sessions, one stream, one delete
example :
    let c : Cfg := ⟨.stateful, true, true⟩
    let r := run c {} [.post .initOk .none, .post .initOk .none, .get (.sid 0), .post .request (.sid 1),
                       .delete (.sid 0), .post .request (.sid 0), .post .request .none]
    r.2.map (·.status) = [200, 200, 200, 200, 200, 404, 400] ∧ r.1.live = [1] ∧ r.1.streams = [] := by decide

example : (step ⟨.stateless, true, true⟩ {} (.post .initOk .none)).2 = ⟨200, none, []⟩ := by decide

end Mcp.Props.C04
