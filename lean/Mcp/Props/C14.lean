/-
  C14 — All transports answer alike.

  Statement: for the methods every transport serves (initialize, ping, tools/list, tools/call, prompts/list, prompts/get,
  resources/list, resources/read) the same registrations and the same JSON-RPC 2.0 request (well-formed envelope with a
  string or integer id; parameters valid or not) yield the same JSON-RPC result, or an error with the same code, on
  Streamable HTTP (JSON responses, SSE responses, stateless, sessions disabled), legacy SSE and stdio.

  Model: `Mcp.Rpc` — `serveStreamable` (every `SCfg`: mode × POST-SSE; the `Accept` header and the session reference are
  inputs), `serveSSE`, `serveStdio`; three envelope decoders (`decodeBase` + `decodeRequest` for the HTTP servers,
  `classifyStdio` + `decodeRequest` for stdio), two dispatchers (`dispatch` = the table of handler.go, `dispatchStdio` = the
  switch of stdio_server.go) over the same managers.

  `C14_same_messages` proves more than the statement asks: the three servers emit the IDENTICAL message (same id, same
  result or same error object) for every registry — handlers being arbitrary functions of their arguments —, every
  well-formed envelope whose numbers a float64 can hold, every parameter value. `C14_same_outcome` is the statement's
  reading (normalised outcome). The method sets of the two dispatchers are regenerated from the source
  (`C14_method_sets`). Outside the statement's domain the transports do differ; the witnesses are recorded:
  methods only the table knows (`C14_table_only_counterexample`), envelope leniency (`C14_version_witness`,
  `C14_null_id_witness`, `C14_missing_method_witness`).

  The client half ("the library's three clients return equal values for equal server answers"): every request method of
  `Client` (Streamable HTTP and legacy SSE) and of `StdioClient` is "transport.sendRequest → isErrorResponse → the method's
  decoder", and the decoders are shared (C02's model). `Mcp.RpcClient` models what each transport hands to the decoder for
  one answer (JSON body / `message` event of the legacy SSE stream, event of a POST answered as an SSE stream, stdio line).
  `C14_clients_equal`: for EVERY decoder `D` that does not tell `null` from `{}` and every valid answer — a result of any
  JSON shape, `null` included, or an error object — the four paths return the same value (the decoded result, or the same
  error code and message). `C14_decoders_null_is_empty` discharges the side condition for the decoders of C02's model; the
  reason it is needed is a real difference, recorded in `C14_stdio_null_result_witness`: the stdio transport replaces a
  `null` result by `{}` before the decoder sees it. For answers that are not valid the clients fail in different ways
  (`C14_invalid_answer_witness`). The theorems speak about the answer as it is ON THE WIRE: every transport first decodes
  the whole answer into Go values (numbers: float64) and hands the decoder `json.Marshal` of the decoded result —
  `C14_clients_same_numbers`: all four hand the decoder the same value, `C14_float64_edge_witness`: 2^53 + 1 arrives as
  2^53 everywhere. The harness component `rpcclients` drives the three real clients against peers giving the
  same answers (large ones included) and compares the returned values pairwise.
-/
import Mcp.Lemmas.Rpc
import Mcp.Gen.RpcFacts
import Mcp.Model.RpcClient
import Mcp.Model.Content
namespace Mcp.Props.C14
open Mcp.Str Mcp.Json Mcp.Content Mcp.RpcSpec Mcp.Rpc Mcp.Session

private theorem common_sub_stdio (m : Text) (h : m ∈ commonMethods) : m ∈ stdioMethods := by
  simp [commonMethods] at h
  rcases h with h | h | h | h | h | h | h | h <;> subst h <;> decide

private theorem dispatch_common (reg : Registry) (req : Req) (h : req.method ∈ stdioMethods) :
    dispatch reg req = dispatchStdio reg req := by
  simp [stdioMethods] at h
  rcases h with h | h | h | h | h | h | h | h <;> simp [dispatch, dispatchStdio, h]

private theorem common_ne_nil (m : Text) (h : m ∈ stdioMethods) : m.isEmpty = false := by
  simp [stdioMethods] at h
  rcases h with h | h | h | h | h | h | h | h <;> simp [h]

/-- The three servers emit the same messages: for every registry, every well-formed envelope `o` whose numbers Go can
    hold (`goDecodeFields o = some _`), every common method, every Streamable configuration `c` (mode, POST-SSE), every
    `Accept` header and every session the request is accepted in. -/
theorem C14_same_messages (reg : Registry) (o mm : Obj) (hwf : wfEnvelope (.obj o) = true) (hrep : goDecodeFields o = some mm)
    (m : Text) (hm : lookup o t!"method" = some (.str m)) (hc : m ∈ commonMethods)
    (c : SCfg) (st : St) (ref : Ref) (acc : Bool) (hs : sessionOk c st ref m) :
    (serveStreamable c reg st (postOf ref acc (.obj o))).2.messages = (serveStdio reg (.json (.obj o))).messages ∧
    (serveSSE reg (ssePostOf (.obj o))).messages = (serveStdio reg (.json (.obj o))).messages := by
  have hc := common_sub_stdio m hc
  obtain ⟨id, id', m', hid, _, hid', hm', hreq, hbase, hcls⟩ := decode_wfEnvelope o mm hwf hrep
  have : m' = m := by rw [hm] at hm'; simpa using hm'.symm
  subst this
  have hne := common_ne_nil m' hc
  obtain ⟨st1, sess, hres⟩ := resolve_ok c st ref m' hs
  have hd := dispatch_common reg ⟨some id', m', paramsOf mm⟩ hc
  have hnp := dispatchStdio_ne_panic reg ⟨some id', m', paramsOf mm⟩
  constructor
  · simp only [postOf, serveStreamable, servePost, hbase, hreq, hne, hd, serveStdio, hcls]
    cases hx : dispatchStdio reg ⟨some id', m', paramsOf mm⟩ with
    | panic => exact absurd hx hnp
    | ok a => simp [hres, Reaction.http, Reaction.messages]
  · simp only [ssePostOf, serveSSE, serveSSEMessage, hbase, hreq, hne, hd, serveStdio, hcls]
    cases hx : dispatchStdio reg ⟨some id', m', paramsOf mm⟩ with
    | panic => exact absurd hx hnp
    | ok a => simp [Reaction.messages]

/-- C14 as stated: the normalised outcome (the result, or the error code, of the only message; `silent` when there is
    none) is the same on Streamable HTTP in every mode, on legacy SSE and on stdio. -/
theorem C14_same_outcome (reg : Registry) (o mm : Obj) (hwf : wfEnvelope (.obj o) = true) (hrep : goDecodeFields o = some mm)
    (m : Text) (hm : lookup o t!"method" = some (.str m)) (hc : m ∈ commonMethods)
    (c : SCfg) (st : St) (ref : Ref) (acc : Bool) (hs : sessionOk c st ref m) :
    (serveStreamable c reg st (postOf ref acc (.obj o))).2.outcome = (serveStdio reg (.json (.obj o))).outcome ∧
    (serveSSE reg (ssePostOf (.obj o))).outcome = (serveStdio reg (.json (.obj o))).outcome := by
  obtain ⟨h1, h2⟩ := C14_same_messages reg o mm hwf hrep m hm hc c st ref acc hs
  simp [Reaction.outcome, h1, h2]

/-- …and pairwise between any two Streamable configurations (JSON answers, SSE answers, stateless, sessions disabled). -/
theorem C14_modes_alike (reg : Registry) (o mm : Obj) (hwf : wfEnvelope (.obj o) = true) (hrep : goDecodeFields o = some mm)
    (m : Text) (hm : lookup o t!"method" = some (.str m)) (hc : m ∈ commonMethods)
    (c c' : SCfg) (st st' : St) (ref ref' : Ref) (acc acc' : Bool) (hs : sessionOk c st ref m) (hs' : sessionOk c' st' ref' m) :
    (serveStreamable c reg st (postOf ref acc (.obj o))).2.outcome = (serveStreamable c' reg st' (postOf ref' acc' (.obj o))).2.outcome := by
  rw [(C14_same_outcome reg o mm hwf hrep m hm hc c st ref acc hs).1, (C14_same_outcome reg o mm hwf hrep m hm hc c' st' ref' acc' hs').1]

/-- T-gen: the dispatch table of handler.go and the switch of stdio_server.go have the method sets the model assumes; every
    method of the switch is in the table; the statement's eight methods are exactly the switch's. -/
theorem C14_method_sets :
    Mcp.Gen.rpcDispatchKeys = tableMethods ∧ Mcp.Gen.rpcStdioCases = stdioMethods ∧
    Mcp.Gen.rpcDispatchIsTableLookup = true ∧ Mcp.Gen.rpcStdioDefaultIsMethodNotFound = true ∧
    stdioMethods.all (fun m => tableMethods.contains m) = true ∧
    commonMethods.all (fun m => stdioMethods.contains m) = true ∧ stdioMethods.all (fun m => commonMethods.contains m) = true := by
  decide

/-- Outside the statement: the four methods only the dispatch table knows are served by the HTTP servers and refused with
    −32601 by stdio (same registry, same well-formed request). -/
theorem C14_table_only_counterexample :
    let j := demoEnv (.int 1) t!"resources/templates/list" none
    (serveStreamable (demoCfg .stateless) demoReg {} (postOf .none false j)).2.hasResult = true ∧
    (serveSSE demoReg (ssePostOf j)).hasResult = true ∧
    (serveStdio demoReg (.json j)).errorCode = some (-32601) ∧
    (serveStdio demoReg (.json (demoEnv (.int 1) t!"resources/subscribe" (some (.obj [(t!"uri", .str t!"verif://r")]))))).errorCode = some (-32601) ∧
    (serveStreamable (demoCfg .stateless) demoReg {} (postOf .none false
      (demoEnv (.int 1) t!"resources/subscribe" (some (.obj [(t!"uri", .str t!"verif://r")]))))).2.hasResult = true := by
  decide +kernel

/-- Outside the statement: only stdio insists on `"jsonrpc": "2.0"` — the HTTP servers answer with the result, stdio with
    −32600 (Invalid Request). -/
theorem C14_version_witness :
    let j : Json := .obj [(t!"jsonrpc", .str t!"1.0"), (t!"id", .int 1), (t!"method", .str t!"ping")]
    (serveStreamable (demoCfg .stateless) demoReg {} (postOf .none false j)).2.hasResult = true ∧
    (serveSSE demoReg (ssePostOf j)).hasResult = true ∧ (serveStdio demoReg (.json j)).errorCode = some (-32600) := by
  decide +kernel

/-- Outside the statement: `"id": null` is a request for stdio (answered with `"id": null`) and a notification for the HTTP
    servers (202, no message). -/
theorem C14_null_id_witness :
    let j : Json := .obj [(t!"jsonrpc", .str t!"2.0"), (t!"id", .null), (t!"method", .str t!"ping")]
    (serveStdio demoReg (.json j)).hasResult = true ∧
    (serveStreamable (demoCfg .stateless) demoReg {} (postOf .none false j)).2.messages.length = 0 ∧
    (serveStreamable (demoCfg .stateless) demoReg {} (postOf .none false j)).2.status = some 202 ∧
    (serveSSE demoReg (ssePostOf j)).messages.length = 0 := by
  decide +kernel

/-- Outside the statement: an id without a method is an unknown method for stdio (−32601) and a response for the HTTP
    servers (202, no message). -/
theorem C14_missing_method_witness :
    let j : Json := .obj [(t!"jsonrpc", .str t!"2.0"), (t!"id", .int 1)]
    (serveStdio demoReg (.json j)).errorCode = some (-32601) ∧
    (serveStreamable (demoCfg .stateless) demoReg {} (postOf .none false j)).2.messages.length = 0 ∧
    (serveSSE demoReg (ssePostOf j)).messages.length = 0 := by
  decide +kernel

/-- non-vacuity: a well-formed tools/call request in a live stateful session — all hypotheses hold and the outcome is a result -/
example :
    let o : Obj := [(t!"jsonrpc", .str t!"2.0"), (t!"id", .str t!"a"), (t!"method", .str t!"tools/call"), (t!"params", callParams t!"echo")]
    wfEnvelope (.obj o) = true ∧ (goDecodeFields o).isSome = true ∧ reqIs o t!"method" (isStrEq t!"tools/call") = true ∧
    (serveStreamable (demoCfg .stateful true) demoReg demoSt (postOf (.sid 0) true (.obj o))).2.hasResult = true ∧
    (serveStdio demoReg (.json (.obj o))).hasResult = true := by
  decide +kernel

/-- non-vacuity: invalid parameters are covered as well — the same −32602 everywhere -/
example :
    let j := demoEnv (.int 7) t!"tools/call" (some (.obj [(t!"name", .int 5)]))
    wfEnvelope j = true ∧
    (serveStreamable (demoCfg .sessionsOff) demoReg {} (postOf .none false j)).2.errorCode = some (-32602) ∧
    (serveSSE demoReg (ssePostOf j)).errorCode = some (-32602) ∧ (serveStdio demoReg (.json j)).errorCode = some (-32602) := by
  decide +kernel

/-! ## the clients -/

open Mcp.RpcClient in
/-- The Streamable client reading a JSON body, the Streamable client reading a POST answered as an SSE stream, the legacy
    SSE client (which extracts exactly like the first) and the stdio client return the same value for the same valid answer AS IT IS ON THE WIRE (`w`: any number
    literals, duplicate members): for every decoder `D` that treats `null` like `{}`, every answer that Go can decode
    (`wireDecode w = some (.obj o)`: numbers a float64 can hold) and that is a success answer (any result) or an error
    answer. -/
theorem C14_clients_equal {α : Type} (D : Json → α) (hnull : D .null = D (.obj [])) (w : Json) (o : Obj)
    (hd : wireDecode w = some (.obj o)) (hv : successAnswer o ∨ errorAnswer o) :
    finish D (recvPostSSE w) = finish D (recvHTTP w) ∧ finish D (recvStdio w) = finish D (recvHTTP w) ∧
    recvLegacySSE w = recvHTTP w := by
  have hl : recvLegacySSE w = recvHTTP w := by simp only [recvLegacySSE, recvHTTP, hd]
  simp only [recvPostSSE, recvHTTP, recvStdio, hd]
  rcases hv with ⟨hj, ⟨i, hi, hn⟩, he, hr⟩ | ⟨hj, ⟨i, hi, hn⟩, e, c, m, he, hc, hm⟩
  · have : ∃ r, lookup o t!"result" = some r := by
      simp [hasKey] at hr; exact Option.isSome_iff_exists.mp (by simpa [Option.isSome_iff_ne_none] using hr)
    obtain ⟨r, hres⟩ := this
    have hel : lookup o t!"error" = none := by simpa [hasKey] using he
    refine ⟨?_, ?_, by simpa only [recvHTTP, hd] using hl⟩
    · simp [recvPostSSEDecoded, recvHTTPDecoded, hasKey, hel, hres]
    · cases r <;> simp [recvStdioDecoded, recvHTTPDecoded, hj, hi, hn, hel, hres, finish, isErrorResponse, hasKey, lookup, hnull]
  · refine ⟨?_, ?_, by simpa only [recvHTTP, hd] using hl⟩
    · simp [recvPostSSEDecoded, recvHTTPDecoded, hasKey, he]
    · simp [recvStdioDecoded, recvHTTPDecoded, hj, hasKey, hi, hn, he, errorDecodes, hc, hm]

open Mcp.RpcClient in
/-- Numbers: all four paths hand the decoder the SAME VALUE — the result as Go decoded it (`wireDecode`: every number the
    float64 nearest to the literal on the wire), not the bytes that arrived; stdio alone replaces `null` by `{}`. So a typed
    field (`size`, `priority`) and an untyped position (`structuredContent`, `_meta`, `experimental`) receive the same
    number whichever transport carried the answer. -/
theorem C14_clients_same_numbers (w : Json) (o : Obj) (r : Json) (hd : wireDecode w = some (.obj o)) (hs : successAnswer o)
    (hr : lookup o t!"result" = some r) :
    (match recvHTTP w with | .raw x => x = r | _ => False) ∧ (match recvPostSSE w with | .raw x => x = r | _ => False) ∧
    (match recvStdio w with | .raw x => x = (match r with | .null => .obj [] | y => y) | _ => False) ∧
    (match recvLegacySSE w with | .raw x => x = r | _ => False) := by
  obtain ⟨hj, ⟨i, hi, hn⟩, he, _⟩ := hs
  have hel : lookup o t!"error" = none := by simpa [hasKey] using he
  simp only [recvPostSSE, recvHTTP, recvStdio, recvLegacySSE, hd]
  refine ⟨by simp [recvHTTPDecoded, hasKey, hel, hr], by simp [recvPostSSEDecoded, hasKey, hel, hr], ?_, by simp [recvHTTPDecoded, hasKey, hel, hr]⟩
  cases r <;> simp [recvStdioDecoded, hj, hi, hn, hel, hr, hasKey]

open Mcp.RpcClient in
/-- …witness at the float64 edge: `"size": 9007199254740993` (2^53 + 1) reaches the decoder as 9007199254740992 on every
    path, `12.0` as 12.0, and `1e400` makes the answer undecodable everywhere (the three transports then fail in their three
    ways — outside the statement). -/
theorem C14_float64_edge_witness :
    let ans (v : Json) : Json := .obj [(t!"jsonrpc", .str t!"2.0"), (t!"id", .int 1), (t!"result", .obj [(t!"size", v)])]
    let handed (g : Got) : Option Int := match g with | .raw (.obj [(_, .int n)]) => some n | _ => none
    handed (recvHTTP (ans (.int 9007199254740993))) = some 9007199254740992 ∧
    handed (recvPostSSE (ans (.int 9007199254740993))) = some 9007199254740992 ∧
    handed (recvStdio (ans (.int 9007199254740993))) = some 9007199254740992 ∧
    handed (recvHTTP (ans (.int (-9007199254740993)))) = some (-9007199254740992) ∧
    handed (recvStdio (ans (.int 9223372036854775807))) = some 9223372036854775808 ∧
    (match recvHTTP (ans (.int (10 ^ 400))) with | .failed .undecodable => true | _ => false) = true ∧
    (match recvPostSSE (ans (.int (10 ^ 400))) with | .failed .noFinalResponse => true | _ => false) = true ∧
    (match recvStdio (ans (.int (10 ^ 400))) with | .failed .timeout => true | _ => false) = true ∧
    (match recvLegacySSE (ans (.int (10 ^ 400))) with | .failed .timeout => true | _ => false) = true := by
  decide +kernel

open Mcp.Content in
/-- The side condition holds for the result decoders of C02's model (tools/call, prompts/get, resources/read, tools/list):
    `null` and `{}` decode alike — to the same value or to the same error. -/
theorem C14_decoders_null_is_empty (bad : Json → Bool) :
    parseResult .null = parseResult (.obj []) ∧ parseGetPrompt .null = parseGetPrompt (.obj []) ∧
    parseReadResource .null = parseReadResource (.obj []) ∧ parseListTools bad .null = parseListTools bad (.obj []) := by
  refine ⟨?_, ?_, ?_, ?_⟩ <;>
    simp [parseResult, parseGetPrompt, parseReadResource, parseListTools, asMapTarget, lookup, extractArray, extractString,
      parseTools]

open Mcp.RpcClient in
/-- The real difference behind that side condition: for `"result": null` the stdio transport hands `{}` to the decoder, the
    HTTP transports hand `null`. -/
theorem C14_stdio_null_result_witness :
    let o : Obj := [(t!"jsonrpc", .str t!"2.0"), (t!"id", .int 1), (t!"result", .null)]
    (match recvStdio (.obj o) with | .raw (.obj []) => true | _ => false) = true ∧
    (match recvHTTP (.obj o) with | .raw .null => true | _ => false) = true ∧
    (match recvPostSSE (.obj o) with | .raw .null => true | _ => false) = true := by
  decide +kernel

open Mcp.RpcClient in
/-- Outside the statement (not a valid answer): an id with neither result nor error ends the call in three different ways —
    "missing result field" at once, "no final response" at the end of the stream, the call's timeout on stdio. -/
theorem C14_invalid_answer_witness :
    let o : Obj := [(t!"jsonrpc", .str t!"2.0"), (t!"id", .int 1)]
    (match recvHTTP (.obj o) with | .failed .missingResult => true | _ => false) = true ∧
    (match recvPostSSE (.obj o) with | .failed .noFinalResponse => true | _ => false) = true ∧
    (match recvStdio (.obj o) with | .failed .timeout => true | _ => false) = true := by
  decide +kernel

open Mcp.RpcClient in
/-- non-vacuity: both kinds of valid answer exist, and a JSON-RPC error reaches the caller with its code and message -/
example :
    successAnswer [(t!"jsonrpc", .str t!"2.0"), (t!"id", .int 7), (t!"result", .obj [(t!"content", .arr [])])] ∧
    errorAnswer [(t!"jsonrpc", .str t!"2.0"), (t!"id", .int 7), (t!"error", .obj [(t!"code", .int (-32602)), (t!"message", .str t!"no")])] ∧
    (match finish (fun _ => ()) (recvStdio (.obj [(t!"jsonrpc", .str t!"2.0"), (t!"id", .int 7),
        (t!"error", .obj [(t!"code", .int (-32602)), (t!"message", .str t!"no")])])) with
      | .rpcError (some (.int c)) (some (.str _)) => c == -32602 | _ => false) = true := by
  refine ⟨⟨rfl, ⟨_, rfl, rfl⟩, rfl, rfl⟩, ⟨rfl, ⟨_, rfl, rfl⟩, _, _, _, rfl, rfl, rfl⟩, by decide⟩

end Mcp.Props.C14
