/-
  C09 — One message per frame: SSE events and stdio lines never interleave.
-/
import Mcp.Model.Frames
import Mcp.Gen.Writers
namespace Mcp.Props.C09
open Mcp.Frames Mcp.Str

/-- Invariant of the locked discipline: at most the lock holder is inside a frame; the stream is the completed
    frames followed by the part of the holder's frame written so far; frames complete in the order they started. -/
def Inv (s : St) : Prop :=
  (∀ t, (s.cur t).isSome → s.holder = some t) ∧
  (match s.holder with
   | none => s.out = s.done.flatten ∧ s.started = s.done
   | some t => ∃ rem acc, s.cur t = some (rem, acc) ∧ s.out = s.done.flatten ++ acc ∧
                 s.started = s.done ++ [acc ++ rem.flatten])

theorem inv_init : Inv {} := by
  refine ⟨?_, ?_⟩
  · intro t h; simp at h
  · simp

theorem inv_step (s s' : St) (e : Ev) (h : Inv s) (hs : step true s e = some s') : Inv s' := by
  obtain ⟨ha, hb⟩ := h
  cases e with
  | start t f =>
    simp only [step] at hs
    split at hs
    · simp at hs
    · rename_i hc
      split at hs
      · simp at hs
      · rename_i hh
        have hnone : s.holder = none := by
          cases hx : s.holder with
          | none => rfl
          | some x => simp [hx] at hh
        simp only [Option.some.injEq] at hs
        subst hs
        rw [hnone] at hb
        refine ⟨?_, ?_⟩
        · intro u hu
          simp only [ite_true]
          by_cases hut : u = t
          · rw [hut]
          · have hu' : (s.cur u).isSome = true := by
              have e : upd s.cur t (some (f, ([] : Text))) u = s.cur u := upd_other _ _ _ _ hut
              simpa [e] using hu
            have := ha u hu'; rw [hnone] at this; cases this
        · simp only [ite_true]
          exact ⟨f, [], by simp, by simp [hb.1], by simp [hb.2]⟩
  | write t =>
    simp only [step] at hs
    split at hs
    · rename_i c rest acc hc
      simp only [Option.some.injEq] at hs
      subst hs
      have hh : s.holder = some t := ha t (by simp [hc])
      refine ⟨?_, ?_⟩
      · intro u hu
        by_cases hut : u = t
        · rw [hut]; exact hh
        · have e : upd s.cur t (some (rest, acc ++ c)) u = s.cur u := upd_other _ _ _ _ hut
          have hu' : (s.cur u).isSome = true := by simpa [e] using hu
          exact ha u hu'
      · simp only [hh] at hb ⊢
        obtain ⟨rem, acc', h1, h2, h3⟩ := hb
        rw [hc] at h1
        simp only [Option.some.injEq, Prod.mk.injEq] at h1
        obtain ⟨e1, e2⟩ := h1
        subst e1 e2
        refine ⟨rest, acc ++ c, by simp, ?_, ?_⟩
        · rw [h2]; simp
        · rw [h3]; simp
    · simp at hs
  | finish t =>
    simp only [step] at hs
    split at hs
    · rename_i acc hc
      simp only [Option.some.injEq] at hs
      subst hs
      have hh : s.holder = some t := ha t (by simp [hc])
      simp only [hh] at hb
      obtain ⟨rem, acc', h1, h2, h3⟩ := hb
      rw [hc] at h1
      simp only [Option.some.injEq, Prod.mk.injEq] at h1
      obtain ⟨e1, e2⟩ := h1
      subst e1 e2
      refine ⟨?_, ?_⟩
      · intro u hu
        by_cases hut : u = t
        · rw [hut] at hu; simp at hu
        · have e : upd s.cur t (none : Option (List Text × Text)) u = s.cur u := upd_other _ _ _ _ hut
          have hu' : (s.cur u).isSome = true := by simpa [e] using hu
          have := ha u hu'; rw [hh] at this
          exact absurd (Option.some.inj this).symm hut
      · simp only [ite_true]
        refine ⟨?_, ?_⟩
        · rw [h2]; simp
        · rw [h3]; simp
    · simp at hs

theorem inv_run (evs : List Ev) : ∀ (s s' : St), Inv s → run true s evs = some s' → Inv s' := by
  induction evs with
  | nil => intro s s' h hr; simp [run] at hr; subst hr; exact h
  | cons e es ih =>
    intro s s' h hr
    simp only [run] at hr
    split at hr
    · simp at hr
    · rename_i s1 hs1
      exact ih s1 s' (inv_step s s1 e h hs1) hr

/-- **Locked writers never interleave.** For every number of threads, every assignment of frames to threads, every
    chunking of every frame and every schedule allowed by the lock: once no frame is in progress the stream is exactly
    the concatenation of the frames that were written, each complete, in the order in which they were started. -/
theorem C09_locked_frames (evs : List Ev) (s : St) (hr : run true {} evs = some s) (hq : s.holder = none) :
    s.out = s.done.flatten ∧ s.done = s.started := by
  have := (inv_run evs {} s inv_init hr).2
  rw [hq] at this
  exact ⟨this.1, this.2.symm⟩

/-- While a frame is in progress the stream is the completed frames followed by a prefix of the holder's frame. -/
theorem C09_locked_prefix (evs : List Ev) (s : St) (hr : run true {} evs = some s) (t : Nat) (hq : s.holder = some t) :
    ∃ (rem : List Text) (acc : Text), s.out = s.done.flatten ++ acc ∧ s.started = s.done ++ [acc ++ rem.flatten] := by
  have := (inv_run evs {} s inv_init hr).2
  rw [hq] at this
  obtain ⟨rem, acc, _, h2, h3⟩ := this
  exact ⟨rem, acc, h2, h3⟩

/-- A writer whose frame is a single chunk needs no lock: `start; write; finish` of one thread is atomic w.r.t. the
    stream content — stated as: the unlocked system restricted to one-chunk frames keeps `out = done.flatten` whenever
    all threads are idle, and every completed frame is whole. We prove the per-frame fact used for it. -/
theorem C09_single_chunk (s : St) (t : Nat) (c : Text) (s1 s2 s3 : St)
    (h1 : step false s (.start t [c]) = some s1) (h2 : step false s1 (.write t) = some s2)
    (h3 : step false s2 (.finish t) = some s3) :
    s2.out = s.out ++ c ∧ s3.done = s.done ++ [c] := by
  simp only [step] at h1
  split at h1
  · simp at h1
  · simp only [Bool.false_and, Bool.false_eq_true, ite_false, Option.some.injEq] at h1
    subst h1
    simp only [step, upd_same, Option.some.injEq] at h2
    subst h2
    simp only [step, upd_same, Option.some.injEq] at h3
    subst h3
    simp

/-- Two unlocked writers whose frames are two chunks each (the stdio server before its repair: `Write(data)`,
    `Write("\n")`): the schedule a₁ b₁ a₂ b₂ merges the two messages into one line and emits an empty line. -/
theorem C09_unlocked_counterexample :
    let a := stdioChunks true t!"{\"id\":1}"
    let b := stdioChunks true t!"{\"id\":2}"
    ∃ s, run false {} [.start 0 a, .start 1 b, .write 0, .write 1, .write 0, .write 1, .finish 0, .finish 1] = some s ∧
      (lines s.out).1 = [t!"{\"id\":1}{\"id\":2}", []] := by
  refine ⟨_, rfl, ?_⟩
  decide

/-- …and the same schedule is simply not possible under the lock. -/
theorem C09_locked_excludes_it :
    run true {} [.start 0 (stdioChunks true t!"a"), .start 1 (stdioChunks true t!"b")] = none := by decide

/-! ### reading newline-terminated frames back -/

private theorem splitLF_acc (acc l : Text) (h : 10 ∉ l) (rest : Text) :
    splitLF acc (l ++ 10 :: rest) = ((acc ++ l) :: (splitLF [] rest).1, (splitLF [] rest).2) := by
  induction l generalizing acc with
  | nil => simp [splitLF]
  | cons c cs ih =>
    have hc : c ≠ 10 := by intro hc; apply h; simp [hc]
    have hcs : 10 ∉ cs := by intro hx; apply h; simp [hx]
    simp only [List.cons_append, splitLF, hc, ite_false]
    rw [ih (acc ++ [c]) hcs]
    simp

/-- A standards-conforming line reader recovers exactly the messages that were framed, each on its own line, as long
    as no message contains a raw LF (which `encoding/json` guarantees: see C02's escaping theorem). -/
theorem C09_lines_roundtrip (msgs : List Text) (h : ∀ m ∈ msgs, 10 ∉ m) :
    lines ((msgs.map (· ++ [10])).flatten) = (msgs, []) := by
  induction msgs with
  | nil => rfl
  | cons m ms ih =>
    have hm : 10 ∉ m := h m (by simp)
    have hms : ∀ x ∈ ms, 10 ∉ x := fun x hx => h x (by simp [hx])
    have ih' := ih hms
    simp only [lines] at ih' ⊢
    simp only [List.map_cons, List.flatten_cons, List.append_assoc, List.singleton_append]
    rw [splitLF_acc [] m hm]
    simp [ih']

/-- Put together: locked writers of newline-terminated JSON texts ⇒ the reader sees exactly the started messages. -/
theorem C09_stdio_reader (evs : List Ev) (s : St) (hr : run true {} evs = some s) (hq : s.holder = none)
    (msgs : List Text) (hs : s.started = msgs.map (· ++ [10])) (h : ∀ m ∈ msgs, 10 ∉ m) :
    lines s.out = (msgs, []) := by
  obtain ⟨h1, h2⟩ := C09_locked_frames evs s hr hq
  rw [h1, h2, hs]
  exact C09_lines_roundtrip msgs h

/-! ### the real writers (regenerated table) -/

/-- Every function of the library that writes frames to a stream shared between goroutines either holds a lock
    around the whole frame or emits the frame with a single `Write`. Complete regenerated table. -/
theorem C09_all_writers_framed : ∀ w ∈ Mcp.Gen.writers, Mcp.Gen.Writer.framed w = true := by decide

/-- T-gen: the stdio server writes the terminator of a frame UNCONDITIONALLY — both write calls of
    `stdioTransport.writeResponse` are statements of the function body itself, and one of them writes the LF. (A writer
    that cuts the frame into pieces and attaches the LF to the last piece `if len(data) > 0` keeps its two call sites
    under the mutex — the writer table above does not change — and loses the terminator for bodies of exactly k·64 KiB;
    the run-time side is the exact-size phase of the harness.) -/
theorem C09_stdio_terminator_unconditional :
    Mcp.Gen.stdioTerminatorUnconditional = true ∧ Mcp.Gen.stdioUnconditionalWrites = 2 := by decide

/-- The table covers exactly the writer functions we know about (a new writer cannot appear un-modelled). -/
theorem C09_writers_complete : Mcp.Gen.writers.map (·.fn) = Mcp.Gen.expectedWriters := by decide

/-- Every function that writes an event on a GET stream's connection is one of the two table entries that hold the
    connection's write lock (a new, un-modelled writer on that stream breaks this). -/
theorem C09_get_stream_writers_known :
    Mcp.Gen.getStreamWriteSites = ["httpServerHandler.SendRequest", "httpServerHandler.sendNotificationToGetSSE"] := by decide

-- non-vacuity: a legal locked schedule with two threads and multi-chunk frames
example : ∃ s, run true {} [.start 0 [t!"ab", t!"c\n"], .write 0, .write 0, .finish 0,
                            .start 1 [t!"x\n"], .write 1, .finish 1] = some s ∧
    s.holder = none ∧ s.out = t!"abc\nx\n" ∧ lines s.out = ([t!"abc", t!"x"], []) := by
  refine ⟨_, rfl, ?_⟩
  decide

end Mcp.Props.C09
