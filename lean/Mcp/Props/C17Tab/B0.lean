import Mcp.Props.C17Tab.Defs
namespace Mcp.Props.C17Tab
open Mcp.Retry
theorem tabB0 : (List.range' 400 25).all (fun n => transient4xx n || !isRetryable Mcp.Gen.retryLimits.codes (sseErr n [])) = true := by
  decide +kernel
end Mcp.Props.C17Tab
