import Mcp.Model.Retry
import Mcp.Gen.Consts
namespace Mcp.Props.C17Tab
open Mcp.Retry Mcp.Str
/-- The Streamable client's error text for a non-2xx answer (`streamable_client.go send`). -/
def streamableErr (n : Nat) : Text := t!"HTTP request failed: status code " ++ natDigits n
/-- The legacy SSE client's error text (`sse_client.go sendRequestInternal`; `body` is whatever the server sent). -/
def sseErr (n : Nat) (body : Text) : Text :=
  t!"HTTP request failed: status code " ++ natDigits n ++ t!", body: " ++ body
def transient4xx (n : Nat) : Bool := n == 408 || n == 409 || n == 429
end Mcp.Props.C17Tab
