import Mcp.Props.C17Tab.Defs
namespace Mcp.Props.C17Tab
open Mcp.Retry
theorem tabA0 : (List.range' 400 25).all (fun n => transient4xx n || !isRetryable Mcp.Gen.retryLimits.codes (streamableErr n)) = true := by
  decide +kernel
end Mcp.Props.C17Tab
