/-
  Lemmas about the request-serving model `Mcp.Rpc`, shared by the property files C03, C06 and C14.
-/
import Mcp.Model.Rpc
import Mcp.Model.RpcSpec
namespace Mcp.Rpc
open Mcp.Str Mcp.Json Mcp.Content Mcp.RpcSpec Mcp.Session

theorem f64Overflow_eq : f64Overflow = 2 ^ 1024 - 2 ^ 970 := by decide +kernel

/-! ## no panic -/

theorem handleInitialize_ne_panic (reg : Registry) (req : Req) : handleInitialize reg req ≠ .panic := by
  unfold handleInitialize checkInitializeParams bareParamsMap bareProtocolVersion
  cases hp : req.params with
  | none => simp
  | some p =>
    cases p <;> simp [asObj?]
    rename_i m
    unfold lookupStr?
    cases hl : lookup m t!"protocolVersion" with
    | none => simp
    | some v => cases v <;> simp

theorem ite_ne_panic {α : Type} {c : Prop} [Decidable c] {a b : Outcome α} (ha : a ≠ .panic) (hb : b ≠ .panic) :
    (if c then a else b) ≠ .panic := by
  split <;> assumption

theorem ok_ne_panic {α : Type} (a : α) : Outcome.ok a ≠ .panic := by simp

theorem dispatch_ne_panic (reg : Registry) (req : Req) : dispatch reg req ≠ .panic := by
  unfold dispatch
  repeat (first | exact handleInitialize_ne_panic reg req | exact ok_ne_panic _ | apply ite_ne_panic)

theorem dispatchStdio_ne_panic (reg : Registry) (req : Req) : dispatchStdio reg req ≠ .panic := by
  unfold dispatchStdio
  repeat (first | exact handleInitialize_ne_panic reg req | exact ok_ne_panic _ | apply ite_ne_panic)

theorem servePost_ne_panic (c : SCfg) (reg : Registry) (st : Mcp.Session.St) (ref : Mcp.Session.Ref) (j : Json) :
    (servePost c reg st ref j).2 ≠ .panic := by
  unfold servePost
  have hd := dispatch_ne_panic reg
  repeat' split
  all_goals simp_all [Reaction.http]

theorem serveStreamable_ne_panic (c : SCfg) (reg : Registry) (st : Mcp.Session.St) (i : HttpIn) :
    (serveStreamable c reg st i).2 ≠ .panic := by
  unfold serveStreamable
  have := servePost_ne_panic c reg st i.ref
  repeat' split
  all_goals simp_all [Reaction.http]

/-! ### the Accept header parser never indexes out of range -/

theorem splitOn_ne_nil (sep : Nat) (s : Text) : splitOn sep s ≠ [] := by
  induction s with
  | nil => simp [splitOn]
  | cons c rest ih =>
    unfold splitOn
    split
    · simp
    · split <;> simp

theorem mediaTypeOf_ok (item : Text) : ∃ mt, mediaTypeOf item = .ok mt := by
  unfold mediaTypeOf goIndex
  cases h : splitOn 59 (goTrimSpace item) with
  | nil => exact absurd h (splitOn_ne_nil _ _)
  | cons p ps => exact ⟨p, by simp⟩

theorem parseAcceptItems_ok (items : List Text) : ∃ as, parseAcceptItems items = .ok as := by
  induction items with
  | nil => exact ⟨[], rfl⟩
  | cons a rest ih =>
    obtain ⟨mt, hm⟩ := mediaTypeOf_ok a
    obtain ⟨ms, hr⟩ := ih
    exact ⟨if mt.isEmpty then ms else mt :: ms, by simp [parseAcceptItems, hm, hr]⟩

/-- `ParseAcceptHeader` returns for EVERY header value -/
theorem parseAccept_ok (h : Text) : ∃ as, parseAccept h = .ok as := by
  unfold parseAccept
  split
  · exact ⟨[], rfl⟩
  · exact parseAcceptItems_ok _

theorem chooseSSE_ok (postSSE : Bool) (h : Text) : ∃ b, chooseSSE postSSE h = .ok b := by
  obtain ⟨as, ha⟩ := parseAccept_ok h
  cases postSSE <;> simp [chooseSSE, ha]

theorem serveWire_ne_panic (c : SCfg) (reg : Registry) (st : Mcp.Session.St) (w : HttpWire) :
    (serveWire c reg st w).2 ≠ .panic := by
  obtain ⟨as, ha⟩ := parseAccept_ok w.accept
  simp only [serveWire, ha]
  exact serveStreamable_ne_panic c reg st _

/-- …and what it decides for well-formed headers: the answer does not depend on it (only its framing does) -/
theorem serveWire_eq (c : SCfg) (reg : Registry) (st : Mcp.Session.St) (w : HttpWire) :
    ∃ acc, serveWire c reg st w = serveStreamable c reg st ⟨w.verb, w.pathOk, w.ref, acc, w.body⟩ := by
  obtain ⟨as, ha⟩ := parseAccept_ok w.accept
  exact ⟨containsContentType as typeEventStream, by simp only [serveWire, ha]⟩

theorem serveSSE_ne_panic (reg : Registry) (i : SseIn) : serveSSE reg i ≠ .panic := by
  unfold serveSSE serveSSEMessage
  have hd := dispatch_ne_panic reg
  repeat' split
  all_goals simp_all [Reaction.http]

theorem serveStdio_ne_panic (reg : Registry) (b : Body) : serveStdio reg b ≠ .panic := by
  unfold serveStdio
  have hd := dispatchStdio_ne_panic reg
  repeat' split
  all_goals simp_all [Reaction.nothing]

/-! ## well-formed envelopes: what the three decoders make of them -/

theorem lookup_none_of_hasKey {o : Obj} {k : Text} (h : hasKey o k = false) : lookup o k = none := by
  simpa [hasKey] using h

theorem fold_env (k f : Text) (hk : k ∈ envelopeKeys) (hf : f ∈ envelopeKeys) : (foldKey k == foldKey f) = decide (k = f) := by
  simp [envelopeKeys] at hk hf
  rcases hk with rfl | rfl | rfl | rfl <;> rcases hf with rfl | rfl | rfl | rfl <;> decide

theorem fieldVals_canonical (o : Obj) (hn : keysNodup o = true) (ho : onlyKeys o envelopeKeys = true) (f : Text) (hf : f ∈ envelopeKeys) :
    fieldVals o f = (lookup o f).toList := by
  induction o with
  | nil => rfl
  | cons kv rest ih =>
    obtain ⟨k, v⟩ := kv
    simp [keysNodup] at hn
    simp [onlyKeys] at ho
    have hk : k ∈ envelopeKeys := by simpa using ho.1
    have ih' := ih hn.2 (by simpa [onlyKeys] using ho.2)
    simp only [fieldVals, List.filter_cons, fold_env k f hk hf]
    by_cases hkf : k = f
    · subst hkf
      simp [lookup]
      have := lookup_none_of_hasKey hn.1
      rw [fieldVals] at ih'
      simpa [this] using ih'
    · simp [hkf, lookup]
      rw [fieldVals] at ih'
      simpa using ih'

theorem goDecodeFields_lookup (o m : Obj) (hn : keysNodup o = true) (h : goDecodeFields o = some m) (k : Text) :
    lookup m k = (lookup o k).bind goDecode ∧ hasKey m k = hasKey o k := by
  induction o generalizing m k with
  | nil => simp [goDecodeFields] at h; subst h; simp [hasKey]
  | cons kv rest ih =>
    obtain ⟨k0, v0⟩ := kv
    simp [keysNodup] at hn
    unfold goDecodeFields at h
    cases hv : goDecode v0 with
    | none => simp [hv] at h
    | some w =>
      cases hr : goDecodeFields rest with
      | none => simp [hv, hr] at h
      | some m' =>
        simp [hv, hr] at h
        have ih' := ih m' hn.2 hr
        have hk0 : hasKey m' k0 = false := by rw [(ih' k0).2]; exact hn.1
        simp [hk0] at h
        subst h
        by_cases e : k0 = k
        · subst e; simp [lookup, hasKey, hv]
        · have := ih' k
          simp [lookup, hasKey, e] at this ⊢
          exact this

theorem hasKey_of_onlyKeys (o : Obj) (ks : List Text) (h : onlyKeys o ks = true) (k : Text) (hk : k ∉ ks) : hasKey o k = false := by
  induction o with
  | nil => rfl
  | cons kv rest ih =>
    obtain ⟨k0, v0⟩ := kv
    simp [onlyKeys] at h
    have : k0 ≠ k := fun e => hk (e ▸ h.1)
    simp [hasKey, lookup, this]
    have := ih (by simpa [onlyKeys] using h.2)
    simpa [hasKey] using this

/-- the `params` a decoder hands to the managers (`none`: nil interface) -/
def paramsOf (m : Obj) : Option Json :=
  match lookup m t!"params" with
  | none => none
  | some .null => none
  | some w => some w

theorem wfEnvelope_fields (o : Obj) (h : wfEnvelope (.obj o) = true) :
    keysNodup o = true ∧ onlyKeys o envelopeKeys = true ∧ lookup o t!"jsonrpc" = some (.str t!"2.0") ∧
    (∃ id, lookup o t!"id" = some id ∧ wfId id = true) ∧ ∃ m, lookup o t!"method" = some (.str m) := by
  simp only [wfEnvelope, Bool.and_eq_true] at h
  obtain ⟨⟨⟨⟨h1, h2⟩, h3⟩, h4⟩, h5⟩ := h
  refine ⟨h1, h2, ?_, ?_, ?_⟩
  · unfold reqIs at h3
    cases hl : lookup o t!"jsonrpc" with
    | none => simp [hl] at h3
    | some v => cases v <;> simp_all [isStrEq]
  · unfold reqIs at h4
    cases hl : lookup o t!"id" with
    | none => simp [hl] at h4
    | some v => exact ⟨v, rfl, by simpa [hl] using h4⟩
  · unfold reqIs at h5
    cases hl : lookup o t!"method" with
    | none => simp [hl] at h5
    | some v => cases v <;> simp_all [isStr]

theorem decode_wfEnvelope (o mm : Obj) (h : wfEnvelope (.obj o) = true) (hrep : goDecodeFields o = some mm) :
    ∃ id id' m, lookup o t!"id" = some id ∧ wfId id = true ∧ goDecode id = some id' ∧ lookup o t!"method" = some (.str m) ∧
      decodeRequest (.obj o) = some ⟨some id', m, paramsOf mm⟩ ∧ decodeBase (.obj o) = some ⟨m, some id'⟩ ∧
      classifyStdio (.obj o) = some .request := by
  obtain ⟨hn, ho, hv, ⟨id, hid, hwid⟩, ⟨m, hm⟩⟩ := wfEnvelope_fields o h
  have fv := fieldVals_canonical o hn ho
  have gl := goDecodeFields_lookup o mm hn hrep
  -- the id decodes
  have hidk : hasKey mm t!"id" = true := by rw [(gl _).2]; simp [hasKey, hid]
  have hid' : ∃ id', goDecode id = some id' := by
    have := (gl t!"id").1
    rw [hid] at this
    simp at this
    cases hg : goDecode id with
    | none => simp [hg] at this; simp [hasKey, this] at hidk
    | some w => exact ⟨w, rfl⟩
  obtain ⟨id', hid'⟩ := hid'
  have hnn : id' ≠ .null := by
    cases id <;> simp [wfId] at hwid <;> simp [goDecode] at hid'
    · rw [← hid'.2]; simp
    · subst hid'; simp
  have e1 : strField o t!"jsonrpc" = some t!"2.0" := by
    simp [strField, fv _ (by decide : t!"jsonrpc" ∈ envelopeKeys), hv, strFieldAux]
  have e2 : strField o t!"method" = some m := by
    simp [strField, fv _ (by decide : t!"method" ∈ envelopeKeys), hm, strFieldAux]
  have e3 : anyField o t!"id" = some (some id') := by
    simp [anyField, fv _ (by decide : t!"id" ∈ envelopeKeys), hid, anyFieldAux, hid']
  have e4 : anyField o t!"params" = some (paramsOf mm) := by
    simp only [anyField, fv _ (by decide : t!"params" ∈ envelopeKeys), paramsOf]
    have g := gl t!"params"
    cases hp : lookup o t!"params" with
    | none => simp [hp] at g; simp [anyFieldAux, g.1]
    | some p =>
      simp [hp] at g
      have hk : hasKey mm t!"params" = true := by rw [g.2]; simp [hasKey, hp]
      cases hg : goDecode p with
      | none => simp [hg] at g; simp [hasKey, g.1] at hk
      | some w =>
        simp [hg] at g
        simp [anyFieldAux, hg, g.1]
        cases w <;> simp
  refine ⟨id, id', m, hid, hwid, hid', hm, ?_, ?_, ?_⟩
  · simp [decodeRequest, asMapTarget, e1, e2, e3, e4]
  · simp [decodeBase, asMapTarget, e1, e2, e3]
  · have j1 : lookupStr? mm t!"jsonrpc" = some version20 := by
      have := (gl t!"jsonrpc").1
      simp [hv, goDecode] at this
      simp [lookupStr?, this, version20]
    have j2 : hasKey mm t!"error" = false := by
      rw [(gl _).2]; exact hasKey_of_onlyKeys o _ ho _ (by decide)
    have j3 : hasKey mm t!"result" = false := by
      rw [(gl _).2]; exact hasKey_of_onlyKeys o _ ho _ (by decide)
    simp [classifyStdio, hrep, j1, hidk, j2, j3]

/-! ## result shapes: what the encoders produce satisfies the MCP schema predicates of `Mcp.RpcSpec` -/

theorem lookup_append (a b : Obj) (k : Text) :
    lookup (a ++ b) k = (lookup a k).or (lookup b k) := by
  induction a with
  | nil => simp [lookup]
  | cons kv rest ih =>
    obtain ⟨k0, v0⟩ := kv
    by_cases h : k0 = k <;> simp [lookup, h, ih]

theorem wf_resourceContents (rc : ResourceContents) : wfResourceContents (encodeResourceContents rc) = true := by
  cases rc with
  | text uri mime text =>
    by_cases hm : mime.isEmpty = true <;>
      simp [encodeResourceContents, wfResourceContents, reqIs, optIs, optField, hm, lookup, hasKey, isStr]
  | blob uri mime blob =>
    by_cases hm : mime.isEmpty = true <;>
      simp [encodeResourceContents, wfResourceContents, reqIs, optIs, optField, hm, lookup, hasKey, isStr]

theorem wf_content (c : Content) : wfContent (encodeContent c) = true := by
  cases c with
  | text s a => cases a <;> simp [encodeContent, wfContent, annField, encodeAnnotations, reqIs, optIs, lookup, isStr, isObj, tagText]
  | image d m a => cases a <;> simp [encodeContent, wfContent, annField, encodeAnnotations, reqIs, optIs, lookup, isStr, isObj, tagImage]
  | audio d m a => cases a <;> simp [encodeContent, wfContent, annField, encodeAnnotations, reqIs, optIs, lookup, isStr, isObj, tagAudio]
  | embedded r a =>
    have := wf_resourceContents r
    cases a <;> simp [encodeContent, wfContent, annField, encodeAnnotations, reqIs, optIs, lookup, isStr, isObj, tagEmbedded, this]

theorem metaField_lookup (m : Obj) (k : Text) (hk : k ≠ t!"_meta") : lookup (metaField m) k = none := by
  unfold metaField; split <;> simp [lookup, Ne.symm hk]

theorem metaField_meta (m : Obj) : optIs (metaField m) t!"_meta" isObj = true := by
  unfold metaField; split <;> simp [optIs, lookup, isObj]

theorem wf_callResult (r : CallToolResult) (cs : List Content) (hc : r.content = some cs) :
    wfResult t!"tools/call" (encodeResult r) = true := by
  have hl : (cs.map encodeContent).all wfContent = true := by
    simp only [List.all_map, List.all_eq_true]
    intro c _; exact wf_content c
  unfold encodeResult wfResult
  simp only [hc, sliceJson]
  have m1 := metaField_meta r.metaMap
  have m2 := metaField_lookup r.metaMap t!"content" (by decide)
  have m3 := metaField_lookup r.metaMap t!"isError" (by decide)
  cases hmm : lookup (metaField r.metaMap) t!"_meta" <;> cases hs : r.structured <;> cases he : r.isError <;>
    simp_all [optIs, listOf, lookup_append, structuredField, optField, lookup, isBool]
theorem wf_promptMessage (m : PromptMessage) (hr : roleOk m.role = true) (c : Content) (hc : m.content = some c) :
    wfPromptMessage (encodePromptMessage m) = true := by
  have := wf_content c
  simp [roleOk] at hr
  simp [encodePromptMessage, wfPromptMessage, reqIs, lookup, hc, encodeContentOpt, this, wfRole, hr]

theorem wf_getPrompt (r : GetPromptResult) (ms : List PromptMessage) (hm : r.messages = some ms) (h : promptConforms r) :
    wfResult t!"prompts/get" (encodeGetPrompt r) = true := by
  have hall : ∀ m ∈ ms, roleOk m.role = true ∧ ∃ c, m.content = some c := by
    intro m hmem; exact h m (by simp [hm, hmem])
  have hl : (ms.map encodePromptMessage).all wfPromptMessage = true := by
    simp only [List.all_map, List.all_eq_true]
    intro m hmem
    obtain ⟨hr, c, hc⟩ := hall m hmem
    exact wf_promptMessage m hr c hc
  unfold encodeGetPrompt wfResult
  simp only [hm, sliceJson]
  have m2 := metaField_lookup r.metaMap t!"messages" (by decide)
  have m3 := metaField_lookup r.metaMap t!"description" (by decide)
  have m1 := metaField_meta r.metaMap
  cases hmm : lookup (metaField r.metaMap) t!"_meta" <;> by_cases hd : r.description.isEmpty = true <;>
    simp_all [optIs, listOf, lookup_append, optField, lookup, isStr]

theorem wf_readResource (cs : List ResourceContents) : wfResult t!"resources/read" (encodeReadResource (some cs)) = true := by
  have hl : (cs.map encodeResourceContents).all wfResourceContents = true := by
    simp only [List.all_map, List.all_eq_true]; intro c _; exact wf_resourceContents c
  simp_all [encodeReadResource, wfResult, sliceJson, optIs, listOf, lookup]

theorem wf_tool (t : ToolDesc) (s : Obj) (hs : t.inputSchema = some (.obj s)) (ht : lookup s t!"type" = some (.str t!"object")) :
    wfTool (encodeTool t) = true := by
  unfold encodeTool wfTool
  by_cases hd : t.description.isEmpty = true <;> cases ho : t.outputSchema <;> cases ha : t.annotations <;>
    simp_all [reqIs, optIs, optField, lookup, isStr, isObj, wfInputSchema, isStrEq, encodeToolAnnotations]

theorem wf_listTools (reg : Registry) (h : reg.Conforming) :
    wfResult t!"tools/list" (encodeListTools (reg.toolFilter (reg.tools.map (·.desc)))) = true := by
  have hl : ((reg.toolFilter (reg.tools.map (·.desc))).map encodeTool).all wfTool = true := by
    simp only [List.all_map, List.all_eq_true]
    intro d hd
    obtain ⟨s, hs, hty⟩ := h.listed d hd
    exact wf_tool d s hs hty
  simp_all [encodeListTools, wfResult, optIs, listOf, lookup]

theorem wf_promptArg (a : PromptArg) : wfPromptArgument (encodePromptArg a) = true := by
  by_cases hd : a.desc.isEmpty = true <;> cases hr : a.required <;>
    simp_all [encodePromptArg, wfPromptArgument, reqIs, optIs, optField, lookup, isStr, isBool]

theorem wf_prompt (p : PromptEntry) : wfPrompt (encodePrompt p) = true := by
  have hl : (p.args.map encodePromptArg).all wfPromptArgument = true := by
    simp only [List.all_map, List.all_eq_true]; intro a _; exact wf_promptArg a
  by_cases hd : p.desc.isEmpty = true <;> by_cases ha : p.args.isEmpty = true <;>
    simp_all [encodePrompt, wfPrompt, reqIs, optIs, optField, lookup, isStr]

theorem wf_listPrompts (ps : List PromptEntry) : wfResult t!"prompts/list" (.obj [(t!"prompts", .arr (ps.map encodePrompt))]) = true := by
  have hl : (ps.map encodePrompt).all wfPrompt = true := by
    simp only [List.all_map, List.all_eq_true]; intro p _; exact wf_prompt p
  simp_all [wfResult, optIs, listOf, lookup]

theorem wf_resource (r : ResEntry) : wfResource (encodeResource r) = true := by
  by_cases hd : r.desc.isEmpty = true <;> by_cases hm : r.mime.isEmpty = true <;> by_cases hs : r.size = 0 <;>
    simp_all [encodeResource, wfResource, reqIs, optIs, optField, lookup, isStr]

theorem wf_listResources (rs : List ResEntry) : wfResult t!"resources/list" (.obj [(t!"resources", .arr (rs.map encodeResource))]) = true := by
  have hl : (rs.map encodeResource).all wfResource = true := by
    simp only [List.all_map, List.all_eq_true]; intro p _; exact wf_resource p
  simp_all [wfResult, optIs, listOf, lookup]

theorem wf_initResult (reg : Registry) (v : Text) : wfResult t!"initialize" (initResult reg v) = true := by
  simp [initResult, encodeInit, wfResult, optIs, reqIs, lookup, isStr, isObj, wfImplementation, Mcp.Lifecycle.answerInit]

theorem findTool_mem {ts : List ToolEntry} {n : Text} {t : ToolEntry} (h : findTool ts n = some t) : t ∈ ts ∧ t.desc.name = n := by
  unfold findTool at h
  exact ⟨List.mem_of_find?_eq_some h, by simpa using List.find?_some h⟩

theorem findPrompt_mem {ps : List PromptEntry} {n : Text} {p : PromptEntry} (h : findPrompt ps n = some p) : p ∈ ps ∧ p.name = n := by
  unfold findPrompt at h
  exact ⟨List.mem_of_find?_eq_some h, by simpa using List.find?_some h⟩

theorem findResource_mem {rs : List ResEntry} {u : Text} {r : ResEntry} (h : findResource rs u = some r) : r ∈ rs ∧ r.uri = u := by
  unfold findResource at h
  exact ⟨List.mem_of_find?_eq_some h, by simpa using List.find?_some h⟩

theorem toolArguments_error (m : Obj) (e : Ans) (h : toolArguments m = .error e) : ∃ msg, e = .error codeInvalidParams msg := by
  unfold toolArguments at h
  split at h <;> simp at h <;> exact ⟨_, h.symm⟩

theorem runTool_wf (reg : Registry) (h : reg.Conforming) (tool : ToolEntry) (ht : tool ∈ reg.tools) (a : Option Obj) (r : Json)
    (hr : runTool tool a = .result r) : wfResult t!"tools/call" r = true := by
  unfold runTool at hr
  split at hr <;> simp at hr
  rename_i r' hrun
  subst hr
  exact wf_callResult _ (r'.content.getD []) rfl

theorem handleCallTool_wf (reg : Registry) (h : reg.Conforming) (req : Req) (r : Json)
    (hr : handleCallTool reg req = .result r) : wfResult t!"tools/call" r = true := by
  unfold handleCallTool at hr
  repeat' split at hr
  all_goals first | (simp at hr; done) | skip
  · rename_i e he
    obtain ⟨msg, rfl⟩ := toolArguments_error _ _ he
    simp at hr
  · rename_i tool hfind _ a _
    exact runTool_wf reg h tool (findTool_mem hfind).1 a r hr

theorem handleGetPrompt_wf (reg : Registry) (h : reg.Conforming) (req : Req) (r : Json)
    (hr : handleGetPrompt reg req = .result r) : wfResult t!"prompts/get" r = true := by
  unfold handleGetPrompt at hr
  repeat' split at hr
  all_goals first | (simp at hr; done) | skip
  rename_i p hfind
  unfold runPrompt at hr
  split at hr <;> simp at hr
  rename_i r' hrun
  subst hr
  refine wf_getPrompt _ (r'.messages.getD []) rfl ?_
  intro m hm
  have hc := h.prompts p (findPrompt_mem hfind).1 _ r' hrun
  exact hc m (by simpa using hm)

theorem handleReadResource_wf (reg : Registry) (h : reg.Conforming) (req : Req) (r : Json)
    (hr : handleReadResource reg req = .result r) : wfResult t!"resources/read" r = true := by
  unfold handleReadResource at hr
  repeat' split at hr
  all_goals first | (simp at hr; done) | skip
  rename_i e hfind
  unfold runResource at hr
  split at hr <;> simp at hr
  rename_i cs hrun
  subst hr
  exact wf_readResource _
/-! ## the request as the spec reads it vs. as the struct decoder binds it -/

def plainLower (c : Nat) : Prop := 97 ≤ c ∧ c ≤ 122 ∧ c ≠ 107 ∧ c ≠ 115

theorem foldChar_iff (x c : Nat) (hc : plainLower c) :
    (foldChar x = foldChar c) ↔ (lowerChar x = c) := by
  unfold plainLower at hc
  unfold foldChar lowerChar
  split <;> split <;> (try split) <;> (try split) <;> (try split) <;> constructor <;> intro h <;> omega

theorem foldKey_iff (k n : Text) (hn : ∀ c ∈ n, plainLower c) : (foldKey k = foldKey n) ↔ (toLower k = n) := by
  induction k generalizing n with
  | nil => cases n <;> simp [foldKey, toLower]
  | cons x xs ih =>
    cases n with
    | nil => simp [foldKey, toLower]
    | cons c cs =>
      have h1 := foldChar_iff x c (hn c (by simp))
      have h2 := ih cs (fun d hd => hn d (by simp [hd]))
      simp only [foldKey, toLower, List.map_cons, List.cons.injEq] at h2 ⊢
      rw [h1, h2]

theorem fold_id (k : Text) : (foldKey k == foldKey t!"id") = (toLower k == t!"id") := by
  have := foldKey_iff k t!"id" (by intro c hc; simp at hc; rcases hc with rfl | rfl <;> simp [plainLower])
  rw [Bool.eq_iff_iff, beq_iff_eq, beq_iff_eq]; exact this

theorem fold_method (k : Text) : (foldKey k == foldKey t!"method") = (toLower k == t!"method") := by
  have := foldKey_iff k t!"method" (by intro c hc; simp at hc; rcases hc with rfl | rfl | rfl | rfl | rfl | rfl <;> simp [plainLower])
  rw [Bool.eq_iff_iff, beq_iff_eq, beq_iff_eq]; exact this

theorem fieldVals_id (o : Obj) : fieldVals o t!"id" = (membersLoose o t!"id").map (·.2) := by
  simp [fieldVals, membersLoose, fold_id]

theorem fieldVals_method (o : Obj) : fieldVals o t!"method" = (membersLoose o t!"method").map (·.2) := by
  simp [fieldVals, membersLoose, fold_method]
theorem f64RoundInt_exact (i : Int) (h : i.natAbs ≤ two53) : f64RoundInt i = i := by
  cases i with
  | ofNat n =>
    have : n ≤ two53 := by simpa [Int.natAbs] using h
    simp [f64RoundInt, f64RoundNat, this]
  | negSucc n =>
    have : n + 1 ≤ two53 := by simpa [Int.natAbs] using h
    simp [f64RoundInt, f64RoundNat, this, Int.negSucc_eq]

theorem log2_ge_53 (n : Nat) (h : ¬ n ≤ 9007199254740992) : 53 ≤ Nat.log2 n := by
  have hn : n ≠ 0 := by omega
  rw [Nat.le_log2 hn]
  have : (2:Nat) ^ 53 = 9007199254740992 := by decide
  omega

theorem nearestDoubleNat_eq (n : Nat) : nearestDoubleNat n = f64RoundNat n := by
  unfold nearestDoubleNat f64RoundNat two53
  split
  · rfl
  · rename_i h
    have hk := log2_ge_53 n h
    simp only [Nat.shiftRight_eq_div_pow, Nat.shiftLeft_eq]
    have h2 : (2:Nat) ^ (Nat.log2 n - 52) = 2 * 2 ^ (Nat.log2 n - 52 - 1) := by
      have : Nat.log2 n - 52 = (Nat.log2 n - 52 - 1) + 1 := by omega
      conv => lhs; rw [this, Nat.pow_succ]
      omega
    generalize 2 ^ (Nat.log2 n - 52 - 1) = half at h2
    generalize hd : 2 ^ (Nat.log2 n - 52) = d at h2
    have hc : (d < 2 * (n % d) ∨ 2 * (n % d) = d ∧ n / d % 2 = 1) ↔ (n % d > half ∨ n % d = half ∧ n / d % 2 = 1) := by
      constructor <;> intro hh <;> rcases hh with hh | ⟨h1, h3⟩ <;> first | (left; omega) | (right; exact ⟨by omega, h3⟩)
    by_cases hx : (d < 2 * (n % d) ∨ 2 * (n % d) = d ∧ n / d % 2 = 1)
    · rw [if_pos hx, if_pos (hc.mp hx)]
    · rw [if_neg hx, if_neg (fun h => hx (hc.mpr h))]

/-- half a unit in the last place a double keeps -/
theorem nearestDoubleNat_close (n : Nat) :
    2 * (nearestDoubleNat n - n) ≤ 2 ^ (Nat.log2 n - 52) ∧ 2 * (n - nearestDoubleNat n) ≤ 2 ^ (Nat.log2 n - 52) := by
  unfold nearestDoubleNat
  split
  · simp
  · dsimp only
    generalize hd : 2 ^ (Nat.log2 n - 52) = d
    have hdpos : 0 < d := by rw [← hd]; exact Nat.pow_pos (by decide)
    have hdm := Nat.div_add_mod n d
    have hlt := Nat.mod_lt n hdpos
    have hmul : d * (n / d) = n / d * d := Nat.mul_comm _ _
    have hsucc : (n / d + 1) * d = n / d * d + d := by rw [Nat.add_mul, Nat.one_mul]
    rw [hsucc]
    rw [hmul] at hdm
    generalize n / d * d = Q at *
    generalize n % d = r at *
    split <;> omega

theorem nearestDouble_eq (i : Int) : nearestDouble i = f64RoundInt i := by
  cases i <;> simp [nearestDouble, f64RoundInt, nearestDoubleNat_eq]

theorem nearestDoubleNat_pos (n : Nat) (hn : 0 < n) : 0 < nearestDoubleNat n := by
  have h1 := (nearestDoubleNat_close n).2
  by_cases hle : n ≤ 9007199254740992
  · simp [nearestDoubleNat, hle, hn]
  · have hk := log2_ge_53 n hle
    have hn0 : n ≠ 0 := by omega
    have hp := (Nat.le_log2 hn0 (k := Nat.log2 n)).mp (Nat.le_refl _)
    have hsplit : 2 ^ Nat.log2 n = 2 ^ (Nat.log2 n - 52) * 2 ^ 52 := by
      rw [← Nat.pow_add]; congr 1; omega
    rw [hsplit] at hp
    have h52 : (2:Nat) ^ 52 = 4503599627370496 := by decide
    rw [h52] at hp
    generalize 2 ^ (Nat.log2 n - 52) = d at *
    omega

theorem nearestDouble_close (i : Int) :
    2 * (nearestDouble i - i).natAbs ≤ 2 ^ (Nat.log2 i.natAbs - 52) ∧
    (0 < i → 0 < nearestDouble i) ∧ (i < 0 → nearestDouble i < 0) := by
  cases i with
  | ofNat n =>
    have ⟨h1, h2⟩ := nearestDoubleNat_close n
    have hp := nearestDoubleNat_pos n
    simp only [nearestDouble, Int.ofNat_eq_natCast, Int.natAbs_natCast]
    generalize 2 ^ (Nat.log2 n - 52) = d at *
    generalize nearestDoubleNat n = m at *
    omega
  | negSucc n =>
    have ⟨h1, h2⟩ := nearestDoubleNat_close (n + 1)
    have hp := nearestDoubleNat_pos (n + 1) (by omega)
    have hab : (Int.negSucc n).natAbs = n + 1 := rfl
    rw [hab]
    simp only [nearestDouble, Int.ofNat_eq_natCast, Int.negSucc_eq]
    generalize 2 ^ (Nat.log2 (n + 1) - 52) = d at *
    generalize nearestDoubleNat (n + 1) = m at *
    omega

theorem idDemand_nil (o : Obj) (h : membersLoose o t!"id" = []) : idDemand (some (.obj o)) = .null := by
  simp [idDemand, h]
theorem idDemand_single (o : Obj) (k : Text) (v : Json) (h : membersLoose o t!"id" = [(k, v)]) :
    idDemand (some (.obj o)) = if k = t!"id" then idTarget v else .any := by
  simp [idDemand, h]
theorem idDemand_many (o : Obj) (a b : Text × Json) (rest : Obj) (h : membersLoose o t!"id" = a :: b :: rest) :
    idDemand (some (.obj o)) = .any := by
  simp [idDemand, h]

theorem two53_lt_overflow : 9007199254740992 < f64Overflow := by decide +kernel

/-- the id a server echoes (`null` for a nil id) satisfies the demand the request's id member(s) create: a string comes
    back as it is, an integer as the double nearest to it, a decimal as it is -/
theorem id_ok (o : Obj) (oid : Option Json) (h : anyField o t!"id" = some oid) :
    idOk (idDemand (some (.obj o))) (oid.getD .null) = true := by
  rw [anyField, fieldVals_id] at h
  cases hm : membersLoose o t!"id" with
  | nil =>
    rw [hm] at h; simp [anyFieldAux] at h; subst h
    rw [idDemand_nil o hm]; rfl
  | cons kv rest =>
    obtain ⟨k, v⟩ := kv
    cases rest with
    | cons b rest' => rw [idDemand_many o _ _ _ hm]; rfl
    | nil =>
      rw [idDemand_single o k v hm]
      by_cases hk : k = t!"id"
      · simp only [hk, if_true]
        rw [hm] at h
        simp only [List.map_cons, List.map_nil, anyFieldAux] at h
        cases v with
        | str s => simp [goDecode] at h; subst h; simp [idTarget, idOk, idEq]
        | int i =>
          by_cases hlt : i.natAbs < f64Overflow
          · simp [goDecode, hlt] at h; subst h; simp [idTarget, idOk, idEq, nearestDouble_eq]
          · simp [goDecode, hlt] at h
        | dec m e =>
          by_cases hlt : m.natAbs < f64Overflow * 10 ^ e
          · simp [goDecode, hlt] at h; subst h; simp [idTarget, idOk, idEq]
          · simp [goDecode, hlt] at h
        | _ => simp [idTarget, idOk]
      · simp only [hk, if_false]; rfl

theorem requestMethod_single (o : Obj) (k m : Text) (h : membersLoose o t!"method" = [(k, .str m)]) :
    requestMethod (some (.obj o)) = if k = t!"method" then m else [] := by
  simp [requestMethod, h]

/-- the method the spec reads off the request is the one the server dispatches on — or the spec reads none -/
theorem method_ok (o : Obj) (m : Text) (h : strField o t!"method" = some m) :
    requestMethod (some (.obj o)) = m ∨ requestMethod (some (.obj o)) = [] := by
  rw [strField, fieldVals_method] at h
  cases hm : membersLoose o t!"method" with
  | nil => right; simp [requestMethod, hm]
  | cons kv rest =>
    obtain ⟨k, v⟩ := kv
    cases rest with
    | cons _ _ => right; simp [requestMethod, hm]
    | nil =>
      cases v with
      | str s =>
        rw [requestMethod_single o k s hm]
        rw [hm] at h
        simp [strFieldAux] at h
        by_cases hk : k = t!"method"
        · left; simp [hk, h]
        · right; simp [hk]
      | _ => right; simp [requestMethod, hm]

theorem wfResult_nil (m : Text) (r : Json) (h : wfResult m r = true) : wfResult [] r = true := by
  cases r <;> simp_all [wfResult]

theorem wfMsg_okMsg (req : Option Json) (id : Option Json) (r : Json) :
    wfMsg req (okMsg id r) = (idOk (idDemand req) (id.getD .null) && wfResult (requestMethod req) r) := by
  simp [wfMsg, okMsg, jsonrpcField, version20, keysNodup, hasKey, lookup, reqIs, isStrEq, onlyKeys]

theorem wfMsg_errMsg (req : Option Json) (id : Option Json) (code : Int) (msg : Text) :
    wfMsg req (errMsg id code msg) =
      (idOk (idDemand req) (id.getD .null) || (isNull (id.getD .null) && (code == -32700 || code == -32600))) := by
  simp [wfMsg, errMsg, jsonrpcField, version20, keysNodup, hasKey, lookup, reqIs, isStrEq, onlyKeys, wfError, isInt, isStr,
    isUnidentifiedError]

theorem handleInitialize_result (reg : Registry) (req : Req) (r : Json) (h : handleInitialize reg req = .ok (.result r)) :
    ∃ v, r = initResult reg v := by
  unfold handleInitialize at h
  split at h
  · rename_i e he
    unfold checkInitializeParams at he
    repeat' split at he
    all_goals simp at he
    all_goals (subst he; simp at h)
  · split at h
    · simp at h
    · split at h
      · simp at h
      · rename_i v _
        simp at h
        exact ⟨v, h.symm⟩

theorem dispatch_result_wf (reg : Registry) (hc : reg.Conforming) (req : Req) (r : Json)
    (hd : dispatch reg req = .ok (.result r)) : wfResult req.method r = true := by
  unfold dispatch at hd
  by_cases h0 : req.method = t!"initialize"
  · rw [if_pos h0] at hd; rw [h0]
    obtain ⟨v, rfl⟩ := handleInitialize_result reg req r hd
    exact wf_initResult reg v
  rw [if_neg h0] at hd
  by_cases h1 : req.method = t!"ping"
  · rw [if_pos h1] at hd; rw [h1]
    simp at hd; subst hd; simp [wfResult, optIs, lookup]
  rw [if_neg h1] at hd
  by_cases h2 : req.method = t!"tools/list"
  · rw [if_pos h2] at hd; rw [h2]
    simp [handleListTools] at hd; subst hd; exact wf_listTools reg hc
  rw [if_neg h2] at hd
  by_cases h3 : req.method = t!"tools/call"
  · rw [if_pos h3] at hd; rw [h3]
    simp at hd; exact handleCallTool_wf reg hc req r hd
  rw [if_neg h3] at hd
  by_cases h4 : req.method = t!"resources/list"
  · rw [if_pos h4] at hd; rw [h4]
    simp [handleListResources] at hd; subst hd; exact wf_listResources _
  rw [if_neg h4] at hd
  by_cases h5 : req.method = t!"resources/read"
  · rw [if_pos h5] at hd; rw [h5]
    simp at hd; exact handleReadResource_wf reg hc req r hd
  rw [if_neg h5] at hd
  by_cases h6 : req.method = t!"resources/templates/list"
  · rw [if_pos h6] at hd; rw [h6]
    simp [handleListTemplates] at hd; subst hd; simp [wfResult, optIs, listOf, lookup]
  rw [if_neg h6] at hd
  by_cases h7 : req.method = t!"resources/subscribe"
  · rw [if_pos h7] at hd; rw [h7]
    simp at hd
    unfold handleSubscribe at hd
    repeat' split at hd
    all_goals simp at hd
    subst hd; simp [wfResult, optIs, lookup]
  rw [if_neg h7] at hd
  by_cases h8 : req.method = t!"resources/unsubscribe"
  · rw [if_pos h8] at hd; rw [h8]
    simp at hd
    unfold handleUnsubscribe at hd
    repeat' split at hd
    all_goals simp at hd
    subst hd; simp [wfResult, optIs, lookup]
  rw [if_neg h8] at hd
  by_cases h9 : req.method = t!"prompts/list"
  · rw [if_pos h9] at hd; rw [h9]
    simp [handleListPrompts] at hd; subst hd; exact wf_listPrompts _
  rw [if_neg h9] at hd
  by_cases h10 : req.method = t!"prompts/get"
  · rw [if_pos h10] at hd; rw [h10]
    simp at hd; exact handleGetPrompt_wf reg hc req r hd
  rw [if_neg h10] at hd
  by_cases h11 : req.method = t!"completion/complete"
  · rw [if_pos h11] at hd; rw [h11]
    simp at hd
    unfold handleCompletion at hd
    repeat' split at hd
    all_goals simp at hd
  rw [if_neg h11] at hd
  simp at hd

theorem dispatchStdio_result_wf (reg : Registry) (hc : reg.Conforming) (req : Req) (r : Json)
    (hd : dispatchStdio reg req = .ok (.result r)) : wfResult req.method r = true := by
  unfold dispatchStdio at hd
  by_cases h0 : req.method = t!"initialize"
  · rw [if_pos h0] at hd; rw [h0]
    obtain ⟨v, rfl⟩ := handleInitialize_result reg req r hd
    exact wf_initResult reg v
  rw [if_neg h0] at hd
  by_cases h1 : req.method = t!"tools/list"
  · rw [if_pos h1] at hd; rw [h1]
    simp [handleListTools] at hd; subst hd; exact wf_listTools reg hc
  rw [if_neg h1] at hd
  by_cases h2 : req.method = t!"tools/call"
  · rw [if_pos h2] at hd; rw [h2]
    simp at hd; exact handleCallTool_wf reg hc req r hd
  rw [if_neg h2] at hd
  by_cases h3 : req.method = t!"prompts/list"
  · rw [if_pos h3] at hd; rw [h3]
    simp [handleListPrompts] at hd; subst hd; exact wf_listPrompts _
  rw [if_neg h3] at hd
  by_cases h4 : req.method = t!"prompts/get"
  · rw [if_pos h4] at hd; rw [h4]
    simp at hd; exact handleGetPrompt_wf reg hc req r hd
  rw [if_neg h4] at hd
  by_cases h5 : req.method = t!"resources/list"
  · rw [if_pos h5] at hd; rw [h5]
    simp [handleListResources] at hd; subst hd; exact wf_listResources _
  rw [if_neg h5] at hd
  by_cases h6 : req.method = t!"resources/read"
  · rw [if_pos h6] at hd; rw [h6]
    simp at hd; exact handleReadResource_wf reg hc req r hd
  rw [if_neg h6] at hd
  by_cases h7 : req.method = t!"ping"
  · rw [if_pos h7] at hd; rw [h7]
    simp at hd; subst hd; simp [wfResult, optIs, lookup]
  rw [if_neg h7] at hd
  simp at hd

/-! ## every emitted message is well-formed -/

theorem decodeRequest_fields (j : Json) (req : Req) (h : decodeRequest j = some req) :
    (j = .null ∧ req.id = none) ∨ ∃ o, j = .obj o ∧ anyField o t!"id" = some req.id ∧ strField o t!"method" = some req.method := by
  unfold decodeRequest at h
  cases j <;> simp [asMapTarget] at h
  · left; subst h; exact ⟨rfl, rfl⟩
  · rename_i o
    right
    refine ⟨o, rfl, ?_⟩
    repeat' split at h
    all_goals simp at h
    subst h
    simp_all

theorem decode_agree (j : Json) (b : Base) (req : Req) (hb : decodeBase j = some b) (hr : decodeRequest j = some req) :
    req.id = b.id ∧ req.method = b.method := by
  unfold decodeBase at hb
  unfold decodeRequest at hr
  cases j <;> simp [asMapTarget] at hb hr
  · subst hb; subst hr; simp
  · repeat' split at hb
    all_goals simp at hb
    repeat' split at hr
    all_goals simp at hr
    subst hb; subst hr
    simp_all

/-- every message an answer becomes is well-formed with respect to the request object it answers -/
theorem ansMsg_wf (o : Obj) (req : Req) (a : Ans)
    (hf : anyField o t!"id" = some req.id) (hm : strField o t!"method" = some req.method)
    (hres : ∀ r, a = .result r → wfResult req.method r = true) :
    ∀ m ∈ (ansMsg req.id a).toList, wfMsg (some (.obj o)) m = true := by
  intro m hmem
  have hidok := id_ok o req.id hf
  cases a with
  | result r =>
    simp [ansMsg] at hmem; subst hmem
    rw [wfMsg_okMsg, hidok]
    have hr := hres r rfl
    rcases method_ok o req.method hm with h | h <;> rw [h]
    · simp [hr]
    · simp [wfResult_nil _ _ hr]
  | error c msg =>
    simp [ansMsg] at hmem; subst hmem
    rw [wfMsg_errMsg, hidok]; rfl
  | unencodable why =>
    simp [ansMsg] at hmem; subst hmem
    rw [wfMsg_errMsg, hidok]; rfl

/-- an error answer for an unidentified request (id null, Parse error / Invalid Request) is well-formed whatever was sent -/
theorem wfMsg_unidentified (req : Option Json) (code : Int) (msg : Text) (h : code = -32700 ∨ code = -32600) :
    wfMsg req (errMsg none code msg) = true := by
  rw [wfMsg_errMsg]
  rcases h with h | h <;> subst h <;> simp [isNull]

theorem wf_servePost (c : SCfg) (reg : Registry) (st : St) (ref : Ref) (j : Json) (hc : reg.Conforming) :
    ∀ m ∈ (servePost c reg st ref j).2.messages, wfMsg (some j) m = true := by
  unfold servePost
  cases hb : decodeBase j with
  | none => simp [Reaction.http, Reaction.messages]
  | some b =>
    simp only []
    cases hres : resolve c.sess st (b.id.isSome && b.method == t!"initialize") ref with
    | error s => simp [Reaction.http, Reaction.messages]
    | ok p =>
      obtain ⟨st1, sess⟩ := p
      simp only []
      by_cases h1 : (b.id.isSome && !b.method.isEmpty) = true
      · simp only [h1, if_true]
        cases hreq : decodeRequest j with
        | none => simp [Reaction.http, Reaction.messages]
        | some req =>
          simp only []
          cases hd : dispatch reg req with
          | panic => simp [Reaction.messages]
          | ok a =>
            simp only [Reaction.http, Reaction.messages, List.append_nil]
            have hag := decode_agree j b req hb hreq
            have hsome : b.id.isSome = true := by simp_all
            rcases decodeRequest_fields j req hreq with ⟨_, hn⟩ | ⟨o, rfl, hf, hm⟩
            · rw [hag.1] at hn; simp [hn] at hsome
            · exact ansMsg_wf o req a hf hm (fun r hr => dispatch_result_wf reg hc req r (hr ▸ hd))
      · simp only [h1, Bool.false_eq_true, if_false]
        by_cases h2 : (!b.method.isEmpty) = true
        · simp only [h2, if_true]
          cases decodeNotification j <;> simp [Reaction.http, Reaction.messages]
        · simp only [h2, Bool.false_eq_true, if_false]
          by_cases h3 : b.id.isSome = true
          · simp only [h3, if_true]
            cases decodeResponse j <;> simp [Reaction.http, Reaction.messages]
          · simp [h3, Reaction.http, Reaction.messages]

theorem wf_serveStreamable (c : SCfg) (reg : Registry) (st : St) (i : HttpIn) (hc : reg.Conforming) :
    ∀ m ∈ (serveStreamable c reg st i).2.messages, wfMsg i.body.json? m = true := by
  unfold serveStreamable
  by_cases hp : i.pathOk = true
  · simp only [hp]
    cases hv : i.verb with
    | post =>
      cases hbd : i.body with
      | parseFail => simp [Reaction.http, Reaction.messages]
      | json j =>
        simp only [Bool.not_true, Bool.false_eq_true, if_false, Body.json?]
        exact wf_servePost c reg st i.ref j hc
    | get => simp [Reaction.http, Reaction.messages]
    | delete => simp [Reaction.http, Reaction.messages]
    | other => simp [Reaction.http, Reaction.messages]
  · have hp' : i.pathOk = false := by simpa using hp
    simp [hp', Reaction.http, Reaction.messages]

theorem wf_serveSSE (reg : Registry) (i : SseIn) (hc : reg.Conforming) :
    ∀ m ∈ (serveSSE reg i).messages, wfMsg i.body.json? m = true := by
  unfold serveSSE
  cases hp : i.path with
  | other => simp [Reaction.http, Reaction.messages]
  | sse => simp only []; split <;> simp [Reaction.http, Reaction.messages]
  | message =>
    simp only []
    by_cases hv : i.verb = .post
    · simp only [hv, ne_eq, not_true_eq_false, if_false]
      cases hr : i.ref with
      | missing => simp [Reaction.http, Reaction.messages]
      | unknown => simp [Reaction.http, Reaction.messages]
      | live =>
        simp only []
        cases hbd : i.body with
        | parseFail =>
          simp [serveSSEMessage, Reaction.http, Reaction.messages, wfMsg_unidentified _ _ _ (Or.inl rfl), codeParse]
        | json j =>
          simp only [serveSSEMessage, Body.json?]
          cases hb : decodeBase j with
          | none => simp [Reaction.http, Reaction.messages, wfMsg_unidentified _ _ _ (Or.inl rfl), codeParse]
          | some b =>
            simp only []
            by_cases h1 : (b.id.isSome && !b.method.isEmpty) = true
            · simp only [h1, if_true]
              cases hreq : decodeRequest j with
              | none => simp [Reaction.http, Reaction.messages]
              | some req =>
                simp only []
                cases hd : dispatch reg req with
                | panic => simp [Reaction.messages]
                | ok a =>
                  simp only [Reaction.messages, Option.toList, List.nil_append]
                  have hag := decode_agree j b req hb hreq
                  have hsome : b.id.isSome = true := by simp_all
                  rcases decodeRequest_fields j req hreq with ⟨_, hn⟩ | ⟨o, rfl, hf, hm⟩
                  · rw [hag.1] at hn; simp [hn] at hsome
                  · exact ansMsg_wf o req a hf hm (fun r hr => dispatch_result_wf reg hc req r (hr ▸ hd))
            · simp only [h1, Bool.false_eq_true, if_false]
              by_cases h2 : (!b.method.isEmpty) = true
              · simp [h2, Reaction.http, Reaction.messages]
              · simp only [h2, Bool.false_eq_true, if_false]
                by_cases h3 : b.id.isSome = true
                · simp [h3, Reaction.http, Reaction.messages]
                · simp [h3, Reaction.http, Reaction.messages, wfMsg_unidentified _ _ _ (Or.inr rfl), codeInvalidRequest]
    · simp [hv, Reaction.http, Reaction.messages]

theorem wf_serveStdio (reg : Registry) (b : Body) (hc : reg.Conforming) :
    ∀ m ∈ (serveStdio reg b).messages, wfMsg b.json? m = true := by
  unfold serveStdio
  cases b with
  | parseFail => simp [Reaction.messages, wfMsg_unidentified _ _ _ (Or.inl rfl), codeParse]
  | json j =>
    simp only [Body.json?]
    cases hcl : classifyStdio j with
    | none => simp [Reaction.messages, wfMsg_unidentified _ _ _ (Or.inr rfl), codeInvalidRequest]
    | some ty =>
      cases ty with
      | request =>
        simp only []
        cases hreq : decodeRequest j with
        | none => simp [Reaction.messages, wfMsg_unidentified _ _ _ (Or.inl rfl), codeParse]
        | some req =>
          simp only []
          cases hd : dispatchStdio reg req with
          | panic => simp [Reaction.messages]
          | ok a =>
            simp only [Reaction.messages, Option.toList, List.nil_append]
            rcases decodeRequest_fields j req hreq with ⟨hj, _⟩ | ⟨o, rfl, hf, hm⟩
            · subst hj; simp [classifyStdio] at hcl
            · exact ansMsg_wf o req a hf hm (fun r hr => dispatchStdio_result_wf reg hc req r (hr ▸ hd))
      | response => simp [Reaction.nothing, Reaction.messages]
      | error => simp [Reaction.nothing, Reaction.messages]
      | notification => simp [Reaction.nothing, Reaction.messages]

/-! ## fault classes and their codes -/

theorem errorCode_http (s : Nat) (id : Json) (c : Int) (msg : Text) :
    (Reaction.http s (some (errMsg (some id) c msg))).errorCode = some c := by
  simp [Reaction.errorCode, Reaction.outcome, Reaction.messages, Reaction.http, normMsg, errMsg, lookup, jsonrpcField]

theorem errorCode_frames (s : Option Nat) (id : Json) (c : Int) (msg : Text) :
    (Reaction.resp ⟨s, none, [errMsg (some id) c msg]⟩).errorCode = some c := by
  simp [Reaction.errorCode, Reaction.outcome, Reaction.messages, normMsg, errMsg, lookup, jsonrpcField]

theorem dispatch_unknown (reg : Registry) (req : Req) (h : req.method ∉ tableMethods) :
    dispatch reg req = .ok (.error codeMethodNotFound t!"method not found") := by
  simp [tableMethods] at h
  simp [dispatch, h]

theorem dispatchStdio_unknown (reg : Registry) (req : Req) (h : req.method ∉ stdioMethods) :
    dispatchStdio reg req = .ok (.error codeMethodNotFound t!"Method not found") := by
  simp [stdioMethods] at h
  simp [dispatchStdio, h]

theorem handleCallTool_bad (reg : Registry) (req : Req) (h : badParams reg t!"tools/call" req.params = true) :
    (handleCallTool reg req).code? = some codeInvalidParams := by
  unfold badParams at h
  cases hp : req.params with
  | none => simp [handleCallTool, hp, Ans.code?]
  | some p =>
    cases hm : asObj? p with
    | none => simp [handleCallTool, hp, hm, Ans.code?]
    | some m =>
      simp [hp, hm] at h
      cases hn : lookupStr? m t!"name" with
      | none => simp [handleCallTool, hp, hm, hn, Ans.code?]
      | some n =>
        simp [hn] at h
        by_cases he : n = []
        · simp [handleCallTool, hp, hm, hn, he, Ans.code?]
        · simp [he] at h
          obtain ⟨hf, ha⟩ := h
          obtain ⟨tool, ht⟩ := Option.isSome_iff_exists.mp hf
          have : ∃ msg, toolArguments m = .error (.error codeInvalidParams msg) := by
            unfold argumentsOk at ha
            unfold toolArguments
            split at ha <;> simp at ha
            rename_i v h1 h2 h3
            cases v <;> simp_all
          obtain ⟨msg, hta⟩ := this
          simp [handleCallTool, hp, hm, hn, he, ht, hta, Ans.code?]

theorem handleGetPrompt_bad (reg : Registry) (req : Req) (h : badParams reg t!"prompts/get" req.params = true) :
    (handleGetPrompt reg req).code? = some codeInvalidParams := by
  unfold badParams at h
  cases hm : req.params.bind asObj? with
  | none => simp [handleGetPrompt, hm, Ans.code?]
  | some m =>
    simp [hm] at h
    simp [handleGetPrompt, hm, h, Ans.code?]

theorem handleReadResource_bad (reg : Registry) (req : Req) (h : badParams reg t!"resources/read" req.params = true) :
    (handleReadResource reg req).code? = some codeInvalidParams := by
  unfold badParams at h
  cases hm : req.params.bind asObj? with
  | none => simp [handleReadResource, hm, Ans.code?]
  | some m =>
    simp [hm] at h
    simp [handleReadResource, hm, h, Ans.code?]

theorem handleInitialize_bad (reg : Registry) (req : Req) (h : badParams reg t!"initialize" req.params = true) :
    (handleInitialize reg req).ans?.bind Ans.code? = some codeInvalidParams := by
  unfold badParams at h
  cases hp : req.params with
  | none => simp [handleInitialize, checkInitializeParams, hp, Ans.code?, Outcome.ans?]
  | some p =>
    cases hm : asObj? p with
    | none => simp [handleInitialize, checkInitializeParams, hp, hm, Ans.code?, Outcome.ans?]
    | some m =>
      simp [hp, hm] at h
      simp [handleInitialize, checkInitializeParams, hp, hm, h, Ans.code?, Outcome.ans?]

/-- missing / wrongly shaped REQUIRED parameters are answered with −32602, by the table and by the switch -/
theorem dispatch_bad_params (reg : Registry) (req : Req) (h : badParams reg req.method req.params = true) :
    (dispatch reg req).ans?.bind Ans.code? = some codeInvalidParams ∧
    (dispatchStdio reg req).ans?.bind Ans.code? = some codeInvalidParams := by
  have hm : req.method = t!"initialize" ∨ req.method = t!"tools/call" ∨ req.method = t!"prompts/get" ∨ req.method = t!"resources/read" := by
    unfold badParams at h
    split at h
    · simp at h; rcases h with ((h | h) | h) | h <;> simp [h]
    · by_cases h1 : req.method = t!"initialize"; · exact Or.inl h1
      by_cases h2 : req.method = t!"tools/call"; · exact Or.inr (Or.inl h2)
      by_cases h3 : req.method = t!"prompts/get"; · exact Or.inr (Or.inr (Or.inl h3))
      by_cases h4 : req.method = t!"resources/read"; · exact Or.inr (Or.inr (Or.inr h4))
      simp [h1, h2, h3, h4] at h
  rcases hm with hm | hm | hm | hm
  · rw [hm] at h; have e := handleInitialize_bad reg req h
    exact ⟨by simpa [dispatch, hm] using e, by simpa [dispatchStdio, hm] using e⟩
  · rw [hm] at h; have e := handleCallTool_bad reg req h
    exact ⟨by simpa [dispatch, hm, Outcome.ans?] using e, by simpa [dispatchStdio, hm, Outcome.ans?] using e⟩
  · rw [hm] at h; have e := handleGetPrompt_bad reg req h
    exact ⟨by simpa [dispatch, hm, Outcome.ans?] using e, by simpa [dispatchStdio, hm, Outcome.ans?] using e⟩
  · rw [hm] at h; have e := handleReadResource_bad reg req h
    exact ⟨by simpa [dispatch, hm, Outcome.ans?] using e, by simpa [dispatchStdio, hm, Outcome.ans?] using e⟩
theorem contains_self (s : Text) : Mcp.Str.contains s s = true := by
  apply contains_of_prefix
  have := hasPrefix_append s []
  simpa using this

theorem contains_suffix (a s : Text) : Mcp.Str.contains (a ++ s) s = true :=
  contains_append_left a s s (contains_self s)

/-- a handler's Go error becomes a −32603 answer whose message contains the handler's text -/
theorem runTool_goErr (tool : ToolEntry) (a : Option Obj) (msg : Text) (h : tool.run a = .goErr msg) :
    (runTool tool a).code? = some codeInternal ∧ ∃ t, (runTool tool a).text? = some t ∧ Mcp.Str.contains t msg = true := by
  unfold runTool
  rw [h]
  refine ⟨rfl, _, rfl, ?_⟩
  unfold serverErrorMessage
  exact contains_suffix _ _

theorem runPrompt_goErr (p : PromptEntry) (a : List (Text × Text)) (msg : Text) (h : p.run a = .goErr msg) :
    (runPrompt p a).code? = some codeInternal ∧ ∃ t, (runPrompt p a).text? = some t ∧ Mcp.Str.contains t msg = true := by
  simp [runPrompt, h, Ans.code?, Ans.text?, contains_self]

theorem runResource_goErr (r : ResEntry) (a : Option Obj) (msg : Text) (h : r.run a = .goErr msg) :
    (runResource r a).code? = some codeInternal ∧ ∃ t, (runResource r a).text? = some t ∧ Mcp.Str.contains t msg = true := by
  simp [runResource, h, Ans.code?, Ans.text?, contains_self]

theorem resolve_ok (c : SCfg) (st : St) (ref : Ref) (m : Text) (hs : sessionOk c st ref m) :
    ∃ st1 sess, resolve c.sess st (m == t!"initialize") ref = .ok (st1, sess) := by
  unfold resolve
  cases hm : c.sess.mode with
  | stateless => simp
  | sessionsOff => simp
  | stateful =>
    rcases hs hm with ⟨s, rfl, hl⟩ | ⟨rfl, rfl⟩
    · simp [hl]
    · simp

/-- What the three servers do with a well-formed envelope (numbers a float64 can hold, non-empty method, accepted
    session): the typed request reaches the dispatcher and its answer is what is emitted. -/
theorem serve_normal_form (reg : Registry) (o mm : Obj) (hwf : wfEnvelope (.obj o) = true) (hrep : goDecodeFields o = some mm)
    (m : Text) (hm : lookup o t!"method" = some (.str m)) (hne : m ≠ [])
    (c : SCfg) (st : St) (ref : Ref) (acc : Bool) (hs : sessionOk c st ref m) :
    ∃ id', (∀ a, dispatch reg ⟨some id', m, paramsOf mm⟩ = .ok a →
        (serveStreamable c reg st (postOf ref acc (.obj o))).2 = .http 200 (ansMsg (some id') a) ∧
        serveSSE reg (ssePostOf (.obj o)) = .resp ⟨some 202, none, (ansMsg (some id') a).toList⟩) ∧
      (∀ a, dispatchStdio reg ⟨some id', m, paramsOf mm⟩ = .ok a →
        serveStdio reg (.json (.obj o)) = .resp ⟨none, none, (ansMsg (some id') a).toList⟩) := by
  obtain ⟨id, id', m', hid, _, hid', hm', hreq, hbase, hcls⟩ := decode_wfEnvelope o mm hwf hrep
  have : m' = m := by rw [hm] at hm'; simpa using hm'.symm
  subst this
  have hne' : m'.isEmpty = false := by cases m' <;> simp_all
  obtain ⟨st1, sess, hres⟩ := resolve_ok c st ref m' hs
  refine ⟨id', ?_, ?_⟩
  · intro a ha
    constructor
    · simp only [postOf, serveStreamable, servePost, hbase, hreq, hne', ha]
      simp [hres]
    · simp only [ssePostOf, serveSSE, serveSSEMessage, hbase, hreq, hne', ha]
      simp
  · intro a ha
    simp [serveStdio, hcls, hreq, ha]

/-! ## malformed input is answered -/

theorem resolve_error (c : Cfg) (st : St) (isInit : Bool) (ref : Ref) (s : Nat) (h : resolve c st isInit ref = .error s) :
    400 ≤ s := by
  unfold resolve at h
  cases hm : c.mode <;> cases ref <;> simp_all <;> (repeat' (split at h <;> simp_all)) <;> omega

theorem answered_streamable (c : SCfg) (reg : Registry) (st : St) (ref : Ref) (acc : Bool) (b : Body)
    (h : Malformed b) : (serveStreamable c reg st ⟨.post, true, ref, acc, b⟩).2.answeredWithError = true := by
  cases h with
  | unparsable => simp [serveStreamable, Reaction.http, Reaction.answeredWithError]
  | undecodable j hj => simp [serveStreamable, servePost, hj, Reaction.http, Reaction.answeredWithError]
  | empty j bb hj hid hm =>
    simp only [serveStreamable, servePost, hj, hid, hm]
    cases hr : resolve c.sess st (none.isSome && ([] : Text) == t!"initialize") ref with
    | error s =>
      have := resolve_error _ _ _ _ _ hr
      simp [Reaction.http, Reaction.answeredWithError, this]
    | ok p => simp [Reaction.http, Reaction.answeredWithError]

theorem answered_sse (reg : Registry) (verb : Verb) (ref : SseRef) (b : Body) (h : Malformed b) :
    (serveSSE reg ⟨verb, .message, ref, b⟩).answeredWithError = true := by
  unfold serveSSE
  by_cases hv : verb = .post
  · subst hv
    cases ref <;> simp [Reaction.http, Reaction.answeredWithError]
    cases h with
    | unparsable => simp [serveSSEMessage, Reaction.http, errMsg, isErrorMsg, hasKey, lookup, jsonrpcField]
    | undecodable j hj => simp [serveSSEMessage, hj, Reaction.http, errMsg, isErrorMsg, hasKey, lookup, jsonrpcField]
    | empty j bb hj hid hm =>
      simp [serveSSEMessage, hj, hid, hm, Reaction.http, errMsg, isErrorMsg, hasKey, lookup, jsonrpcField]
  · simp [hv, Reaction.http, Reaction.answeredWithError]

theorem answered_stdio (reg : Registry) (j : Json) (hc : classifyStdio j = some .request)
    (hd : decodeRequest j = none) : (serveStdio reg (.json j)).answeredWithError = true := by
  simp [serveStdio, hc, hd, Reaction.answeredWithError, errMsg, isErrorMsg, hasKey, lookup, jsonrpcField]

/-- an id with neither method nor result nor error is refused by the Streamable server (400, or the session refusal) -/
theorem id_only_refused (c : SCfg) (reg : Registry) (st : St) (ref : Ref) (j : Json) (b : Base)
    (hb : decodeBase j = some b) (hid : b.id.isSome = true) (hm : b.method = [])
    (hr : decodeResponse j = some (false, false)) :
    (servePost c reg st ref j).2.answeredWithError = true := by
  simp only [servePost, hb, hid, hm]
  cases hres : resolve c.sess st (true && ([] : Text) == t!"initialize") ref with
  | error s =>
    have := resolve_error _ _ _ _ _ hres
    simp [Reaction.http, Reaction.answeredWithError, this]
  | ok p =>
    obtain ⟨st1, sess⟩ := p
    simp [hr, Reaction.http, Reaction.answeredWithError, postBody]
    cases sess <;> simp
theorem answered_stdio_malformed (reg : Registry) (b : Body) (h : MalformedLine b) :
    (serveStdio reg b).answeredWithError = true := by
  cases h with
  | unparsable => simp [serveStdio, Reaction.answeredWithError, errMsg, isErrorMsg, hasKey, lookup, jsonrpcField]
  | invalid j hj => simp [serveStdio, hj, Reaction.answeredWithError, errMsg, isErrorMsg, hasKey, lookup, jsonrpcField]

theorem ansMsg_isSome (id : Option Json) (a : Ans) : (ansMsg id a).isSome = true := by
  cases a <;> rfl

/-! ## concrete instances (non-vacuity examples and counterexamples of the property files) -/

def objectSchema : Json := .obj [(t!"type", .str t!"object")]

/-- a tool that returns its arguments as structured content -/
def demoEcho : ToolEntry :=
  ⟨⟨t!"echo", t!"echoes", some objectSchema, none, none⟩,
   fun a => .result ⟨[], some [.text t!"ok" none], some (match a with | none => .null | some o => .obj o), false⟩⟩

def demoBoom : ToolEntry := ⟨⟨t!"boom", [], some objectSchema, none, none⟩, fun _ => .goErr t!"kaboom"⟩
def demoChan : ToolEntry := ⟨⟨t!"chan", [], some objectSchema, none, none⟩, fun _ => .unencodable t!"json: unsupported type: chan int"⟩
def demoNil : ToolEntry := ⟨⟨t!"nilcontent", [], some objectSchema, none, none⟩, fun _ => .result ⟨[], none, none, false⟩⟩
def demoEmbedded : ToolEntry :=
  ⟨⟨t!"embedded", [], some objectSchema, none, none⟩,
   fun _ => .result ⟨[], some [.embedded (.text t!"verif://e" [] t!"t") none], none, false⟩⟩

def demoPrompt : PromptEntry :=
  ⟨t!"p", t!"a prompt", [⟨t!"a", [], true⟩], fun _ => .result ⟨[], t!"d", some [⟨t!"user", some (.text t!"q" none)⟩]⟩⟩

def demoResource : ResEntry :=
  ⟨t!"r", t!"verif://r", [], t!"text/plain", 0, fun _ => .contents (some [.text t!"verif://r" t!"text/plain" t!"hello"])⟩

def demoReg : Registry :=
  { name := t!"srv", version := t!"1", tools := [demoEcho, demoBoom, demoChan, demoNil, demoEmbedded], prompts := [demoPrompt],
    resources := [demoResource] }

/-- a request envelope -/
def demoEnv (id : Json) (method : Text) (params : Option Json) : Json :=
  .obj ([(t!"jsonrpc", .str t!"2.0"), (t!"id", id), (t!"method", .str method)]
    ++ (match params with | some p => [(t!"params", p)] | none => []))

def demoCfg (mode : Mcp.Session.Mode) (postSSE : Bool := false) : SCfg := ⟨⟨mode, true, true⟩, postSSE, true⟩

/-- one live session (id 0) that completed its handshake -/
def demoSt : Mcp.Session.St := { issued := 1, live := [0], lstate := [(0, true), (0, false)], streams := [] }

def callParams (tool : Text) : Json := .obj [(t!"name", .str tool), (t!"arguments", .obj [(t!"x", .int 1)])]

end Mcp.Rpc
