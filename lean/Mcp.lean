import Mcp.Model.Str
import Mcp.Model.Retry
import Mcp.Gen.Consts
