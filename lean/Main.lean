/-
  Model driver: one JSON op per input line, one JSON outcome per output line.
  `{"c":"<component>.<op>", ...}`. Runs the very definitions the theorems in `Mcp/Props` are about.
-/
import Mcp.Drv.Util
import Mcp.Drv.Retry
import Mcp.Drv.Session
open Lean

def dispatch (j : Json) : Except String Json := do
  let c ← Mcp.Drv.getStr j "c"
  match c.splitOn "." with
  | ["retry", op] => Mcp.Drv.Retry.handle op j
  | ["session", op] => Mcp.Drv.Session.handle op j
  | _ => throw s!"unknown component {c}"

partial def loop (hin : IO.FS.Stream) (hout : IO.FS.Stream) : IO Unit := do
  let line ← hin.getLine
  if line.isEmpty then return ()
  let line := line.trimAscii.toString
  if line.isEmpty then loop hin hout else
  let out := match Json.parse line with
    | .error e => Json.mkObj [("model_error", Json.str s!"parse: {e}")]
    | .ok j => match dispatch j with
      | .ok r => r
      | .error e => Json.mkObj [("model_error", Json.str e)]
  hout.putStrLn out.compress
  loop hin hout

def main : IO Unit := do
  let hin ← IO.getStdin
  let hout ← IO.getStdout
  loop hin hout
  hout.flush
