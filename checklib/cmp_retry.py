"""retry: Execute's waits are observed on the real clock (lower bound exact, upper bound within jitter)."""


def compare(op, impl, model, rep):
    if isinstance(model, dict) and "model_error" in model:
        return "model error: " + str(model["model_error"])
    if op.get("c") == "retry.e2e":
        if impl == model:
            return None
        if impl.get("attempts", 0) < model.get("attempts", 0) and str(model.get("result", "")) == "success" and impl.get("result") != "success":
            # the statement names the transient classes (408, 409, 429, 5xx, connection errors): with retries left they are re-attempted
            return "VIOLATES: a transient failure (theorem C17_status_table_*, C17_attempts) was not re-attempted although retries were left: %d attempts, the script allows %d and ends in a success" % (impl.get("attempts", 0), model.get("attempts", 0))
        return "end-to-end attempts/result differ"
    if op.get("c") != "retry.execute":
        return None if impl == model else "outcomes differ"
    if impl["attempts"] != model["attempts"]:
        return "attempts differ"
    if impl["result"] != model["result"]:
        if model["result"] == "ctxErr":
            return "VIOLATES: a cancelled sequence did not end with the context's error (theorem C17_cancel*): the call returned %s, the caller's ctx.Err() was expected" % impl["result"]
        return "result differs"
    waits = model["waits"]
    gaps = impl["waits"]
    if len(gaps) != len(waits):
        return "number of waits differs (model %d, implementation gaps %d)" % (len(waits), len(gaps))
    jitter = (rep.get("extra") or {}).get("jitter_ns", 0)
    slack = max(150_000_000, 4 * jitter)
    for k, (w, g) in enumerate(zip(waits, gaps)):
        if g < w:
            return "VIOLATES: a wait is shorter than InitialBackoff x Factor^(k-1) capped at MaxBackoff (theorem C17_wait_k): wait %d was %d ns, formula gives %d ns" % (k + 1, g, w)
        if g > w + slack:
            if g > w + 20 * slack:
                return "VIOLATES: a wait is much longer than InitialBackoff x Factor^(k-1) capped at MaxBackoff (theorem C17_wait_k): wait %d was %d ns, formula gives %d ns" % (k + 1, g, w)
            return "noise"
    return None
