"""rpcalike (C14): same operations and comparison as component rpc."""
from cmp_rpc import compare  # noqa: F401
