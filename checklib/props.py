"""Property table: Lean modules holding the property theorems, harness components tied to them."""

COMPONENT_TIMEOUT = {"quick": 900, "thorough": 3000}

TRUSTED_BASE = [
    "Lean 4.33.0 kernel (thorough tier: re-checked with leanchecker); axioms allowed: propext, Classical.choice, Quot.sound (audited with #print axioms on every run; no native_decide / bv_decide / sorry)",
    "translator /verif/extract (go/ast fact extractor, regenerates lean/Mcp/Gen/*.lean from /repo on every run)",
    "correspondence harness /verif/harness (drives the real code built with -tags verif) + comparators in /verif/checklib/compare.py + Lean driver I/O (Lean.Data.Json)",
    "modelled, not verified: encoding/json, net/http, bufio, fmt %v, time, Go scheduler and memory model, crypto/rand, kin-openapi",
]

NOT_YET = {}

PROPS = {
    "C04": {
        "modules": ["Mcp.Props.C04"],
        "components": ["session"],
        "technique": "Lean 4 theorems (table invariant by induction over histories, refinement of the live set to 'issued minus deleted', per-step refusal lemmas, hex injectivity) over a state-machine model of handlePost/handleGet/handleDelete; id-generator facts regenerated from source; differential run of enumerated and random HTTP histories against the model",
        "level_text": "Proof: for every finite history over {initialize, request, notification, response-post, GET, stream-close, DELETE} x {no id, live, deleted, never-issued id} in stateful / stateless / session-disabled configurations the model's session table satisfies: ids issued only by initialize-without-id, fresh, bound until deleted, 400 for a missing id, 404 (and no state change) for unknown ids, DELETE ends session and stream, stateless never issues/needs an id and answers independently of history, and the reported live set equals issued-minus-deleted (refinement theorem). The model is tied to the code by running the same histories against the real handler (httptest) and diffing status, id header, closed streams and GetActiveSessions after every step, and by regenerated facts about generateSessionID (16 bytes, crypto/rand, hex).",
        "level_note": "Clock-free: the 1 h expiry sweep is outside the model. That two 128-bit draws differ is a cryptographic assumption. Trusts the Lean kernel, the extractor, the harness.",
        "assumptions": ["time-based session expiry is not modelled (histories run far below one hour)", "uniqueness of random ids is a cryptographic assumption; proved: injective visible-ASCII rendering of >=128 bits from crypto/rand"],
    },
    "C17": {
        "modules": ["Mcp.Props.C17"],
        "components": ["retry"],
        "technique": "Lean 4 theorems (induction on the attempt loop, clamp algebra, kernel-evaluated status table) over a model of internal/retry; limits regenerated from source; differential run of Validate/IsRetryableError/Execute against the model",
        "level_text": "Proof: attempts <= MaxRetries+1, retry only after a transient failure, stop at first success, k-th wait formula with cap, cancellation, clamp range and idempotence are Lean theorems for every configuration, script and cancellation instant; the 4xx classification is a complete kernel-evaluated table over the transports' real error texts. The model is tied to the code by regenerated constants and by running Validate, IsRetryableError and Execute on a boundary grid / outcome scripts and diffing with the model.",
        "level_note": "Trusts the Lean kernel, the extractor and the differential harness; float64 arithmetic modelled over rationals (dyadic grid), ToLower ASCII-only, waits observed on the real clock (lower bound exact).",
        "assumptions": [
            "float64 arithmetic of the wait computation is modelled over exact rationals with an explicit overflow/NaN case; the differential grid uses dyadic factors for which both agree exactly",
            "strings.ToLower is modelled on ASCII only",
            "waits are observed on the real clock: lower bound exact (a timer never fires early), upper bound within measured scheduler jitter",
        ],
    },
}
