"""Property table: Lean modules holding the property theorems, harness components tied to them."""

COMPONENT_TIMEOUT = {"quick": 900, "thorough": 3000}

TRUSTED_BASE = [
    "Lean 4.33.0 kernel (thorough tier: re-checked with leanchecker); axioms allowed: propext, Classical.choice, Quot.sound (audited with #print axioms on every run; no native_decide / bv_decide / sorry)",
    "translator /verif/extract (go/ast fact extractor, regenerates lean/Mcp/Gen/*.lean from /repo on every run)",
    "correspondence harness /verif/harness (drives the real code built with -tags verif) + comparators in /verif/checklib/compare.py + Lean driver I/O (Lean.Data.Json)",
    "modelled, not verified: encoding/json, net/http, bufio, fmt %v, time, Go scheduler and memory model, crypto/rand, kin-openapi",
]

NOT_YET = {}

PROPS = {
    "C17": {
        "modules": ["Mcp.Props.C17"],
        "components": ["retry"],
        "technique": "Lean 4 theorems (induction on the attempt loop, clamp algebra, kernel-evaluated status table) over a model of internal/retry; limits regenerated from source; differential run of Validate/IsRetryableError/Execute against the model",
        "level_text": "Proof: attempts <= MaxRetries+1, retry only after a transient failure, stop at first success, k-th wait formula with cap, cancellation, clamp range and idempotence are Lean theorems for every configuration, script and cancellation instant; the 4xx classification is a complete kernel-evaluated table over the transports' real error texts. The model is tied to the code by regenerated constants and by running Validate, IsRetryableError and Execute on a boundary grid / outcome scripts and diffing with the model.",
        "level_note": "Trusts the Lean kernel, the extractor and the differential harness; float64 arithmetic modelled over rationals (dyadic grid), ToLower ASCII-only, waits observed on the real clock (lower bound exact).",
        "assumptions": [
            "float64 arithmetic of the wait computation is modelled over exact rationals with an explicit overflow/NaN case; the differential grid uses dyadic factors for which both agree exactly",
            "strings.ToLower is modelled on ASCII only",
            "waits are observed on the real clock: lower bound exact (a timer never fires early), upper bound within measured scheduler jitter",
        ],
    },
}
