"""Property table: Lean modules holding the property theorems, harness components tied to them."""

COMPONENT_TIMEOUT = {"quick": 600, "thorough": 3000}

TRUSTED_BASE = [
    "Lean 4.33.0 kernel (thorough tier: re-checked with leanchecker); axioms allowed: propext, Classical.choice, Quot.sound (audited with #print axioms on every run; no native_decide / bv_decide / sorry)",
    "translator /verif/extract (go/ast fact extractor, regenerates lean/Mcp/Gen/*.lean from /repo on every run)",
    "correspondence harness /verif/harness (drives the real code built with -tags verif) + comparators in /verif/checklib/compare.py + Lean driver I/O (Lean.Data.Json)",
    "modelled, not verified: encoding/json, net/http, bufio, fmt %v, time, Go scheduler and memory model, crypto/rand, kin-openapi",
]

NOT_YET = {}

# One JSON file per property in checklib/props.d/<id>.json:
#   modules      Lean modules that hold the property theorems (Mcp.Props.<id>[...])
#   namespace    (optional) Lean namespace of the theorems, default Mcp.Props.<id>
#   components   harness components to run and diff against the Lean driver
#   technique / level_text / level_note / assumptions   texts for MANIFEST.json and the evidence
import os, json
PROPS = {}
_d = os.path.join(os.path.dirname(os.path.abspath(__file__)), "props.d")
for _f in sorted(os.listdir(_d)):
    if _f.endswith(".json"):
        PROPS[_f[:-5]] = json.load(open(os.path.join(_d, _f)))
