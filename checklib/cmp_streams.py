"""streams: a frame written to a stream the client already dropped may also surface as a failed send (broken pipe)."""


def compare(op, impl, model, rep):
    if isinstance(model, dict) and "model_error" in model:
        return "model error: " + str(model["model_error"])
    io, mo = impl.get("outs", []), model.get("outs", [])
    if len(io) != len(mo):
        return "number of events differs (schedule not enabled in the model?)"
    for a, b in zip(io, mo):
        if a == b:
            continue
        if b == {"delivered": "to-closed"} and a in ({"failed": True}, {"delivered": "to-closed"}):
            continue
        if b == {"crashed": True} or a == {"crashed": True}:
            if a == b:
                continue
            return "VIOLATES: a send wrote to a response whose handler had returned (theorem C11_no_write_after_return): implementation %r, model %r" % (a, b)
        return "outcome of an event differs: implementation %r, model %r" % (a, b)
    return None
