"""schema: JSON equality; for the $defs style the keys of anonymous struct types are run-time addresses (`Type0x…`, one per
type) on the implementation side and first-visit numbers on the model side: both documents are renamed canonically
(numbered in the order a walk from the root meets them: properties in sorted order, then items, additionalProperties,
anyOf / allOf / oneOf; a definition is entered when its first reference is met) and then compared exactly. Keys of any
other form (named types, and whatever a changed generator invents) are compared literally."""
import re

_ANON = re.compile(r"^Type0x[0-9a-fA-F]+$")
_PREFIX = "#/$defs/"


def _canon(doc):
    if not isinstance(doc, dict):
        return doc
    defs = doc.get("$defs")
    if not isinstance(defs, dict):
        return doc
    order, entered = {}, set()

    def visit(node):
        if isinstance(node, list):
            for x in node:
                visit(x)
            return
        if not isinstance(node, dict):
            return
        ref = node.get("$ref")
        if isinstance(ref, str) and ref.startswith(_PREFIX):
            k = ref[len(_PREFIX):]
            if k in defs and k not in entered:
                entered.add(k)
                if _ANON.match(k):
                    order[k] = len(order)
                visit(defs[k])
        props = node.get("properties")
        if isinstance(props, dict):
            for n in sorted(props):
                visit(props[n])
        for kw in ("items", "additionalProperties"):
            visit(node.get(kw))
        for kw in ("anyOf", "allOf", "oneOf"):
            visit(node.get(kw))

    visit({k: v for k, v in doc.items() if k != "$defs"})
    # definitions no reference leads to keep their place in the numbering after the reachable ones (sorted by content)
    rest = sorted((k for k in defs if _ANON.match(k) and k not in order), key=lambda k: repr(defs[k]))
    for k in rest:
        order[k] = len(order)

    def name(k):
        return "anon#%d" % order[k] if k in order else k

    def rename(node, schema_pos=True):
        if isinstance(node, list):
            return [rename(x) for x in node]
        if not isinstance(node, dict):
            return node
        out = {}
        for k, v in node.items():
            if k == "$ref" and isinstance(v, str) and v.startswith(_PREFIX):
                out[k] = _PREFIX + name(v[len(_PREFIX):])
            elif k in ("properties",) and isinstance(v, dict):
                out[k] = {n: rename(s) for n, s in v.items()}
            elif k == "$defs" and isinstance(v, dict):
                out[k] = {name(n): rename(s) for n, s in v.items()}
            elif k in ("items", "additionalProperties", "anyOf", "allOf", "oneOf"):
                out[k] = rename(v)
            else:
                out[k] = v
        return out

    return rename(doc)


def compare(op, impl, model, rep):
    if isinstance(model, dict) and "model_error" in model:
        return "model error: " + str(model["model_error"])
    if op.get("c") == "schema.gen" and op.get("style") == "defs" and isinstance(impl, dict) and isinstance(model, dict):
        if _canon(impl.get("schema")) != _canon(model.get("schema")):
            return "outcomes differ (after canonical renaming of the anonymous struct types' $defs keys)"
        return None
    if impl != model:
        return "outcomes differ"
    return None
