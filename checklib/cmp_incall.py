"""incall: JSON equality; the model outcome of a call on a server-made stream (incall.call) is pinned by the C10
theorems, so a disagreement there is itself a failing input of the property."""


def _first_diff(impl, model):
    it, mt = impl.get("trace"), model.get("trace")
    if not isinstance(it, list) or not isinstance(mt, list):
        return "shape"
    ih = [e for e in it if "h" in e]
    mh = [e for e in mt if "h" in e]
    if it[-1:] != mt[-1:] and ih == mh:
        return "result"
    if len(ih) < len(mh):
        return "fewer-handled"
    if len(ih) > len(mh):
        return "more-handled"
    if sorted(map(repr, ih)) == sorted(map(repr, mh)):
        return "order"
    return "content"


def compare(op, impl, model, rep):
    if isinstance(model, dict) and "model_error" in model:
        return "model error: " + str(model["model_error"])
    if impl == model:
        return None
    c = op.get("c")
    if c == "incall.call":
        what = {"result": "the call's return differs from the handler's answer (theorem C10_result_intact)",
                "fewer-handled": "fewer handler invocations than emitted notifications of registered methods (theorem C10_order_once)",
                "more-handled": "more handler invocations than emitted notifications of registered methods (theorems C10_order_once, C10_dropped_harmless)",
                "order": "handler invocations out of emission order (theorem C10_order_once)",
                "content": "a handler saw method / Meta / fields other than the model of marshal-unmarshal gives (theorems C10_order_once, C10_custom_delivery)",
                "shape": "trace shape"}[_first_diff(impl, model)]
        return "VIOLATES: " + what
    if c == "incall.hcall":
        it, mt = impl.get("trace", []), model.get("trace", [])
        strip = lambda t: [{k: v for k, v in e.items() if k != "by"} for e in t]
        if strip(it) == strip(mt):
            return ("VIOLATES: after a registration history a notification was handled by another handler instance than the one of the "
                    "last Register for its method (theorems C10_last_registration_wins, C10_history_dispatch)")
        return "VIOLATES: call after a registration history: " + _first_diff({"trace": strip(it)}, {"trace": strip(mt)}) + " (theorem C10_history_dispatch)"
    if c == "incall.read":
        return "client read loop differs from the model on a scripted stream (" + _first_diff(impl, model) + ")"
    if c == "incall.ids":
        return "event ids on the stream differ from the ids the writer objects of the model generate for the observed clock readings"
    if c == "incall.frames":
        return "frames on the wire differ from the model's serverFrames"
    return "outcomes differ"
