"""rpcclients: what a client API returned vs the Lean model of the client's answer extraction.
Typed integer positions ("sizes": Resource.Size, an int64 printed digit by digit) are compared EXACTLY; the untyped positions
("structured", "meta": float64 values printed by Go with the shortest digits that identify them — 2^63 is printed as
9223372036854776000) are compared as float64 values."""


def _f(v):
    if isinstance(v, bool) or v is None or isinstance(v, str):
        return v
    if isinstance(v, (int, float)):
        try:
            return float(v)
        except OverflowError:
            return repr(v)
    if isinstance(v, list):
        return [_f(x) for x in v]
    if isinstance(v, dict):
        return {k: _f(x) for k, x in v.items()}
    return v


def compare(op, impl, model, rep):
    if isinstance(model, dict) and "model_error" in model:
        return "model error: " + str(model["model_error"])
    if not isinstance(impl, dict) or not isinstance(model, dict):
        return None if impl == model else "outcomes differ"
    if impl.get("kind") != model.get("kind"):
        return "the client returned %r, the model %r" % (impl.get("kind"), model.get("kind"))
    for k in sorted(set(impl) | set(model)):
        a, b = impl.get(k), model.get(k)
        if k == "sizes":
            if a != b or [type(x) for x in a or []] != [type(x) for x in b or []]:
                return "VIOLATES: a typed integer field differs from the number every transport hands to the decoder (the float64 nearest to the literal on the wire): client %r, model %r" % (a, b)
        elif _f(a) != _f(b):
            return "%s differs" % k
    return None
