"""routing (C05): returns of every API call, frame census per session and kind, pending table size."""


def compare(op, impl, model, rep):
    if isinstance(model, dict) and "model_error" in model:
        return "model error: " + str(model["model_error"])
    ri, rm = impl.get("rets", []), model.get("rets", [])
    if len(ri) != len(rm):
        return "number of returns differs"
    ops = op.get("ops", [])
    for k, (a, b) in enumerate(zip(ri, rm)):
        if a == b:
            continue
        t = ops[k].get("t") if k < len(ops) else "?"
        if t in ("broadcast", "filtered") and a.split(":")[0] == b.split(":")[0]:
            return "VIOLATES: the count returned by a broadcast / filtered send is not the number of selected sessions with an open stream (theorems C05_broadcast_count / C05_filtered_count): op %d %r returned %s, model %s" % (k, ops[k], a, b)
        if t == "settle" and a.startswith("answered:") and b.startswith("answered:"):
            return "VIOLATES: ListRoots returned another answer than the first one accepted for its request (theorem C05_answer_from_addressee and the model's acceptance rule): op %d returned %s, model %s" % (k, a, b)
        return "return value of op %d %r differs: implementation %s, model %s" % (k, ops[k] if k < len(ops) else None, a, b)
    oi, om = impl.get("outbox", {}), model.get("outbox", {})
    if oi != om:
        for sid in sorted(set(oi) | set(om)):
            for kind in ("notif", "req"):
                a = (oi.get(sid) or {}).get(kind, [])
                b = (om.get(sid) or {}).get(kind, [])
                if a != b:
                    extra = [t for t in a if t not in b]
                    if extra:
                        return "VIOLATES: frames seen on the stream of session %s that the model does not write there (theorems C05_isolated / C05_once_in_order): %s frames %r, model %r" % (sid, kind, a, b)
                    return "VIOLATES: frames of session %s missing, repeated or out of order (theorems C05_once_in_order / C05_send_delivered_iff_ok): %s frames %r, model %r" % (sid, kind, a, b)
    if impl.get("pending") != model.get("pending"):
        return "VIOLATES: entries left in the pending table after every request returned (theorem C05_nothing_left): %r vs model %r" % (impl.get("pending"), model.get("pending"))
    return None
