"""readers (C07): model vs implementation, per reader.

The model predicts, per case: the outcome of every call (result marker / rpc error / transport failure / pending), the
delivered notifications, the answers to server requests, whether the reader is still alive afterwards (does the NEXT
well-formed call complete) and, for stdio, whether the read loop spins.  Process liveness is compared too: a crashed
worker must coincide with a model `panic`.  Nothing here is timing dependent except the classification "pending"
(a call not answered when the NEXT call had completed plus a 300 ms grace) — a disagreement that consists only of
pending-vs-answered in the implementation's favour... is still reported: the grace is generous.
"""


def _panic(model):
    return model.get("init") == "panic" or model.get("halt") == "panic"


def compare(op, impl, model, rep):
    if isinstance(model, dict) and "model_error" in model:
        return "model error: " + str(model["model_error"])
    c = op.get("c")
    if impl.get("harnessErr"):
        return "the harness could not run the case: " + str(impl["harnessErr"])
    if impl.get("hung"):
        return "VIOLATES: C07_total / C07_close_ok: the case never finished (a call ignores its context or Close hangs)"
    if impl.get("crash"):
        if _panic(model):
            return None
        return "VIOLATES: C07_total (no server output crashes the client): the process died, the model predicts no panic here: " + str(impl.get("stderr", ""))[:120]
    if _panic(model):
        return "the model predicts a process crash, the implementation survived"
    if c == "readers.stdio":
        keys = ["calls", "notes", "answers", "spin", "spinAfterClose"]
        if op.get("handlerKind") == "reentrant":
            keys += ["re"]   # the calls the handlers made on their own client
        if op.get("badInits"):
            keys += ["inits", "init"]   # handshake histories: the attempts answered with bad content, then the retry
        if not op.get("exit"):
            keys += ["halt", "next"]   # once the peer has exited a later call cannot be answered: not a reader property
        m = dict(model)
        m["notes"] = sorted(m.get("notes", []))   # stdio runs each handler in its own goroutine: order is not defined
        for k in keys:
            if impl.get(k) != m.get(k):
                if k in ("halt", "next") and m.get("halt") is None and impl.get("halt") is not None:
                    return "VIOLATES: C07_later_call_stdio: the model's reader is alive after this output, the real one no longer answers: %s impl=%s" % (k, impl.get(k))
                return "%s differs: impl=%s model=%s" % (k, impl.get(k), m.get(k))
        return None
    if c == "readers.legacy" and model.get("init") == "noEndpoint":
        return None if impl.get("init") == "noEndpoint" else "init differs: impl=%s model=noEndpoint" % (impl.get("init"),)
    for k in sorted(set(impl) | set(model)):
        if impl.get(k) != model.get(k):
            if k in ("halt", "next") and model.get("halt") is None and impl.get("halt") is not None:
                return "VIOLATES: C07_later_frames: the model's reader is alive after this output, the real one stopped: %s impl=%s" % (k, impl.get(k))
            return "%s differs: impl=%s model=%s" % (k, impl.get(k), model.get(k))
    return None
