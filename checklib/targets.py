#!/usr/bin/env python3
"""Prints the lake targets (Props modules and driver exes) and harness components of all claimed properties."""
import os, sys, json
d = os.path.join(os.path.dirname(os.path.abspath(__file__)), "props.d")
mods, comps = [], []
for f in sorted(os.listdir(d)):
    if f.endswith(".json"):
        s = json.load(open(os.path.join(d, f)))
        mods += s["modules"]
        comps += s["components"]
comps = sorted(set(comps))
if len(sys.argv) > 1 and sys.argv[1] == "components":
    print(" ".join(comps))
else:
    print(" ".join(sorted(set(mods)) + ["drv_" + c for c in comps]))
