#!/usr/bin/env python3
"""Regenerates /verif/MANIFEST.json from checklib/props.py (single source of truth)."""
import json, os, sys, subprocess
ROOT = os.path.dirname(os.path.dirname(os.path.abspath(__file__)))
sys.path.insert(0, os.path.join(ROOT, "checklib"))
import props as P

all_ids = [json.loads(l)["id"] for l in open(os.path.join(ROOT, "properties.jsonl"))]
# Only properties the lead has integrated (checklib/ready.txt, one id per line) are claimed; slices that are still
# being built are listed under not_applicable with that reason until their check is green and reviewed.
ready = set(l.strip() for l in open(os.path.join(ROOT, "checklib", "ready.txt")) if l.strip() and not l.startswith("#"))
checks = []
for pid in all_ids:
    if pid not in P.PROPS or pid not in ready:
        continue
    s = P.PROPS[pid]
    checks.append({
        "property_id": pid,
        "quick_cmd": "./check %s --tier quick" % pid,
        "thorough_cmd": "./check %s --tier thorough" % pid,
        "evidence_file": "/verif/evidence/%s.json" % pid,
        "replay_cmd_template": "./check %s --replay {path}" % pid,
        "engine": "lean+extract+harness",
        "level_claimed": {"category": "proof", "text": s["level_text"], "design_ref": s.get("design_ref", "DESIGN.md §4 " + pid)},
        "level_note": s["level_note"],
        "technique": s["technique"],
    })
hooks_commits = []
try:
    out = subprocess.run(["git", "-C", "/repo", "log", "--format=%H %s"], stdout=subprocess.PIPE, text=True).stdout
    for l in out.strip().split("\n"):
        h, _, msg = l.partition(" ")
        if msg.startswith("verif:"):
            hooks_commits.append(h)
except Exception:
    pass
m = {
    "version": 1,
    "setup_cmd": "cd /verif && ./setup.sh",
    "hooks": {"guard": "verif",
              "enable": "go build -tags verif (the harness module /verif/harness replaces trpc.group/trpc-go/trpc-mcp-go => /repo and is rebuilt with -tags verif on every check run)",
              "baseline_off_cmd": "cd /repo && GOFLAGS=-mod=mod go test -json -vet=off -count=1 -timeout 25m ./...",
              "source_commits": hooks_commits, "add_only": True},
    "engines": [
        {"name": "lean", "path": "/verif/lean", "serves_properties": [c["property_id"] for c in checks],
         "kind_free_text": "Lean 4 models (Mcp/Model), property theorems (Mcp/Props), regenerated facts (Mcp/Gen), core-only driver exe mcpdrv"},
        {"name": "extract", "path": "/verif/extract", "serves_properties": [c["property_id"] for c in checks],
         "kind_free_text": "go/ast translator: regenerates Mcp/Gen/*.lean from /repo on every run (T-gen tie)"},
        {"name": "harness", "path": "/verif/harness", "serves_properties": [c["property_id"] for c in checks],
         "kind_free_text": "Go correspondence harness driving the real code in-process; differential against the Lean driver (T-diff tie) + implementation-level oracles (search for a failing input)"}],
    "checks": checks,
    "notes": "Machine-checked proof in Lean 4 about executable models; models tied to /repo by regenerated facts and by differential correspondence. See DESIGN.md.",
    "not_applicable": [{"property_id": pid, "reason": ("slice built but not yet integrated and reviewed by the lead (see DESIGN.md Part I §4)" if pid in P.PROPS else
                                                       "no check built yet (see DESIGN.md Part II §4 for the planned model and theorems)")}
                       for pid in all_ids if pid not in P.PROPS or pid not in ready],
}
json.dump(m, open(os.path.join(ROOT, "MANIFEST.json"), "w"), indent=1)
print("MANIFEST.json: %d checks, %d not_applicable" % (len(checks), len(m["not_applicable"])))
