"""rpc / rpcalike / rpcsurvive: reaction of a server vs reaction of the Lean model.
Lists whose order is Go's map iteration order (tools, prompts) are compared as multisets; numbers are compared as float64
values (a server re-prints the float64 it decoded: shortest digits, not the exact value the model computes)."""


def _norm(v, key=None):
    if isinstance(v, bool) or v is None or isinstance(v, str):
        return v
    if isinstance(v, (int, float)):
        try:
            return float(v)
        except OverflowError:
            return repr(v)
    if isinstance(v, list):
        xs = [_norm(x) for x in v]
        if key in ("tools", "prompts"):
            xs.sort(key=lambda x: str(x.get("name")) if isinstance(x, dict) else str(x))
        return xs
    if isinstance(v, dict):
        return {k: _norm(x, k) for k, x in v.items()}
    return v


def compare(op, impl, model, rep):
    if isinstance(model, dict) and "model_error" in model:
        return "model error: " + str(model["model_error"])
    if op.get("c", "").endswith(".wf"):
        if impl != model:
            return "the Go schema oracle and the Lean predicate wfMsg judge a captured message differently"
        return None
    a, b = _norm(impl), _norm(model)
    if a == b:
        return None
    if op.get("c", "").endswith(".accept"):
        if b.get("panic"):
            return "the model's Accept parser panics on this header"
        return "the framing of the answer (SSE stream or JSON body) is not what the model's Accept parser chooses for this header"
    if a.get("panic") != b.get("panic"):
        if a.get("panic"):
            return "VIOLATES: the server panicked on an input for which the model (theorem C06_no_panic) has no panic"
        return "the model panics, the server did not"
    for k in ("status", "body", "frames"):
        if a.get(k) != b.get(k):
            return "%s differs" % k
    return "outcomes differ"
