"""pending (C01): per-call outcomes of recorded runs; where the model's outcome is pinned by a C01 theorem the disagreement is a failing input."""


def compare(op, impl, model, rep):
    if isinstance(model, dict) and "model_error" in model:
        return "model error: " + str(model["model_error"])
    c = op.get("c")
    if c == "pending.run":
        if model.get("disabled") is not None:
            return "the recorded schedule is not enabled in the model (event %s)" % model.get("disabled")
        di, dm = impl.get("done", {}), model.get("done", {})
        for k in sorted(set(di) | set(dm), key=lambda x: (len(x), x)):
            a, b = di.get(k), dm.get(k)
            if a == b:
                continue
            if a is None or b is None:
                return "call %s: implementation %r, model %r" % (k, a, b)
            if a.startswith("answer:") and b.startswith("answer:"):
                return "VIOLATES: a call completed with a frame other than the first one delivered under its own id (theorems C01_own_answer / C01_at_most_once): call %s got %s, the model gives %s" % (k, a, b)
            if a == "error" and b.startswith("answer:"):
                return "VIOLATES: a call got nothing although a frame bearing its id was delivered while it was waiting and the connection was up (theorem C01_delivered_if_connected): call %s" % k
            return "call %s: the implementation accepted a frame the model drops (%s vs %s)" % (k, a, b)
        if impl.get("pending") != model.get("pending"):
            return "calls left pending differ"
        return None
    if c in ("pending.postSse", "pending.postJson"):
        a, b = impl.get("out"), model.get("out")
        if a == b:
            return None
        if a == "error" and str(b).startswith("answer:"):
            return "VIOLATES: a Streamable call got nothing although its own answer was on the POST's response (theorem C01_post_sse_own): %r" % (op,)
        if c == "pending.postSse" and str(a).startswith("answer:"):
            return "VIOLATES: a Streamable call took a frame as its answer that the proved matcher does not accept for it (theorem C01_post_sse_sound): call %r returned %r, the model gives %r for events %r" % (op.get("call"), a, b, op.get("evs"))
        return "outcome of the POST differs: implementation %r, model %r" % (a, b)
    if impl != model:
        if c == "pending.key" and op.get("kind") == "idKey":
            return "VIOLATES: requestIDKey renders an id differently from the proved key function (theorems C01_key_roundtrip / C01_key_no_collision): %s id %r gives %r, the model %r" % (op.get("side"), op.get("id"), impl.get("key"), model.get("key"))
        return "key / id function differs: implementation %r, model %r" % (impl, model)
    return None
